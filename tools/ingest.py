#!/usr/bin/env python3
"""Ingest candidate seeded changes: ingest.py <candidate-dir> ...  (each holds patch.diff, demo_test.go, meta.json).
Assigns the next free id of the candidate's property, confirms it (tools/confirmseed.py), and prints which
checks report it (tools/patchcheck.py). Maintenance tool."""
import json, os, re, subprocess, sys, glob
def nextid(prop):
    ks = [int(m.group(1)) for d in glob.glob(f'/verif/seeded/{prop}-*') + glob.glob(f'/verif/seeded/obsolete/{prop}-*') if (m := re.search(r'-(\d+)$', d))]
    return f'{prop}-{max(ks + [0]) + 1}'
for cand in sys.argv[1:]:
    if not os.path.exists(os.path.join(cand, 'meta.json')): print(cand, 'NO meta.json'); continue
    prop = json.load(open(os.path.join(cand, 'meta.json')))['property']
    aid = nextid(prop)
    r = subprocess.run(['python3', '/verif/tools/confirmseed.py', cand, aid], capture_output=True, text=True)
    print(cand, '->', r.stdout.strip()[:3000], r.stderr[-500:])
    if r.returncode == 0:
        r2 = subprocess.run(['python3', '/verif/tools/patchcheck.py', f'/verif/seeded/{aid}/patch.diff'], capture_output=True, text=True)
        print(r2.stdout[:2500])
    sys.stdout.flush()
