#!/usr/bin/env python3
"""Apply a patch to a scratch copy of /repo HEAD and run every rule once; print what is reported.
usage: patchcheck.py <patch.diff> [...]   (exit 0 always; a maintenance tool, not a registered check)"""
import json, os, subprocess, sys, tempfile, shutil
BV='/verif/bin/bvcheck'
def rules_props():
    out = subprocess.run([BV, '-list'], capture_output=True, text=True).stdout
    m = {}
    for line in out.splitlines():
        parts = line.split()
        if len(parts) >= 2 and parts[1].startswith('C'): m[parts[0]] = parts[1].split(',')
    return m
RP = rules_props()
KNOWN={f['key'] for f in json.load(open('/verif/known-findings.json'))['findings'] if f['status']=='known'}
for patch in sys.argv[1:]:
    sc = tempfile.mkdtemp(prefix='patchcheck-')
    try:
        ar = subprocess.Popen(['git','-C','/repo','archive','HEAD'], stdout=subprocess.PIPE)
        subprocess.run(['tar','-x','-C',sc], stdin=ar.stdout, check=True); ar.wait()
        if subprocess.run(['git','apply',os.path.abspath(patch)], cwd=sc).returncode != 0:
            print(patch, 'PATCH DOES NOT APPLY'); continue
        res = subprocess.run([BV,'-repo',sc,'-rules',','.join(sorted(RP)),'-json'], capture_output=True, text=True)
        try: obs = json.loads(res.stdout)
        except Exception: print(patch, 'CHECKER ERROR', res.stderr[-400:]); continue
        bad = [o for o in obs if o['status'] != 'discharged' and o['key'] not in KNOWN]
        props = sorted({p for o in bad for p in (o.get('reported_props', []) if o.get('two_view') else RP.get(o['rule'], []))})
        bad = [o for o in bad if (not o.get('two_view')) or o.get('reported_props')]
        print(patch, 'SILENT' if not props else 'REPORTED by ' + ' '.join(props))
        seen=set()
        for o in bad:
            k=(o['rule'],o['function'],o['construct'])
            if k in seen: continue
            seen.add(k)
            print('   [%s] %s %s :: %s — %s' % (o['status'], o['pos'], o['function'], o['construct'], o['why'][:220]), '(%s)'%o['rule'])
    finally:
        shutil.rmtree(sc, ignore_errors=True)
