#!/usr/bin/env python3
"""Confirm a candidate seeded change in a scratch worktree of /repo HEAD and, if confirmed, archive it.
usage: confirmseed.py <candidate-dir> <archive-id>      e.g. confirmseed.py /tmp/seed5/C01/1 C01-13
The candidate dir holds patch.diff, demo_test.go, meta.json (property, summary, needs, demo_location, demo_cmd).
Checks: patch applies, go build, unedited suite passes (retried up to 12 times while the only failure is the
suite's 2 ms evaluation limit, which is flaky under load), demo fails with the change, demo passes without. On success copies to /verif/seeded/<archive-id>/ with
the confirmation recorded in meta.json. The worktree is removed in every case. Maintenance tool, not a check."""
import json, os, shutil, subprocess, sys, tempfile
ENV = dict(os.environ, GOFLAGS='-mod=mod', GOPROXY='off', GOSUMDB='off', GOTOOLCHAIN='local', GOWORK='off')
def sh(cmd, cwd, timeout=900):
    r = subprocess.run(cmd, cwd=cwd, shell=True, env=ENV, capture_output=True, text=True, timeout=timeout)
    return r.returncode, (r.stdout + r.stderr)
def main():
    cand, aid = sys.argv[1], sys.argv[2]
    meta = json.load(open(os.path.join(cand, 'meta.json')))
    wt = tempfile.mkdtemp(prefix='cf-'); os.rmdir(wt)
    ran = []; ok = {}
    try:
        rc, out = sh(f'git -C /repo worktree add -q --detach {wt} HEAD', '/')
        if rc: print(aid, 'WORKTREE FAILED', out); return 2
        patch = os.path.abspath(os.path.join(cand, 'patch.diff'))
        rc, out = sh(f'git apply {patch}', wt); ok['applies'] = rc == 0; ran.append(f'git apply patch.diff : {"ok" if rc==0 else out[-300:]}')
        if rc: raise SystemExit
        rc, out = sh('go build ./...', wt); ok['builds'] = rc == 0; ran.append(f'go build ./... : {"ok" if rc==0 else out[-300:]}')
        if rc: raise SystemExit
        suite = False
        for t in range(12):
            rc, out = sh('go test -vet=off -count=1 -p 2 ./...', wt)
            if rc == 0: suite = True; break
            last = out
            # only the default 2 ms evaluation limit of the suite is flaky under load; anything else is a real failure
            if 'runtime limit: timeout' not in out: break
        ok['suite_passes_with_change'] = suite; ran.append(f'go test -vet=off -count=1 ./... (with change, {t+1} run(s)) : {"ok" if suite else last[-600:]}')
        if not suite: raise SystemExit
        loc = os.path.join(wt, meta['demo_location']); shutil.copy(os.path.join(cand, 'demo_test.go'), loc)
        rc, out = sh(meta['demo_cmd'], wt); ok['demo_fails_with_change'] = rc != 0
        nobuild = 'build failed' in out or 'setup failed' in out or 'cannot find' in out or 'undefined:' in out
        ran.append(f'{meta["demo_cmd"]} (with change) : {"FAIL (expected)" if rc else "ok (unexpected)"}; tail: {out[-300:]!r}')
        if nobuild: ok['demo_fails_with_change'] = False; ran.append('demo did not build with the change')
        os.remove(loc); sh('git checkout -- .', wt); shutil.copy(os.path.join(cand, 'demo_test.go'), loc)
        passes = False
        for t in range(3):
            rc, out = sh(meta['demo_cmd'], wt)
            if rc == 0 and 'no tests to run' not in out: passes = True; break
        ok['demo_passes_without'] = passes; ran.append(f'{meta["demo_cmd"]} (clean tree) : {"ok" if passes else out[-600:]}')
    except SystemExit:
        pass
    finally:
        sh(f'git -C /repo worktree remove --force {wt}', '/'); shutil.rmtree(wt, ignore_errors=True)
    good = all(ok.get(k) for k in ('applies', 'builds', 'suite_passes_with_change', 'demo_fails_with_change', 'demo_passes_without'))
    print(aid, 'CONFIRMED' if good else 'REJECTED', json.dumps(ok))
    if not good:
        for r in ran: print('   ', r)
        return 1
    dst = f'/verif/seeded/{aid}'; os.makedirs(dst, exist_ok=True)
    for f in ('patch.diff', 'demo_test.go'): shutil.copy(os.path.join(cand, f), dst)
    meta['ran'] = ran; meta['confirmed_by_me'] = ok; meta['round'] = int(os.environ.get('SEED_ROUND', '5'))
    meta['confirmation_cmds'] = ['tools/confirmseed.py <candidate> <id> (scratch worktree of /repo HEAD: git apply; go build ./...; go test -vet=off -count=1 ./... retried while the only failure is the flaky 2 ms evaluation limit; demo with the change must fail; git checkout -- .; demo must pass; worktree removed)']
    json.dump(meta, open(os.path.join(dst, 'meta.json'), 'w'), indent=1)
    return 0
sys.exit(main())
