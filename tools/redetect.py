#!/usr/bin/env python3
"""Recompute, for every archived seeded change, which property checks report it.

Not a registered check: a maintenance tool. For each /verif/seeded/<id>/patch.diff it makes a scratch
copy of /repo HEAD (git archive), applies the patch, runs all rules once (bvcheck -rules ... -json)
and maps violated / undecided rules to the properties that include them (bvcheck -list).
Writes detected_by_checks into meta.json and prints a table. Scratch copies are removed.
usage: redetect.py [-j N] [seed-id ...]
"""
import json, os, subprocess, sys, tempfile, shutil, concurrent.futures as cf
V = '/verif'; BV = V + '/bin/bvcheck'
def rules_props():
    out = subprocess.run([BV, '-list'], capture_output=True, text=True).stdout
    m = {}
    for line in out.splitlines():
        parts = line.split()
        if len(parts) < 2 or not parts[1].startswith('C'): continue
        m[parts[0]] = parts[1].split(',')
    return m
RP = rules_props()
KNOWN={f['key'] for f in json.load(open('/verif/known-findings.json'))['findings'] if f['status']=='known'}
def detect(seed):
    d = os.path.join(V, 'seeded', seed)
    sc = tempfile.mkdtemp(prefix='redetect-')
    try:
        ar = subprocess.Popen(['git', '-C', '/repo', 'archive', 'HEAD'], stdout=subprocess.PIPE)
        subprocess.run(['tar', '-x', '-C', sc], stdin=ar.stdout, check=True); ar.wait()
        if subprocess.run(['git', 'apply', os.path.join(d, 'patch.diff')], cwd=sc).returncode != 0:
            return seed, None
        out = subprocess.run([BV, '-repo', sc, '-rules', ','.join(sorted(RP)), '-json'], capture_output=True, text=True).stdout
        props = set()
        for o in json.loads(out):
            if o['status'] not in ('discharged',) and o['key'] not in KNOWN:
                props.update(o.get('reported_props', []) if o.get('two_view') else RP.get(o['rule'], []))
        return seed, sorted(props)
    finally:
        shutil.rmtree(sc, ignore_errors=True)
def main():
    args = sys.argv[1:]; j = 6
    if args[:1] == ['-j']: j = int(args[1]); args = args[2:]
    seeds = args or sorted(os.listdir(os.path.join(V, 'seeded')))
    seeds = [s for s in seeds if os.path.exists(os.path.join(V, 'seeded', s, 'patch.diff'))]
    miss = 0
    with cf.ThreadPoolExecutor(j) as ex:
        for seed, props in ex.map(detect, seeds):
            mp = os.path.join(V, 'seeded', seed, 'meta.json'); m = json.load(open(mp))
            if props is None:
                print(seed, 'PATCH DOES NOT APPLY'); miss += 1; continue
            m['detected_by_checks'] = props
            json.dump(m, open(mp, 'w'), indent=1)
            target = seed.split('-')[0]
            flag = '' if target in props else ('  <-- not by its own property' if props else '  <-- UNDETECTED')
            if target not in props: miss += 1
            print(seed, ' '.join(props), flag)
    print('seeds:', len(seeds), 'not reported by the target property:', miss)
if __name__ == '__main__': main()
