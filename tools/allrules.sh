#!/bin/bash
# usage: allrules.sh [bvcheck-binary] [repo]  -- run every rule once; print violations that are not known findings
BV=${1:-/verif/bin/bvcheck}; REPO=${2:-/repo}
ALL=$($BV -list | awk '$2 ~ /^C/ {print $1}' | paste -sd, -)
$BV -repo $REPO -rules "$ALL" -json 2>/dev/null | python3 -c "
import json,sys
K={f['key'] for f in json.load(open('/verif/known-findings.json'))['findings'] if f['status']=='known'}
n=0
for o in json.load(sys.stdin):
    n+=1
    if o['status']!='discharged' and o['key'] not in K: print(o['rule'],o['pos'],o['function'],'::',o['construct'],'--',o['why'][:140])
print('obligations:',n)
"
