package repro

import (
	"crypto/ed25519"
	"crypto/rand"
	"errors"
	"math"
	"runtime"
	"strings"
	"sync"
	"testing"
	"time"

	biscuit "github.com/biscuit-auth/biscuit-go/v2"
	"github.com/biscuit-auth/biscuit-go/v2/datalog"
	"github.com/biscuit-auth/biscuit-go/v2/parser"
	"github.com/biscuit-auth/biscuit-go/v2/pb"
	"google.golang.org/protobuf/proto"
)

type failingReader struct{ left int }

func (f *failingReader) Read(p []byte) (int, error) {
	if f.left <= 0 {
		return 0, errors.New("entropy exhausted")
	}
	n := len(p)
	if n > f.left {
		n = f.left
	}
	f.left -= n
	return n, nil
}

func noPanic(t *testing.T, name string, f func()) {
	t.Helper()
	defer func() {
		if r := recover(); r != nil {
			t.Fatalf("%s panicked: %v", name, r)
		}
	}()
	f()
}

func mkToken(t *testing.T, opts ...interface{}) (*biscuit.Biscuit, ed25519.PublicKey, ed25519.PrivateKey) {
	pub, priv, _ := ed25519.GenerateKey(rand.Reader)
	b := biscuit.NewBuilder(priv)
	f, err := parser.FromStringFact(`right("file1", "read")`)
	if err != nil {
		t.Fatal(err)
	}
	b.AddAuthorityFact(f)
	tok, err := b.Build()
	if err != nil {
		t.Fatal(err)
	}
	return tok, pub, priv
}

// D1 (C20)
func TestD1EntropyFailure(t *testing.T) {
	_, priv, _ := ed25519.GenerateKey(rand.Reader)
	noPanic(t, "Build", func() {
		tok, err := biscuit.NewBuilder(priv, biscuit.WithRNG(&failingReader{left: 10})).Build()
		if err == nil || tok != nil {
			t.Fatalf("Build with failing rng: tok=%v err=%v", tok, err)
		}
	})
	tok, _, _ := mkToken(t)
	noPanic(t, "Append", func() {
		blk := tok.CreateBlock().Build()
		tk, err := tok.Append(&failingReader{left: 10}, blk)
		if err == nil || tk != nil {
			t.Fatalf("Append with failing rng: tok=%v err=%v", tk, err)
		}
	})
}

// D2 (C16)
func TestD2RootKeyID(t *testing.T) {
	_, priv, _ := ed25519.GenerateKey(rand.Reader)
	tok, err := biscuit.NewBuilder(priv, biscuit.WithRootKeyID(7)).Build()
	if err != nil {
		t.Fatal(err)
	}
	tok2, err := tok.Append(rand.Reader, tok.CreateBlock().Build())
	if err != nil {
		t.Fatal(err)
	}
	if id := tok2.RootKeyID(); id == nil || *id != 7 {
		t.Fatalf("Append lost root key id: %v", id)
	}
	tok3, err := tok2.Seal(rand.Reader)
	if err != nil {
		t.Fatal(err)
	}
	if id := tok3.RootKeyID(); id == nil || *id != 7 {
		t.Fatalf("Seal lost root key id: %v", id)
	}
}

// D3 (C13)
func TestD3Reset(t *testing.T) {
	pub, priv, _ := ed25519.GenerateKey(rand.Reader)
	b := biscuit.NewBuilder(priv)
	c, _ := parser.FromStringCheck(`check if operation("read")`)
	b.AddAuthorityCheck(c)
	tok, _ := b.Build()
	a, err := tok.Authorizer(pub)
	if err != nil {
		t.Fatal(err)
	}
	f, _ := parser.FromStringFact(`operation("read")`)
	a.AddFact(f)
	a.AddPolicy(biscuit.DefaultAllowPolicy)
	if err := a.Authorize(); err != nil {
		t.Fatalf("round 1: %v", err)
	}
	a.Reset()
	f2, _ := parser.FromStringFact(`operation("write")`)
	a.AddFact(f2)
	a.AddPolicy(biscuit.DefaultAllowPolicy)
	if err := a.Authorize(); err == nil {
		t.Fatalf("round 2 (write) accepted after Reset: read fact leaked")
	}
}

// D4 (C11)
func TestD4OptionsDropped(t *testing.T) {
	pub, priv, _ := ed25519.GenerateKey(rand.Reader)
	b := biscuit.NewBuilder(priv)
	for _, s := range []string{`a(1)`, `a(2)`, `a(3)`} {
		f, _ := parser.FromStringFact(s)
		b.AddAuthorityFact(f)
	}
	tok, _ := b.Build()
	a, err := tok.Authorizer(pub, biscuit.WithWorldOptions(datalog.WithMaxFacts(2), datalog.WithMaxDuration(time.Second)))
	if err != nil {
		t.Fatal(err)
	}
	a.AddPolicy(biscuit.DefaultAllowPolicy)
	if err := a.Authorize(); !errors.Is(err, datalog.ErrWorldRunLimitMaxFacts) {
		t.Fatalf("expected max-facts error, got %v", err)
	}
}

// D5 (C11)
func TestD5RunTimeoutStrandsWorker(t *testing.T) {
	syms := &datalog.SymbolTable{}
	w := datalog.NewWorld(datalog.WithMaxDuration(time.Millisecond), datalog.WithMaxFacts(1000), datalog.WithMaxIterations(1000))
	a := syms.Insert("a")
	for i := 0; i < 30; i++ {
		w.AddFact(datalog.Fact{Predicate: datalog.Predicate{Name: a, Terms: []datalog.Term{datalog.Integer(i)}}})
	}
	h := syms.Insert("h")
	w.AddRule(datalog.Rule{Head: datalog.Predicate{Name: h, Terms: []datalog.Term{datalog.Variable(1), datalog.Variable(2), datalog.Variable(3)}},
		Body: []datalog.Predicate{{Name: a, Terms: []datalog.Term{datalog.Variable(1)}}, {Name: a, Terms: []datalog.Term{datalog.Variable(2)}}, {Name: a, Terms: []datalog.Term{datalog.Variable(3)}}}})
	before := runtime.NumGoroutine()
	err := w.Run(syms)
	if !errors.Is(err, datalog.ErrWorldRunLimitTimeout) {
		t.Skipf("no timeout on this machine: %v", err)
	}
	deadline := time.Now().Add(20 * time.Second)
	for time.Now().Before(deadline) {
		if runtime.NumGoroutine() <= before {
			return
		}
		time.Sleep(100 * time.Millisecond)
	}
	buf := make([]byte, 1<<16)
	n := runtime.Stack(buf, true)
	if strings.Contains(string(buf[:n]), "chan send") {
		t.Fatalf("worker goroutine blocked in chan send after timeout")
	}
	t.Fatalf("goroutines before=%d after=%d", before, runtime.NumGoroutine())
}

func reencode(t *testing.T, tok *biscuit.Biscuit, f func(c *pb.Biscuit)) *biscuit.Biscuit {
	ser, err := tok.Serialize()
	if err != nil {
		t.Fatal(err)
	}
	c := new(pb.Biscuit)
	if err := proto.Unmarshal(ser, c); err != nil {
		t.Fatal(err)
	}
	f(c)
	ser2, err := proto.Marshal(c)
	if err != nil {
		t.Fatal(err)
	}
	tok2, err := biscuit.Unmarshal(ser2)
	if err != nil {
		t.Fatal(err)
	}
	return tok2
}

// D7 (C10)
func TestD7ShortNextSecret(t *testing.T) {
	tok, pub, _ := mkToken(t)
	tok2 := reencode(t, tok, func(c *pb.Biscuit) {
		c.Proof = &pb.Proof{Content: &pb.Proof_NextSecret{NextSecret: []byte{1, 2, 3}}}
	})
	noPanic(t, "Authorizer", func() {
		if _, err := tok2.Authorizer(pub); err == nil {
			t.Fatalf("accepted a 3-byte next secret")
		}
	})
}

// D8 (C10): attacker-signed token with predicate name 1<<63
func TestD8HugeSymbol(t *testing.T) {
	pub, priv, _ := ed25519.GenerateKey(rand.Reader)
	name := uint64(1) << 63
	blk := &pb.Block{Version: proto.Uint32(3), FactsV2: []*pb.FactV2{{Predicate: &pb.PredicateV2{Name: &name}}}}
	blkBytes, _ := proto.Marshal(blk)
	npub, npriv, _ := ed25519.GenerateKey(rand.Reader)
	alg := pb.PublicKey_Ed25519
	toSign := append(append(append([]byte{}, blkBytes...), 0, 0, 0, 0), npub...)
	sig := ed25519.Sign(priv, toSign)
	c := &pb.Biscuit{Authority: &pb.SignedBlock{Block: blkBytes, NextKey: &pb.PublicKey{Algorithm: &alg, Key: npub}, Signature: sig},
		Proof: &pb.Proof{Content: &pb.Proof_NextSecret{NextSecret: npriv.Seed()}}}
	ser, _ := proto.Marshal(c)
	tok, err := biscuit.Unmarshal(ser)
	if err != nil {
		t.Fatal(err)
	}
	noPanic(t, "String", func() { _ = tok.String() })
	noPanic(t, "Authorize", func() {
		a, err := tok.Authorizer(pub)
		if err != nil {
			t.Fatal(err)
		}
		a.AddPolicy(biscuit.DefaultAllowPolicy)
		_ = a.Authorize()
	})
}

// D9 (C06/C10)
func TestD9SetOfBytes(t *testing.T) {
	noPanic(t, "Set.Equal", func() {
		s := datalog.Set{datalog.Bytes{1}}
		if !s.Equal(datalog.Set{datalog.Bytes{1}}) {
			t.Fatalf("equal sets of bytes reported different")
		}
		_ = s.Union(datalog.Set{datalog.Bytes{2}})
		_ = s.Intersect(datalog.Set{datalog.Bytes{1}})
	})
}

// D10 (C06)
func TestD10DivOverflow(t *testing.T) {
	res, err := datalog.Div{}.Eval(datalog.Integer(math.MinInt64), datalog.Integer(-1), nil)
	if err == nil {
		t.Fatalf("MinInt64 / -1 = %v, no error", res)
	}
}

// D11 (C08)
func TestD11SiblingBuilders(t *testing.T) {
	pub, priv, _ := ed25519.GenerateKey(rand.Reader)
	b := biscuit.NewBuilder(priv)
	// grow the symbol table so that it has spare capacity
	for _, s := range []string{`s1("x1")`, `s2("x2")`, `s3("x3")`} {
		f, _ := parser.FromStringFact(s)
		b.AddAuthorityFact(f)
	}
	tok, _ := b.Build()
	bb1 := tok.CreateBlock()
	bb2 := tok.CreateBlock()
	c1, _ := parser.FromStringCheck(`check if foo(1)`)
	c2, _ := parser.FromStringCheck(`check if bar(1)`)
	bb1.AddCheck(c1)
	bb2.AddCheck(c2)
	blk1 := bb1.Build()
	tok1, err := tok.Append(rand.Reader, blk1)
	if err != nil {
		t.Fatal(err)
	}
	s := tok1.String()
	if !strings.Contains(s, "check if foo(1)") || strings.Contains(s, "bar(1)") {
		t.Fatalf("sibling builder rewrote the block: %s", s)
	}
	_ = pub
}

// D12 (C19): run with -race
func TestD12ConcurrentVerify(t *testing.T) {
	tok, pub, _ := mkToken(t)
	ser, _ := tok.Serialize()
	tok2, err := biscuit.Unmarshal(ser)
	if err != nil {
		t.Fatal(err)
	}
	var wg sync.WaitGroup
	for i := 0; i < 8; i++ {
		wg.Add(1)
		go func() {
			defer wg.Done()
			for j := 0; j < 50; j++ {
				if _, err := tok2.Authorizer(pub); err != nil {
					t.Error(err)
				}
			}
		}()
	}
	wg.Wait()
}

// D13 (C14)
func TestD13UnboundParameterInExpression(t *testing.T) {
	noPanic(t, "parse+add", func() {
		c, err := parser.FromStringCheck(`check if a($x), $x == {p}`)
		if err != nil {
			return // reported: fine
		}
		_, priv, _ := ed25519.GenerateKey(rand.Reader)
		b := biscuit.NewBuilder(priv)
		_ = b.AddAuthorityCheck(c)
	})
}
