package repro

import (
	"runtime"
	"testing"
	"time"

	"github.com/biscuit-auth/biscuit-go/v2/datalog"
)

func TestD6(t *testing.T) {
	syms := &datalog.SymbolTable{}
	a := syms.Insert("a")
	h := syms.Insert("h")
	facts := &datalog.FactSet{}
	for i := 0; i < 3; i++ {
		facts.Insert(datalog.Fact{Predicate: datalog.Predicate{Name: a, Terms: []datalog.Term{datalog.Integer(i)}}})
	}
	r := datalog.Rule{Head: datalog.Predicate{Name: h, Terms: []datalog.Term{datalog.Variable(77)}},
		Body: []datalog.Predicate{{Name: a, Terms: []datalog.Term{datalog.Variable(1)}}}}
	before := runtime.NumGoroutine()
	for i := 0; i < 10; i++ {
		out := &datalog.FactSet{}
		if err := r.Apply(facts, out, syms); err == nil {
			t.Fatal("expected InvalidRuleError")
		}
	}
	time.Sleep(50 * time.Millisecond)
	after := runtime.NumGoroutine()
	if after > before {
		t.Fatalf("goroutines leaked: before=%d after=%d", before, after)
	}
}
