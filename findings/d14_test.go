package repro

import (
	"crypto/ed25519"
	"crypto/rand"
	"testing"

	biscuit "github.com/biscuit-auth/biscuit-go/v2"
	"github.com/biscuit-auth/biscuit-go/v2/parser"
)

// D14 (C08): the authority builder keeps sharing its fact set with the token it built
func TestD14BuilderSharesFactsWithBuiltToken(t *testing.T) {
	pub, priv, _ := ed25519.GenerateKey(rand.Reader)
	b := biscuit.NewBuilder(priv)
	f1, _ := parser.FromStringFact(`right("file1", "read")`)
	b.AddAuthorityFact(f1)
	tok, err := b.Build()
	if err != nil {
		t.Fatal(err)
	}
	before := tok.String()
	f2, _ := parser.FromStringFact(`right("file2", "write")`)
	b.AddAuthorityFact(f2) // an operation on the builder, not on the token
	after := tok.String()
	if before != after {
		t.Fatalf("token content changed after it was built:\nbefore: %s\nafter: %s", before, after)
	}
	// and authorization behaviour: a query for the second fact must find nothing
	a, _ := tok.Authorizer(pub)
	r, _ := parser.FromStringRule(`got($f) <- right($f, "write")`)
	res, err := a.Query(r)
	if err != nil {
		t.Fatal(err)
	}
	if len(res) != 0 {
		t.Fatalf("token authorizes with a fact added to the builder after Build: %v", res)
	}
}
