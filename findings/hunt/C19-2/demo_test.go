package biscuit

import (
	"crypto/ed25519"
	"crypto/rand"
	"errors"
	"fmt"
	"runtime"
	"strings"
	"sync"
	"testing"
	"time"

	"github.com/biscuit-auth/biscuit-go/v2/datalog"
)

// Copy to: <module root>/zz_c19_finding2_test.go (package biscuit)
// Run:     go test -race -run TestC19RunWorkerOutlivesTimeout -count=1 .
//
// Two goroutines share one token, each with its own authorizer and an explicit
// time limit of 50ms. The token's rule is expensive (6400 combinations with string
// concatenations), so Authorize deterministically returns
// datalog.ErrWorldRunLimitTimeout. World.Run returns at that point but does NOT
// stop its worker goroutine: the worker (and the combine() producer under it) keeps
// evaluating the rule, appending to the authorizer's symbol table and finally
// inserting the derived facts into the authorizer's world -- while the caller, who
// has been told the evaluation is over, prints the world. The race detector reports
// the race (PrintWorld vs SymbolTable.Insert / FactSet.Insert), and even without
// -race the world printed right after Authorize returned differs from the one
// printed once the leaked goroutines are gone, i.e. "Authorize(); PrintWorld()"
// does not give the result it gives in a sequential execution.
func TestC19RunWorkerOutlivesTimeout(t *testing.T) {
	pub, priv, _ := ed25519.GenerateKey(rand.Reader)
	builder := NewBuilder(priv)
	const n = 80
	for i := 0; i < n; i++ {
		if err := builder.AddAuthorityFact(Fact{Predicate{Name: "n", IDs: []Term{String(fmt.Sprintf("a%d", i))}}}); err != nil {
			t.Fatal(err)
		}
	}
	// pair($x, $y) <- n($x), n($y), $x + $y == $x + $y
	if err := builder.AddAuthorityRule(Rule{
		Head: Predicate{Name: "pair", IDs: []Term{Variable("x"), Variable("y")}},
		Body: []Predicate{{Name: "n", IDs: []Term{Variable("x")}}, {Name: "n", IDs: []Term{Variable("y")}}},
		Expressions: []Expression{{
			Value{Variable("x")}, Value{Variable("y")}, BinaryAdd,
			Value{Variable("x")}, Value{Variable("y")}, BinaryAdd,
			BinaryEqual,
		}},
	}); err != nil {
		t.Fatal(err)
	}
	token, err := builder.Build()
	if err != nil {
		t.Fatal(err)
	}

	baseline := runtime.NumGoroutine()

	const G = 2
	auths := make([]Authorizer, G)
	before := make([]string, G)
	var wg sync.WaitGroup
	for g := 0; g < G; g++ {
		wg.Add(1)
		go func(g int) {
			defer wg.Done()
			a, err := token.AuthorizerFor(WithSingularRootPublicKey(pub),
				WithWorldOptions(datalog.WithMaxDuration(50*time.Millisecond), datalog.WithMaxFacts(10000000)))
			if err != nil {
				t.Error(err)
				return
			}
			a.AddPolicy(DefaultAllowPolicy)
			err = a.Authorize()
			if !errors.Is(err, datalog.ErrWorldRunLimitTimeout) {
				t.Errorf("goroutine %d: this demo expects the explicit 50ms limit to be hit, got %v", g, err)
				return
			}
			// Authorize has returned: nothing but this goroutine may touch the authorizer.
			before[g] = a.PrintWorld()
			auths[g] = a
		}(g)
	}
	wg.Wait()
	for g := 0; g < G; g++ {
		if auths[g] == nil {
			return // setup problem already reported above
		}
	}

	// Authorize returned in every goroutine, so no library goroutine should be left.
	leaked := runtime.NumGoroutine() - baseline
	if leaked > 0 {
		t.Errorf("%d library goroutines are still running after every Authorize call has returned", leaked)
	}
	// wait for them to finish (they do, eventually), then look at the worlds again
	deadline := time.Now().Add(5 * time.Minute)
	for runtime.NumGoroutine() > baseline && time.Now().Before(deadline) {
		time.Sleep(100 * time.Millisecond)
	}
	for g := 0; g < G; g++ {
		after := auths[g].PrintWorld()
		if after != before[g] {
			t.Errorf("goroutine %d: the authorizer's world changed after Authorize had returned (%d -> %d facts printed): World.Run left its worker running",
				g, strings.Count(before[g], "(")-3, strings.Count(after, "(")-3)
		}
	}
}
