// Package biscuit_test; copy to <worktree>/c15_fardate_demo_test.go
// (module root of github.com/biscuit-auth/biscuit-go/v2).
package biscuit_test

import (
	"crypto/ed25519"
	"crypto/rand"
	"strings"
	"testing"
	"time"

	"github.com/biscuit-auth/biscuit-go/v2"
	"github.com/biscuit-auth/biscuit-go/v2/parser"
)

func c15DateStatements(code string) string {
	out := []string{}
	for _, l := range strings.Split(code, "\n") {
		l = strings.TrimSpace(l)
		if l == "" || l == "Block {" || l == "}" {
			continue
		}
		out = append(out, strings.TrimSuffix(l, ";")+";")
	}
	return strings.Join(out, "\n")
}

// "never expires": an expiry date after year 9999 given through a {parameter}.
func TestC15DateAfterYear9999DoesNotRoundTrip(t *testing.T) {
	_, root, err := ed25519.GenerateKey(rand.Reader)
	if err != nil {
		t.Fatal(err)
	}
	expiry := time.Date(10000, 1, 1, 0, 0, 0, 0, time.UTC)
	params := parser.ParametersMap{"expiry": biscuit.Date(expiry)}
	original, err := parser.FromStringBlockWithParams(`check if time($t), $t <= {expiry};`, params)
	if err != nil {
		t.Fatal(err)
	}
	builder := biscuit.NewBuilder(root)
	token, err := builder.Build()
	if err != nil {
		t.Fatal(err)
	}
	bb := token.CreateBlock()
	if err := bb.AddBlock(original); err != nil {
		t.Fatal(err)
	}
	token, err = token.Append(rand.Reader, bb.Build())
	if err != nil {
		t.Fatal(err)
	}
	printed := c15DateStatements(token.Code()[0])
	t.Logf("printed block: %s", printed)
	reparsed, err := parser.FromStringBlock(printed)
	if err != nil {
		t.Fatalf("printed block does not parse back: %v", err)
	}
	got := reparsed.Checks[0].Queries[0].Expressions[0][1].(biscuit.Value).Term.(biscuit.Date)
	if !time.Time(got).Equal(expiry) {
		t.Fatalf("printed block parses back to another date: %v", time.Time(got))
	}
}
