// Package biscuit_test; copy this file to <worktree>/c16_alias_demo_test.go
// (the root package directory of github.com/biscuit-auth/biscuit-go/v2).
//
// Run: go test -run TestC16RootKeyIDSharedStorageAcrossDerivedTokens -count=1 .
package biscuit_test

import (
	"crypto/ed25519"
	"crypto/rand"
	"testing"

	biscuit "github.com/biscuit-auth/biscuit-go/v2"
)

// Property C16: "A root key identifier given when a token is created is
// reported by that token and by every token derived from it through
// attenuation, sealing and serialization", and lookup "verifies the token
// against exactly the key registered under the token's identifier".
//
// Biscuit.RootKeyID hands out the *uint32 stored in the protobuf envelope,
// and Append / Seal copy that very pointer into the derived envelope. The
// whole derivation family therefore shares ONE uint32 cell that any holder of
// any member can write through the accessor's result (e.g. a rotation helper
// doing `next := tok.RootKeyID(); *next++`).
func TestC16RootKeyIDSharedStorageAcrossDerivedTokens(t *testing.T) {
	const createdWith = uint32(7)

	pub, priv, err := ed25519.GenerateKey(rand.Reader)
	if err != nil {
		t.Fatal(err)
	}
	otherPub, _, err := ed25519.GenerateKey(rand.Reader)
	if err != nil {
		t.Fatal(err)
	}

	original, err := biscuit.NewBuilder(priv, biscuit.WithRootKeyID(createdWith)).Build()
	if err != nil {
		t.Fatal(err)
	}
	attenuated, err := original.Append(rand.Reader, original.CreateBlock().Build())
	if err != nil {
		t.Fatal(err)
	}
	sealed, err := attenuated.Seal(rand.Reader)
	if err != nil {
		t.Fatal(err)
	}

	keys := biscuit.WithRootPublicKeys(map[uint32]ed25519.PublicKey{
		createdWith:     pub,
		createdWith + 1: otherPub, // a different key registered under another identifier
	}, nil)

	// sanity: before anything else happens all three verify under key 7
	for name, tok := range map[string]*biscuit.Biscuit{"original": original, "attenuated": attenuated, "sealed": sealed} {
		if _, err := tok.AuthorizerFor(keys); err != nil {
			t.Fatalf("precondition: %s does not verify: %v", name, err)
		}
	}

	// A holder of the SEALED token computes "the next key id" from the value
	// the accessor returned. It never touches `original` or `attenuated`.
	next := sealed.RootKeyID()
	*next++

	// The identifier given at creation must still be reported by the other
	// members of the family ...
	if got := original.RootKeyID(); got == nil || *got != createdWith {
		t.Errorf("original token: created with root key id %d, now reports %v", createdWith, deref(got))
	}
	if got := attenuated.RootKeyID(); got == nil || *got != createdWith {
		t.Errorf("attenuated token: created with root key id %d, now reports %v", createdWith, deref(got))
	}

	// ... must travel with their serialization ...
	ser, err := original.Serialize()
	if err != nil {
		t.Fatal(err)
	}
	back, err := biscuit.Unmarshal(ser)
	if err != nil {
		t.Fatal(err)
	}
	if got := back.RootKeyID(); got == nil || *got != createdWith {
		t.Errorf("original token after Serialize/Unmarshal: created with root key id %d, wire carries %v", createdWith, deref(got))
	}

	// ... and lookup must still verify the original against key 7 only.
	if _, err := original.AuthorizerFor(keys); err != nil {
		t.Errorf("original token (created with id %d, key %d registered) no longer verifies by key id: %v", createdWith, createdWith, err)
	}
}

func deref(p *uint32) interface{} {
	if p == nil {
		return "<absent>"
	}
	return *p
}
