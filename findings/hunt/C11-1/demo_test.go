// Package datalog; copy to datalog/c11_timeout_stranded_test.go
package datalog

import (
	"errors"
	"runtime"
	"strings"
	"testing"
	"time"
)

// Property C11: "Datalog evaluation stops with a distinguishable error when the
// configured ... duration is exceeded" and leaves no stranded work behind.
//
// World.Run only stops WAITING when the deadline passes: the worker goroutine
// (and the combine producer it drives) is never cancelled inside Rule.Apply and
// Run does not wait for it. The evaluation therefore keeps going after Run has
// returned ErrWorldRunLimitTimeout, and it even commits the facts it derives
// into the world the caller already got back.
func TestC11TimeoutDoesNotStopEvaluation(t *testing.T) {
	syms := &SymbolTable{}
	f := syms.Insert("f")
	g := syms.Insert("g")

	const n = 80
	w := NewWorld(
		WithMaxDuration(2*time.Millisecond),
		WithMaxFacts(1<<30),
		WithMaxIterations(1<<30),
	)
	for i := 0; i < n; i++ {
		w.AddFact(Fact{Predicate{Name: f, Terms: []Term{Integer(i)}}})
	}
	// g($a, $b) <- f($a), f($b): n*n = 6400 results, far more than 2ms of work
	w.AddRule(Rule{
		Head: Predicate{Name: g, Terms: []Term{Variable(0), Variable(1)}},
		Body: []Predicate{
			{Name: f, Terms: []Term{Variable(0)}},
			{Name: f, Terms: []Term{Variable(1)}},
		},
	})

	err := w.Run(syms)
	if !errors.Is(err, ErrWorldRunLimitTimeout) {
		t.Fatalf("setup: expected the 2ms limit to be hit, got %v", err)
	}

	// Run has returned its verdict. From here on nothing may still be evaluating.
	atReturn := len(*w.Facts())

	stillRunning := func() bool {
		buf := make([]byte, 1<<20)
		s := string(buf[:runtime.Stack(buf, true)])
		return strings.Contains(s, "datalog.(*World).Run.func1") ||
			strings.Contains(s, "datalog.combine.func1")
	}
	if stillRunning() {
		t.Errorf("Run returned %q but its worker/producer goroutines are still evaluating the rule", err)
	}

	deadline := time.Now().Add(60 * time.Second)
	for time.Now().Before(deadline) {
		if now := len(*w.Facts()); now != atReturn {
			t.Fatalf("evaluation did not stop at the limit: the world had %d facts when Run returned %q, and %d facts a moment later (the stranded worker committed its results after the return)",
				atReturn, err, now)
		}
		if !stillRunning() {
			break
		}
		time.Sleep(5 * time.Millisecond)
	}
}
