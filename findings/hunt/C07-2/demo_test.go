// Package biscuit_test; copy this file to <repo root>/c07_finding2_test.go
// (next to biscuit.go, module github.com/biscuit-auth/biscuit-go/v2).
//
// Property C07: the bytes of an appended block, decoded by an independent
// reader with the published symbol rules, must yield the facts the caller
// gave to the block builder. blockBuilder.Build replaces the builder's symbol
// table (token symbols + new symbols) by the new symbols only, so the builder
// is corrupt afterwards: symbols added later reuse the indexes of the first
// round, and a second Build either panics or signs a block whose facts resolve
// to other strings than the ones supplied.
package biscuit_test

import (
	"crypto/ed25519"
	"fmt"
	"reflect"
	"strings"
	"testing"

	biscuit "github.com/biscuit-auth/biscuit-go/v2"
	"github.com/biscuit-auth/biscuit-go/v2/datalog"
	"github.com/biscuit-auth/biscuit-go/v2/pb"
	"google.golang.org/protobuf/proto"
)

// c07f2Decode is an independent decoder: protobuf + the published symbol rules only.
func c07f2Decode(t *testing.T, ser []byte) [][]string {
	t.Helper()
	env := new(pb.Biscuit)
	if err := proto.Unmarshal(ser, env); err != nil {
		t.Fatalf("independent decoder: %v", err)
	}
	var table []string // symbols 1024.., cumulative: earlier blocks + own block only
	sym := func(i uint64) string {
		if i < 1024 {
			if i < uint64(len(datalog.DEFAULT_SYMBOLS)) {
				return datalog.DEFAULT_SYMBOLS[i]
			}
			return fmt.Sprintf("<UNRESOLVABLE %d>", i)
		}
		if i-1024 < uint64(len(table)) {
			return table[i-1024]
		}
		return fmt.Sprintf("<UNRESOLVABLE %d>", i)
	}
	var out [][]string
	for _, sb := range append([]*pb.SignedBlock{env.Authority}, env.Blocks...) {
		blk := new(pb.Block)
		if err := proto.Unmarshal(sb.Block, blk); err != nil {
			t.Fatalf("independent decoder: %v", err)
		}
		table = append(table, blk.Symbols...)
		facts := []string{}
		for _, f := range blk.FactsV2 {
			var terms []string
			for _, term := range f.Predicate.Terms {
				switch c := term.Content.(type) {
				case *pb.TermV2_String_:
					terms = append(terms, fmt.Sprintf("%q", sym(c.String_)))
				case *pb.TermV2_Integer:
					terms = append(terms, fmt.Sprintf("%d", c.Integer))
				default:
					terms = append(terms, fmt.Sprintf("%v", term))
				}
			}
			facts = append(facts, sym(f.Predicate.GetName())+"("+strings.Join(terms, ", ")+")")
		}
		out = append(out, facts)
	}
	return out
}

func c07f2Fact(name string, ids ...biscuit.Term) biscuit.Fact {
	return biscuit.Fact{Predicate: biscuit.Predicate{Name: name, IDs: ids}}
}

type c07f2Zero struct{}

func (c07f2Zero) Read(p []byte) (int, error) {
	for i := range p {
		p[i] = 9
	}
	return len(p), nil
}

func c07f2Token(t *testing.T) *biscuit.Biscuit {
	t.Helper()
	b := biscuit.NewBuilder(ed25519.NewKeyFromSeed(make([]byte, ed25519.SeedSize)))
	if err := b.AddAuthorityFact(c07f2Fact("alpha", biscuit.String("beta"))); err != nil {
		t.Fatal(err)
	}
	tok, err := b.Build()
	if err != nil {
		t.Fatal(err)
	}
	return tok
}

// Build, add one more fact, Build again, append the second block.
func TestC07BlockBuilderAddAfterBuild(t *testing.T) {
	tok := c07f2Token(t)

	bb := tok.CreateBlock()
	if err := bb.AddFact(c07f2Fact("gamma", biscuit.String("delta"))); err != nil {
		t.Fatal(err)
	}
	_ = bb.Build() // e.g. a first attenuated token handed to somebody else

	if err := bb.AddFact(c07f2Fact("epsilon", biscuit.String("zeta"), biscuit.Integer(2))); err != nil {
		t.Fatalf("adding a new, different fact after Build: %v", err)
	}
	tok2, err := tok.Append(c07f2Zero{}, bb.Build())
	if err != nil {
		t.Fatal(err)
	}
	ser, err := tok2.Serialize()
	if err != nil {
		t.Fatal(err)
	}
	want := [][]string{{`alpha("beta")`}, {`gamma("delta")`, `epsilon("zeta", 2)`}}
	if got := c07f2Decode(t, ser); !reflect.DeepEqual(got, want) {
		t.Errorf("wire content %q, want %q (the caller never supplied epsilon(\"zeta\"))", got, want)
	}
	u, err := biscuit.Unmarshal(ser)
	if err != nil {
		t.Fatal(err)
	}
	if s := u.String(); !strings.Contains(s, `gamma("delta")`) {
		t.Errorf("unmarshalled token lost gamma(\"delta\"): %s", s)
	}
}

// Build twice without any change: the second block must equal the first.
func TestC07BlockBuilderBuildTwice(t *testing.T) {
	tok := c07f2Token(t) // token table: 2 symbols, so the block builder starts at 2

	bb := tok.CreateBlock()
	if err := bb.AddFact(c07f2Fact("gamma", biscuit.String("delta"))); err != nil {
		t.Fatal(err)
	}
	if err := bb.AddFact(c07f2Fact("epsilon", biscuit.String("zeta"))); err != nil {
		t.Fatal(err)
	}
	_ = bb.Build()

	var second *biscuit.Block
	func() {
		defer func() {
			if r := recover(); r != nil {
				t.Fatalf("second Build panicked: %v", r)
			}
		}()
		second = bb.Build()
	}()
	tok2, err := tok.Append(c07f2Zero{}, second)
	if err != nil {
		t.Fatal(err)
	}
	ser, _ := tok2.Serialize()
	want := [][]string{{`alpha("beta")`}, {`gamma("delta")`, `epsilon("zeta")`}}
	if got := c07f2Decode(t, ser); !reflect.DeepEqual(got, want) {
		t.Errorf("second Build of the same block builder: wire content %q, want %q", got, want)
	}
}
