// Package biscuit_test; copy this file to <repo>/c10_finding3_sigpipe_test.go and run
//   go test -run TestC10ExpressionErrorWritesToStdout -count=1 -v .
// (unix only)
package biscuit_test

import (
	"bytes"
	"crypto/ed25519"
	"crypto/rand"
	"fmt"
	"os"
	"os/exec"
	"testing"
	"time"

	"github.com/biscuit-auth/biscuit-go/v2"
	"github.com/biscuit-auth/biscuit-go/v2/datalog"
)

// The verifier process. It never writes to its standard output itself (status
// goes to stderr); its stdout is a pipe whose reader has gone away - the usual
// state of a daemon whose log collector died, or of `verifier | head`.
func c10SigpipeChild() {
	wire, err := os.ReadFile(os.Getenv("C10_TOKEN"))
	if err != nil {
		fmt.Fprintln(os.Stderr, "child: read token:", err)
		os.Exit(3)
	}
	pub, err := os.ReadFile(os.Getenv("C10_KEY"))
	if err != nil {
		fmt.Fprintln(os.Stderr, "child: read key:", err)
		os.Exit(3)
	}
	tok, err := biscuit.Unmarshal(wire)
	if err != nil {
		fmt.Fprintln(os.Stderr, "child: unmarshal:", err)
		os.Exit(3)
	}
	a, err := tok.Authorizer(ed25519.PublicKey(pub), biscuit.WithWorldOptions(datalog.WithMaxDuration(5*time.Second)))
	if err != nil {
		fmt.Fprintln(os.Stderr, "child: authorizer:", err)
		os.Exit(3)
	}
	a.AddPolicy(biscuit.DefaultAllowPolicy)
	err = a.Authorize()
	fmt.Fprintln(os.Stderr, "child: Authorize returned:", err)
	time.Sleep(200 * time.Millisecond)
	fmt.Fprintln(os.Stderr, "child: still alive")
	os.Exit(0)
}

func c10SigpipeToken(t *testing.T, divisor int64) ([]byte, ed25519.PublicKey) {
	rootPub, rootPriv, err := ed25519.GenerateKey(rand.Reader)
	if err != nil {
		t.Fatal(err)
	}
	b := biscuit.NewBuilder(rootPriv)
	// r(1) <- 1 / divisor == 1
	if err := b.AddAuthorityRule(biscuit.Rule{
		Head: biscuit.Predicate{Name: "r", IDs: []biscuit.Term{biscuit.Integer(1)}},
		Expressions: []biscuit.Expression{{
			biscuit.Value{Term: biscuit.Integer(1)},
			biscuit.Value{Term: biscuit.Integer(divisor)},
			biscuit.BinaryDiv,
			biscuit.Value{Term: biscuit.Integer(1)},
			biscuit.BinaryEqual,
		}},
	}); err != nil {
		t.Fatal(err)
	}
	tok, err := b.Build()
	if err != nil {
		t.Fatal(err)
	}
	wire, err := tok.Serialize()
	if err != nil {
		t.Fatal(err)
	}
	return wire, rootPub
}

// c10RunVerifier authorizes the token in a child process whose stdout is a pipe
// without a reader, and returns how the child ended.
func c10RunVerifier(t *testing.T, wire []byte, pub ed25519.PublicKey) (error, string) {
	dir := t.TempDir()
	tokFile, keyFile := dir+"/token", dir+"/key"
	if err := os.WriteFile(tokFile, wire, 0600); err != nil {
		t.Fatal(err)
	}
	if err := os.WriteFile(keyFile, pub, 0600); err != nil {
		t.Fatal(err)
	}
	pr, pw, err := os.Pipe()
	if err != nil {
		t.Fatal(err)
	}
	cmd := exec.Command(os.Args[0], "-test.run=^TestC10ExpressionErrorWritesToStdout$", "-test.count=1")
	cmd.Env = append(os.Environ(), "C10_SIGPIPE_CHILD=1", "C10_TOKEN="+tokFile, "C10_KEY="+keyFile)
	var stderr bytes.Buffer
	cmd.Stdout = pw
	cmd.Stderr = &stderr
	if err := cmd.Start(); err != nil {
		t.Fatal(err)
	}
	pw.Close()
	pr.Close() // nobody reads the verifier's stdout any more
	return cmd.Wait(), stderr.String()
}

func TestC10ExpressionErrorWritesToStdout(t *testing.T) {
	if os.Getenv("C10_SIGPIPE_CHILD") == "1" {
		c10SigpipeChild()
		return
	}

	// control: an ordinary token, r(1) <- 1 / 1 == 1, leaves the verifier alive
	wire, pub := c10SigpipeToken(t, 1)
	if err, log := c10RunVerifier(t, wire, pub); err != nil {
		t.Fatalf("control run failed, the harness is broken: %v\n%s", err, log)
	}

	// attacker token: r(1) <- 1 / 0 == 1 (any failing expression will do: a type
	// mismatch, an unknown variable, an unbalanced stack, an invalid regex ...)
	wire, pub = c10SigpipeToken(t, 0)
	err, log := c10RunVerifier(t, wire, pub)
	if err != nil {
		t.Fatalf("the verifier process was terminated while authorizing a %d byte token: %v\n--- child stderr ---\n%s", len(wire), err, log)
	}
	t.Logf("child survived:\n%s", log)
}
