// Package biscuit (external test package biscuit_test); copy to
// <worktree>/c18_finding1_demo_test.go (module root, next to authorizer.go).
package biscuit_test

import (
	"crypto/ed25519"
	"crypto/rand"
	"errors"
	"testing"
	"time"

	biscuit "github.com/biscuit-auth/biscuit-go/v2"
	"github.com/biscuit-auth/biscuit-go/v2/datalog"
)

func c18Fact(name string, ids ...biscuit.Term) biscuit.Fact {
	return biscuit.Fact{Predicate: biscuit.Predicate{Name: name, IDs: ids}}
}

// Property C18: "Saving is refused once the authorizer has been evaluated."
//
// authorizer.Authorize (and Query) only set the `dirty` flag AFTER world.Run
// returned nil. When Run fails (fact/iteration/time limit, invalid rule) the
// world has already been evaluated: the token's authority facts and rules were
// copied into it and derived facts may have been inserted, yet
// SerializePolicies still succeeds. The resulting "policy snapshot" contains
// the first token's facts; loading it into a fresh authorizer for a different
// (empty) token makes that token pass an allow policy the original, unevaluated
// authorizer content could never satisfy on its own.
func TestC18SaveAfterFailedEvaluationIsNotRefused(t *testing.T) {
	pub, priv, err := ed25519.GenerateKey(rand.Reader)
	if err != nil {
		t.Fatal(err)
	}

	// token A carries rights
	ba := biscuit.NewBuilder(priv)
	for _, f := range []biscuit.Fact{
		c18Fact("right", biscuit.String("file1"), biscuit.String("read")),
		c18Fact("right", biscuit.String("file2"), biscuit.String("read")),
		c18Fact("right", biscuit.String("file3"), biscuit.String("read")),
		c18Fact("right", biscuit.String("file4"), biscuit.String("read")),
	} {
		if err := ba.AddAuthorityFact(f); err != nil {
			t.Fatal(err)
		}
	}
	tokenA, err := ba.Build()
	if err != nil {
		t.Fatal(err)
	}

	// token B carries nothing at all
	tokenB, err := biscuit.NewBuilder(priv).Build()
	if err != nil {
		t.Fatal(err)
	}

	allowRead := biscuit.Policy{Kind: biscuit.PolicyKindAllow, Queries: []biscuit.Rule{{
		Head: biscuit.Predicate{Name: "allow"},
		Body: []biscuit.Predicate{{Name: "right", IDs: []biscuit.Term{biscuit.String("file1"), biscuit.String("read")}}},
	}}}

	// the authorizer for token A runs with a small fact limit (a deterministic
	// way to make world.Run fail; a timeout or an invalid rule do the same)
	azA, err := tokenA.Authorizer(pub, biscuit.WithWorldOptions(
		datalog.WithMaxDuration(5*time.Second),
		datalog.WithMaxFacts(3),
	))
	if err != nil {
		t.Fatal(err)
	}
	azA.AddPolicy(allowRead)

	// reference: what the unevaluated authorizer content does for token B
	ref, err := tokenB.Authorizer(pub, biscuit.WithWorldOptions(datalog.WithMaxDuration(5*time.Second)))
	if err != nil {
		t.Fatal(err)
	}
	ref.AddPolicy(allowRead)
	if err := ref.Authorize(); !errors.Is(err, biscuit.ErrNoMatchingPolicy) {
		t.Fatalf("setup: token B with the bare policy must be denied, got %v", err)
	}

	// evaluate azA: the evaluation fails on the fact limit
	if err := azA.Authorize(); !errors.Is(err, datalog.ErrWorldRunLimitMaxFacts) {
		t.Fatalf("setup: expected the evaluation to hit the fact limit, got %v", err)
	}

	// the authorizer has been evaluated -> saving must be refused
	snapshot, saveErr := azA.SerializePolicies()
	if saveErr != nil {
		return // property holds
	}
	t.Errorf("SerializePolicies succeeded (%d bytes) although Authorize() had already been called on this authorizer", len(snapshot))

	// consequence: the snapshot carries token A's facts into any other token
	azB, err := tokenB.Authorizer(pub, biscuit.WithWorldOptions(datalog.WithMaxDuration(5*time.Second)))
	if err != nil {
		t.Fatal(err)
	}
	if err := azB.LoadPolicies(snapshot); err != nil {
		t.Fatalf("load: %v", err)
	}
	if err := azB.Authorize(); err == nil {
		t.Errorf("restored authorizer ALLOWS the empty token B: the snapshot leaked token A's right(\"file1\",\"read\") fact; world:\n%s", azB.PrintWorld())
	}

	// same defect through Query()
	azQ, err := tokenB.Authorizer(pub, biscuit.WithWorldOptions(
		datalog.WithMaxDuration(5*time.Second),
		datalog.WithMaxFacts(2),
	))
	if err != nil {
		t.Fatal(err)
	}
	azQ.AddFact(c18Fact("a", biscuit.Integer(1)))
	azQ.AddFact(c18Fact("a", biscuit.Integer(2)))
	azQ.AddRule(biscuit.Rule{
		Head: biscuit.Predicate{Name: "derived", IDs: []biscuit.Term{biscuit.Variable("x")}},
		Body: []biscuit.Predicate{{Name: "a", IDs: []biscuit.Term{biscuit.Variable("x")}}},
	})
	if _, err := azQ.Query(biscuit.Rule{Head: biscuit.Predicate{Name: "q"}}); err == nil {
		t.Fatalf("setup: expected Query to fail on the fact limit")
	}
	if _, err := azQ.SerializePolicies(); err == nil {
		t.Errorf("SerializePolicies succeeded after Query() evaluated the world (derived facts are now part of the snapshot):\n%s", azQ.PrintWorld())
	}
}
