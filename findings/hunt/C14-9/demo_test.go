// Package parser; copy to /tmp/wth-C14/parser/c14_finding9_test.go
package parser

import (
	"os"
	"os/exec"
	"strings"
	"testing"
)

// Property: "No input makes a parse function panic" (for all strings).
// The parser recurses once per "(" (Expression -> Expr1..Expr6 -> ExprTerm ->
// Expression, about 60 participle/reflect frames, > 5 KiB of stack per level)
// without any depth limit, so a ~120 KB input exhausts the 1 GB goroutine
// stack. Go reports that as "fatal error: stack overflow", which cannot be
// recovered: the whole process dies. The parse runs in a child process so
// that this test can assert on the outcome. (Takes 1-2 minutes.)
func TestC14DeepNestingHelper(t *testing.T) {
	if os.Getenv("C14_DEEP_CHILD") != "1" {
		t.Skip("helper")
	}
	in := "check if " + strings.Repeat("(", 120000)
	_, err := FromStringCheck(in)
	if err == nil {
		t.Fatal("expected a parse error")
	}
	t.Logf("returned an error as required (%d bytes)", len(err.Error()))
}

func TestC14DeepNestingCrashesProcess(t *testing.T) {
	cmd := exec.Command(os.Args[0], "-test.run=^TestC14DeepNestingHelper$", "-test.v", "-test.timeout=30m")
	cmd.Env = append(os.Environ(), "C14_DEEP_CHILD=1")
	out, err := cmd.CombinedOutput()
	s := string(out)
	if len(s) > 600 {
		s = s[:600] + "..."
	}
	if err != nil {
		t.Fatalf("FromStringCheck on 120000 opening parentheses killed the process (%v):\n%s", err, s)
	}
}
