// Package biscuit; copy this file to <worktree>/c12_finding2_demo_test.go (module root).
//
// C12: the outcome must be a function of the SETS of facts, rules and checks and
// of the ordered list of policies, not of the order in which they were supplied.
// Authorizer.LoadPolicies (authorizer.go, loadPoliciesV2) is one of the ways to
// supply them, and it does not commute with AddFact / AddRule / AddCheck:
//   - it REPLACES v.symbols by "base symbols + symbols of the loaded policies",
//     but keeps the facts and rules already in v.world, whose string indexes were
//     interned in the previous table. They are silently re-interpreted:
//     user("alice") added before the load becomes user("bob") after it.
//   - it REPLACES v.checks and v.policies (make(...)) while it APPENDS facts and
//     rules, so a check added before the load is dropped, the same check added
//     after the load is enforced.
package biscuit

import (
	"crypto/ed25519"
	"crypto/rand"
	"fmt"
	"testing"
	"time"

	"github.com/biscuit-auth/biscuit-go/v2/datalog"
)

func c12f2Token(t *testing.T) (*Biscuit, ed25519.PublicKey) {
	t.Helper()
	pub, priv, err := ed25519.GenerateKey(rand.Reader)
	if err != nil {
		t.Fatal(err)
	}
	tok, err := NewBuilder(priv).Build()
	if err != nil {
		t.Fatal(err)
	}
	return tok, pub
}

func c12f2Authorizer(t *testing.T, tok *Biscuit, pub ed25519.PublicKey) Authorizer {
	t.Helper()
	a, err := tok.Authorizer(pub, WithWorldOptions(datalog.WithMaxDuration(5*time.Second)))
	if err != nil {
		t.Fatal(err)
	}
	return a
}

// serialized form of an authorizer holding only: allow if user("bob")
func c12f2Policies(t *testing.T, tok *Biscuit, pub ed25519.PublicKey) []byte {
	t.Helper()
	src := c12f2Authorizer(t, tok, pub)
	src.AddPolicy(Policy{Kind: PolicyKindAllow, Queries: []Rule{{
		Head: Predicate{Name: "allow"},
		Body: []Predicate{{Name: "user", IDs: []Term{String("bob")}}},
	}}})
	ser, err := src.SerializePolicies()
	if err != nil {
		t.Fatal(err)
	}
	return ser
}

func TestC12Finding2_FactBeforeLoadPoliciesIsReinterpreted(t *testing.T) {
	tok, pub := c12f2Token(t)
	policies := c12f2Policies(t, tok, pub)
	alice := Fact{Predicate: Predicate{Name: "user", IDs: []Term{String("alice")}}}

	// order 1: fact, then policies
	a1 := c12f2Authorizer(t, tok, pub)
	a1.AddFact(alice)
	if err := a1.LoadPolicies(policies); err != nil {
		t.Fatal(err)
	}
	out1 := fmt.Sprint(a1.Authorize())

	// order 2: policies, then fact
	a2 := c12f2Authorizer(t, tok, pub)
	if err := a2.LoadPolicies(policies); err != nil {
		t.Fatal(err)
	}
	a2.AddFact(alice)
	out2 := fmt.Sprint(a2.Authorize())

	if out1 != out2 {
		t.Errorf("same fact user(\"alice\") and same policy `allow if user(\"bob\")`, different outcome:\n"+
			" AddFact then LoadPolicies -> Authorize() = %s\n world: %s\n"+
			" LoadPolicies then AddFact -> Authorize() = %s\n world: %s",
			out1, a1.PrintWorld(), out2, a2.PrintWorld())
	}
	if out1 == "<nil>" {
		t.Errorf("user(\"alice\") was authorized by `allow if user(\"bob\")`: the fact was re-interpreted through the replaced symbol table; world: %s", a1.PrintWorld())
	}
}

func TestC12Finding2_CheckBeforeLoadPoliciesIsDropped(t *testing.T) {
	tok, pub := c12f2Token(t)
	policies := c12f2Policies(t, tok, pub)
	bob := Fact{Predicate: Predicate{Name: "user", IDs: []Term{String("bob")}}}
	// check if admin(true): never satisfied here
	check := Check{Queries: []Rule{{
		Head: Predicate{Name: "query"},
		Body: []Predicate{{Name: "admin", IDs: []Term{Bool(true)}}},
	}}}

	a1 := c12f2Authorizer(t, tok, pub)
	a1.AddCheck(check)
	if err := a1.LoadPolicies(policies); err != nil {
		t.Fatal(err)
	}
	a1.AddFact(bob)
	out1 := fmt.Sprint(a1.Authorize())

	a2 := c12f2Authorizer(t, tok, pub)
	if err := a2.LoadPolicies(policies); err != nil {
		t.Fatal(err)
	}
	a2.AddCheck(check)
	a2.AddFact(bob)
	out2 := fmt.Sprint(a2.Authorize())

	if out1 != out2 {
		t.Errorf("same check, fact and policy, different outcome:\n AddCheck then LoadPolicies -> Authorize() = %s\n LoadPolicies then AddCheck -> Authorize() = %s", out1, out2)
	}
}
