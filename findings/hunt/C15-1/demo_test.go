// Package biscuit_test; copy to <worktree>/c15_hexstring_demo_test.go
// (module root of github.com/biscuit-auth/biscuit-go/v2).
package biscuit_test

import (
	"crypto/ed25519"
	"crypto/rand"
	"reflect"
	"strings"
	"testing"

	"github.com/biscuit-auth/biscuit-go/v2"
	"github.com/biscuit-auth/biscuit-go/v2/parser"
)

// c15HexStatements turns the text returned by Biscuit.Code() for one block
// ("Block {\n <facts>\n <rules>\n <checks>\n }") back into a ';'-terminated
// statement list (strings of the printable domain contain no newline, so
// every statement sits on its own line).
func c15HexStatements(code string) string {
	out := []string{}
	for _, l := range strings.Split(code, "\n") {
		l = strings.TrimSpace(l)
		if l == "" || l == "Block {" || l == "}" {
			continue
		}
		out = append(out, strings.TrimSuffix(l, ";")+";")
	}
	return strings.Join(out, "\n")
}

// A block written in the documented grammar, whose string value comes from a
// documented {parameter}: the string "hex:ab" (no quote, backslash or newline).
func TestC15StringStartingWithHexPrefixDoesNotRoundTrip(t *testing.T) {
	_, root, err := ed25519.GenerateKey(rand.Reader)
	if err != nil {
		t.Fatal(err)
	}
	params := parser.ParametersMap{"id": biscuit.String("hex:ab")}
	src := `key({id}); check if presented($k), $k == {id};`
	original, err := parser.FromStringBlockWithParams(src, params)
	if err != nil {
		t.Fatal(err)
	}
	// sanity: the block really holds a *string*
	if _, ok := original.Facts[0].Predicate.IDs[0].(biscuit.String); !ok {
		t.Fatalf("setup: expected a string term, got %T", original.Facts[0].Predicate.IDs[0])
	}

	builder := biscuit.NewBuilder(root)
	token, err := builder.Build()
	if err != nil {
		t.Fatal(err)
	}
	bb := token.CreateBlock()
	if err := bb.AddBlock(original); err != nil {
		t.Fatal(err)
	}
	token, err = token.Append(rand.Reader, bb.Build())
	if err != nil {
		t.Fatal(err)
	}

	printed := c15HexStatements(token.Code()[0])
	t.Logf("printed block:\n%s", printed)

	reparsed, err := parser.FromStringBlock(printed)
	if err != nil {
		t.Fatalf("printed block does not parse back: %v", err)
	}
	if !reflect.DeepEqual(original, reparsed) {
		t.Fatalf("printed block parses back to different content:\n original: %#v\n reparsed: %#v\n(fact term is %T in the token, %T after re-parsing the printed text)",
			original, reparsed,
			original.Facts[0].Predicate.IDs[0], reparsed.Facts[0].Predicate.IDs[0])
	}
}

// Same thing with a string that is not valid hexadecimal: the printed text is
// rejected by the parser altogether.
func TestC15StringStartingWithHexPrefixPrintedTextIsRejected(t *testing.T) {
	_, root, _ := ed25519.GenerateKey(rand.Reader)
	params := parser.ParametersMap{"id": biscuit.String("hex:user-42")}
	original, err := parser.FromStringBlockWithParams(`key({id});`, params)
	if err != nil {
		t.Fatal(err)
	}
	builder := biscuit.NewBuilder(root)
	token, err := builder.Build()
	if err != nil {
		t.Fatal(err)
	}
	bb := token.CreateBlock()
	if err := bb.AddBlock(original); err != nil {
		t.Fatal(err)
	}
	token, err = token.Append(rand.Reader, bb.Build())
	if err != nil {
		t.Fatal(err)
	}
	printed := c15HexStatements(token.Code()[0])
	t.Logf("printed block:\n%s", printed)
	reparsed, err := parser.FromStringBlock(printed)
	if err != nil {
		t.Fatalf("printed block does not parse back: %v", err)
	}
	if !reflect.DeepEqual(original, reparsed) {
		t.Fatalf("printed block parses back to different content: %#v vs %#v", original, reparsed)
	}
}
