package biscuit

import (
	"crypto/ed25519"
	"crypto/rand"
	"fmt"
	"sync"
	"testing"
	"time"

	"github.com/biscuit-auth/biscuit-go/v2/datalog"
)

// Copy to: <module root>/zz_c19_finding1_test.go (package biscuit)
// Run:     go test -race -run TestC19ProducerOutlivesQuery -count=1 .
//
// A token whose check has a head variable that is not bound by the body makes
// Rule.Apply return InvalidRuleError after the first combination. World.QueryRule
// (called by Authorize for every check) ignores that error and returns, but the
// producer goroutine started by combine() is still walking the facts and
// evaluating the check's expression, which reads and (for string concatenation)
// appends to the authorizer's symbol table. Authorize meanwhile keeps using the
// very same symbol table from the calling goroutine (debug.Check, check.convert,
// policy.convert ...). Each goroutine has its own authorizer and only shares the
// token, yet the race detector reports a data race and the outcomes are no longer
// guaranteed to be those of a sequential run.
func TestC19ProducerOutlivesQuery(t *testing.T) {
	pub, priv, err := ed25519.GenerateKey(rand.Reader)
	if err != nil {
		t.Fatal(err)
	}

	const nFacts = 400
	builder := NewBuilder(priv)
	for i := 0; i < nFacts; i++ {
		if err := builder.AddAuthorityFact(Fact{Predicate{Name: "n", IDs: []Term{String(fmt.Sprintf("a%d", i))}}}); err != nil {
			t.Fatal(err)
		}
	}
	// check if n($x), $x + "s" == "a0s"   -- but with an unbound variable in the head
	badCheck := Check{Queries: []Rule{{
		Head: Predicate{Name: "caveat", IDs: []Term{Variable("unbound")}},
		Body: []Predicate{{Name: "n", IDs: []Term{Variable("x")}}},
		Expressions: []Expression{{
			Value{Variable("x")}, Value{String("s")}, BinaryAdd,
			Value{String("a0s")}, BinaryEqual,
		}},
	}}}
	if err := builder.AddAuthorityCheck(badCheck); err != nil {
		t.Fatal(err)
	}
	// a few more ordinary checks so that Authorize keeps converting rules with
	// the authorizer's symbol table after the bad check has been queried
	for i := 0; i < 20; i++ {
		c := Check{Queries: []Rule{{
			Head: Predicate{Name: "ok"},
			Body: []Predicate{{Name: "n", IDs: []Term{String(fmt.Sprintf("a%d", i))}}, {Name: fmt.Sprintf("fresh_symbol_%d", i), IDs: []Term{Variable("y")}}},
		}}}
		if err := builder.AddAuthorityCheck(c); err != nil {
			t.Fatal(err)
		}
	}
	token, err := builder.Build()
	if err != nil {
		t.Fatal(err)
	}

	run := func() (string, string, error) {
		a, err := token.AuthorizerFor(WithSingularRootPublicKey(pub),
			WithWorldOptions(datalog.WithMaxDuration(30*time.Second), datalog.WithMaxFacts(100000)))
		if err != nil {
			return "", "", err
		}
		a.AddPolicy(DefaultAllowPolicy)
		res := fmt.Sprint(a.Authorize())
		return res, a.PrintWorld(), nil
	}

	wantRes, wantWorld, err := run()
	if err != nil {
		t.Fatal(err)
	}

	var wg sync.WaitGroup
	for g := 0; g < 4; g++ {
		wg.Add(1)
		go func() {
			defer wg.Done()
			for i := 0; i < 5; i++ {
				res, world, err := run()
				if err != nil {
					t.Error(err)
					return
				}
				if res != wantRes {
					t.Errorf("Authorize result differs from the sequential one:\n got %s\nwant %s", res, wantRes)
				}
				if world != wantWorld {
					t.Errorf("world differs from the sequential one")
				}
			}
		}()
	}
	wg.Wait()
}
