// Package biscuit_test; copy this file to <repo root>/c07_finding1_test.go
// (next to biscuit.go, module github.com/biscuit-auth/biscuit-go/v2).
//
// Property C07: the serialized bytes, decoded by an independent reader that
// follows the published schema and symbol rules (default table < 1024, each
// block resolvable from its own and earlier tables), must yield the facts the
// caller supplied. Builder.Build splits the new symbols off the builder's own
// symbol table, so every Build after the first one signs a block whose facts
// point at symbols that are missing from, or different in, the wire table.
package biscuit_test

import (
	"crypto/ed25519"
	"errors"
	"fmt"
	"reflect"
	"strings"
	"testing"

	biscuit "github.com/biscuit-auth/biscuit-go/v2"
	"github.com/biscuit-auth/biscuit-go/v2/datalog"
	"github.com/biscuit-auth/biscuit-go/v2/pb"
	"google.golang.org/protobuf/proto"
)

// c07f1Decode is an independent decoder: protobuf + the published symbol rules only.
func c07f1Decode(t *testing.T, ser []byte) [][]string {
	t.Helper()
	env := new(pb.Biscuit)
	if err := proto.Unmarshal(ser, env); err != nil {
		t.Fatalf("independent decoder: %v", err)
	}
	var table []string // symbols 1024.., cumulative: earlier blocks + own block only
	sym := func(i uint64) string {
		if i < 1024 {
			if i < uint64(len(datalog.DEFAULT_SYMBOLS)) {
				return datalog.DEFAULT_SYMBOLS[i]
			}
			return fmt.Sprintf("<UNRESOLVABLE %d>", i)
		}
		if i-1024 < uint64(len(table)) {
			return table[i-1024]
		}
		return fmt.Sprintf("<UNRESOLVABLE %d>", i)
	}
	var out [][]string
	for _, sb := range append([]*pb.SignedBlock{env.Authority}, env.Blocks...) {
		blk := new(pb.Block)
		if err := proto.Unmarshal(sb.Block, blk); err != nil {
			t.Fatalf("independent decoder: %v", err)
		}
		table = append(table, blk.Symbols...)
		facts := []string{}
		for _, f := range blk.FactsV2 {
			var terms []string
			for _, term := range f.Predicate.Terms {
				switch c := term.Content.(type) {
				case *pb.TermV2_String_:
					terms = append(terms, fmt.Sprintf("%q", sym(c.String_)))
				case *pb.TermV2_Integer:
					terms = append(terms, fmt.Sprintf("%d", c.Integer))
				default:
					terms = append(terms, fmt.Sprintf("%v", term))
				}
			}
			facts = append(facts, sym(f.Predicate.GetName())+"("+strings.Join(terms, ", ")+")")
		}
		out = append(out, facts)
	}
	return out
}

func c07f1Fact(name string, ids ...biscuit.Term) biscuit.Fact {
	return biscuit.Fact{Predicate: biscuit.Predicate{Name: name, IDs: ids}}
}

func c07f1Key() ed25519.PrivateKey {
	return ed25519.NewKeyFromSeed(make([]byte, ed25519.SeedSize))
}

// Build, Build: the second token must carry the same Datalog as the first.
func TestC07BuilderBuildTwice(t *testing.T) {
	b := biscuit.NewBuilder(c07f1Key())
	if err := b.AddAuthorityFact(c07f1Fact("alpha", biscuit.String("beta"))); err != nil {
		t.Fatal(err)
	}
	want := [][]string{{`alpha("beta")`}}

	first, err := b.Build()
	if err != nil {
		t.Fatal(err)
	}
	ser1, _ := first.Serialize()
	if got := c07f1Decode(t, ser1); !reflect.DeepEqual(got, want) {
		t.Fatalf("first Build: wire content %q, want %q", got, want)
	}

	second, err := b.Build()
	if err != nil {
		t.Fatal(err)
	}
	ser2, _ := second.Serialize()
	if got := c07f1Decode(t, ser2); !reflect.DeepEqual(got, want) {
		t.Errorf("second Build of the same builder: wire content %q, want %q", got, want)
	}
}

// Build, add a fact, Build (the sequence commit 7872749 explicitly supports:
// "the builder ... can still be added to").
func TestC07BuilderAddAfterBuild(t *testing.T) {
	b := biscuit.NewBuilder(c07f1Key())
	if err := b.AddAuthorityFact(c07f1Fact("alpha", biscuit.String("beta"))); err != nil {
		t.Fatal(err)
	}
	if _, err := b.Build(); err != nil {
		t.Fatal(err)
	}
	if err := b.AddAuthorityFact(c07f1Fact("gamma", biscuit.String("delta"), biscuit.Integer(1))); err != nil {
		t.Fatalf("adding a new, different fact after Build: %v", err)
	}
	tok, err := b.Build()
	if err != nil {
		t.Fatal(err)
	}
	ser, _ := tok.Serialize()
	want := [][]string{{`alpha("beta")`, `gamma("delta", 1)`}}
	if got := c07f1Decode(t, ser); !reflect.DeepEqual(got, want) {
		t.Errorf("wire content %q, want %q (the caller never supplied gamma(\"delta\"))", got, want)
	}
	// the library's own view after a round trip is wrong in the same way
	u, err := biscuit.Unmarshal(ser)
	if err != nil {
		t.Fatal(err)
	}
	if s := u.String(); !strings.Contains(s, `alpha("beta")`) {
		t.Errorf("unmarshalled token lost alpha(\"beta\"): %s", s)
	}
}

type c07f1FailOnce struct{ failed bool }

func (r *c07f1FailOnce) Read(p []byte) (int, error) {
	if !r.failed {
		r.failed = true
		return 0, errors.New("transient entropy failure")
	}
	for i := range p {
		p[i] = 7
	}
	return len(p), nil
}

// fault point: the first Build fails in the RNG, the caller retries.
func TestC07BuilderRetryAfterFailedBuild(t *testing.T) {
	b := biscuit.NewBuilder(c07f1Key(), biscuit.WithRNG(&c07f1FailOnce{}))
	if err := b.AddAuthorityFact(c07f1Fact("alpha", biscuit.String("beta"))); err != nil {
		t.Fatal(err)
	}
	if _, err := b.Build(); err == nil {
		t.Fatal("expected the first Build to fail")
	}
	tok, err := b.Build()
	if err != nil {
		t.Fatal(err)
	}
	ser, _ := tok.Serialize()
	want := [][]string{{`alpha("beta")`}}
	if got := c07f1Decode(t, ser); !reflect.DeepEqual(got, want) {
		t.Errorf("retry after a failed Build: wire content %q, want %q", got, want)
	}
}
