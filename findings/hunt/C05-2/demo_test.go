// Package datalog; copy to /tmp/wth-C05/datalog/c05_finding2_demo_test.go
//
// C05: World.QueryRule discards the error returned by Rule.Apply. When the
// expression of a rule cannot be evaluated for ONE substitution (type
// mismatch, overflow, division by zero, bad regex ...), combine() stops the
// whole enumeration at that point, and QueryRule hands back whatever had been
// produced before - with no error indication. The result is therefore not the
// set of head instances of all substitutions that make the expression true,
// and it depends on the order of the facts.
package datalog

import (
	"sort"
	"strings"
	"testing"
)

func TestC05Finding2_QueryRuleDropsSubstitutionsAfterExpressionError(t *testing.T) {
	syms := &SymbolTable{}
	p := syms.Insert("p")
	q := syms.Insert("q")
	str := syms.Insert("hello")

	// q($x) <- p($x), $x < 3
	rule := Rule{
		Head: Predicate{Name: q, Terms: []Term{Variable(0)}},
		Body: []Predicate{{Name: p, Terms: []Term{Variable(0)}}},
		Expressions: []Expression{{
			Value{Variable(0)}, Value{Integer(3)}, BinaryOp{LessThan{}},
		}},
	}

	// the same three facts p(1), p(2), p("hello") in three different orders.
	// The substitutions x=1 and x=2 match the body and make `$x < 3` true;
	// x="hello" does not make it true. So the answer is {q(1), q(2)}.
	orders := [][]Term{
		{Integer(1), Integer(2), str},
		{Integer(1), str, Integer(2)},
		{str, Integer(1), Integer(2)},
	}
	want := "q(1) q(2)"

	var results []string
	for _, order := range orders {
		w := NewWorld()
		for _, term := range order {
			w.AddFact(Fact{Predicate{Name: p, Terms: []Term{term}}})
		}
		res := w.QueryRule(rule, syms)
		var l []string
		for _, f := range *res {
			l = append(l, "q("+f.Terms[0].String()+")")
		}
		sort.Strings(l)
		results = append(results, strings.Join(l, " "))
	}

	for i, got := range results {
		if got != want {
			t.Errorf("fact order %v: QueryRule returned {%s}, want {%s} (and no error was reported to the caller)", orders[i], got, want)
		}
	}
	if results[0] != results[1] || results[1] != results[2] {
		t.Errorf("QueryRule result depends on fact order: %q", results)
	}
}
