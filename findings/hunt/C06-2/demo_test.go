// Copy to: datalog/c06_unknown_symbol_demo_test.go   (package datalog)
// Run:     go test ./datalog -run TestC06UnknownSymbolOperands -count=1 -v
package datalog

import "testing"

// A String term is an index into the symbol table. String(5000) with a 1-entry table (and
// String(500), which falls in the unassigned part of the default-symbol range) denote no string at
// all, so every string operator applied to them must report an error. Instead SymbolTable.Str
// fabricates the text "<invalid symbol N>" and the operators silently compute on that text.
func TestC06UnknownSymbolOperands(t *testing.T) {
	newSyms := func() *SymbolTable { return &SymbolTable{"<invalid"} } // String(1024) == "<invalid"

	cases := []struct {
		name string
		expr Expression
	}{
		{"String(5000).length()", Expression{Value{String(5000)}, UnaryOp{Length{}}}},
		{"String(500).length()", Expression{Value{String(500)}, UnaryOp{Length{}}}},
		{"String(5000).starts_with(\"<invalid\")", Expression{Value{String(5000)}, Value{String(1024)}, BinaryOp{Prefix{}}}},
		{"String(5000).ends_with(String(6000))", Expression{Value{String(5000)}, Value{String(6000)}, BinaryOp{Suffix{}}}},
		{"String(5000).contains(\"<invalid\")", Expression{Value{String(5000)}, Value{String(1024)}, BinaryOp{Contains{}}}},
		{"String(5000).matches(\"<invalid\")", Expression{Value{String(5000)}, Value{String(1024)}, BinaryOp{Regex{}}}},
		{"\"<invalid\".matches(String(5000))", Expression{Value{String(1024)}, Value{String(5000)}, BinaryOp{Regex{}}}},
		{"String(5000) + String(5001)", Expression{Value{String(5000)}, Value{String(5001)}, BinaryOp{Add{}}}},
	}

	for _, c := range cases {
		syms := newSyms()
		res, err := c.expr.Evaluate(map[Variable]*Term{}, syms)
		if err == nil {
			t.Errorf("%s: want an error (operand is not a string of the symbol table), got value %v", c.name, res)
		}
		if len(*syms) != 1 {
			t.Errorf("%s: evaluation added fabricated text to the symbol table: %q", c.name, (*syms)[1:])
		}
	}

	// the concrete wrong values, for the record
	res, _ := (&Expression{Value{String(5000)}, UnaryOp{Length{}}}).Evaluate(nil, newSyms())
	if res != nil {
		t.Errorf("String(5000).length() = %v: that is len(\"<invalid symbol 5000>\"), the length of no operand", res)
	}
}
