// Package biscuit_test; copy to <worktree>/c15_builder_reuse_demo_test.go
// (module root of github.com/biscuit-auth/biscuit-go/v2).
package biscuit_test

import (
	"crypto/ed25519"
	"crypto/rand"
	"strings"
	"testing"
	"time"

	"github.com/biscuit-auth/biscuit-go/v2"
	"github.com/biscuit-auth/biscuit-go/v2/datalog"
	"github.com/biscuit-auth/biscuit-go/v2/parser"
)

// c15AuthorityFacts extracts the "facts: [...]" line of the authority block
// from Biscuit.String().
func c15AuthorityFacts(s string) string {
	i := strings.Index(s, "authority: Block {")
	s = s[i:]
	i = strings.Index(s, "facts: ")
	s = s[i:]
	return s[:strings.Index(s, "\n")]
}

// Builder.Build says "the token must not share storage with the builder, which
// can still be added to": build a first token, add to the builder, build again.
func TestC15BuilderReusePrintsOtherFactsThanWritten(t *testing.T) {
	pub, root, err := ed25519.GenerateKey(rand.Reader)
	if err != nil {
		t.Fatal(err)
	}
	first, err := parser.FromStringBlock(`user("alice");`)
	if err != nil {
		t.Fatal(err)
	}
	second, err := parser.FromStringBlock(`owner("bob");`)
	if err != nil {
		t.Fatal(err)
	}

	builder := biscuit.NewBuilder(root)
	if err := builder.AddBlock(first); err != nil {
		t.Fatal(err)
	}
	token1, err := builder.Build()
	if err != nil {
		t.Fatal(err)
	}
	if got := c15AuthorityFacts(token1.String()); got != `facts: [user("alice")]` {
		t.Fatalf("token1: %s", got)
	}

	if err := builder.AddBlock(second); err != nil {
		t.Fatal(err)
	}
	token2, err := builder.Build()
	if err != nil {
		t.Fatal(err)
	}

	// the authority block of token2 was written as: user("alice"); owner("bob");
	want := `facts: [user("alice") owner("bob")]`
	got := c15AuthorityFacts(token2.String())
	if got != want {
		t.Errorf("authority block of the second token prints\n   %s\nbut was written as\n   %s", got, want)
	}

	// and the printed text is the same after serialization, i.e. the wrong
	// fact really is what the token carries
	ser, err := token2.Serialize()
	if err != nil {
		t.Fatal(err)
	}
	token2b, err := biscuit.Unmarshal(ser)
	if err != nil {
		t.Fatal(err)
	}
	if got2 := c15AuthorityFacts(token2b.String()); got2 != want {
		t.Errorf("after serialization the authority block prints\n   %s\nbut was written as\n   %s", got2, want)
	}

	// what the authorizer evaluates: user("bob") instead of user("alice")
	authorizer, err := token2b.Authorizer(pub, biscuit.WithWorldOptions(datalog.WithMaxDuration(5*time.Second)))
	if err != nil {
		t.Fatal(err)
	}
	policy, err := parser.FromStringAuthorizer(`allow if user("alice"), owner("bob");`)
	if err != nil {
		t.Fatal(err)
	}
	authorizer.AddAuthorizer(policy)
	if err := authorizer.Authorize(); err != nil {
		t.Errorf("token written with user(\"alice\"); owner(\"bob\") is refused by `allow if user(\"alice\"), owner(\"bob\")`: %v", err)
	}
}
