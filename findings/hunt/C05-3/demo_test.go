// Package datalog; copy to /tmp/wth-C05/datalog/c05_finding3_demo_test.go
//
// C05: World.Clone copies the FactSet slice header, not the facts, so the
// clone and the original (and every other clone) share one backing array.
// Whenever that array has spare capacity, a fact appended by one world
// (AddFact, or a fact derived by Run) lands in the slot that the other world
// uses for ITS next fact: running one world to completion rewrites the model
// of the other. After both Run calls returned nil, a world contains a fact
// that is not derivable from its own program and lacks one that is.
package datalog

import (
	"testing"
	"time"
)

func c05f3Has(fs *FactSet, name String) bool {
	for _, f := range *fs {
		if f.Name == name {
			return true
		}
	}
	return false
}

func TestC05Finding3_CloneSharesFactStorage(t *testing.T) {
	syms := &SymbolTable{}
	p := syms.Insert("p")
	a := syms.Insert("a")
	b := syms.Insert("b")

	base := NewWorld(WithMaxDuration(5 * time.Second))
	base.AddFact(Fact{Predicate{Name: p, Terms: []Term{Integer(0)}}})
	// make sure the backing array has room for one more fact (true after 3
	// appends with every Go release so far, the loop makes it independent of that)
	for i := 1; len(*base.Facts()) == cap(*base.Facts()); i++ {
		base.AddFact(Fact{Predicate{Name: p, Terms: []Term{Integer(i)}}})
	}
	n := len(*base.Facts())

	// two independent programs over the same base facts
	w1 := base.Clone()
	w1.AddRule(Rule{Head: Predicate{Name: a}, Body: []Predicate{{Name: p, Terms: []Term{Integer(0)}}}}) // a() <- p(0)
	w2 := base.Clone()
	w2.AddRule(Rule{Head: Predicate{Name: b}, Body: []Predicate{{Name: p, Terms: []Term{Integer(0)}}}}) // b() <- p(0)

	if err := w1.Run(syms); err != nil {
		t.Fatal(err)
	}
	if !c05f3Has(w1.Facts(), a) || len(*w1.Facts()) != n+1 {
		t.Fatalf("unexpected model right after w1.Run: %v", *w1.Facts())
	}

	if err := w2.Run(syms); err != nil {
		t.Fatal(err)
	}

	// least model of w1's program: base facts + a(). Nothing else.
	if !c05f3Has(w1.Facts(), a) {
		t.Errorf("w1 lost its derived fact a() when w2 was run; w1 model: %v", *w1.Facts())
	}
	if c05f3Has(w1.Facts(), b) {
		t.Errorf("w1 contains b(), which no rule of w1 derives (it was written by w2.Run); w1 model: %v", *w1.Facts())
	}
	// and w2's: base facts + b()
	if !c05f3Has(w2.Facts(), b) || c05f3Has(w2.Facts(), a) {
		t.Errorf("w2 model wrong: %v", *w2.Facts())
	}
}
