// Package biscuit_test; copy this file to <repo root>/c07_finding4_test.go
// (next to biscuit.go, module github.com/biscuit-auth/biscuit-go/v2).
//
// Property C07: the bytes, decoded according to the published schema, yield
// the terms the caller supplied. The schema's date term is
// "uint64 date = 4": unsigned seconds since the UNIX epoch. biscuit.Date
// accepts any time.Time; Date.convert does datalog.Date(time.Time(a).Unix()),
// which turns a negative Unix time (any instant before 1970, including the
// zero time.Time) into a value of about 2^64: the token is built without
// error and says "some 584 billion years from now" where the caller said
// "1969". The library's own Datalog engine compares dates as unsigned too,
// so the rewritten value also changes what the token authorizes.
package biscuit_test

import (
	"crypto/ed25519"
	"math"
	"testing"
	"time"

	biscuit "github.com/biscuit-auth/biscuit-go/v2"
	"github.com/biscuit-auth/biscuit-go/v2/datalog"
	"github.com/biscuit-auth/biscuit-go/v2/pb"
	"google.golang.org/protobuf/proto"
)

type c07f4Rng struct{}

func (c07f4Rng) Read(p []byte) (int, error) {
	for i := range p {
		p[i] = 4
	}
	return len(p), nil
}

func TestC07DateBeforeEpochOnTheWire(t *testing.T) {
	priv := ed25519.NewKeyFromSeed(make([]byte, ed25519.SeedSize))
	supplied := time.Date(1969, 12, 31, 23, 59, 55, 0, time.UTC)

	b := biscuit.NewBuilder(priv, biscuit.WithRNG(c07f4Rng{}))
	err := b.AddAuthorityFact(biscuit.Fact{Predicate: biscuit.Predicate{
		Name: "expires", IDs: []biscuit.Term{biscuit.Date(supplied)},
	}})
	if err != nil {
		t.Skipf("refused (fine): %v", err)
	}
	tok, err := b.Build()
	if err != nil {
		t.Skipf("refused (fine): %v", err) // an error is an acceptable outcome
	}
	ser, err := tok.Serialize()
	if err != nil {
		t.Fatal(err)
	}

	// independent decoder, schema only
	env := new(pb.Biscuit)
	if err := proto.Unmarshal(ser, env); err != nil {
		t.Fatal(err)
	}
	blk := new(pb.Block)
	if err := proto.Unmarshal(env.Authority.Block, blk); err != nil {
		t.Fatal(err)
	}
	term, ok := blk.FactsV2[0].Predicate.Terms[0].Content.(*pb.TermV2_Date)
	if !ok {
		t.Fatalf("not a date term: %v", blk.FactsV2[0])
	}
	// uint64 seconds since 1970-01-01T00:00:00Z
	secs := term.Date
	if secs > math.MaxInt64 {
		yearsAfterEpoch := float64(secs) / (365.25 * 24 * 3600)
		t.Errorf("caller supplied %s, wire date is %d seconds after the epoch (about %.3g years in the future)",
			supplied.Format(time.RFC3339), secs, yearsAfterEpoch)
	} else if got := time.Unix(int64(secs), 0).UTC(); !got.Equal(supplied) {
		t.Errorf("caller supplied %s, wire date is %s", supplied.Format(time.RFC3339), got.Format(time.RFC3339))
	}
}

// The caller's check says "only valid until 1969-12-31T23:59:55Z"; the token
// that comes out is valid for ever.
func TestC07ExpiredBeforeEpochTokenNeverExpires(t *testing.T) {
	priv := ed25519.NewKeyFromSeed(make([]byte, ed25519.SeedSize))
	pub := priv.Public().(ed25519.PublicKey)
	expiry := time.Date(1969, 12, 31, 23, 59, 55, 0, time.UTC)

	b := biscuit.NewBuilder(priv, biscuit.WithRNG(c07f4Rng{}))
	// check if time($t), $t <= 1969-12-31T23:59:55Z
	err := b.AddAuthorityCheck(biscuit.Check{Queries: []biscuit.Rule{{
		Head: biscuit.Predicate{Name: "query"},
		Body: []biscuit.Predicate{{Name: "time", IDs: []biscuit.Term{biscuit.Variable("t")}}},
		Expressions: []biscuit.Expression{{
			biscuit.Value{Term: biscuit.Variable("t")},
			biscuit.Value{Term: biscuit.Date(expiry)},
			biscuit.BinaryLessOrEqual,
		}},
	}}})
	if err != nil {
		t.Skipf("refused (fine): %v", err)
	}
	tok, err := b.Build()
	if err != nil {
		t.Skipf("refused (fine): %v", err)
	}
	ser, _ := tok.Serialize()
	u, err := biscuit.Unmarshal(ser)
	if err != nil {
		t.Fatal(err)
	}
	a, err := u.Authorizer(pub, biscuit.WithWorldOptions(datalog.WithMaxDuration(5*time.Second)))
	if err != nil {
		t.Fatal(err)
	}
	now := time.Date(2024, 1, 1, 0, 0, 0, 0, time.UTC)
	a.AddFact(biscuit.Fact{Predicate: biscuit.Predicate{Name: "time", IDs: []biscuit.Term{biscuit.Date(now)}}})
	a.AddPolicy(biscuit.DefaultAllowPolicy)
	if err := a.Authorize(); err == nil {
		t.Errorf("token with check  time($t), $t <= %s  was authorized at %s",
			expiry.Format(time.RFC3339), now.Format(time.RFC3339))
	}
}
