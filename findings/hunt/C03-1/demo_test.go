// Package biscuit_test; copy this file to <worktree>/c03_finding1_demo_test.go
// (the module root, next to authorizer.go) and run
//   go test -run 'TestC03LaterBlockSymbols' -count=1 .
package biscuit_test

import (
	"crypto/ed25519"
	"crypto/rand"
	"encoding/binary"
	"fmt"
	"sort"
	"strings"
	"testing"
	"time"

	biscuit "github.com/biscuit-auth/biscuit-go/v2"
	"github.com/biscuit-auth/biscuit-go/v2/datalog"
	"github.com/biscuit-auth/biscuit-go/v2/parser"
	"github.com/biscuit-auth/biscuit-go/v2/pb"
	"google.golang.org/protobuf/proto"
)

// c03Sign builds a one-block (authority only) token around a hand-written
// protobuf block, signed with the given root key.
func c03Sign(t *testing.T, root ed25519.PrivateKey, authority *pb.Block) []byte {
	t.Helper()
	raw, err := proto.Marshal(authority)
	if err != nil {
		t.Fatal(err)
	}
	nextPub, nextPriv, err := ed25519.GenerateKey(rand.Reader)
	if err != nil {
		t.Fatal(err)
	}
	alg := pb.PublicKey_Ed25519
	payload := append([]byte{}, raw...)
	algBytes := make([]byte, 4)
	binary.LittleEndian.PutUint32(algBytes, uint32(alg))
	payload = append(payload, algBytes...)
	payload = append(payload, nextPub...)
	out, err := proto.Marshal(&pb.Biscuit{
		Authority: &pb.SignedBlock{
			Block:     raw,
			NextKey:   &pb.PublicKey{Algorithm: &alg, Key: nextPub},
			Signature: ed25519.Sign(root, payload),
		},
		Proof: &pb.Proof{Content: &pb.Proof_NextSecret{NextSecret: nextPriv.Seed()}},
	})
	if err != nil {
		t.Fatal(err)
	}
	return out
}

// c03Observe authorizes the token with the given authorizer source and returns
// the outcome of Authorize and the sorted result set of the query.
func c03Observe(t *testing.T, tok *biscuit.Biscuit, root ed25519.PublicKey, authorizer, query string) (string, string) {
	t.Helper()
	a, err := tok.Authorizer(root, biscuit.WithWorldOptions(datalog.WithMaxDuration(5*time.Second)))
	if err != nil {
		t.Fatal(err)
	}
	pa, err := parser.FromStringAuthorizer(authorizer)
	if err != nil {
		t.Fatal(err)
	}
	a.AddAuthorizer(pa)
	outcome := "authorized"
	if err := a.Authorize(); err != nil {
		outcome = err.Error()
	}
	q, err := parser.FromStringRule(query)
	if err != nil {
		t.Fatal(err)
	}
	facts, err := a.Query(q)
	if err != nil {
		t.Fatal(err)
	}
	var res []string
	for _, f := range facts {
		res = append(res, f.String())
	}
	sort.Strings(res)
	return outcome, strings.Join(res, " | ")
}

// The authority block declares ONE symbol ("file1", index 1024) but its fact
// right(#1025) names index 1025, which no symbol table of the token T defines.
// A later holder appends, through the public API, an ordinary check-free block
// that only says resource("file2"): its new symbol "file2" lands on index 1025.
// Authorize resolves the authority facts against the symbols of ALL blocks, so
// the appended block turns the authority fact into right("file2"): the policy
// flips from "no matching policy" to "authorized" and the authorizer query
// returns a different fact.
func TestC03LaterBlockSymbolsChangePolicyAndQuery(t *testing.T) {
	pub, priv, err := ed25519.GenerateKey(rand.Reader)
	if err != nil {
		t.Fatal(err)
	}
	version := uint32(3)
	right := uint64(4) // "right" in the default symbol table
	authority := &pb.Block{
		Symbols: []string{"file1"},
		Version: &version,
		FactsV2: []*pb.FactV2{{Predicate: &pb.PredicateV2{
			Name:  &right,
			Terms: []*pb.TermV2{{Content: &pb.TermV2_String_{String_: 1025}}},
		}}},
	}

	tokT, err := biscuit.Unmarshal(c03Sign(t, priv, authority))
	if err != nil {
		t.Fatal(err)
	}

	// T plus one check-free block, built with the public builder API
	bb := tokT.CreateBlock()
	if err := bb.AddFact(biscuit.Fact{Predicate: biscuit.Predicate{
		Name: "resource", IDs: []biscuit.Term{biscuit.String("file2")},
	}}); err != nil {
		t.Fatal(err)
	}
	tokTB, err := tokT.Append(rand.Reader, bb.Build())
	if err != nil {
		t.Fatal(err)
	}
	ser, err := tokTB.Serialize()
	if err != nil {
		t.Fatal(err)
	}
	tokTB, err = biscuit.Unmarshal(ser)
	if err != nil {
		t.Fatal(err)
	}

	const authorizer = `allow if right("file2");`
	const query = `q($x) <- right($x)`

	outT, qT := c03Observe(t, tokT, pub, authorizer, query)
	outTB, qTB := c03Observe(t, tokTB, pub, authorizer, query)
	t.Logf("T      : Authorize=%q  Query=%s", outT, qT)
	t.Logf("T + blk: Authorize=%q  Query=%s", outTB, qTB)

	if outT != outTB {
		t.Errorf("a check-free later block changed the policy outcome: without it %q, with it %q", outT, outTB)
	}
	if qT != qTB {
		t.Errorf("a check-free later block changed the authorizer query result: without it [%s], with it [%s]", qT, qTB)
	}
}

// Same mechanism between two non-authority blocks: block 1 carries
// check if owner(#1025), where index 1025 is defined neither by the authority
// (which declares only "file1" = 1024) nor by block 1 (no symbols). Block 2 is
// check-free and only adds the fact note("alice") through the public API; its
// symbols "alice" and "note" take indexes 1025 and 1026, so block 1's check now
// reads owner("alice"), which the authorizer fact owner("alice") satisfies:
// block 1's check flips from failing to passing only because block 2 exists.
func TestC03LaterBlockSymbolsChangeOtherBlocksCheck(t *testing.T) {
	pub, priv, err := ed25519.GenerateKey(rand.Reader)
	if err != nil {
		t.Fatal(err)
	}
	b := biscuit.NewBuilder(priv)
	if err := b.AddAuthorityFact(biscuit.Fact{Predicate: biscuit.Predicate{
		Name: "resource", IDs: []biscuit.Term{biscuit.String("file1")}, // "file1" -> 1024
	}}); err != nil {
		t.Fatal(err)
	}
	tok, err := b.Build()
	if err != nil {
		t.Fatal(err)
	}
	ser, err := tok.Serialize()
	if err != nil {
		t.Fatal(err)
	}

	// append a hand-written block 1 to the serialized token
	container := new(pb.Biscuit)
	if err := proto.Unmarshal(ser, container); err != nil {
		t.Fatal(err)
	}
	version := uint32(3)
	owner := uint64(7) // "owner" in the default symbol table
	block1 := &pb.Block{
		Version: &version,
		ChecksV2: []*pb.CheckV2{{Queries: []*pb.RuleV2{{
			Head: &pb.PredicateV2{Name: &owner},
			Body: []*pb.PredicateV2{{
				Name:  &owner,
				Terms: []*pb.TermV2{{Content: &pb.TermV2_String_{String_: 1025}}},
			}},
		}}}},
	}
	raw, err := proto.Marshal(block1)
	if err != nil {
		t.Fatal(err)
	}
	nextPub, nextPriv, err := ed25519.GenerateKey(rand.Reader)
	if err != nil {
		t.Fatal(err)
	}
	alg := pb.PublicKey_Ed25519
	payload := append([]byte{}, raw...)
	algBytes := make([]byte, 4)
	binary.LittleEndian.PutUint32(algBytes, uint32(alg))
	payload = append(payload, algBytes...)
	payload = append(payload, nextPub...)
	container.Blocks = append(container.Blocks, &pb.SignedBlock{
		Block:     raw,
		NextKey:   &pb.PublicKey{Algorithm: &alg, Key: nextPub},
		Signature: ed25519.Sign(ed25519.NewKeyFromSeed(container.Proof.GetNextSecret()), payload),
	})
	container.Proof = &pb.Proof{Content: &pb.Proof_NextSecret{NextSecret: nextPriv.Seed()}}
	ser, err = proto.Marshal(container)
	if err != nil {
		t.Fatal(err)
	}
	tokT, err := biscuit.Unmarshal(ser)
	if err != nil {
		t.Fatal(err)
	}

	// block 2: check-free, public API
	bb := tokT.CreateBlock()
	if err := bb.AddFact(biscuit.Fact{Predicate: biscuit.Predicate{
		Name: "note", IDs: []biscuit.Term{biscuit.String("alice")},
	}}); err != nil {
		t.Fatal(err)
	}
	tokTB, err := tokT.Append(rand.Reader, bb.Build())
	if err != nil {
		t.Fatal(err)
	}

	const authorizer = `owner("alice"); allow if true;`
	outT, _ := c03Observe(t, tokT, pub, authorizer, `q($x) <- owner($x)`)
	outTB, _ := c03Observe(t, tokTB, pub, authorizer, `q($x) <- owner($x)`)
	t.Logf("T      : Authorize=%q", outT)
	t.Logf("T + blk: Authorize=%q", outTB)
	if outT != outTB {
		t.Errorf("the check of block 1 depends on a check-free block 2: %s", fmt.Sprintf("without block 2 %q, with block 2 %q", outT, outTB))
	}
}
