// Package parser; copy to /tmp/wth-C14/parser/c14_finding3_test.go
package parser

import (
	"testing"

	"github.com/biscuit-auth/biscuit-go/v2"
)

// GRAMMAR.md: "string is any utf8 character sequence, between double quotes"
// and the String section gives the example  $s.matches("^abc\s+def$") .
// The lexer pattern "[^"]*" takes the characters literally (no escape can
// hide a quote), but participle.Unquote("String") then runs Go's
// strconv.UnquoteChar over the body, so every backslash is interpreted as a
// Go escape: unknown escapes are a parse error, known ones change the value.
func TestC14BackslashInString(t *testing.T) {
	p := New()

	// the documented example, verbatim
	c, err := p.Check(`check if name($s), $s.matches("^abc\s+def$")`, nil)
	if err != nil {
		t.Errorf("documented example rejected: %v", err)
	} else {
		got := c.Queries[0].Expressions[0][1]
		if got != biscuit.Op(biscuit.Value{Term: biscuit.String(`^abc\s+def$`)}) {
			t.Errorf("documented example: got %v", got)
		}
	}

	for _, re := range []string{`a\.b`, `\d+`, `C:\dir`} {
		if _, err := p.Fact(`f("`+re+`")`, nil); err != nil {
			t.Errorf("string %q rejected: %v", re, err)
		}
	}

	// a sequence that happens to be a Go escape is silently rewritten
	f, err := p.Fact(`f("\x41\t")`, nil)
	if err != nil {
		t.Fatalf("unexpected error: %v", err)
	}
	if f.IDs[0] != biscuit.Term(biscuit.String(`\x41\t`)) {
		t.Errorf(`f("\x41\t"): the 6 characters between the quotes became %q`, string(f.IDs[0].(biscuit.String)))
	}
}
