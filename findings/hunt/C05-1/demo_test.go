// Package datalog; copy to /tmp/wth-C05/datalog/c05_finding1_demo_test.go
//
// C05: Set.Equal is not an equivalence relation for Set terms that carry a
// repeated element (e.g. the literal [1, 1], which the parser and the protobuf
// converters both accept and keep as a 2-element datalog.Set). Because
// FactSet.Insert, Predicate.Match and MatchedVariables.Insert are all built on
// it, the fact store drops distinct facts depending on insertion order, body
// constants match facts they are not equal to, and repeated variables unify
// with different values.
package datalog

import (
	"testing"
	"time"
)

func c05f1Has(fs *FactSet, name String, nterms int) int {
	n := 0
	for _, f := range *fs {
		if f.Name == name && len(f.Terms) == nterms {
			n++
		}
	}
	return n
}

func TestC05Finding1_SetWithRepeatedElement(t *testing.T) {
	syms := &SymbolTable{}
	p := syms.Insert("p")
	q := syms.Insert("q")
	a := syms.Insert("a")
	b := syms.Insert("b")
	same := syms.Insert("same")

	s11 := Set{Integer(1), Integer(1)} // the set {1}
	s12 := Set{Integer(1), Integer(2)} // the set {1,2}
	s13 := Set{Integer(1), Integer(3)} // the set {1,3}

	// (1) fact store: p([1,1]) and p([1,2]) are different facts under any
	// reading, so both must be in the model whatever the insertion order.
	for _, order := range [][]Set{{s11, s12}, {s12, s11}} {
		w := NewWorld(WithMaxDuration(5 * time.Second))
		for _, s := range order {
			w.AddFact(Fact{Predicate{Name: p, Terms: []Term{s}}})
		}
		if err := w.Run(syms); err != nil {
			t.Fatal(err)
		}
		if got := len(*w.Facts()); got != 2 {
			t.Errorf("fact order %v: model has %d facts %v, want the 2 distinct facts p([1,1]) and p([1,2])", order, got, *w.Facts())
		}
	}

	// (2) constant matching: q() <- p([1,3]) must not fire on the single fact p([1,1]).
	{
		w := NewWorld(WithMaxDuration(5 * time.Second))
		w.AddFact(Fact{Predicate{Name: p, Terms: []Term{s11}}})
		w.AddRule(Rule{
			Head: Predicate{Name: q},
			Body: []Predicate{{Name: p, Terms: []Term{s13}}},
		})
		if err := w.Run(syms); err != nil {
			t.Fatal(err)
		}
		if n := c05f1Has(w.Facts(), q, 0); n != 0 {
			t.Errorf("q() was derived from p([1,1]) by the rule q() <- p([1,3]); model: %v", *w.Facts())
		}
	}

	// (3) repeated variable: same() <- a($x), b($x) with a([1,2]) and b([1,1])
	// has no consistent substitution.
	{
		w := NewWorld(WithMaxDuration(5 * time.Second))
		w.AddFact(Fact{Predicate{Name: a, Terms: []Term{s12}}})
		w.AddFact(Fact{Predicate{Name: b, Terms: []Term{s11}}})
		r := Rule{
			Head: Predicate{Name: same},
			Body: []Predicate{
				{Name: a, Terms: []Term{Variable(0)}},
				{Name: b, Terms: []Term{Variable(0)}},
			},
		}
		if res := w.QueryRule(r, syms); len(*res) != 0 {
			t.Errorf("QueryRule(same() <- a($x), b($x)) over a([1,2]), b([1,1]) returned %v, want nothing", *res)
		}
	}

	// root cause
	if s11.Equal(s12) != s12.Equal(s11) {
		t.Errorf("Set.Equal is asymmetric: [1,1].Equal([1,2])=%v, [1,2].Equal([1,1])=%v", s11.Equal(s12), s12.Equal(s11))
	}
}
