// Package biscuit_test; copy to <worktree>/c15_bangstring_demo_test.go
// (module root of github.com/biscuit-auth/biscuit-go/v2).
package biscuit_test

import (
	"crypto/ed25519"
	"crypto/rand"
	"reflect"
	"strings"
	"testing"

	"github.com/biscuit-auth/biscuit-go/v2"
	"github.com/biscuit-auth/biscuit-go/v2/parser"
)

func c15BangStatements(code string) string {
	out := []string{}
	for _, l := range strings.Split(code, "\n") {
		l = strings.TrimSpace(l)
		if l == "" || l == "Block {" || l == "}" {
			continue
		}
		out = append(out, strings.TrimSuffix(l, ";")+";")
	}
	return strings.Join(out, "\n")
}

// The one-character string "!" (no quote, backslash or newline) used as an
// operand of an expression.
func TestC15BangStringInExpressionDoesNotRoundTrip(t *testing.T) {
	_, root, err := ed25519.GenerateKey(rand.Reader)
	if err != nil {
		t.Fatal(err)
	}
	params := parser.ParametersMap{"sep": biscuit.String("!")}
	src := `check if separator($s), $s == {sep};`
	original, err := parser.FromStringBlockWithParams(src, params)
	if err != nil {
		t.Fatal(err)
	}

	builder := biscuit.NewBuilder(root)
	token, err := builder.Build()
	if err != nil {
		t.Fatal(err)
	}
	bb := token.CreateBlock()
	if err := bb.AddBlock(original); err != nil {
		t.Fatal(err)
	}
	token, err = token.Append(rand.Reader, bb.Build())
	if err != nil {
		t.Fatal(err)
	}

	// printing is stable across serialization ...
	ser, err := token.Serialize()
	if err != nil {
		t.Fatal(err)
	}
	again, err := biscuit.Unmarshal(ser)
	if err != nil {
		t.Fatal(err)
	}
	if token.Code()[0] != again.Code()[0] {
		t.Fatalf("printed form changed across serialization")
	}

	// ... but what is printed cannot be read back
	printed := c15BangStatements(token.Code()[0])
	t.Logf("printed block:\n%s", printed)
	reparsed, err := parser.FromStringBlock(printed)
	if err != nil {
		t.Fatalf("printed block does not parse back: %v", err)
	}
	if !reflect.DeepEqual(original, reparsed) {
		t.Fatalf("printed block parses back to different content:\n original: %#v\n reparsed: %#v", original, reparsed)
	}
}
