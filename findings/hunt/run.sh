#!/bin/bash
# usage: run.sh <finding-dir-name> [commit-ish (default HEAD)] ; exit status of the demo
F=$(dirname $0)/$1; REV=${2:-HEAD}
export GOFLAGS=-mod=mod GOPROXY=off GOSUMDB=off GOTOOLCHAIN=local
S=$(mktemp -d /tmp/huntrun-XXXX); trap "rm -rf $S" EXIT
git -C /repo archive $REV | tar -x -C $S
loc=$(jq -r .demo_location $F/meta.json)
# demo_location texts are free-form: take the first path ending in _test.go; a bare file name goes to the root
dest=$(echo "$loc" | grep -o '[A-Za-z0-9_./-]*_test\.go' | head -1 | sed 's#^/tmp/wth-C[0-9]*/##; s#^<module root>/##')
[ -z "$dest" ] && dest=zz_demo_test.go
pkg=$(grep -m1 '^package' $F/demo_test.go | awk '{print $2}')
case "$pkg" in datalog|datalog_test) d=datalog;; parser|parser_test) d=parser;; *) d=.;; esac
cp $F/demo_test.go $S/$d/zz_hunt_demo_test.go
names=$(grep -o '^func Test[A-Za-z0-9_]*' $F/demo_test.go | sed 's/func //' | paste -sd'|' -)
cd $S && go test -vet=off -count=1 ${RACE:+-race} -run "^($names)\$" ./$d 2>&1 | tail -${LINES:-8}
exit ${PIPESTATUS[0]}
