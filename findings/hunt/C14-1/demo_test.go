// Package parser; copy to /tmp/wth-C14/parser/c14_finding1_test.go
package parser

import (
	"testing"

	"github.com/biscuit-auth/biscuit-go/v2"
)

// GRAMMAR.md: "integer is any base-10 int64". Negative int64 values are
// therefore documented terms, yet no parse function accepts them.
func TestC14NegativeIntegerLiteral(t *testing.T) {
	p := New()

	f, err := p.Fact(`balance(-1)`, nil)
	if err != nil {
		t.Errorf("fact balance(-1): documented int64 literal rejected: %v", err)
	} else if len(f.IDs) != 1 || f.IDs[0] != biscuit.Term(biscuit.Integer(-1)) {
		t.Errorf("fact balance(-1): got %v, want balance(-1)", f)
	}

	if _, err := p.Fact(`balance(-9223372036854775808)`, nil); err != nil {
		t.Errorf("fact with math.MinInt64 rejected: %v", err)
	}

	c, err := p.Check(`check if balance($b), $b > -5`, nil)
	if err != nil {
		t.Fatalf("check with negative literal rejected: %v", err)
	}
	want := biscuit.Expression{
		biscuit.Value{Term: biscuit.Variable("b")},
		biscuit.Value{Term: biscuit.Integer(-5)},
		biscuit.BinaryGreaterThan,
	}
	if len(c.Queries) != 1 || len(c.Queries[0].Expressions) != 1 || len(c.Queries[0].Expressions[0]) != len(want) {
		t.Fatalf("unexpected check: %+v", c)
	}
	for i := range want {
		if c.Queries[0].Expressions[0][i] != want[i] {
			t.Errorf("op %d: got %v want %v", i, c.Queries[0].Expressions[0][i], want[i])
		}
	}
}
