// Copy to: parser/c06_dupset_demo_test.go   (package parser)
// Run:     go test ./parser -run TestC06DuplicateSetElements -count=1 -v
package parser

import (
	"crypto/ed25519"
	"crypto/rand"
	"testing"
	"time"

	biscuit "github.com/biscuit-auth/biscuit-go/v2"
	"github.com/biscuit-auth/biscuit-go/v2/datalog"
)

func c06EvalBool(t *testing.T, ops ...datalog.Op) bool {
	t.Helper()
	e := datalog.Expression(ops)
	res, err := e.Evaluate(map[datalog.Variable]*datalog.Term{}, &datalog.SymbolTable{})
	if err != nil {
		t.Fatalf("unexpected evaluation error: %v", err)
	}
	b, ok := res.(datalog.Bool)
	if !ok {
		t.Fatalf("expected a Bool, got %T (%v)", res, res)
	}
	return bool(b)
}

func c06Authorize(t *testing.T, check string) error {
	t.Helper()
	pub, priv, err := ed25519.GenerateKey(rand.Reader)
	if err != nil {
		t.Fatal(err)
	}
	tok, err := biscuit.NewBuilder(priv).Build()
	if err != nil {
		t.Fatal(err)
	}
	a, err := tok.Authorizer(pub, biscuit.WithWorldOptions(datalog.WithMaxDuration(5*time.Second)))
	if err != nil {
		t.Fatal(err)
	}
	c, err := FromStringCheck(check)
	if err != nil {
		t.Fatalf("parse %q: %v", check, err)
	}
	a.AddCheck(c)
	a.AddPolicy(biscuit.DefaultAllowPolicy)
	return a.Authorize()
}

func TestC06DuplicateSetElements(t *testing.T) {
	i := func(n int64) datalog.Term { return datalog.Integer(n) }
	s11 := datalog.Set{i(1), i(1)} // what `[1, 1]` parses to, and what a protobuf TermSet{1,1} converts to
	s12 := datalog.Set{i(1), i(2)}
	s1 := datalog.Set{i(1)}
	eq := datalog.BinaryOp{BinaryOpFunc: datalog.Equal{}}

	// 1. equality: {1} (written [1,1]) and {1,2} are different sets, whichever way you read the literal.
	l2r := c06EvalBool(t, datalog.Value{ID: s11}, datalog.Value{ID: s12}, eq)
	r2l := c06EvalBool(t, datalog.Value{ID: s12}, datalog.Value{ID: s11}, eq)
	if l2r {
		t.Errorf("[1, 1] == [1, 2] evaluated to true; the sets differ (2 is not a member of the left one)")
	}
	if l2r != r2l {
		t.Errorf("set equality is not symmetric: [1,1]==[1,2] is %v but [1,2]==[1,1] is %v", l2r, r2l)
	}

	// 2. the same mathematical set compares unequal to itself
	if !c06EvalBool(t, datalog.Value{ID: s11}, datalog.Value{ID: s1}, eq) {
		t.Errorf("[1, 1] == [1] evaluated to false although both denote the set {1}")
	}

	// 3. union / length: {1} U {2} has 2 members
	e := datalog.Expression{
		datalog.Value{ID: s1}, datalog.Value{ID: datalog.Set{i(2), i(2)}}, datalog.BinaryOp{BinaryOpFunc: datalog.Union{}},
		datalog.UnaryOp{UnaryOpFunc: datalog.Length{}},
	}
	res, err := e.Evaluate(nil, &datalog.SymbolTable{})
	if err != nil {
		t.Fatal(err)
	}
	if res != datalog.Integer(2) {
		t.Errorf("[1].union([2, 2]).length() = %v, want 2", res)
	}

	// 4. end to end through the public parser + authorizer: a check that is false is accepted.
	if err := c06Authorize(t, `check if [1, 1] == [1, 2]`); err == nil {
		t.Errorf("authorizer accepted `check if [1, 1] == [1, 2]`")
	}
	if err := c06Authorize(t, `check if [1].union([2, 2]).length() == 2`); err != nil {
		t.Errorf("authorizer rejected `check if [1].union([2, 2]).length() == 2`: %v", err)
	}
}
