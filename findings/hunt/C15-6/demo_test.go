// Package biscuit_test; copy to <worktree>/c15_blockbuilder_reuse_demo_test.go
// (module root of github.com/biscuit-auth/biscuit-go/v2).
package biscuit_test

import (
	"crypto/ed25519"
	"crypto/rand"
	"reflect"
	"strings"
	"testing"

	"github.com/biscuit-auth/biscuit-go/v2"
	"github.com/biscuit-auth/biscuit-go/v2/parser"
)

func c15BBStatements(code string) string {
	out := []string{}
	for _, l := range strings.Split(code, "\n") {
		l = strings.TrimSpace(l)
		if l == "" || l == "Block {" || l == "}" {
			continue
		}
		out = append(out, strings.TrimSuffix(l, ";")+";")
	}
	return strings.Join(out, "\n")
}

// One attenuation block, built twice from the same BlockBuilder (e.g. to
// attenuate the token for two different recipients).
func TestC15BlockBuilderBuiltTwicePrintsInvalidSymbols(t *testing.T) {
	_, root, err := ed25519.GenerateKey(rand.Reader)
	if err != nil {
		t.Fatal(err)
	}
	authority, err := parser.FromStringBlock(`user("alice");`)
	if err != nil {
		t.Fatal(err)
	}
	attenuation, err := parser.FromStringBlock(`check if resource("file1"), operation("read");`)
	if err != nil {
		t.Fatal(err)
	}

	builder := biscuit.NewBuilder(root)
	if err := builder.AddBlock(authority); err != nil {
		t.Fatal(err)
	}
	token, err := builder.Build()
	if err != nil {
		t.Fatal(err)
	}

	bb := token.CreateBlock()
	if err := bb.AddBlock(attenuation); err != nil {
		t.Fatal(err)
	}

	for i := 0; i < 2; i++ {
		attenuated, err := token.Append(rand.Reader, bb.Build())
		if err != nil {
			t.Fatalf("append #%d: %v", i, err)
		}
		printed := c15BBStatements(attenuated.Code()[0])
		t.Logf("Build() #%d prints: %s", i+1, printed)
		reparsed, err := parser.FromStringBlock(printed)
		if err != nil {
			t.Errorf("Build() #%d: printed block does not parse back: %v", i+1, err)
			continue
		}
		if !reflect.DeepEqual(attenuation, reparsed) {
			t.Errorf("Build() #%d: printed block parses back to different content:\n written:  %#v\n reparsed: %#v", i+1, attenuation, reparsed)
		}
	}
}
