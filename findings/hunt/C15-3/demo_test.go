// Package biscuit_test; copy to <worktree>/c15_deepnesting_demo_test.go
// (module root of github.com/biscuit-auth/biscuit-go/v2).
package biscuit_test

import (
	"crypto/ed25519"
	"crypto/rand"
	"reflect"
	"strings"
	"testing"

	"github.com/biscuit-auth/biscuit-go/v2"
	"github.com/biscuit-auth/biscuit-go/v2/parser"
)

func c15DeepStatements(code string) string {
	out := []string{}
	for _, l := range strings.Split(code, "\n") {
		l = strings.TrimSpace(l)
		if l == "" || l == "Block {" || l == "}" {
			continue
		}
		out = append(out, strings.TrimSuffix(l, ";")+";")
	}
	return strings.Join(out, "\n")
}

func c15DeepRoundTrip(t *testing.T, depth int) {
	_, root, err := ed25519.GenerateKey(rand.Reader)
	if err != nil {
		t.Fatal(err)
	}
	// check if 1 + (1 + (1 + ( ... 1 ... ))) > 0;   -- plain documented grammar,
	// non-negative integer literals only
	src := "check if " + strings.Repeat("1 + (", depth) + "1" + strings.Repeat(")", depth) + " > 0;"
	original, err := parser.FromStringBlock(src)
	if err != nil {
		t.Fatalf("source does not parse: %v", err)
	}

	builder := biscuit.NewBuilder(root)
	token, err := builder.Build()
	if err != nil {
		t.Fatal(err)
	}
	bb := token.CreateBlock()
	if err := bb.AddBlock(original); err != nil {
		t.Fatal(err)
	}
	token, err = token.Append(rand.Reader, bb.Build())
	if err != nil {
		t.Fatal(err)
	}

	printed := c15DeepStatements(token.Code()[0])
	if len(printed) < 200 {
		t.Logf("printed block: %s", printed)
	}
	if strings.Contains(printed, "<invalid expression") {
		t.Errorf("depth %d: the printer replaced a well-formed check by %q", depth, printed)
	}
	reparsed, err := parser.FromStringBlock(printed)
	if err != nil {
		t.Fatalf("depth %d: printed block does not parse back: %v", depth, err)
	}
	if !reflect.DeepEqual(original, reparsed) {
		t.Fatalf("depth %d: printed block parses back to different content", depth)
	}
}

// control: one level less round-trips perfectly
func TestC15DeepNesting999RoundTrips(t *testing.T) { c15DeepRoundTrip(t, 999) }

// 1000 levels of right-nesting: Print gives up
func TestC15DeepNesting1000DoesNotRoundTrip(t *testing.T) { c15DeepRoundTrip(t, 1000) }
