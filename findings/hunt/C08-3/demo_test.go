// Package biscuit_test; copy this file to /tmp/wth-C08/c08_finding3_test.go
// (the root directory of module github.com/biscuit-auth/biscuit-go/v2).
package biscuit_test

import (
	"crypto/ed25519"
	"crypto/rand"
	"encoding/binary"
	"strings"
	"testing"
	"time"

	biscuit "github.com/biscuit-auth/biscuit-go/v2"
	"github.com/biscuit-auth/biscuit-go/v2/datalog"
	"github.com/biscuit-auth/biscuit-go/v2/pb"
	"google.golang.org/protobuf/proto"
)

// c08f3Craft signs a one-block token around a hand-written pb.Block.
func c08f3Craft(t *testing.T, priv ed25519.PrivateKey, blk *pb.Block) []byte {
	t.Helper()
	raw, err := proto.Marshal(blk)
	if err != nil {
		t.Fatal(err)
	}
	nextPub, nextPriv, _ := ed25519.GenerateKey(rand.Reader)
	alg := make([]byte, 4)
	binary.LittleEndian.PutUint32(alg, uint32(pb.PublicKey_Ed25519))
	toSign := append(append(append([]byte{}, raw...), alg...), nextPub...)
	a := pb.PublicKey_Ed25519
	env := &pb.Biscuit{
		Authority: &pb.SignedBlock{
			Block:     raw,
			NextKey:   &pb.PublicKey{Algorithm: &a, Key: nextPub},
			Signature: ed25519.Sign(priv, toSign),
		},
		Proof: &pb.Proof{Content: &pb.Proof_NextSecret{NextSecret: nextPriv.Seed()}},
	}
	out, err := proto.Marshal(env)
	if err != nil {
		t.Fatal(err)
	}
	return out
}

func c08f3Authorize(t *testing.T, tok *biscuit.Biscuit, pub ed25519.PublicKey, facts ...biscuit.Fact) error {
	t.Helper()
	a, err := tok.Authorizer(pub, biscuit.WithWorldOptions(datalog.WithMaxDuration(5*time.Second)))
	if err != nil {
		t.Fatal(err)
	}
	for _, f := range facts {
		a.AddFact(f)
	}
	a.AddPolicy(biscuit.DefaultAllowPolicy)
	return a.Authorize()
}

// c08f3Authority returns the rendering of the authority block only.
func c08f3Authority(tok *biscuit.Biscuit) string {
	s := tok.String()
	s = s[strings.Index(s, "authority: Block {"):]
	return s[:strings.Index(s, "blocks: [")]
}

// The authority block of the token holds a check whose predicate name is the
// symbol index 1025, one past the end of the token's symbol table (the block
// declares the single symbol "alpha" = 1024). Unmarshal accepts it. Appending
// an unrelated block (one fact, no check) that introduces one new symbol
// rebinds that index: the ALREADY BUILT AND SIGNED authority block reads
// differently in the derived token, and a request that the parent refuses is
// accepted by the attenuated token.
func TestC08AppendRebindsDanglingSymbolOfEarlierBlock(t *testing.T) {
	pub, priv, _ := ed25519.GenerateKey(rand.Reader)

	name := uint64(1025) // no such symbol in the token
	head := uint64(27)   // "query", a default symbol
	ser := c08f3Craft(t, priv, &pb.Block{
		Symbols: []string{"alpha"},
		Version: proto.Uint32(3),
		ChecksV2: []*pb.CheckV2{{Queries: []*pb.RuleV2{{
			Head: &pb.PredicateV2{Name: &head},
			Body: []*pb.PredicateV2{{
				Name:  &name,
				Terms: []*pb.TermV2{{Content: &pb.TermV2_Integer{Integer: 1}}},
			}},
		}}}},
	})

	parent, err := biscuit.Unmarshal(ser)
	if err != nil {
		// refusing the token would be a correct behaviour
		t.Skipf("token refused: %v", err)
	}
	parentAuthority := c08f3Authority(parent)
	request := biscuit.Fact{Predicate: biscuit.Predicate{Name: "beta", IDs: []biscuit.Term{biscuit.Integer(1)}}}
	parentOutcome := c08f3Authorize(t, parent, pub, request)
	if parentOutcome == nil {
		t.Fatalf("the parent is expected to refuse the request")
	}

	bb := parent.CreateBlock()
	if err := bb.AddFact(biscuit.Fact{Predicate: biscuit.Predicate{Name: "beta", IDs: []biscuit.Term{biscuit.Integer(7)}}}); err != nil {
		t.Fatal(err)
	}
	child, err := parent.Append(rand.Reader, bb.Build())
	if err != nil {
		t.Fatal(err)
	}

	if got := c08f3Authority(child); got != parentAuthority {
		t.Errorf("appending a block changed the content of the authority block:\nparent: %s\nchild:  %s", parentAuthority, got)
	}
	if childOutcome := c08f3Authorize(t, child, pub, request); childOutcome == nil {
		t.Errorf("the parent refuses the request (%v) but the token attenuated with a check-less block accepts it", parentOutcome)
	}
	// the parent itself is unchanged
	if got := c08f3Authority(parent); got != parentAuthority {
		t.Errorf("parent changed: %s", got)
	}
}
