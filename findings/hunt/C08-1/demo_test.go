// Package biscuit_test; copy this file to /tmp/wth-C08/c08_finding1_test.go
// (the root directory of module github.com/biscuit-auth/biscuit-go/v2).
package biscuit_test

import (
	"crypto/ed25519"
	"crypto/rand"
	"strings"
	"testing"
	"time"

	biscuit "github.com/biscuit-auth/biscuit-go/v2"
	"github.com/biscuit-auth/biscuit-go/v2/datalog"
)

func c08f1Check(name string, n int64) biscuit.Check {
	return biscuit.Check{Queries: []biscuit.Rule{{
		// "query" is a default symbol: the head adds nothing to the block's symbol table
		Head: biscuit.Predicate{Name: "query"},
		Body: []biscuit.Predicate{{Name: name, IDs: []biscuit.Term{biscuit.Integer(n)}}},
	}}}
}

func c08f1Fact(name string, n int64) biscuit.Fact {
	return biscuit.Fact{Predicate: biscuit.Predicate{Name: name, IDs: []biscuit.Term{biscuit.Integer(n)}}}
}

func c08f1Authorize(t *testing.T, tok *biscuit.Biscuit, pub ed25519.PublicKey, facts ...biscuit.Fact) error {
	t.Helper()
	a, err := tok.Authorizer(pub, biscuit.WithWorldOptions(datalog.WithMaxDuration(5*time.Second)))
	if err != nil {
		t.Fatal(err)
	}
	for _, f := range facts {
		a.AddFact(f)
	}
	a.AddPolicy(biscuit.DefaultAllowPolicy)
	return a.Authorize()
}

// lastBlock returns the rendering of the last block of the token.
func c08f1LastBlock(tok *biscuit.Biscuit) string {
	s := tok.String()
	return s[strings.LastIndex(s, "Block {"):]
}

// Two blocks are created from the same parent, each by its own builder, each
// with its own check. Appending one after the other is accepted by the
// library, but the second block no longer contains what its caller put in:
// its "check if beta(1)" has silently become "check if alpha(1)".
func TestC08SiblingBlocksAppendedInSequence(t *testing.T) {
	pub, priv, _ := ed25519.GenerateKey(rand.Reader)

	b := biscuit.NewBuilder(priv)
	if err := b.AddAuthorityFact(biscuit.Fact{Predicate: biscuit.Predicate{
		Name: "user", IDs: []biscuit.Term{biscuit.String("alice")}}}); err != nil {
		t.Fatal(err)
	}
	parent, err := b.Build()
	if err != nil {
		t.Fatal(err)
	}

	bb1 := parent.CreateBlock()
	bb2 := parent.CreateBlock()
	if err := bb1.AddCheck(c08f1Check("alpha", 1)); err != nil {
		t.Fatal(err)
	}
	if err := bb2.AddCheck(c08f1Check("beta", 1)); err != nil {
		t.Fatal(err)
	}
	blk1 := bb1.Build()
	blk2 := bb2.Build()

	// reference: the second block on its own parent is what its caller wrote
	ref, err := parent.Append(rand.Reader, blk2)
	if err != nil {
		t.Fatal(err)
	}
	if got := c08f1LastBlock(ref); !strings.Contains(got, "checks: [check if beta(1)]") {
		t.Fatalf("reference token: unexpected block: %s", got)
	}
	if err := c08f1Authorize(t, ref, pub, c08f1Fact("alpha", 1)); err == nil {
		t.Fatalf("reference token must be refused without beta(1)")
	}

	a, err := parent.Append(rand.Reader, blk1)
	if err != nil {
		t.Fatal(err)
	}
	ab, err := a.Append(rand.Reader, blk2)
	if err != nil {
		// refusing the block would be a correct behaviour
		t.Skipf("append refused: %v", err)
	}

	if got := c08f1LastBlock(ab); !strings.Contains(got, "checks: [check if beta(1)]") {
		t.Errorf("the block built with \"check if beta(1)\" does not contain it once appended: %s", got)
	}

	// the rewritten check is what gets signed and serialized
	ser, err := ab.Serialize()
	if err != nil {
		t.Fatal(err)
	}
	u, err := biscuit.Unmarshal(ser)
	if err != nil {
		t.Fatal(err)
	}
	if got := c08f1LastBlock(u); !strings.Contains(got, "checks: [check if beta(1)]") {
		t.Errorf("after Unmarshal(Serialize()): block does not contain \"check if beta(1)\": %s", got)
	}

	// and the restriction the caller asked for is gone: beta(1) is not required any more
	if err := c08f1Authorize(t, ab, pub, c08f1Fact("alpha", 1)); err == nil {
		t.Errorf("token carrying a block built with \"check if beta(1)\" is authorized without beta(1)")
	}
}
