// Package: biscuit_test (external test package of github.com/biscuit-auth/biscuit-go/v2)
// Copy to: <worktree>/c04_finding3_demo_test.go
// Run:     go test -count=1 -run TestC04PreEpochAuthorizerDate .
package biscuit_test

import (
	"crypto/ed25519"
	"crypto/rand"
	"strings"
	"testing"
	"time"

	"github.com/biscuit-auth/biscuit-go/v2"
	"github.com/biscuit-auth/biscuit-go/v2/datalog"
)

func c04f3Time(t biscuit.Term) biscuit.Predicate {
	return biscuit.Predicate{Name: "time", IDs: []biscuit.Term{t}}
}

func c04f3Cmp(op biscuit.BinaryOp, bound time.Time) biscuit.Check {
	// check if time($t), $t <op> bound
	return biscuit.Check{Queries: []biscuit.Rule{{
		Head: biscuit.Predicate{Name: "query"},
		Body: []biscuit.Predicate{c04f3Time(biscuit.Variable("t"))},
		Expressions: []biscuit.Expression{{
			biscuit.Value{Term: biscuit.Variable("t")},
			biscuit.Value{Term: biscuit.Date(bound)},
			op,
		}},
	}}}
}

var (
	c04f3Y1960 = time.Date(1960, 1, 1, 0, 0, 0, 0, time.UTC)
	c04f3Y2000 = time.Date(2000, 1, 1, 0, 0, 0, 0, time.UTC)
	c04f3Y2020 = time.Date(2020, 1, 1, 0, 0, 0, 0, time.UTC)
)

// The token carries `check if time($t), $t >= 2020-01-01T00:00:00Z` ("not valid
// before 2020"). The authorizer states time(1960-01-01T00:00:00Z). 1960 is
// before 2020, the expression is error-free and false for the only time fact,
// so the authority check has no satisfied query and Authorize must report a
// verification failure. It returns nil: Date.convert (types.go) turns the
// negative Unix time into datalog.Date(uint64) without a range check, so 1960
// becomes 18446744073393932416 seconds and compares greater than every real date.
func TestC04PreEpochAuthorizerDate_WrongAllow(t *testing.T) {
	pub, priv, err := ed25519.GenerateKey(rand.Reader)
	if err != nil {
		t.Fatal(err)
	}
	b := biscuit.NewBuilder(priv)
	if err := b.AddAuthorityCheck(c04f3Cmp(biscuit.BinaryGreaterOrEqual, c04f3Y2020)); err != nil {
		t.Fatal(err)
	}
	tok, err := b.Build()
	if err != nil {
		t.Fatal(err)
	}
	a, err := tok.Authorizer(pub, biscuit.WithWorldOptions(datalog.WithMaxDuration(5*time.Second)))
	if err != nil {
		t.Fatal(err)
	}
	a.AddFact(biscuit.Fact{Predicate: c04f3Time(biscuit.Date(c04f3Y1960))})
	a.AddPolicy(biscuit.DefaultAllowPolicy)

	got := a.Authorize()
	if got == nil {
		t.Fatalf("time(1960-01-01) does not satisfy `$t >= 2020-01-01`: the authority check fails and "+
			"Authorize must report a verification failure, but it returned nil (request allowed)\n%s", a.PrintWorld())
	}
	if !strings.Contains(got.Error(), "failed to verify block 0 check #0") {
		t.Fatalf("want a failure of block 0 check #0, got %v", got)
	}
}

// Other direction: authorizer check `check if time($t), $t < 2000-01-01` with
// time(1960-01-01) is satisfied, the first matching policy is allow, so the
// verdict must be nil; the library reports a check failure.
func TestC04PreEpochAuthorizerDate_WrongDeny(t *testing.T) {
	pub, priv, err := ed25519.GenerateKey(rand.Reader)
	if err != nil {
		t.Fatal(err)
	}
	tok, err := biscuit.NewBuilder(priv).Build()
	if err != nil {
		t.Fatal(err)
	}
	a, err := tok.Authorizer(pub, biscuit.WithWorldOptions(datalog.WithMaxDuration(5*time.Second)))
	if err != nil {
		t.Fatal(err)
	}
	a.AddFact(biscuit.Fact{Predicate: c04f3Time(biscuit.Date(c04f3Y1960))})
	a.AddCheck(c04f3Cmp(biscuit.BinaryLessThan, c04f3Y2000))
	a.AddPolicy(biscuit.DefaultAllowPolicy)

	if got := a.Authorize(); got != nil {
		t.Fatalf("time(1960-01-01) satisfies `$t < 2000-01-01`, every check holds and the first matching "+
			"policy is allow: want nil, got %v\n%s", got, a.PrintWorld())
	}
}
