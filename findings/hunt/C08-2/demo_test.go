// Package biscuit_test; copy this file to /tmp/wth-C08/c08_finding2_test.go
// (the root directory of module github.com/biscuit-auth/biscuit-go/v2).
package biscuit_test

import (
	"crypto/ed25519"
	"crypto/rand"
	"fmt"
	"strings"
	"testing"

	biscuit "github.com/biscuit-auth/biscuit-go/v2"
)

func c08f2Check(name string, n int64) biscuit.Check {
	return biscuit.Check{Queries: []biscuit.Rule{{
		Head: biscuit.Predicate{Name: "query"}, // default symbol
		Body: []biscuit.Predicate{{Name: name, IDs: []biscuit.Term{biscuit.Integer(n)}}},
	}}}
}

func c08f2Fact(name string, n int64) biscuit.Fact {
	return biscuit.Fact{Predicate: biscuit.Predicate{Name: name, IDs: []biscuit.Term{biscuit.Integer(n)}}}
}

func c08f2LastBlock(tok *biscuit.Biscuit) string {
	s := tok.String()
	return s[strings.LastIndex(s, "Block {"):]
}

func c08f2Parent(t *testing.T, facts ...string) *biscuit.Biscuit {
	t.Helper()
	_, priv, _ := ed25519.GenerateKey(rand.Reader)
	b := biscuit.NewBuilder(priv)
	for _, f := range facts {
		if err := b.AddAuthorityFact(c08f2Fact(f, 0)); err != nil {
			t.Fatal(err)
		}
	}
	p, err := b.Build()
	if err != nil {
		t.Fatal(err)
	}
	return p
}

// Build-block on a block builder changes the builder: the first Build leaves
// it with a symbol table that no longer matches the indexes held by its facts
// and checks. Every later block from the same builder contains something else
// than what the caller put in.
func TestC08BlockBuilderBuildTwice(t *testing.T) {
	parent := c08f2Parent(t, "zero") // parent symbol table: ["zero"]

	bb := parent.CreateBlock()
	if err := bb.AddCheck(c08f2Check("alpha", 1)); err != nil {
		t.Fatal(err)
	}
	if err := bb.AddCheck(c08f2Check("omega", 2)); err != nil {
		t.Fatal(err)
	}
	blk1 := bb.Build()
	blk2 := bb.Build() // nothing was added in between

	t1, err := parent.Append(rand.Reader, blk1)
	if err != nil {
		t.Fatal(err)
	}
	t2, err := parent.Append(rand.Reader, blk2)
	if err != nil {
		t.Fatal(err)
	}
	want := "checks: [check if alpha(1), check if omega(2)]"
	if got := c08f2LastBlock(t1); !strings.Contains(got, want) {
		t.Fatalf("first block: %s", got)
	}
	if got := c08f2LastBlock(t2); !strings.Contains(got, want) {
		t.Errorf("second Build of the same builder: want %s, got %s", want, got)
	}
}

func TestC08BlockBuilderAddAfterBuild(t *testing.T) {
	parent := c08f2Parent(t, "zero")

	bb := parent.CreateBlock()
	if err := bb.AddCheck(c08f2Check("alpha", 1)); err != nil {
		t.Fatal(err)
	}
	blk1 := bb.Build()
	if err := bb.AddCheck(c08f2Check("beta", 2)); err != nil {
		t.Fatal(err)
	}
	blk2 := bb.Build()

	t1, err := parent.Append(rand.Reader, blk1)
	if err != nil {
		t.Fatal(err)
	}
	if got := c08f2LastBlock(t1); !strings.Contains(got, "checks: [check if alpha(1)]") {
		t.Fatalf("first block: %s", got)
	}
	t2, err := parent.Append(rand.Reader, blk2)
	if err != nil {
		t.Fatal(err)
	}
	want := "checks: [check if alpha(1), check if beta(2)]"
	if got := c08f2LastBlock(t2); !strings.Contains(got, want) {
		t.Errorf("block built after one more AddCheck: want %s, got %s", want, got)
	}
}

func TestC08BlockBuilderBuildTwicePanics(t *testing.T) {
	parent := c08f2Parent(t, "zero", "one") // parent symbol table: ["zero" "one"]

	bb := parent.CreateBlock()
	if err := bb.AddCheck(c08f2Check("alpha", 1)); err != nil {
		t.Fatal(err)
	}
	_ = bb.Build()
	func() {
		defer func() {
			if r := recover(); r != nil {
				t.Errorf("second Build of the same builder panicked: %s", fmt.Sprint(r))
			}
		}()
		_ = bb.Build()
	}()
}
