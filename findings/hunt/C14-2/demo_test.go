// Package parser; copy to /tmp/wth-C14/parser/c14_finding2_test.go
package parser

import (
	"testing"

	"github.com/biscuit-auth/biscuit-go/v2"
)

// GRAMMAR.md: "integer is any base-10 int64". The Int token ([0-9]+) is
// converted by participle with strconv.ParseInt(s, 0, 64), i.e. base
// auto-detection: a leading 0 switches to octal.
func TestC14LeadingZeroIntegerIsOctal(t *testing.T) {
	p := New()

	f, err := p.Fact(`code(010)`, nil)
	if err != nil {
		t.Fatalf("code(010) rejected: %v", err)
	}
	if f.IDs[0] != biscuit.Term(biscuit.Integer(10)) {
		t.Errorf("code(010): base-10 literal 010 parsed as %v, want 10", f.IDs[0])
	}

	c, err := p.Check(`check if $x == 0100`, nil)
	if err != nil {
		t.Fatalf("check rejected: %v", err)
	}
	if got := c.Queries[0].Expressions[0][1]; got != biscuit.Op(biscuit.Value{Term: biscuit.Integer(100)}) {
		t.Errorf("0100 in an expression parsed as %v, want 100", got)
	}

	// and the digits 8 and 9 make the same kind of literal a syntax error
	if _, err := p.Fact(`code(09)`, nil); err != nil {
		t.Errorf("code(09): base-10 literal rejected: %v", err)
	}
}
