// Package biscuit_test; copy this file to <repo>/c10_finding1_race_test.go and run
//   go test -race -run TestC10CheckProducerOutlivesApply -count=1 .
package biscuit_test

import (
	"crypto/ed25519"
	"crypto/rand"
	"fmt"
	"testing"
	"time"

	"github.com/biscuit-auth/biscuit-go/v2"
	"github.com/biscuit-auth/biscuit-go/v2/datalog"
)

// An attacker-signed token (attacker-chosen root key, so that evaluation is
// reached) carries checks whose head holds a variable that is not bound by the
// body:
//
//	q($unbound) <- s($x), ($x + "kN").starts_with($x)
//
// Rule.Apply returns InvalidRuleError on the first combination it receives,
// but the producer goroutine started by combine() is not joined: it goes on
// evaluating the next combination, and "$x + \"kN\"" interns a new string in
// the authorizer's symbol table (SymbolTable.Insert -> append) from that
// library-owned goroutine, while Authorize - which ignores the error in
// QueryRule - is already reading and appending to the very same symbol table
// on the caller's goroutine (debug.Check, check.convert of the next check).
//
// One single call of Authorize() on bytes from the network therefore performs
// unsynchronised concurrent appends/reads of a []string: a torn slice header
// makes either goroutine read past the old backing array (memory-unsafe read,
// "unexpected fault address" is not recoverable by the caller).
//
// The property asserted here: during Unmarshal + Authorize of a token the
// library must not touch shared state from two goroutines without
// synchronisation. `go test -race` turns the violation into a test failure.
func TestC10CheckProducerOutlivesApply(t *testing.T) {
	rootPub, rootPriv, err := ed25519.GenerateKey(rand.Reader)
	if err != nil {
		t.Fatal(err)
	}

	b := biscuit.NewBuilder(rootPriv)
	for i := 0; i < 40; i++ {
		if err := b.AddAuthorityFact(biscuit.Fact{Predicate: biscuit.Predicate{
			Name: "s", IDs: []biscuit.Term{biscuit.String(fmt.Sprintf("v%d", i))},
		}}); err != nil {
			t.Fatal(err)
		}
	}
	for i := 0; i < 40; i++ {
		check := biscuit.Check{Queries: []biscuit.Rule{{
			Head: biscuit.Predicate{Name: "q", IDs: []biscuit.Term{biscuit.Variable("unbound")}},
			Body: []biscuit.Predicate{{Name: "s", IDs: []biscuit.Term{biscuit.Variable("x")}}},
			Expressions: []biscuit.Expression{{
				biscuit.Value{Term: biscuit.Variable("x")},
				biscuit.Value{Term: biscuit.String(fmt.Sprintf("k%d", i))},
				biscuit.BinaryAdd,
				biscuit.Value{Term: biscuit.Variable("x")},
				biscuit.BinaryPrefix,
			}},
		}}}
		if err := b.AddAuthorityCheck(check); err != nil {
			t.Fatal(err)
		}
	}
	tok, err := b.Build()
	if err != nil {
		t.Fatal(err)
	}
	wire, err := tok.Serialize()
	if err != nil {
		t.Fatal(err)
	}

	// the verifier side: only bytes and a 32-byte public key
	for round := 0; round < 20; round++ {
		parsed, err := biscuit.Unmarshal(wire)
		if err != nil {
			t.Fatal(err)
		}
		a, err := parsed.Authorizer(rootPub, biscuit.WithWorldOptions(datalog.WithMaxDuration(5*time.Second)))
		if err != nil {
			t.Fatal(err)
		}
		a.AddPolicy(biscuit.DefaultAllowPolicy)
		if err := a.Authorize(); err == nil {
			t.Fatal("the checks cannot succeed")
		}
	}
	// give the abandoned producers time to finish so the detector sees them
	time.Sleep(100 * time.Millisecond)
}
