// Package biscuit_test; copy this file to <repo root>/c07_finding3_test.go
// (next to biscuit.go, module github.com/biscuit-auth/biscuit-go/v2).
//
// Property C07: every block on the wire, decoded with the published symbol
// rules (each block resolvable from its own and EARLIER tables), yields the
// Datalog the caller put into that block. A *Block carries symbol indexes that
// are only meaningful relative to the table of the token it was created from,
// but Append accepts it for any token: it only checks that the block's NEW
// symbols are not already known. Appending two blocks prepared from the same
// token (a legal CreateBlock / Build / Append order) therefore silently signs
// the second block with indexes that name the first block's symbols.
package biscuit_test

import (
	"crypto/ed25519"
	"fmt"
	"reflect"
	"strings"
	"testing"
	"time"

	biscuit "github.com/biscuit-auth/biscuit-go/v2"
	"github.com/biscuit-auth/biscuit-go/v2/datalog"
	"github.com/biscuit-auth/biscuit-go/v2/pb"
	"google.golang.org/protobuf/proto"
)

// c07f3Decode is an independent decoder: protobuf + the published symbol rules only.
func c07f3Decode(t *testing.T, ser []byte) [][]string {
	t.Helper()
	env := new(pb.Biscuit)
	if err := proto.Unmarshal(ser, env); err != nil {
		t.Fatalf("independent decoder: %v", err)
	}
	var table []string // symbols 1024.., cumulative: earlier blocks + own block only
	sym := func(i uint64) string {
		if i < 1024 {
			if i < uint64(len(datalog.DEFAULT_SYMBOLS)) {
				return datalog.DEFAULT_SYMBOLS[i]
			}
			return fmt.Sprintf("<UNRESOLVABLE %d>", i)
		}
		if i-1024 < uint64(len(table)) {
			return table[i-1024]
		}
		return fmt.Sprintf("<UNRESOLVABLE %d>", i)
	}
	pred := func(p *pb.PredicateV2) string {
		var terms []string
		for _, term := range p.Terms {
			switch c := term.Content.(type) {
			case *pb.TermV2_String_:
				terms = append(terms, fmt.Sprintf("%q", sym(c.String_)))
			case *pb.TermV2_Integer:
				terms = append(terms, fmt.Sprintf("%d", c.Integer))
			default:
				terms = append(terms, fmt.Sprintf("%v", term))
			}
		}
		return sym(p.GetName()) + "(" + strings.Join(terms, ", ") + ")"
	}
	var out [][]string
	for _, sb := range append([]*pb.SignedBlock{env.Authority}, env.Blocks...) {
		blk := new(pb.Block)
		if err := proto.Unmarshal(sb.Block, blk); err != nil {
			t.Fatalf("independent decoder: %v", err)
		}
		table = append(table, blk.Symbols...)
		lines := []string{}
		for _, f := range blk.FactsV2 {
			lines = append(lines, pred(f.Predicate))
		}
		for _, c := range blk.ChecksV2 {
			var qs []string
			for _, q := range c.Queries {
				var body []string
				for _, p := range q.Body {
					body = append(body, pred(p))
				}
				qs = append(qs, strings.Join(body, ", "))
			}
			lines = append(lines, "check if "+strings.Join(qs, " or "))
		}
		out = append(out, lines)
	}
	return out
}

type c07f3Rng struct{}

func (c07f3Rng) Read(p []byte) (int, error) {
	for i := range p {
		p[i] = 3
	}
	return len(p), nil
}

func c07f3Token(t *testing.T) (*biscuit.Biscuit, ed25519.PublicKey) {
	t.Helper()
	priv := ed25519.NewKeyFromSeed(make([]byte, ed25519.SeedSize))
	b := biscuit.NewBuilder(priv)
	if err := b.AddAuthorityFact(biscuit.Fact{Predicate: biscuit.Predicate{Name: "right", IDs: []biscuit.Term{biscuit.String("everything")}}}); err != nil {
		t.Fatal(err)
	}
	tok, err := b.Build()
	if err != nil {
		t.Fatal(err)
	}
	return tok, priv.Public().(ed25519.PublicKey)
}

func c07f3Check(file string) biscuit.Check {
	return biscuit.Check{Queries: []biscuit.Rule{{
		Head: biscuit.Predicate{Name: "query"},
		Body: []biscuit.Predicate{{Name: "resource", IDs: []biscuit.Term{biscuit.String(file)}}},
	}}}
}

// Two attenuation blocks are prepared from the same token, then appended one
// after the other.
func TestC07TwoBlocksPreparedFromSameToken(t *testing.T) {
	tok, pub := c07f3Token(t)

	bb1 := tok.CreateBlock()
	if err := bb1.AddCheck(c07f3Check("file1")); err != nil {
		t.Fatal(err)
	}
	bb2 := tok.CreateBlock()
	if err := bb2.AddCheck(c07f3Check("file2")); err != nil {
		t.Fatal(err)
	}

	tok1, err := tok.Append(c07f3Rng{}, bb1.Build())
	if err != nil {
		t.Fatal(err)
	}
	tok2, err := tok1.Append(c07f3Rng{}, bb2.Build())
	if err != nil {
		// refusing would be fine: the block was not made for this token
		t.Skipf("append refused: %v", err)
	}
	ser, err := tok2.Serialize()
	if err != nil {
		t.Fatal(err)
	}

	want := [][]string{
		{`right("everything")`},
		{`check if resource("file1")`},
		{`check if resource("file2")`},
	}
	if got := c07f3Decode(t, ser); !reflect.DeepEqual(got, want) {
		t.Errorf("wire content %q\nwant %q", got, want)
	}

	// authorization behaviour: a request on file1 must be refused by the
	// caller's second check, check if resource("file2")
	u, err := biscuit.Unmarshal(ser)
	if err != nil {
		t.Fatal(err)
	}
	a, err := u.Authorizer(pub, biscuit.WithWorldOptions(datalog.WithMaxDuration(5*time.Second)))
	if err != nil {
		t.Fatal(err)
	}
	a.AddFact(biscuit.Fact{Predicate: biscuit.Predicate{Name: "resource", IDs: []biscuit.Term{biscuit.String("file1")}}})
	a.AddPolicy(biscuit.DefaultAllowPolicy)
	if err := a.Authorize(); err == nil {
		t.Errorf("token carrying the caller's check if resource(\"file2\") authorized a request on file1")
	}
}

// A block prepared from a longer token and appended to a shorter one refers
// to a symbol that only a LATER block declares.
func TestC07BlockReferencesLaterBlocksSymbol(t *testing.T) {
	tok, _ := c07f3Token(t)

	bbX := tok.CreateBlock()
	if err := bbX.AddCheck(c07f3Check("file1")); err != nil {
		t.Fatal(err)
	}
	blkX := bbX.Build()
	tokX, err := tok.Append(c07f3Rng{}, blkX)
	if err != nil {
		t.Fatal(err)
	}

	// uses only symbols tokX already knows ("file1"): no new symbols at all
	bbB := tokX.CreateBlock()
	if err := bbB.AddFact(biscuit.Fact{Predicate: biscuit.Predicate{Name: "resource", IDs: []biscuit.Term{biscuit.String("file1")}}}); err != nil {
		t.Fatal(err)
	}
	blkB := bbB.Build()

	t1, err := tok.Append(c07f3Rng{}, blkB) // appended to tok, not to tokX
	if err != nil {
		t.Skipf("append refused: %v", err)
	}
	t2, err := t1.Append(c07f3Rng{}, blkX)
	if err != nil {
		t.Skipf("append refused: %v", err)
	}
	ser, _ := t2.Serialize()
	got := c07f3Decode(t, ser)
	for i, blk := range got {
		for _, line := range blk {
			if strings.Contains(line, "UNRESOLVABLE") {
				t.Errorf("block %d is not resolvable from its own and earlier tables: %s", i, line)
			}
		}
	}
	// while the library itself resolves it through the later block's table
	if s := t2.String(); !strings.Contains(s, `resource("file1")`) {
		t.Logf("library view: %s", s)
	}
}
