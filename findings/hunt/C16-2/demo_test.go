// Package biscuit_test; copy this file to <worktree>/c16_badkey_demo_test.go
// (the root package directory of github.com/biscuit-auth/biscuit-go/v2).
//
// Run: go test -run TestC16LookupOfWrongSizedKeyPanics -count=1 .
package biscuit_test

import (
	"crypto/ed25519"
	"crypto/rand"
	"fmt"
	"testing"

	biscuit "github.com/biscuit-auth/biscuit-go/v2"
)

// Property C16 quantifies over "all key maps and defaults": key lookup by
// identifier must either verify the token against the key registered under the
// token's identifier or fail with an error. AuthorizerFor only screens out a
// zero-length key (-> ErrNoPublicKeyAvailable); any other length goes straight
// into ed25519.Verify, which panics on len(key) != 32. Since the identifier is
// chosen by whoever presents the token, one stale / truncated entry in the key
// map lets a remote party crash the verifier by naming that entry.
func TestC16LookupOfWrongSizedKeyPanics(t *testing.T) {
	pub, priv, err := ed25519.GenerateKey(rand.Reader)
	if err != nil {
		t.Fatal(err)
	}
	truncated := ed25519.PublicKey(append([]byte{}, pub[:31]...)) // e.g. a hex string cut short in a config file
	padded := ed25519.PublicKey(append(append([]byte{}, pub...), 0))

	withID, err := biscuit.NewBuilder(priv, biscuit.WithRootKeyID(7)).Build()
	if err != nil {
		t.Fatal(err)
	}
	withoutID, err := biscuit.NewBuilder(priv).Build()
	if err != nil {
		t.Fatal(err)
	}

	cases := []struct {
		name string
		tok  *biscuit.Biscuit
		src  biscuit.PublickKeyByIDProjection
	}{
		{"id 7 -> 31-byte key", withID, biscuit.WithRootPublicKeys(map[uint32]ed25519.PublicKey{7: truncated, 8: pub}, &pub)},
		{"id 7 -> 33-byte key", withID, biscuit.WithRootPublicKeys(map[uint32]ed25519.PublicKey{7: padded, 8: pub}, &pub)},
		{"no id -> 31-byte default key", withoutID, biscuit.WithRootPublicKeys(map[uint32]ed25519.PublicKey{0: pub}, &truncated)},
	}
	for _, c := range cases {
		err, panicked := lookup(c.tok, c.src)
		if panicked != nil {
			t.Errorf("%s: AuthorizerFor panicked instead of returning an error: %v", c.name, panicked)
			continue
		}
		if err == nil {
			t.Errorf("%s: token verified although the registered key cannot verify anything", c.name)
		}
	}
}

func lookup(tok *biscuit.Biscuit, src biscuit.PublickKeyByIDProjection) (err error, panicked interface{}) {
	defer func() {
		if r := recover(); r != nil {
			panicked = fmt.Sprint(r)
		}
	}()
	_, err = tok.AuthorizerFor(src)
	return err, nil
}
