// Package biscuit_test (external test package); copy to
// <worktree>/c18_finding2_demo_test.go (module root, next to authorizer.go).
package biscuit_test

import (
	"crypto/ed25519"
	"crypto/rand"
	"testing"
	"time"

	biscuit "github.com/biscuit-auth/biscuit-go/v2"
	"github.com/biscuit-auth/biscuit-go/v2/datalog"
	"github.com/biscuit-auth/biscuit-go/v2/pb"
	"google.golang.org/protobuf/proto"
)

// Property C18: "loading malformed bytes returns an error without panicking".
//
// loadPoliciesV2 never checks that the symbol indices used by the snapshot's
// facts / rules / checks / policies exist in the snapshot's symbol table, nor
// that the table is duplicate-free and disjoint from the default symbols
// (SymbolTable.Extend silently skips such entries, shifting every later index).
// A snapshot with dangling indices is accepted with a nil error; the dangling
// index stays in the world and is later bound to whatever string the *token*
// happens to intern at that position, so the meaning of the loaded policy data
// depends on the token being authorized.
func TestC18LoadAcceptsDanglingSymbolIndices(t *testing.T) {
	pub, priv, err := ed25519.GenerateKey(rand.Reader)
	if err != nil {
		t.Fatal(err)
	}

	u64 := func(v uint64) *uint64 { return &v }
	allow := pb.Policy_Allow

	// the symbol table is EMPTY, yet the fact is right(#1024) (1024 = first
	// non-default symbol index) and the allow policy is
	//   #1025() <- right(#1024)
	rightIdx := uint64(4) // default symbol "right"
	malformed := &pb.AuthorizerPolicies{
		Version: proto.Uint32(3),
		Symbols: nil,
		Facts: []*pb.FactV2{{
			Predicate: &pb.PredicateV2{
				Name:  u64(rightIdx),
				Terms: []*pb.TermV2{{Content: &pb.TermV2_String_{String_: 1024}}}, // dangling
			},
		}},
		Policies: []*pb.Policy{{
			Kind: &allow,
			Queries: []*pb.RuleV2{{
				Head: &pb.PredicateV2{Name: u64(1025)}, // dangling as well
				Body: []*pb.PredicateV2{{
					Name:  u64(rightIdx),
					Terms: []*pb.TermV2{{Content: &pb.TermV2_String_{String_: 1024}}},
				}},
			}},
		}},
	}
	data, err := proto.Marshal(malformed)
	if err != nil {
		t.Fatal(err)
	}

	mkToken := func(user string) *biscuit.Biscuit {
		b := biscuit.NewBuilder(priv)
		if err := b.AddAuthorityFact(biscuit.Fact{Predicate: biscuit.Predicate{
			Name: "user", IDs: []biscuit.Term{biscuit.String(user)},
		}}); err != nil {
			t.Fatal(err)
		}
		tok, err := b.Build()
		if err != nil {
			t.Fatal(err)
		}
		return tok
	}

	query := biscuit.Rule{
		Head: biscuit.Predicate{Name: "q", IDs: []biscuit.Term{biscuit.Variable("x")}},
		Body: []biscuit.Predicate{{Name: "right", IDs: []biscuit.Term{biscuit.Variable("x")}}},
	}

	results := map[string]string{}
	for _, user := range []string{"alice", "mallory"} {
		az, err := mkToken(user).Authorizer(pub, biscuit.WithWorldOptions(datalog.WithMaxDuration(5*time.Second)))
		if err != nil {
			t.Fatal(err)
		}
		loadErr := az.LoadPolicies(data)
		if loadErr == nil {
			t.Errorf("token %q: LoadPolicies accepted a snapshot whose symbol table is empty but whose fact and policy reference symbols #1024 and #1025 (err == nil)", user)
		} else {
			continue
		}
		_ = az.Authorize()
		fs, err := az.Query(query)
		if err != nil {
			t.Fatal(err)
		}
		results[user] = fs.String()
	}
	if len(results) == 2 && results["alice"] != results["mallory"] {
		t.Errorf("the same loaded snapshot means different things depending on the token: right($x) gives %s for alice's token and %s for mallory's token",
			results["alice"], results["mallory"])
	}

	// second malformation: duplicate / default entries in the symbol table are
	// silently dropped by Extend, so every index after them is shifted.
	shifted := &pb.AuthorizerPolicies{
		Version: proto.Uint32(3),
		Symbols: []string{"read", "alpha", "alpha", "beta"}, // "read" is a default symbol, "alpha" is duplicated
		Facts: []*pb.FactV2{{
			Predicate: &pb.PredicateV2{
				Name:  u64(rightIdx),
				Terms: []*pb.TermV2{{Content: &pb.TermV2_String_{String_: 1025}}}, // entry 1 of the table == "alpha"
			},
		}},
	}
	data2, err := proto.Marshal(shifted)
	if err != nil {
		t.Fatal(err)
	}
	az, err := mkToken("alice").Authorizer(pub, biscuit.WithWorldOptions(datalog.WithMaxDuration(5*time.Second)))
	if err != nil {
		t.Fatal(err)
	}
	if err := az.LoadPolicies(data2); err == nil {
		fs, qerr := az.Query(query)
		if qerr != nil {
			t.Fatal(qerr)
		}
		want := `q("alpha")`
		if len(fs) != 1 || fs[0].String() != want {
			t.Errorf("LoadPolicies accepted a symbol table with default/duplicate entries and mis-indexed it: fact right(#1025) (table entry 1 = \"alpha\") was loaded as %s, want %s or an error", fs.String(), want)
		}
	}
}
