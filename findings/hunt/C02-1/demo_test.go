// Package biscuit_test: copy this file to <worktree>/c02_demo_test.go (the
// module root, next to authorizer.go) and run
//
//	go test -run 'TestC02' -count=1 .
//
// Property C02: appending a block can only restrict. If T+B is authorized
// under an authorizer configuration A, then T must be authorized under A too.
//
// Both tests build a token T whose authority block is signed by the root key,
// a block B that contains NOTHING but a symbol-table entry (no fact, no rule,
// no check), and show that T is refused while T+B is accepted: the string
// declared by the attenuating block becomes the value of an authority fact.
package biscuit_test

import (
	"crypto/ed25519"
	"crypto/rand"
	"encoding/binary"
	"testing"
	"time"

	biscuit "github.com/biscuit-auth/biscuit-go/v2"
	"github.com/biscuit-auth/biscuit-go/v2/datalog"
	"github.com/biscuit-auth/biscuit-go/v2/pb"
	"google.golang.org/protobuf/proto"
)

// c02Sign signs a serialized block the way biscuit.go does (block bytes,
// little-endian algorithm, next public key) and returns the next private key.
func c02Sign(t *testing.T, priv ed25519.PrivateKey, blk *pb.Block) (*pb.SignedBlock, ed25519.PrivateKey) {
	t.Helper()
	nextPub, nextPriv, err := ed25519.GenerateKey(rand.Reader)
	if err != nil {
		t.Fatal(err)
	}
	data, err := proto.Marshal(blk)
	if err != nil {
		t.Fatal(err)
	}
	alg := make([]byte, 4)
	binary.LittleEndian.PutUint32(alg, uint32(pb.PublicKey_Ed25519))
	toSign := append(append(append([]byte{}, data...), alg...), nextPub...)
	algo := pb.PublicKey_Ed25519
	return &pb.SignedBlock{
		Block:     data,
		NextKey:   &pb.PublicKey{Algorithm: &algo, Key: nextPub},
		Signature: ed25519.Sign(priv, toSign),
	}, nextPriv
}

func c02Str(idx uint64) *pb.TermV2 {
	return &pb.TermV2{Content: &pb.TermV2_String_{String_: idx}}
}

// c02Authorize runs the same authorizer configuration A on a token:
//
//	allow if right("/etc/shadow");
func c02Authorize(t *testing.T, tok *biscuit.Biscuit, root ed25519.PublicKey) error {
	t.Helper()
	a, err := tok.Authorizer(root, biscuit.WithWorldOptions(datalog.WithMaxDuration(5*time.Second)))
	if err != nil {
		t.Fatalf("signature verification failed: %v", err)
	}
	a.AddPolicy(biscuit.Policy{Kind: biscuit.PolicyKindAllow, Queries: []biscuit.Rule{{
		Head: biscuit.Predicate{Name: "allow"},
		Body: []biscuit.Predicate{{Name: "right", IDs: []biscuit.Term{biscuit.String("/etc/shadow")}}},
	}}})
	return a.Authorize()
}

func c02Run(t *testing.T, authority *pb.Block) {
	rootPub, rootPriv, err := ed25519.GenerateKey(rand.Reader)
	if err != nil {
		t.Fatal(err)
	}

	// T: the authority block only, signed by the root key
	signedAuthority, next := c02Sign(t, rootPriv, authority)
	contT := &pb.Biscuit{
		Authority: signedAuthority,
		Proof:     &pb.Proof{Content: &pb.Proof_NextSecret{NextSecret: next.Seed()}},
	}
	serT, err := proto.Marshal(contT)
	if err != nil {
		t.Fatal(err)
	}
	T, err := biscuit.Unmarshal(serT)
	if err != nil {
		t.Fatalf("unmarshal T: %v", err)
	}

	// B: appended by the holder of T with T's next secret. It declares one
	// symbol and has no fact, no rule, no check.
	blockB := &pb.Block{Symbols: []string{"/etc/shadow"}, Version: proto.Uint32(3)}
	signedB, next2 := c02Sign(t, next, blockB)
	contTB := &pb.Biscuit{
		Authority: signedAuthority,
		Blocks:    []*pb.SignedBlock{signedB},
		Proof:     &pb.Proof{Content: &pb.Proof_NextSecret{NextSecret: next2.Seed()}},
	}
	serTB, err := proto.Marshal(contTB)
	if err != nil {
		t.Fatal(err)
	}
	TB, err := biscuit.Unmarshal(serTB)
	if err != nil {
		t.Fatalf("unmarshal T+B: %v", err)
	}

	errT := c02Authorize(t, T, rootPub)
	errTB := c02Authorize(t, TB, rootPub)
	t.Logf("Authorize(T)   = %v", errT)
	t.Logf("Authorize(T+B) = %v", errTB)
	t.Logf("T   = %s", T.String())
	t.Logf("T+B = %s", TB.String())

	if errTB == nil && errT != nil {
		t.Fatalf("C02 violated: the parent token T is refused (%v) but T extended with a block that only declares the symbol %q is authorized", errT, "/etc/shadow")
	}
}

// The authority block uses a symbol index that no symbol table entry of T
// covers (it declares one symbol, index 1024, and also uses index 1025).
// SymbolTable.Str turns it into the placeholder "<invalid symbol 1025>" for T,
// but Authorize resolves authority content against the symbol table of the
// WHOLE token, so the first symbol declared by a later block becomes its value.
func TestC02DanglingAuthoritySymbolIsDefinedByAppendedBlock(t *testing.T) {
	right := uint64(4) // "right" in the default table
	c02Run(t, &pb.Block{
		Symbols: []string{"/home/alice"},
		Version: proto.Uint32(3),
		FactsV2: []*pb.FactV2{
			{Predicate: &pb.PredicateV2{Name: &right, Terms: []*pb.TermV2{c02Str(1024)}}},
			{Predicate: &pb.PredicateV2{Name: &right, Terms: []*pb.TermV2{c02Str(1025)}}},
		},
	})
}

// Same effect with an authority block whose indexes are all inside its own
// declared table: the table repeats a default symbol ("read"). Unmarshal merges
// tables with SymbolTable.Extend, which silently skips strings it already knows
// instead of refusing the overlap (Append refuses it with ErrSymbolTableOverlap),
// so "/home/alice" moves from index 1025 to 1024 and index 1025 is left for the
// next block to define.
func TestC02DedupedAuthoritySymbolIsDefinedByAppendedBlock(t *testing.T) {
	right := uint64(4)
	c02Run(t, &pb.Block{
		Symbols: []string{"read", "/home/alice"},
		Version: proto.Uint32(3),
		FactsV2: []*pb.FactV2{
			// right("/home/alice") as far as the issuer is concerned
			{Predicate: &pb.PredicateV2{Name: &right, Terms: []*pb.TermV2{c02Str(1025)}}},
		},
	})
}
