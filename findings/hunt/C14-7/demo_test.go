// Package parser; copy to /tmp/wth-C14/parser/c14_finding7_test.go
package parser

import (
	"testing"
)

// GRAMMAR.md: "A predicate is a list of terms, grouped under a name in the
// form Name(Term0, Term1, ..., TermN)". The lexer rules Function
// (prefix|suffix|matches|length|contains) and Bool (true|false) are not
// anchored on a word boundary and come before Ident, so any predicate name
// that merely STARTS with one of those words is cut in two tokens and the
// text is rejected - including prefix/suffix, which are not even words of the
// documented grammar (the methods are starts_with / ends_with).
func TestC14PredicateNamesStartingWithReservedWord(t *testing.T) {
	p := New()
	for _, name := range []string{
		"prefix", "suffix", "prefixes", "suffix_of", "length", "lengthy", "contains_user",
		"matches_policy", "trusted", "true_owner", "falsey", "false_positive",
	} {
		if name == "trusted" { // control: shares only "tr" with true
			if _, err := p.Fact(name+`("a")`, nil); err != nil {
				t.Fatalf("control failed: %v", err)
			}
			continue
		}
		if _, err := p.Fact(name+`("a")`, nil); err != nil {
			t.Errorf("fact %s(\"a\"): %v", name, err)
		}
		if _, err := p.Check(`check if `+name+`($x), $x == "a"`, nil); err != nil {
			t.Errorf("check if %s($x): %v", name, err)
		}
		if _, err := p.Rule(name+`($x) <- src($x)`, nil); err != nil {
			t.Errorf("rule %s($x) <- src($x): %v", name, err)
		}
	}
}
