// Package datalog; copy to datalog/c11_invalid_rule_stranded_test.go
package datalog

import (
	"runtime"
	"strings"
	"testing"
	"time"
)

// Property C11, last sentence / title ("no stranded work"): after an evaluation
// returns - here with an invalid-rule error - nothing it started may be left
// behind.
//
// Rule.Apply closes `stop` when it returns early, but the producer goroutine in
// combine only looks at `stop` when it is about to SEND a result. Its search
// loop (the inner for at datalog.go:521-536 and the expression filter) never
// polls it. If, after the first match that makes Apply bail out with
// InvalidRuleError, the remaining join has no further result to send, the
// producer keeps enumerating the whole cartesian product - 200^5 = 3.2e11
// combinations here, i.e. hours of one fully busy core - long after World.Run
// has returned. The goroutine is not parked on a channel any more (that was
// fixed), but it is just as stranded: nothing will ever read what it computes
// and nothing can stop it.
func TestC11InvalidRuleLeavesProducerRunning(t *testing.T) {
	syms := &SymbolTable{}
	f := syms.Insert("f")
	g := syms.Insert("g")

	w := NewWorld(WithMaxDuration(5 * time.Second))
	for i := 0; i < 200; i++ {
		w.AddFact(Fact{Predicate{Name: f, Terms: []Term{Integer(i)}}})
	}

	// g($99) <- f($0), f($1), f($2), f($3), f($4), $0 == 0 && $1 == 0 && ... && $4 == 0
	// exactly one combination (the very first one) passes the expression; the head
	// variable $99 is not bound by the body, so that first result makes Apply
	// return InvalidRuleError.
	isZero := func(v Variable) []Op {
		return []Op{Value{v}, Value{Integer(0)}, BinaryOp{Equal{}}}
	}
	var expr Expression
	expr = append(expr, isZero(0)...)
	for v := Variable(1); v < 5; v++ {
		expr = append(expr, isZero(v)...)
		expr = append(expr, BinaryOp{And{}})
	}
	var body []Predicate
	for v := Variable(0); v < 5; v++ {
		body = append(body, Predicate{Name: f, Terms: []Term{v}})
	}
	w.AddRule(Rule{
		Head:        Predicate{Name: g, Terms: []Term{Variable(99)}},
		Body:        body,
		Expressions: []Expression{expr},
	})

	err := w.Run(syms)
	if _, ok := err.(InvalidRuleError); !ok {
		t.Fatalf("setup: expected InvalidRuleError, got %v", err)
	}

	// Run has returned. Give the producer two full seconds to notice.
	deadline := time.Now().Add(2 * time.Second)
	for {
		buf := make([]byte, 1<<20)
		s := string(buf[:runtime.Stack(buf, true)])
		if !strings.Contains(s, "datalog.combine.func1") {
			return // producer is gone: property holds
		}
		if time.Now().After(deadline) {
			t.Fatalf("World.Run returned %q 2s ago but the combine producer goroutine it started is still enumerating the rule body:\n%s", err, s)
		}
		time.Sleep(20 * time.Millisecond)
	}
}
