// Package parser; copy to /tmp/wth-C14/parser/c14_finding8_test.go
package parser

import (
	"reflect"
	"testing"
)

// Whitespace and line ends are elided everywhere (participle.Elide), so the
// layout of a text is free - except inside the three keywords, which the
// lexer only recognises with exactly one U+0020 between the two words
// (Keyword: `check if|allow if|deny if`). Any other legal layout of the same
// token sequence is rejected.
func TestC14KeywordLayout(t *testing.T) {
	p := New()

	ref, err := p.Check("check if resource($r), $r == 1", nil)
	if err != nil {
		t.Fatal(err)
	}
	for _, in := range []string{
		"check  if resource($r), $r == 1",
		"check\tif resource($r), $r == 1",
		"check\n  if resource($r), $r == 1",
	} {
		got, err := p.Check(in, nil)
		if err != nil {
			t.Errorf("%q: %v", in, err)
		} else if !reflect.DeepEqual(got, ref) {
			t.Errorf("%q: got %v want %v", in, got, ref)
		}
	}

	for _, in := range []string{"allow  if true", "deny\tif true", "allow\nif true"} {
		if _, err := p.Policy(in, nil); err != nil {
			t.Errorf("%q: %v", in, err)
		}
	}
	if _, err := p.Authorizer("resource(1);\nallow\n  if resource(1);", nil); err != nil {
		t.Errorf("authorizer: %v", err)
	}
}
