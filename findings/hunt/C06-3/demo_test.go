// Copy to: c06_date_order_demo_test.go   (repository root, package biscuit)
// Run:     go test . -run TestC06DateOrderingBeforeEpoch -count=1 -v
package biscuit

import (
	"crypto/ed25519"
	"crypto/rand"
	"testing"
	"time"

	"github.com/biscuit-auth/biscuit-go/v2/datalog"
)

// Date operands are time.Time values at the public API (biscuit.Date) and in the text syntax
// (1969-12-31T23:59:59Z). `a < b` on two dates must be the chronological order (or an error if a
// date cannot be represented). Date.convert does datalog.Date(uint64(t.Unix())): every instant
// before 1970-01-01T00:00:00Z wraps to a value near 2^64, so it compares AFTER every later date.
func TestC06DateOrderingBeforeEpoch(t *testing.T) {
	before := time.Date(1969, 12, 31, 23, 59, 59, 0, time.UTC) // unix -1
	after := time.Date(1970, 1, 1, 0, 0, 1, 0, time.UTC)       // unix +1
	if !before.Before(after) {
		t.Fatal("test is wrong")
	}

	// 1. the operand conversion wraps: the evaluator is handed 18446744073709551615 for `before`
	syms := &datalog.SymbolTable{}
	expr := Expression{Value{Date(before)}, Value{Date(after)}, BinaryLessThan}
	dl := expr.convert(syms)
	res, err := dl.Evaluate(map[datalog.Variable]*datalog.Term{}, syms)
	if err != nil {
		t.Logf("evaluation reported an error (acceptable): %v", err)
	} else if res != datalog.Bool(true) {
		t.Errorf("%s < %s evaluated to %v, want true (datalog operands: %v)",
			before.Format(time.RFC3339), after.Format(time.RFC3339), res,
			[]uint64{uint64(dl[0].(datalog.Value).ID.(datalog.Date)), uint64(dl[1].(datalog.Value).ID.(datalog.Date))})
	}

	// 2. end to end: an expiry-style check with a pre-epoch date on the left is refused,
	//    and the reversed (false) comparison is accepted.
	pub, priv, err := ed25519.GenerateKey(rand.Reader)
	if err != nil {
		t.Fatal(err)
	}
	tok, err := NewBuilder(priv).Build()
	if err != nil {
		t.Fatal(err)
	}
	run := func(op BinaryOp) error {
		a, err := tok.Authorizer(pub, WithWorldOptions(datalog.WithMaxDuration(5*time.Second)))
		if err != nil {
			t.Fatal(err)
		}
		a.AddCheck(Check{Queries: []Rule{{
			Head:        Predicate{Name: "q"},
			Expressions: []Expression{{Value{Date(before)}, Value{Date(after)}, op}},
		}}})
		a.AddPolicy(DefaultAllowPolicy)
		return a.Authorize()
	}
	if err := run(BinaryLessThan); err != nil {
		t.Errorf("`check if 1969-12-31T23:59:59Z < 1970-01-01T00:00:01Z` was refused: %v", err)
	}
	if err := run(BinaryGreaterThan); err == nil {
		t.Errorf("`check if 1969-12-31T23:59:59Z > 1970-01-01T00:00:01Z` was accepted")
	}
}
