// Package biscuit; copy this file to <worktree>/c12_finding1_demo_test.go (module root).
//
// C12: the authorization outcome and the facts returned by Query must not depend
// on the order in which facts are supplied. World.QueryRule (datalog/datalog.go)
// throws away the error returned by Rule.Apply and keeps the results found before
// the error, so the result of every check, policy and Authorizer.Query depends on
// whether a fact that makes an expression fail (here: a division by zero) is met
// before or after the facts that satisfy the query. No error is reported to the
// caller in either order.
package biscuit

import (
	"crypto/ed25519"
	"crypto/rand"
	"fmt"
	"sort"
	"testing"
	"time"

	"github.com/biscuit-auth/biscuit-go/v2/datalog"
)

func c12f1Fact(name string, v int64) Fact {
	return Fact{Predicate: Predicate{Name: name, IDs: []Term{Integer(v)}}}
}

// 100 / $l > 10
var c12f1Expr = Expression{
	Value{Term: Integer(100)}, Value{Term: Variable("l")}, BinaryDiv,
	Value{Term: Integer(10)}, BinaryGreaterThan,
}

func c12f1Authorizer(t *testing.T, tokenChecks []Check) Authorizer {
	t.Helper()
	pub, priv, err := ed25519.GenerateKey(rand.Reader)
	if err != nil {
		t.Fatal(err)
	}
	b := NewBuilder(priv)
	for _, c := range tokenChecks {
		if err := b.AddAuthorityCheck(c); err != nil {
			t.Fatal(err)
		}
	}
	tok, err := b.Build()
	if err != nil {
		t.Fatal(err)
	}
	a, err := tok.Authorizer(pub, WithWorldOptions(datalog.WithMaxDuration(5*time.Second)))
	if err != nil {
		t.Fatal(err)
	}
	return a
}

// the same SET of facts, presented in two orders
var c12f1Orders = [][]Fact{
	{c12f1Fact("limit", 5), c12f1Fact("limit", 0)},
	{c12f1Fact("limit", 0), c12f1Fact("limit", 5)},
}

// allow if limit($l), 100 / $l > 10
func TestC12Finding1_PolicyOutcomeDependsOnFactOrder(t *testing.T) {
	policy := Policy{Kind: PolicyKindAllow, Queries: []Rule{{
		Head:        Predicate{Name: "allow"},
		Body:        []Predicate{{Name: "limit", IDs: []Term{Variable("l")}}},
		Expressions: []Expression{c12f1Expr},
	}}}

	outcomes := make([]string, len(c12f1Orders))
	for i, order := range c12f1Orders {
		a := c12f1Authorizer(t, nil)
		for _, f := range order {
			a.AddFact(f)
		}
		a.AddPolicy(policy)
		outcomes[i] = fmt.Sprint(a.Authorize())
	}
	if outcomes[0] != outcomes[1] {
		t.Fatalf("same facts, same policy, different outcome:\n facts %v -> Authorize() = %s\n facts %v -> Authorize() = %s",
			c12f1Orders[0], outcomes[0], c12f1Orders[1], outcomes[1])
	}
}

// token: check if limit($l), 100 / $l > 10 ; authorizer: allow if true
func TestC12Finding1_TokenCheckOutcomeDependsOnFactOrder(t *testing.T) {
	check := Check{Queries: []Rule{{
		Head:        Predicate{Name: "query"},
		Body:        []Predicate{{Name: "limit", IDs: []Term{Variable("l")}}},
		Expressions: []Expression{c12f1Expr},
	}}}

	outcomes := make([]string, len(c12f1Orders))
	for i, order := range c12f1Orders {
		a := c12f1Authorizer(t, []Check{check})
		for _, f := range order {
			a.AddFact(f)
		}
		a.AddPolicy(DefaultAllowPolicy)
		outcomes[i] = fmt.Sprint(a.Authorize())
	}
	if outcomes[0] != outcomes[1] {
		t.Fatalf("same facts, same token check, different outcome:\n facts %v -> Authorize() = %s\n facts %v -> Authorize() = %s",
			c12f1Orders[0], outcomes[0], c12f1Orders[1], outcomes[1])
	}
}

// Query: ok($l) <- limit($l), 100 / $l > 10 over {limit(5), limit(4), limit(0)}
func TestC12Finding1_QueryResultDependsOnFactOrder(t *testing.T) {
	query := Rule{
		Head:        Predicate{Name: "ok", IDs: []Term{Variable("l")}},
		Body:        []Predicate{{Name: "limit", IDs: []Term{Variable("l")}}},
		Expressions: []Expression{c12f1Expr},
	}
	orders := [][]Fact{
		{c12f1Fact("limit", 5), c12f1Fact("limit", 4), c12f1Fact("limit", 0)},
		{c12f1Fact("limit", 5), c12f1Fact("limit", 0), c12f1Fact("limit", 4)},
		{c12f1Fact("limit", 0), c12f1Fact("limit", 5), c12f1Fact("limit", 4)},
	}
	results := make([]string, len(orders))
	for i, order := range orders {
		a := c12f1Authorizer(t, nil)
		for _, f := range order {
			a.AddFact(f)
		}
		res, err := a.Query(query)
		strs := []string{}
		for _, f := range res {
			strs = append(strs, f.String())
		}
		sort.Strings(strs)
		results[i] = fmt.Sprintf("facts=%v err=%v", strs, err)
	}
	for i := 1; i < len(results); i++ {
		if results[i] != results[0] {
			t.Errorf("Query over the same set of facts returns a different set:\n order %v -> %s\n order %v -> %s",
				orders[0], results[0], orders[i], results[i])
		}
	}
}
