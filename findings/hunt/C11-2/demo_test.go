// Package biscuit; copy to c11_check_unbounded_test.go (module root)
package biscuit

import (
	"crypto/ed25519"
	"crypto/rand"
	"errors"
	"testing"
	"time"

	"github.com/biscuit-auth/biscuit-go/v2/datalog"
)

// Property C11: evaluation is bounded by the configured limits and
// "authorization fails whenever a limit is hit".
//
// Authorize evaluates every check and policy query with World.QueryRule, which
// calls Rule.Apply directly: no duration limit, no fact limit, no iteration
// limit, and the error is discarded. A token holder can therefore put a check
// with a wide join into a token and keep Authorize busy for hours, whatever
// limits the authorizer was created with.
func TestC11CheckEvaluationIgnoresDurationLimit(t *testing.T) {
	pub, priv, err := ed25519.GenerateKey(rand.Reader)
	if err != nil {
		t.Fatal(err)
	}

	builder := NewBuilder(priv)
	// 100 facts: well under the default 1000-fact limit, the world itself reaches
	// its fixpoint at once (there are no rules).
	for i := 0; i < 100; i++ {
		if err := builder.AddAuthorityFact(Fact{Predicate{Name: "f", IDs: []Term{Integer(i)}}}); err != nil {
			t.Fatal(err)
		}
	}
	// check if f($a), f($b), f($c), f($d), f($e), f($g), $a == -1
	// 100^6 = 10^12 combinations, none of them satisfies the expression.
	var body []Predicate
	for _, v := range []string{"a", "b", "c", "d", "e", "g"} {
		body = append(body, Predicate{Name: "f", IDs: []Term{Variable(v)}})
	}
	err = builder.AddAuthorityCheck(Check{Queries: []Rule{{
		Head: Predicate{Name: "q"},
		Body: body,
		Expressions: []Expression{{
			Value{Term: Variable("a")}, Value{Term: Integer(-1)}, BinaryEqual,
		}},
	}}})
	if err != nil {
		t.Fatal(err)
	}
	tok, err := builder.Build()
	if err != nil {
		t.Fatal(err)
	}
	// go through the wire format, as a verifier receiving the token would
	ser, err := tok.Serialize()
	if err != nil {
		t.Fatal(err)
	}
	tok, err = Unmarshal(ser)
	if err != nil {
		t.Fatal(err)
	}

	const limit = 100 * time.Millisecond
	a, err := tok.AuthorizerFor(WithSingularRootPublicKey(pub),
		WithWorldOptions(datalog.WithMaxDuration(limit)))
	if err != nil {
		t.Fatal(err)
	}
	a.AddPolicy(DefaultAllowPolicy)

	done := make(chan error, 1)
	start := time.Now()
	go func() { done <- a.Authorize() }()

	select {
	case err := <-done:
		// whatever happens, a run that blew the limit must be reported as such
		if time.Since(start) > 10*limit && !errors.Is(err, datalog.ErrWorldRunLimitTimeout) {
			t.Fatalf("Authorize took %v with a %v limit and returned %v instead of the timeout error", time.Since(start), limit, err)
		}
	case <-time.After(50 * limit):
		t.Fatalf("Authorize is still evaluating a token check %v after it was called although the authorizer was created with WithMaxDuration(%v): check/policy queries (World.QueryRule) are not subject to any limit",
			time.Since(start).Round(time.Millisecond), limit)
	}
}
