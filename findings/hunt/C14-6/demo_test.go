// Package parser; copy to /tmp/wth-C14/parser/c14_finding6_test.go
package parser

import (
	"testing"

	"github.com/biscuit-auth/biscuit-go/v2"
)

// HexString.Parse decides on strings.HasPrefix(token.Value, "hex:") without
// looking at the token type, and the Bytes alternative of Term is tried before
// String. Because participle.Unquote("String") has already stripped the
// quotes, every STRING literal whose text starts with hex: is taken for a
// byte literal: it gets the wrong type, or is rejected as bad hex.
// (GRAMMAR.md: "string is any utf8 character sequence, between double quotes";
// "bytes is an hexadecimal encoded string, prefixed with a hex: sequence",
// written unquoted - hex:41414141 - everywhere in the test-suite.)
func TestC14QuotedStringStartingWithHexPrefix(t *testing.T) {
	p := New()

	f, err := p.Fact(`label("hex:cafe")`, nil)
	if err != nil {
		t.Fatalf("unexpected error: %v", err)
	}
	if f.IDs[0].Type() != biscuit.TermTypeString || f.IDs[0] != biscuit.Term(biscuit.String("hex:cafe")) {
		t.Errorf(`label("hex:cafe"): got term %v of type %d, want the string "hex:cafe"`, f.IDs[0], f.IDs[0].Type())
	}

	if _, err := p.Fact(`label("hex: is the prefix of byte literals")`, nil); err != nil {
		t.Errorf("plain string rejected: %v", err)
	}

	c, err := p.Check(`check if label($l), $l.starts_with("hex:")`, nil)
	if err != nil {
		t.Fatalf("unexpected error: %v", err)
	}
	if got := c.Queries[0].Expressions[0][1]; got != biscuit.Op(biscuit.Value{Term: biscuit.String("hex:")}) {
		t.Errorf(`starts_with("hex:"): argument parsed as %#v, want the string "hex:"`, got)
	}
}
