// Package: biscuit_test (external test package of github.com/biscuit-auth/biscuit-go/v2)
// Copy to: <worktree>/c04_finding1_demo_test.go
// Run:     go test -count=1 -run TestC04AuthorizeDropsAuthorizerRules .
package biscuit_test

import (
	"crypto/ed25519"
	"crypto/rand"
	"errors"
	"strings"
	"testing"
	"time"

	"github.com/biscuit-auth/biscuit-go/v2"
	"github.com/biscuit-auth/biscuit-go/v2/datalog"
)

func c04f1Token(t *testing.T) (*biscuit.Biscuit, ed25519.PublicKey) {
	t.Helper()
	pub, priv, err := ed25519.GenerateKey(rand.Reader)
	if err != nil {
		t.Fatal(err)
	}
	b := biscuit.NewBuilder(priv)
	if err := b.AddAuthorityFact(biscuit.Fact{Predicate: biscuit.Predicate{Name: "user", IDs: []biscuit.Term{biscuit.String("alice")}}}); err != nil {
		t.Fatal(err)
	}
	tok, err := b.Build()
	if err != nil {
		t.Fatal(err)
	}
	return tok, pub
}

func c04f1Authorizer(t *testing.T, tok *biscuit.Biscuit, pub ed25519.PublicKey) biscuit.Authorizer {
	t.Helper()
	a, err := tok.Authorizer(pub, biscuit.WithWorldOptions(datalog.WithMaxDuration(5*time.Second)))
	if err != nil {
		t.Fatal(err)
	}
	return a
}

var (
	c04f1User      = func(t biscuit.Term) biscuit.Predicate { return biscuit.Predicate{Name: "user", IDs: []biscuit.Term{t}} }
	c04f1Blocklist = func(t biscuit.Term) biscuit.Predicate {
		return biscuit.Predicate{Name: "blocklist", IDs: []biscuit.Term{t}}
	}
	c04f1Banned = func(t biscuit.Term) biscuit.Predicate { return biscuit.Predicate{Name: "banned", IDs: []biscuit.Term{t}} }

	// banned($u) <- user($u), blocklist($u)
	c04f1Rule = biscuit.Rule{
		Head: c04f1Banned(biscuit.Variable("u")),
		Body: []biscuit.Predicate{c04f1User(biscuit.Variable("u")), c04f1Blocklist(biscuit.Variable("u"))},
	}
	// deny if banned($u)
	c04f1Deny = biscuit.Policy{Kind: biscuit.PolicyKindDeny, Queries: []biscuit.Rule{{
		Head: biscuit.Predicate{Name: "deny"},
		Body: []biscuit.Predicate{c04f1Banned(biscuit.Variable("u"))},
	}}}
	c04f1BlockAlice = biscuit.Fact{Predicate: c04f1Blocklist(biscuit.String("alice"))}
)

// The authorizer holds: rule banned($u) <- user($u), blocklist($u);
// policies [deny if banned($u); allow if true]. The token says user("alice").
//
// Evaluated once without blocklist("alice") the verdict is "allow" (correct).
// After AddFact(blocklist("alice")) the authorizer's content makes the first
// matching policy the deny policy, so Authorize must return ErrPolicyDenied -
// and a fresh authorizer with exactly the same content does. The reused one
// answers nil (allow): the first Authorize has silently deleted the
// authorizer's own rule (v.world.ResetRules()).
func TestC04AuthorizeDropsAuthorizerRules_WrongAllow(t *testing.T) {
	tok, pub := c04f1Token(t)

	reused := c04f1Authorizer(t, tok, pub)
	reused.AddRule(c04f1Rule)
	reused.AddPolicy(c04f1Deny)
	reused.AddPolicy(biscuit.DefaultAllowPolicy)
	if err := reused.Authorize(); err != nil {
		t.Fatalf("first evaluation: nobody is on the blocklist yet, want allow, got %v", err)
	}
	reused.AddFact(c04f1BlockAlice)
	gotReused := reused.Authorize()

	fresh := c04f1Authorizer(t, tok, pub)
	fresh.AddRule(c04f1Rule)
	fresh.AddPolicy(c04f1Deny)
	fresh.AddPolicy(biscuit.DefaultAllowPolicy)
	fresh.AddFact(c04f1BlockAlice)
	gotFresh := fresh.Authorize()

	if !errors.Is(gotFresh, biscuit.ErrPolicyDenied) {
		t.Fatalf("fresh authorizer with the same content: want ErrPolicyDenied, got %v", gotFresh)
	}
	if !errors.Is(gotReused, biscuit.ErrPolicyDenied) {
		t.Fatalf("same token, same facts/rules/policies: the first matching policy is `deny if banned($u)` "+
			"(banned(\"alice\") is derivable), so Authorize must return ErrPolicyDenied; got %v\nworld: %s",
			gotReused, reused.PrintWorld())
	}
}

// Same defect, other direction: a check that the authorizer's content
// satisfies is reported as failed on the second Authorize.
func TestC04AuthorizeDropsAuthorizerRules_WrongDeny(t *testing.T) {
	tok, pub := c04f1Token(t)

	a := c04f1Authorizer(t, tok, pub)
	a.AddRule(c04f1Rule)
	// check if banned("alice")
	a.AddCheck(biscuit.Check{Queries: []biscuit.Rule{{
		Head: biscuit.Predicate{Name: "query"},
		Body: []biscuit.Predicate{c04f1Banned(biscuit.String("alice"))},
	}}})
	a.AddPolicy(biscuit.DefaultAllowPolicy)

	err := a.Authorize()
	if err == nil || !strings.Contains(err.Error(), "failed to verify check #0") {
		t.Fatalf("first evaluation: the check cannot hold yet, want a check failure, got %v", err)
	}
	a.AddFact(c04f1BlockAlice)
	if err := a.Authorize(); err != nil {
		t.Fatalf("user(\"alice\") and blocklist(\"alice\") are present and the rule derives banned(\"alice\"): "+
			"every check is satisfied and the first matching policy is allow, want nil; got %v\nworld: %s",
			err, a.PrintWorld())
	}
}
