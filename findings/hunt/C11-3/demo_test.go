// Package biscuit; copy to c11_world_options_test.go (module root)
package biscuit

import (
	"crypto/ed25519"
	"crypto/rand"
	"errors"
	"testing"
	"time"

	"github.com/biscuit-auth/biscuit-go/v2/datalog"
)

// Property C11: "Limits supplied when creating an authorizer are honoured by
// every entry point that accepts them."
//
// WithWorldOptions does not apply its options to the authorizer's world, it
// REPLACES the base world with datalog.NewWorld(opts...). Each use therefore
// resets every limit set by an earlier WithWorldOptions back to the default:
// the fact limit below is silently dropped because a second option (raising
// only the duration) follows it.
func TestC11RepeatedWithWorldOptionsDropsLimits(t *testing.T) {
	pub, priv, err := ed25519.GenerateKey(rand.Reader)
	if err != nil {
		t.Fatal(err)
	}
	builder := NewBuilder(priv)
	for i := 0; i < 20; i++ {
		if err := builder.AddAuthorityFact(Fact{Predicate{Name: "f", IDs: []Term{Integer(i)}}}); err != nil {
			t.Fatal(err)
		}
	}
	tok, err := builder.Build()
	if err != nil {
		t.Fatal(err)
	}

	constructors := map[string]func(opts ...AuthorizerOption) (Authorizer, error){
		"NewVerifier":   func(opts ...AuthorizerOption) (Authorizer, error) { return NewVerifier(tok, opts...) },
		"Authorizer":    func(opts ...AuthorizerOption) (Authorizer, error) { return tok.Authorizer(pub, opts...) },
		"AuthorizerFor": func(opts ...AuthorizerOption) (Authorizer, error) { return tok.AuthorizerFor(WithSingularRootPublicKey(pub), opts...) },
	}

	for name, mk := range constructors {
		// control: both limits in one option list -> the 20-fact token trips the 10-fact limit
		a, err := mk(WithWorldOptions(datalog.WithMaxFacts(10), datalog.WithMaxDuration(5*time.Second)))
		if err != nil {
			t.Fatal(err)
		}
		a.AddPolicy(DefaultAllowPolicy)
		if err := a.Authorize(); !errors.Is(err, datalog.ErrWorldRunLimitMaxFacts) {
			t.Fatalf("%s control: expected ErrWorldRunLimitMaxFacts, got %v", name, err)
		}

		// same limits, supplied as two options
		a, err = mk(
			WithWorldOptions(datalog.WithMaxFacts(10)),
			WithWorldOptions(datalog.WithMaxDuration(5*time.Second)),
		)
		if err != nil {
			t.Fatal(err)
		}
		a.AddPolicy(DefaultAllowPolicy)
		if err := a.Authorize(); !errors.Is(err, datalog.ErrWorldRunLimitMaxFacts) {
			t.Errorf("%s: WithMaxFacts(10) was supplied when creating the authorizer but a 20-fact token is authorized with result %v: the second WithWorldOptions discarded the limit", name, err)
		}
		if _, err := a.Query(Rule{Head: Predicate{Name: "q"}, Body: []Predicate{{Name: "f", IDs: []Term{Variable("x")}}}}); !errors.Is(err, datalog.ErrWorldRunLimitMaxFacts) {
			t.Errorf("%s: Query ignores the supplied WithMaxFacts(10) as well: %v", name, err)
		}
	}
}
