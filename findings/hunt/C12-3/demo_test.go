// Package biscuit; copy this file to <worktree>/c12_finding3_demo_test.go (module root).
//
// C12: renaming the variables of a rule consistently (injectively) must not change
// the outcome nor the derived facts.
// Authorize does not evaluate the token's rules as they are: every rule is first
// translated to the builder form BY NAME (fromDatalogRule -> fromDatalogID,
// types.go: Variable(symbols.Str(datalog.String(id)))) and then re-interned in the
// authorizer's table. SymbolTable.Str is not injective: an index that is not in
// the table is rendered as the ordinary text "<invalid symbol N>", which may also
// be a real entry of the token's symbol table. Two DISTINCT variables of a token
// rule (ids 2000 and 1024) are then given the same name and are merged into ONE
// variable, which turns
//      ok($a) <- f($a), g($b)          into          ok($a) <- f($a), g($a)
// The same rule with $a numbered 1028 instead of 2000 (a pure renaming) derives ok(1).
package biscuit

import (
	"crypto/ed25519"
	"crypto/rand"
	"encoding/binary"
	"fmt"
	"sort"
	"testing"
	"time"

	"github.com/biscuit-auth/biscuit-go/v2/datalog"
	"github.com/biscuit-auth/biscuit-go/v2/pb"
	"google.golang.org/protobuf/proto"
)

func c12f3Var(v uint32) *pb.TermV2 { return &pb.TermV2{Content: &pb.TermV2_Variable{Variable: v}} }
func c12f3Int(v int64) *pb.TermV2  { return &pb.TermV2{Content: &pb.TermV2_Integer{Integer: v}} }
func c12f3Pred(name uint64, terms ...*pb.TermV2) *pb.PredicateV2 {
	return &pb.PredicateV2{Name: &name, Terms: terms}
}

// builds, signs with a fresh root key, serializes and parses a single block token
// whose only rule is  ok($va) <- f($va), g($vb)  with facts f(1), g(2)
func c12f3Run(t *testing.T, va, vb uint32) string {
	t.Helper()
	block := &pb.Block{
		// 1024 "<invalid symbol 2000>", 1025 "f", 1026 "g", 1027 "ok", 1028 "zz"
		Symbols: []string{"<invalid symbol 2000>", "f", "g", "ok", "zz"},
		Version: proto.Uint32(3),
		FactsV2: []*pb.FactV2{
			{Predicate: c12f3Pred(1025, c12f3Int(1))},
			{Predicate: c12f3Pred(1026, c12f3Int(2))},
		},
		RulesV2: []*pb.RuleV2{{
			Head: c12f3Pred(1027, c12f3Var(va)),
			Body: []*pb.PredicateV2{c12f3Pred(1025, c12f3Var(va)), c12f3Pred(1026, c12f3Var(vb))},
		}},
	}
	data, err := proto.Marshal(block)
	if err != nil {
		t.Fatal(err)
	}
	rootPub, rootPriv, _ := ed25519.GenerateKey(rand.Reader)
	nextPub, nextPriv, _ := ed25519.GenerateKey(rand.Reader)
	alg := pb.PublicKey_Ed25519
	algBytes := make([]byte, 4)
	binary.LittleEndian.PutUint32(algBytes, uint32(alg))
	toSign := append(append(append([]byte{}, data...), algBytes...), nextPub...)
	ser, err := proto.Marshal(&pb.Biscuit{
		Authority: &pb.SignedBlock{
			Block:     data,
			NextKey:   &pb.PublicKey{Algorithm: &alg, Key: nextPub},
			Signature: ed25519.Sign(rootPriv, toSign),
		},
		Proof: &pb.Proof{Content: &pb.Proof_NextSecret{NextSecret: nextPriv.Seed()}},
	})
	if err != nil {
		t.Fatal(err)
	}
	tok, err := Unmarshal(ser)
	if err != nil {
		t.Fatal(err)
	}
	a, err := tok.Authorizer(rootPub, WithWorldOptions(datalog.WithMaxDuration(5*time.Second)))
	if err != nil {
		t.Fatal(err)
	}
	// allow if ok($x)
	a.AddPolicy(Policy{Kind: PolicyKindAllow, Queries: []Rule{{
		Head: Predicate{Name: "allow"},
		Body: []Predicate{{Name: "ok", IDs: []Term{Variable("x")}}},
	}}})
	authErr := a.Authorize()
	res, qerr := a.Query(Rule{
		Head: Predicate{Name: "ok", IDs: []Term{Variable("x")}},
		Body: []Predicate{{Name: "ok", IDs: []Term{Variable("x")}}},
	})
	if qerr != nil {
		t.Fatal(qerr)
	}
	strs := []string{}
	for _, f := range res {
		strs = append(strs, f.String())
	}
	sort.Strings(strs)
	return fmt.Sprintf("Authorize() = %v, derived ok facts = %v", authErr, strs)
}

func TestC12Finding3_RenamingTokenVariablesChangesOutcome(t *testing.T) {
	// the three rules differ only by an injective renaming of their two variables
	ref := c12f3Run(t, 1028, 1024)  // ok($zz) <- f($zz), g($<1024>)
	ren1 := c12f3Run(t, 2000, 1028) // ok($<2000>) <- f($<2000>), g($zz)
	ren2 := c12f3Run(t, 2000, 1024) // ok($<2000>) <- f($<2000>), g($<1024>)

	if ren1 != ref {
		t.Errorf("variables (2000,1028) instead of (1028,1024):\n ref     %s\n renamed %s", ref, ren1)
	}
	if ren2 != ref {
		t.Errorf("variables (2000,1024) instead of (1028,1024): the two distinct variables were merged\n ref     %s\n renamed %s", ref, ren2)
	}
}
