// Package parser; copy to /tmp/wth-C14/parser/c14_finding4_test.go
package parser

import (
	"testing"
)

// Property: "malformed date or byte literals ... are reported as errors".
// An odd number of hex digits is a malformed byte literal. The lexer rule
// hex:([0-9a-fA-F]{2})* stops after the last complete pair and re-lexes the
// dangling digit as an Int token; Predicate.IDs is `"(" (@@ ("," @@)*)* ")"`
// whose outer repetition accepts a further term without a comma, so the
// literal is silently split into a bytes term and an integer term.
func TestC14OddLengthHexLiteral(t *testing.T) {
	p := New()
	for _, in := range []string{`key(hex:ab1)`, `key(hex:123)`, `key(hex:0)`} {
		f, err := p.Fact(in, nil)
		if err == nil {
			t.Errorf("fact %s: malformed byte literal accepted as %v (arity %d)", in, f, len(f.IDs))
		}
	}
	if r, err := p.Rule(`ok($k) <- key($k, hex:abcde12)`, nil); err == nil {
		t.Errorf("rule body: malformed byte literal accepted as %v", r.Body[0])
	}
	if c, err := p.Check(`check if key(hex:abcde12)`, nil); err == nil {
		t.Errorf("check: malformed byte literal accepted as %v", c.Queries[0].Body[0])
	}
	// same mechanism for a date literal with a malformed zone suffix
	if f, err := p.Fact(`at(2006-01-02T15:04:05Z00)`, nil); err == nil {
		t.Errorf("malformed date literal accepted as %v", f)
	}
}
