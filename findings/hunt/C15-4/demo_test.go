// Package biscuit_test; copy to <worktree>/c15_arity_demo_test.go
// (module root of github.com/biscuit-auth/biscuit-go/v2).
package biscuit_test

import (
	"crypto/ed25519"
	"crypto/rand"
	"reflect"
	"strings"
	"testing"

	"github.com/biscuit-auth/biscuit-go/v2"
	"github.com/biscuit-auth/biscuit-go/v2/parser"
)

func c15ArityStatements(code string) string {
	out := []string{}
	for _, l := range strings.Split(code, "\n") {
		l = strings.TrimSpace(l)
		if l == "" || l == "Block {" || l == "}" {
			continue
		}
		out = append(out, strings.TrimSuffix(l, ";")+";")
	}
	return strings.Join(out, "\n")
}

// Every source below is accepted by the library's grammar (parser/grammar.go:
// OpExpr7 is `Dot @(...) "(" @@? ")"` and ExprTerm is `... | "(" @@? ")"`),
// by the builders and by Serialize/Unmarshal.
func TestC15GrammarAcceptedMethodCallsPrintAsInvalidExpression(t *testing.T) {
	for _, src := range []string{
		`check if resource($r), $r.starts_with();`,  // binary method without argument
		`check if resource($r), $r.length(1) == 2;`, // unary method with an argument
		`check if resource($r), ();`,                // empty parenthesis
	} {
		src := src
		t.Run(src, func(t *testing.T) {
			_, root, err := ed25519.GenerateKey(rand.Reader)
			if err != nil {
				t.Fatal(err)
			}
			original, err := parser.FromStringBlock(src)
			if err != nil {
				t.Skipf("not accepted by the grammar: %v", err)
			}
			builder := biscuit.NewBuilder(root)
			token, err := builder.Build()
			if err != nil {
				t.Fatal(err)
			}
			bb := token.CreateBlock()
			if err := bb.AddBlock(original); err != nil {
				t.Fatal(err)
			}
			token, err = token.Append(rand.Reader, bb.Build())
			if err != nil {
				t.Fatal(err)
			}
			ser, err := token.Serialize()
			if err != nil {
				t.Fatal(err)
			}
			token, err = biscuit.Unmarshal(ser)
			if err != nil {
				t.Fatal(err)
			}

			printed := c15ArityStatements(token.Code()[0])
			t.Logf("printed block: %s", printed)
			reparsed, err := parser.FromStringBlock(printed)
			if err != nil {
				t.Fatalf("printed block does not parse back: %v", err)
			}
			if !reflect.DeepEqual(original, reparsed) {
				t.Fatalf("printed block parses back to different content:\n original: %#v\n reparsed: %#v", original, reparsed)
			}
		})
	}
}
