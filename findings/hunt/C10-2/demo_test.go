// Package biscuit_test; copy this file to <repo>/c10_finding2_oom_test.go and run
//   go test -run TestC10StringAddExhaustsMemory -count=1 -v .
// (linux only: the demo uses RLIMIT_AS in a re-executed child process so that
// the out-of-memory abort happens in a sandbox and not on the host)
package biscuit_test

import (
	"bytes"
	"crypto/ed25519"
	"crypto/rand"
	"fmt"
	"os"
	"os/exec"
	"runtime"
	"strconv"
	"strings"
	"syscall"
	"testing"
	"time"

	"github.com/biscuit-auth/biscuit-go/v2"
)

const (
	c10SymbolLen = 16 << 10 // one 16 KiB symbol
	c10Adds      = 3000     // "$x + $x + ... + $x" with 3000 additions
)

// c10Token returns the wire bytes of a ~60 KiB token, validly signed by an
// attacker-chosen root key, with
//
//	fact:  s("AAAA...A")                           (16 KiB string)
//	rule:  r($x) <- s($x), ($x + $x + ... + $x).length() > 0
//
// Every "+" on strings (datalog.Add.Eval) concatenates the operands AND interns
// the result in the authorizer's symbol table (symbols.Insert), so all 3000
// intermediate strings of 32 KiB, 48 KiB, ... 48 MiB stay reachable: about
// 16 KiB * 3000^2 / 2 = 72 GiB for one evaluation of one expression.
func c10Token(t *testing.T) ([]byte, ed25519.PublicKey) {
	rootPub, rootPriv, err := ed25519.GenerateKey(rand.Reader)
	if err != nil {
		t.Fatal(err)
	}
	b := biscuit.NewBuilder(rootPriv)
	if err := b.AddAuthorityFact(biscuit.Fact{Predicate: biscuit.Predicate{
		Name: "s", IDs: []biscuit.Term{biscuit.String(strings.Repeat("A", c10SymbolLen))},
	}}); err != nil {
		t.Fatal(err)
	}
	x := biscuit.Value{Term: biscuit.Variable("x")}
	expr := biscuit.Expression{x}
	for i := 0; i < c10Adds; i++ {
		expr = append(expr, x, biscuit.BinaryAdd)
	}
	expr = append(expr, biscuit.UnaryLength, biscuit.Value{Term: biscuit.Integer(0)}, biscuit.BinaryGreaterThan)
	if err := b.AddAuthorityRule(biscuit.Rule{
		Head:        biscuit.Predicate{Name: "r", IDs: []biscuit.Term{biscuit.Variable("x")}},
		Body:        []biscuit.Predicate{{Name: "s", IDs: []biscuit.Term{biscuit.Variable("x")}}},
		Expressions: []biscuit.Expression{expr},
	}); err != nil {
		t.Fatal(err)
	}
	tok, err := b.Build()
	if err != nil {
		t.Fatal(err)
	}
	wire, err := tok.Serialize()
	if err != nil {
		t.Fatal(err)
	}
	return wire, rootPub
}

func c10VirtualSize() uint64 {
	raw, err := os.ReadFile("/proc/self/statm")
	if err != nil {
		return 0
	}
	pages, _ := strconv.ParseUint(strings.Fields(string(raw))[0], 10, 64)
	return pages * uint64(os.Getpagesize())
}

// the verifier process: default options, default limits (1000 facts, 100
// iterations, 2ms), bytes from the network and a 32-byte key.
func c10Child() {
	wire, err := os.ReadFile(os.Getenv("C10_TOKEN"))
	if err != nil {
		fmt.Println("child: read token:", err)
		os.Exit(3)
	}
	pub, err := os.ReadFile(os.Getenv("C10_KEY"))
	if err != nil {
		fmt.Println("child: read key:", err)
		os.Exit(3)
	}
	// sandbox: at most 256 MiB more address space than we have now. The cap only
	// keeps the demo quick and harmless for the host; without it the evaluation
	// goes on allocating until the machine's memory (72 GiB needed) is exhausted.
	limit := c10VirtualSize() + 256<<20
	if err := syscall.Setrlimit(syscall.RLIMIT_AS, &syscall.Rlimit{Cur: limit, Max: limit}); err != nil {
		fmt.Println("child: setrlimit:", err)
		os.Exit(3)
	}

	tok, err := biscuit.Unmarshal(wire)
	if err != nil {
		fmt.Println("child: unmarshal:", err)
		os.Exit(3)
	}
	a, err := tok.Authorizer(ed25519.PublicKey(pub))
	if err != nil {
		fmt.Println("child: authorizer:", err)
		os.Exit(3)
	}
	a.AddPolicy(biscuit.DefaultAllowPolicy)
	baseline := runtime.NumGoroutine()
	start := time.Now()
	err = a.Authorize()
	fmt.Printf("child: Authorize returned after %v: %v\n", time.Since(start), err)

	// the request has been answered (rejected) and the server keeps running;
	// wait until the library's evaluation goroutines are gone (or 5 minutes)
	for time.Since(start) < 5*time.Minute {
		time.Sleep(100 * time.Millisecond)
		if runtime.NumGoroutine() <= baseline {
			fmt.Println("child: evaluation finished, still alive")
			os.Exit(0)
		}
	}
	fmt.Println("child: evaluation still running after 5 minutes, still alive")
	os.Exit(0)
}

func TestC10StringAddExhaustsMemory(t *testing.T) {
	if os.Getenv("C10_CHILD") == "1" {
		c10Child()
		return
	}

	wire, pub := c10Token(t)
	t.Logf("token size: %d bytes", len(wire))
	if len(wire) > 80<<10 {
		t.Fatalf("token unexpectedly large: %d", len(wire))
	}
	dir := t.TempDir()
	tokFile, keyFile := dir+"/token", dir+"/key"
	if err := os.WriteFile(tokFile, wire, 0600); err != nil {
		t.Fatal(err)
	}
	if err := os.WriteFile(keyFile, pub, 0600); err != nil {
		t.Fatal(err)
	}

	cmd := exec.Command(os.Args[0], "-test.run=^TestC10StringAddExhaustsMemory$", "-test.count=1")
	cmd.Env = append(os.Environ(), "C10_CHILD=1", "C10_TOKEN="+tokFile, "C10_KEY="+keyFile)
	var out bytes.Buffer
	cmd.Stdout, cmd.Stderr = &out, &out
	err := cmd.Run()
	log := out.String()
	if len(log) > 3000 {
		log = log[:3000] + "\n...[truncated]"
	}
	if err != nil {
		t.Fatalf("the verifier process was terminated by authorizing a %d byte token: %v\n--- child output ---\n%s", len(wire), err, log)
	}
	t.Logf("child survived:\n%s", log)
}
