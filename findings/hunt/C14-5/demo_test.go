// Package parser; copy to /tmp/wth-C14/parser/c14_finding5_test.go
package parser

import (
	"reflect"
	"testing"

	"github.com/biscuit-auth/biscuit-go/v2"
)

// participle matches grammar literals such as "!" by token VALUE, whatever the
// token type, and participle.Unquote("String") replaces the value of a String
// token by its unquoted body. The string literal "!" therefore looks exactly
// like the negation operator to Expr5 (`@("!")?`), which is tried before the
// term: a legal string operand is consumed as an operator.
func TestC14BangStringTakenForNegation(t *testing.T) {
	p := New()

	c, err := p.Check(`check if sep($x), $x == "!"`, nil)
	if err != nil {
		t.Errorf(`$x == "!" rejected: %v`, err)
	} else {
		want := biscuit.Expression{
			biscuit.Value{Term: biscuit.Variable("x")},
			biscuit.Value{Term: biscuit.String("!")},
			biscuit.BinaryEqual,
		}
		if !reflect.DeepEqual(c.Queries[0].Expressions[0], want) {
			t.Errorf("got %v want %v", c.Queries[0].Expressions[0], want)
		}
	}

	if _, err := p.Rule(`shout($s) <- msg($s), $s.ends_with("!")`, nil); err != nil {
		t.Errorf(`$s.ends_with("!") rejected: %v`, err)
	}
	if _, err := p.Check(`check if "!".length() == 1`, nil); err != nil {
		t.Errorf(`"!".length() rejected: %v`, err)
	}

	// the converse: a string is executed as an operator
	if c, err := p.Check(`check if "!" true`, nil); err == nil {
		t.Errorf(`check if "!" true  parsed as %v (string literal used as the ! operator)`, c.Queries[0].Expressions[0])
	}
}
