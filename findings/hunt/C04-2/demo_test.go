// Package: biscuit_test (external test package of github.com/biscuit-auth/biscuit-go/v2)
// Copy to: <worktree>/c04_finding2_demo_test.go
// Run:     go test -count=1 -run TestC04LoadPoliciesRenamesExistingFacts .
package biscuit_test

import (
	"crypto/ed25519"
	"crypto/rand"
	"strings"
	"testing"
	"time"

	"github.com/biscuit-auth/biscuit-go/v2"
	"github.com/biscuit-auth/biscuit-go/v2/datalog"
)

// Authorizer content: fact user("alice") (added with AddFact), and, loaded from
// a policy snapshot, `check if user("bob")` and `allow if true`.
// user("bob") is not derivable, so the check fails and Authorize must report a
// verification failure. Instead it returns nil: LoadPolicies replaces the
// authorizer's symbol table (v.symbols = base + snapshot symbols) but keeps the
// world, whose facts still hold indexes into the old table. Index 1024 meant
// "alice" before the load and means "bob" after it, so the authorizer's own
// fact is silently rewritten to user("bob").
func TestC04LoadPoliciesRenamesExistingFacts(t *testing.T) {
	pub, priv, err := ed25519.GenerateKey(rand.Reader)
	if err != nil {
		t.Fatal(err)
	}
	tok, err := biscuit.NewBuilder(priv).Build()
	if err != nil {
		t.Fatal(err)
	}
	opts := biscuit.WithWorldOptions(datalog.WithMaxDuration(5 * time.Second))

	user := func(name string) biscuit.Predicate {
		return biscuit.Predicate{Name: "user", IDs: []biscuit.Term{biscuit.String(name)}}
	}
	checkBob := biscuit.Check{Queries: []biscuit.Rule{{
		Head: biscuit.Predicate{Name: "query"},
		Body: []biscuit.Predicate{user("bob")},
	}}}

	// the snapshot: check if user("bob"); allow if true
	saver, err := tok.Authorizer(pub, opts)
	if err != nil {
		t.Fatal(err)
	}
	saver.AddCheck(checkBob)
	saver.AddPolicy(biscuit.DefaultAllowPolicy)
	snapshot, err := saver.SerializePolicies()
	if err != nil {
		t.Fatal(err)
	}

	// reference: the same content given through the Add* methods only
	ref, err := tok.Authorizer(pub, opts)
	if err != nil {
		t.Fatal(err)
	}
	ref.AddFact(biscuit.Fact{Predicate: user("alice")})
	ref.AddCheck(checkBob)
	ref.AddPolicy(biscuit.DefaultAllowPolicy)
	refErr := ref.Authorize()
	if refErr == nil || !strings.Contains(refErr.Error(), "failed to verify check #0") {
		t.Fatalf("reference authorizer: want a failure of check #0, got %v", refErr)
	}

	// request fact first, then the saved policies
	a, err := tok.Authorizer(pub, opts)
	if err != nil {
		t.Fatal(err)
	}
	a.AddFact(biscuit.Fact{Predicate: user("alice")})
	before := a.PrintWorld()
	if err := a.LoadPolicies(snapshot); err != nil {
		t.Fatal(err)
	}
	after := a.PrintWorld()

	got := a.Authorize()
	if got == nil {
		t.Fatalf("the only user fact is user(\"alice\"); `check if user(\"bob\")` has no satisfied query, "+
			"so Authorize must report a verification failure, but it returned nil (request allowed).\n"+
			"world before LoadPolicies: %s\nworld after LoadPolicies:  %s", before, after)
	}
	if !strings.Contains(got.Error(), "failed to verify check #0") {
		t.Fatalf("want a failure of check #0, got %v", got)
	}
}
