package biscuit

import (
	"crypto/ed25519"
	"crypto/rand"
	"testing"
	"time"

	"github.com/biscuit-auth/biscuit-go/v2/datalog"
)

// Commit 7a67cc5 stops a reused authorizer from accumulating a copy of the
// authority rules per Authorize call. One more piece of token content is still
// accumulated per call: every Authorize appends one full copy of the world
// (authorizer + authority facts, derived facts, block facts) per token block to
// v.block_worlds, a field nothing reads, and neither the next Authorize nor
// Reset drops them. An authorizer that is reused (the use the commit repairs)
// keeps calls x blocks world copies alive.
func TestAuthorizeDoesNotAccumulateBlockWorlds(t *testing.T) {
	pub, priv, _ := ed25519.GenerateKey(rand.Reader)
	tok, err := NewBuilder(priv).Build()
	if err != nil {
		t.Fatal(err)
	}
	for i := 0; i < 2; i++ {
		bb := tok.CreateBlock()
		if err := bb.AddFact(Fact{Predicate{Name: "blk", IDs: []Term{Integer(i)}}}); err != nil {
			t.Fatal(err)
		}
		if tok, err = tok.Append(rand.Reader, bb.Build()); err != nil {
			t.Fatal(err)
		}
	}

	a, err := tok.Authorizer(pub, WithWorldOptions(datalog.WithMaxDuration(10*time.Second)))
	if err != nil {
		t.Fatal(err)
	}
	a.AddPolicy(DefaultAllowPolicy)
	for i := 0; i < 5; i++ {
		if err := a.Authorize(); err != nil {
			t.Fatal(err)
		}
	}
	if n := len(a.(*authorizer).block_worlds); n > 2 {
		t.Errorf("after 5 Authorize calls on a token with 2 blocks the authorizer holds %d block worlds, want at most 2", n)
	}

	a.Reset()
	if n := len(a.(*authorizer).block_worlds); n != 0 {
		t.Errorf("after Reset the authorizer still holds %d block worlds", n)
	}
}
