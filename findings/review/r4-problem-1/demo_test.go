package datalog

import "testing"

// Commit 3a7ea26 replaced the scan in Set.Equal / Intersect / Union / Len and the
// set/set case of Contains by a freshly built hash index, whatever the size of
// the operands. For the small sets tokens normally carry, the index costs far
// more than the scan it replaces: every comparison of two one-element sets now
// allocates two maps and two index structs (4 allocations, 384 bytes, about
// 15-50 times the time), and Set.Equal is on the path of FactSet.Insert, which
// compares a new fact with every fact already known. On the machine used for
// the review the index only wins from about 64 elements per set.
//
// The test is deterministic: it counts allocations instead of measuring time.
func TestSmallSetOperationsDoNotAllocateAnIndex(t *testing.T) {
	a := Set{Integer(1), Integer(2), Integer(3)}
	b := Set{Integer(3), Integer(2), Integer(1)}

	if n := testing.AllocsPerRun(100, func() {
		if !a.Equal(b) {
			t.Fatal("sets must be equal")
		}
	}); n != 0 {
		t.Errorf("Set.Equal on two 3-element sets: %.0f allocations per call, want 0 (the code before 3a7ea26 and the original code at a2cc841 made none)", n)
	}

	// the same comparison, as FactSet.Insert performs it for every known fact
	facts := &FactSet{}
	for i := 0; i < 50; i++ {
		facts.Insert(Fact{Predicate{Name: String(1), Terms: []Term{Set{Integer(1), Integer(2)}, Integer(i)}}})
	}
	newFact := Fact{Predicate{Name: String(1), Terms: []Term{Set{Integer(2), Integer(1)}, Integer(49)}}}
	if n := testing.AllocsPerRun(20, func() { facts.Insert(newFact) }); n > 10 {
		t.Errorf("FactSet.Insert of a known fact into 50 facts that carry a 2-element set: %.0f allocations, want none (one index pair per fact compared)", n)
	}

	// Contains with a set on the right builds an index of the whole left set
	// to look up a single element
	one := Set{Integer(1)}
	if n := testing.AllocsPerRun(100, func() {
		Contains{}.Eval(a, one, nil)
	}); n > 2 {
		t.Errorf("Contains{}.Eval([1,2,3], [1]): %.0f allocations per call, want at most 2 (the boxed operands/result, as before 3a7ea26)", n)
	}
}
