package biscuit

import (
	"crypto/ed25519"
	"crypto/rand"
	"strings"
	"testing"

	"github.com/biscuit-auth/biscuit-go/v2/pb"
	"google.golang.org/protobuf/proto"
)

// Commit 966f70d makes LoadPolicies put the authorizer's symbol table back
// when it refuses a snapshot for its symbol table. A snapshot that is refused a
// few lines later (an element that cannot be decoded: policiesContent leaves it
// out on purpose, "loading it reports the error") is still loaded half way: the
// snapshot's symbol table replaces the authorizer's, and the facts and rules
// that precede the bad element stay in the world. The authorizer then
//   - refuses every later LoadPolicies, including a valid snapshot, because it
//     "already holds content" (the precondition of ff9de30), and
//   - authorizes with facts of a snapshot it has refused.
func TestLoadPoliciesRefusedSnapshotLeavesNothingBehind(t *testing.T) {
	pub, priv, _ := ed25519.GenerateKey(rand.Reader)
	tok, err := NewBuilder(priv).Build()
	if err != nil {
		t.Fatal(err)
	}

	src, _ := tok.Authorizer(pub)
	src.AddFact(Fact{Predicate{Name: "is_admin", IDs: []Term{String("alice")}}})
	src.AddPolicy(DefaultAllowPolicy)
	good, err := src.SerializePolicies()
	if err != nil {
		t.Fatal(err)
	}

	// the same snapshot with one more fact, whose term has no content
	p := &pb.AuthorizerPolicies{}
	if err := proto.Unmarshal(good, p); err != nil {
		t.Fatal(err)
	}
	p.Facts = append(p.Facts, &pb.FactV2{Predicate: &pb.PredicateV2{
		Name:  proto.Uint64(1024),
		Terms: []*pb.TermV2{{}},
	}})
	bad, err := proto.Marshal(p)
	if err != nil {
		t.Fatal(err)
	}

	a, _ := tok.Authorizer(pub)
	empty := a.PrintWorld()
	if err := a.LoadPolicies(bad); err == nil {
		t.Fatal("the malformed snapshot was accepted")
	}

	if w := a.PrintWorld(); w != empty {
		t.Errorf("the refused snapshot left content in the authorizer:\n%s", w)
	}
	if n := a.(*authorizer).symbols.Len(); n != 0 {
		t.Errorf("the refused snapshot left %d symbols in the authorizer's table: %v", n, *a.(*authorizer).symbols)
	}
	if err := a.LoadPolicies(good); err != nil {
		t.Errorf("a valid snapshot is refused after a refused one: %v", err)
	}
	q, err := a.Query(Rule{
		Head: Predicate{Name: "q", IDs: []Term{Variable("u")}},
		Body: []Predicate{{Name: "is_admin", IDs: []Term{Variable("u")}}},
	})
	if err != nil {
		t.Fatal(err)
	}
	if len(q) != 1 || !strings.Contains(q[0].String(), "alice") {
		t.Errorf("unexpected query result %v", q)
	}
}
