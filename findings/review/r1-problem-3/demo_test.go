package datalog

import (
	"fmt"
	"testing"
)

// Commit 4135da3 replaced the map lookups of Set.Equal / Intersect / Union by
// linear scans (Set.has), and bc71a0d added more of them (result.has in Union
// and Intersect, a second pass in Equal, Len() = Union(nil)). Every set
// operation, length() and every comparison of set-valued terms
// (Predicate.Match / Equal, FactSet.Insert, MatchedVariables.Insert) is now
// quadratic in the set size, where it was linear. On an idle machine two
// 30000-element sets cost a few milliseconds before and 2-4 seconds now, on the
// goroutine whose deadline cannot interrupt a single expression (problem-2).
//
// To be independent of the machine the test counts element comparisons instead
// of measuring time.

var review1EqualCalls int

type review1Term int

func (review1Term) Type() TermType { return TermTypeInteger }
func (c review1Term) Equal(t Term) bool {
	review1EqualCalls++
	o, ok := t.(review1Term)
	return ok && o == c
}
func (c review1Term) String() string { return fmt.Sprintf("%d", int(c)) }

func TestReview1SetOperationsAreQuadratic(t *testing.T) {
	const n = 2000
	a, b := make(Set, n), make(Set, n)
	for i := 0; i < n; i++ {
		a[i] = review1Term(i)
		b[i] = review1Term(n - 1 - i)
	}

	ops := []struct {
		name string
		f    func()
	}{
		{"Intersect", func() { _ = a.Intersect(b) }},
		{"Union", func() { _ = a.Union(b) }},
		{"Equal", func() { _ = a.Equal(b) }},
	}
	for _, op := range ops {
		review1EqualCalls = 0
		op.f()
		// a linear implementation needs no element comparison at all (hash
		// lookups); allow a generous 20 per element
		if review1EqualCalls > 20*n {
			t.Errorf("Set.%s on two %d-element sets made %d element comparisons (n*n = %d)", op.name, n, review1EqualCalls, n*n)
		}
	}
}
