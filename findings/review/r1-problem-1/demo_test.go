package datalog

import "testing"

// World.Query still compares terms with the Go != operator on interface
// values. Bytes and Set are slices: the comparison panics with
// "runtime error: comparing uncomparable type datalog.Bytes" (the very panic
// class commit 4135da3 removed from Set.Equal / Intersect / Union), and for
// sets it would not be order-insensitive anyway.
func TestReview1WorldQueryBytes(t *testing.T) {
	w := NewWorld()
	w.AddFact(Fact{Predicate{Name: 1, Terms: []Term{Bytes{1, 2}}}})
	w.AddFact(Fact{Predicate{Name: 1, Terms: []Term{Bytes{3}}}})

	defer func() {
		if r := recover(); r != nil {
			t.Fatalf("World.Query panicked on a Bytes term: %v", r)
		}
	}()
	res := w.Query(Predicate{Name: 1, Terms: []Term{Bytes{1, 2}}})
	if len(*res) != 1 {
		t.Fatalf("expected exactly one matching fact, got %v", *res)
	}
}

func TestReview1WorldQuerySet(t *testing.T) {
	w := NewWorld()
	w.AddFact(Fact{Predicate{Name: 1, Terms: []Term{Set{Integer(1), Integer(2)}}}})

	defer func() {
		if r := recover(); r != nil {
			t.Fatalf("World.Query panicked on a Set term: %v", r)
		}
	}()
	// same set, other element order
	res := w.Query(Predicate{Name: 1, Terms: []Term{Set{Integer(2), Integer(1)}}})
	if len(*res) != 1 {
		t.Fatalf("expected exactly one matching fact, got %v", *res)
	}
}
