package biscuit

// Demo for commit 1e56998 ("fix: Authorize no longer deletes the authorizer's rules").
//
// Authorize adds the token's authority rules to the authorizer's own world on every
// call. Before the commit the world's rules were dropped by ResetRules() in the same
// call, so the world never grew. Now nothing removes them: every further Authorize
// (the use case the commit message explicitly supports: "a second Authorize, after
// adding a fact, say") appends one more copy of every authority rule. World.Run applies
// every copy on every iteration (one goroutine per rule application), so a long-lived
// authorizer gets linearly slower until it hits ErrWorldRunLimitTimeout, and its
// memory grows without bound.

import (
	"crypto/ed25519"
	"crypto/rand"
	"testing"
	"time"

	"github.com/biscuit-auth/biscuit-go/v2/datalog"
)

func TestReviewAuthorizeAccumulatesAuthorityRules(t *testing.T) {
	pub, priv, err := ed25519.GenerateKey(rand.Reader)
	if err != nil {
		t.Fatal(err)
	}

	b := NewBuilder(priv)
	if err := b.AddAuthorityFact(Fact{Predicate{Name: "right", IDs: []Term{String("f1"), String("read")}}}); err != nil {
		t.Fatal(err)
	}
	// two authority rules
	if err := b.AddAuthorityRule(Rule{
		Head: Predicate{Name: "can_read", IDs: []Term{Variable("f")}},
		Body: []Predicate{{Name: "right", IDs: []Term{Variable("f"), String("read")}}},
	}); err != nil {
		t.Fatal(err)
	}
	if err := b.AddAuthorityRule(Rule{
		Head: Predicate{Name: "known", IDs: []Term{Variable("f")}},
		Body: []Predicate{{Name: "right", IDs: []Term{Variable("f"), Variable("op")}}},
	}); err != nil {
		t.Fatal(err)
	}
	tok, err := b.Build()
	if err != nil {
		t.Fatal(err)
	}

	// generous limit: the 2 ms default is not what is being tested
	a, err := tok.Authorizer(pub, WithWorldOptions(datalog.WithMaxDuration(30*time.Second)))
	if err != nil {
		t.Fatal(err)
	}
	// one rule of the authorizer itself
	a.AddRule(Rule{
		Head: Predicate{Name: "derived", IDs: []Term{Variable("f")}},
		Body: []Predicate{{Name: "can_read", IDs: []Term{Variable("f")}}},
	})
	a.AddPolicy(Policy{Kind: PolicyKindAllow, Queries: []Rule{{
		Head: Predicate{Name: "query"},
		Body: []Predicate{{Name: "derived", IDs: []Term{String("f1")}}},
	}}})

	if err := a.Authorize(); err != nil {
		t.Fatalf("first Authorize: %v", err)
	}
	afterFirst := len(a.(*authorizer).world.Rules())

	const more = 10
	for i := 0; i < more; i++ {
		a.AddFact(Fact{Predicate{Name: "request", IDs: []Term{Integer(i)}}})
		if err := a.Authorize(); err != nil {
			t.Fatalf("Authorize #%d: %v", i+2, err)
		}
	}
	afterMany := len(a.(*authorizer).world.Rules())

	// 1 authorizer rule + 2 authority rules is all that is ever needed
	if afterMany != afterFirst {
		t.Fatalf("the authorizer's world grows with every Authorize: %d rules after the first call, %d after %d more calls (each call appends another copy of the %d authority rules)",
			afterFirst, afterMany, more, 2)
	}
}
