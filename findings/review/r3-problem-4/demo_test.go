package biscuit_test

// Incomplete repair of e303074 / 004d245 (Unmarshal refuses symbol tables that
// repeat a known symbol, and indexes that no table declares). LoadPolicies
// builds its table with the same SymbolTable.Extend and has neither check:
//   - a snapshot table that repeats a default symbol (or one of its own
//     entries) is silently shortened, so every later index resolves to another
//     string than the one the snapshot declares;
//   - an index that the snapshot does not declare is accepted and becomes the
//     literal name "<invalid symbol N>".
// Low severity (policy snapshots are normally produced by SerializePolicies),
// but the loaded policy is not the stored one and no error is reported.

import (
	"crypto/ed25519"
	"crypto/rand"
	"strings"
	"testing"

	"github.com/biscuit-auth/biscuit-go/v2"
	"github.com/biscuit-auth/biscuit-go/v2/pb"
	"google.golang.org/protobuf/proto"
)

func reviewAuthorizer(t *testing.T) biscuit.Authorizer {
	t.Helper()
	pub, priv, err := ed25519.GenerateKey(rand.Reader)
	if err != nil {
		t.Fatal(err)
	}
	b := biscuit.NewBuilder(priv)
	if err := b.AddAuthorityFact(biscuit.Fact{Predicate: biscuit.Predicate{Name: "right", IDs: []biscuit.Term{biscuit.String("file1")}}}); err != nil {
		t.Fatal(err)
	}
	tok, err := b.Build()
	if err != nil {
		t.Fatal(err)
	}
	a, err := tok.Authorizer(pub)
	if err != nil {
		t.Fatal(err)
	}
	return a
}

func reviewSnapshot(t *testing.T, symbols []string, name, term uint64) []byte {
	t.Helper()
	kind := pb.Policy_Allow
	head := uint64(27) // query
	out, err := proto.Marshal(&pb.AuthorizerPolicies{
		Symbols: symbols,
		Version: proto.Uint32(3),
		Policies: []*pb.Policy{{
			Kind: &kind,
			Queries: []*pb.RuleV2{{
				Head: &pb.PredicateV2{Name: &head},
				Body: []*pb.PredicateV2{{Name: &name, Terms: []*pb.TermV2{{Content: &pb.TermV2_String_{String_: term}}}}},
			}},
		}},
	})
	if err != nil {
		t.Fatal(err)
	}
	return out
}

func TestReviewLoadPoliciesOverlappingTable(t *testing.T) {
	a := reviewAuthorizer(t)
	// the snapshot says: 1024 = "read" (repeats a default symbol), 1025 = "is_admin", 1026 = "yes"
	// and its policy is: allow if is_admin("yes")
	err := a.LoadPolicies(reviewSnapshot(t, []string{"read", "is_admin", "yes"}, 1025, 1026))
	if err == nil {
		// what was loaded? the policy is written back out through the public API
		ser, serr := a.SerializePolicies()
		if serr != nil {
			t.Fatal(serr)
		}
		back := &pb.AuthorizerPolicies{}
		if uerr := proto.Unmarshal(ser, back); uerr != nil {
			t.Fatal(uerr)
		}
		t.Errorf("a snapshot whose table repeats a known symbol was loaded without error; "+
			"the policy `allow if is_admin(\"yes\")` became one over the symbols %q", back.Symbols)
	}
}

func TestReviewLoadPoliciesUndeclaredSymbol(t *testing.T) {
	a := reviewAuthorizer(t)
	// 1030 is declared by nothing
	err := a.LoadPolicies(reviewSnapshot(t, []string{"is_admin"}, 1024, 1030))
	if err == nil {
		ser, serr := a.SerializePolicies()
		if serr != nil {
			t.Fatal(serr)
		}
		back := &pb.AuthorizerPolicies{}
		if uerr := proto.Unmarshal(ser, back); uerr != nil {
			t.Fatal(uerr)
		}
		if strings.Contains(strings.Join(back.Symbols, ","), "invalid symbol") {
			t.Errorf("a snapshot using an undeclared symbol index was loaded without error; symbols now %q", back.Symbols)
		}
	}
}
