package biscuit_test

// Incomplete repair of 8ba10b1 ("Builder.Build no longer truncates the
// builder's symbol table"): BlockBuilder.Build still replaces the block
// builder's own table with the split-off part while the builder keeps its
// facts, rules, checks and symbolsStart. A second Build therefore either
// panics in SymbolTable.SplitOff ("split index out of bound") or returns a
// block that declares only the tail of its symbols; Append signs that block
// without complaint and the resulting token is malformed (Unmarshal now
// refuses it with ErrMissingSymbols; before 004d245 it silently resolved the
// indexes to other strings).

import (
	"crypto/ed25519"
	"crypto/rand"
	"testing"

	"github.com/biscuit-auth/biscuit-go/v2"
)

func reviewToken(t *testing.T) (*biscuit.Biscuit, ed25519.PublicKey) {
	t.Helper()
	pub, priv, err := ed25519.GenerateKey(rand.Reader)
	if err != nil {
		t.Fatal(err)
	}
	b := biscuit.NewBuilder(priv)
	// two symbols beyond the default table: "file1", "readx"
	if err := b.AddAuthorityFact(biscuit.Fact{Predicate: biscuit.Predicate{Name: "right", IDs: []biscuit.Term{biscuit.String("file1"), biscuit.String("readx")}}}); err != nil {
		t.Fatal(err)
	}
	tok, err := b.Build()
	if err != nil {
		t.Fatal(err)
	}
	return tok, pub
}

// A block that adds fewer new symbols than the token already holds: the second
// Build panics.
func TestReviewBlockBuilderSecondBuildPanics(t *testing.T) {
	tok, _ := reviewToken(t)
	bb := tok.CreateBlock()
	if err := bb.AddFact(biscuit.Fact{Predicate: biscuit.Predicate{Name: "right", IDs: []biscuit.Term{biscuit.String("file2")}}}); err != nil {
		t.Fatal(err)
	}
	_ = bb.Build()
	defer func() {
		if r := recover(); r != nil {
			t.Fatalf("second BlockBuilder.Build panicked: %v", r)
		}
	}()
	_ = bb.Build()
}

// A block that adds more new symbols than the token holds: the second Build
// returns a block whose table lost its first symbols, Append signs it, and the
// serialized token cannot be loaded.
func TestReviewBlockBuilderSecondBuildMalformedToken(t *testing.T) {
	tok, pub := reviewToken(t)
	bb := tok.CreateBlock()
	if err := bb.AddFact(biscuit.Fact{Predicate: biscuit.Predicate{Name: "owner", IDs: []biscuit.Term{
		biscuit.String("a1"), biscuit.String("a2"), biscuit.String("a3"), biscuit.String("a4")}}}); err != nil {
		t.Fatal(err)
	}

	first, err := tok.Append(rand.Reader, bb.Build())
	if err != nil {
		t.Fatal(err)
	}
	second, err := tok.Append(rand.Reader, bb.Build()) // e.g. the same attenuation applied again
	if err != nil {
		t.Fatal(err)
	}

	for name, tk := range map[string]*biscuit.Biscuit{"first": first, "second": second} {
		ser, err := tk.Serialize()
		if err != nil {
			t.Fatal(err)
		}
		loaded, err := biscuit.Unmarshal(ser)
		if err != nil {
			t.Errorf("token appended from the %s Build does not load: %v", name, err)
			continue
		}
		if _, err := loaded.Authorizer(pub); err != nil {
			t.Errorf("%s: %v", name, err)
		}
		if got, want := loaded.Code()[0], first.Code()[0]; got != want {
			t.Errorf("%s Build: block reads\n%s\nwant\n%s", name, got, want)
		}
	}
}
