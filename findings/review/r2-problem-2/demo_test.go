package biscuit

// Demo for commit a517142 ("fix: refuse dates before the UNIX epoch instead of wrapping them").
//
// The repair only covers two entry points: date literals in the text syntax
// (parser) and the protobuf encoder (Builder.Build / Append / SerializePolicies).
// The conversion that actually wraps, Date.convert (types.go), is unchanged, and
// everything an Authorizer is given (AddFact, AddRule, AddCheck, AddPolicy, also
// through parser parameters such as {now}) goes straight into the datalog world
// without ever being encoded. A pre-epoch time.Time (for instance the zero
// time.Time of an unset field) therefore still becomes about 2^64 seconds and is
// still "ordered after every later date": a token that is not valid before 2030
// is accepted when the authorizer says the current time is 1969 or year 1.

import (
	"crypto/ed25519"
	"crypto/rand"
	"testing"
	"time"

	"github.com/biscuit-auth/biscuit-go/v2/datalog"
)

func TestReviewPreEpochDateInAuthorizerStillWraps(t *testing.T) {
	pub, priv, err := ed25519.GenerateKey(rand.Reader)
	if err != nil {
		t.Fatal(err)
	}

	notBefore := time.Date(2030, 1, 1, 0, 0, 0, 0, time.UTC)

	b := NewBuilder(priv)
	// check if time($t), $t >= 2030-01-01T00:00:00Z
	if err := b.AddAuthorityCheck(Check{Queries: []Rule{{
		Head: Predicate{Name: "query"},
		Body: []Predicate{{Name: "time", IDs: []Term{Variable("t")}}},
		Expressions: []Expression{{
			Value{Term: Variable("t")},
			Value{Term: Date(notBefore)},
			BinaryGreaterOrEqual,
		}},
	}}}); err != nil {
		t.Fatal(err)
	}
	tok, err := b.Build()
	if err != nil {
		t.Fatal(err)
	}

	for _, now := range []time.Time{
		{}, // zero time.Time, year 1
		time.Date(1969, 12, 31, 23, 59, 59, 0, time.UTC),
	} {
		a, err := tok.Authorizer(pub, WithWorldOptions(datalog.WithMaxDuration(30*time.Second)))
		if err != nil {
			t.Fatal(err)
		}
		a.AddFact(Fact{Predicate{Name: "time", IDs: []Term{Date(now)}}})
		a.AddPolicy(DefaultAllowPolicy)

		if err := a.Authorize(); err == nil {
			t.Errorf("token not valid before %s was accepted at time(%s): the pre-epoch date given to the authorizer wrapped to %d",
				notBefore.Format(time.RFC3339), now.Format(time.RFC3339),
				uint64(Date(now).convert(nil).(datalog.Date)))
		}
	}

	// control: a representable earlier date is refused as expected
	a, err := tok.Authorizer(pub, WithWorldOptions(datalog.WithMaxDuration(30*time.Second)))
	if err != nil {
		t.Fatal(err)
	}
	a.AddFact(Fact{Predicate{Name: "time", IDs: []Term{Date(time.Date(2020, 1, 1, 0, 0, 0, 0, time.UTC))}}})
	a.AddPolicy(DefaultAllowPolicy)
	if err := a.Authorize(); err == nil {
		t.Fatal("control failed: 2020 accepted by a not-before-2030 check")
	}
}
