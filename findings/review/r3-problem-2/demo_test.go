package biscuit_test

// Incomplete repair of a517142 ("refuse dates before the UNIX epoch instead of
// wrapping them"). The repair rejects such a date in the text parser and in the
// protobuf encoder (tokenIDToProtoIDV2). Content given to an Authorizer
// (AddFact / AddRule / AddCheck / AddPolicy, directly or through parser
// parameters) never goes through the encoder: Date.convert in types.go still
// turns a time.Time before 1970 (including the zero time.Time) into a value
// near 2^64, so it is ordered after every later date. PrintWorld even shows
// the date as written (1969-12-31), hiding the wrap.

import (
	"crypto/ed25519"
	"crypto/rand"
	"strings"
	"testing"
	"time"

	"github.com/biscuit-auth/biscuit-go/v2"
	"github.com/biscuit-auth/biscuit-go/v2/datalog"
)

func TestReviewAuthorizerDateBeforeEpochStillWraps(t *testing.T) {
	pub, priv, err := ed25519.GenerateKey(rand.Reader)
	if err != nil {
		t.Fatal(err)
	}
	b := biscuit.NewBuilder(priv)
	if err := b.AddAuthorityFact(biscuit.Fact{Predicate: biscuit.Predicate{Name: "right", IDs: []biscuit.Term{biscuit.String("file1")}}}); err != nil {
		t.Fatal(err)
	}
	tok, err := b.Build()
	if err != nil {
		t.Fatal(err)
	}

	for name, instant := range map[string]time.Time{
		"1969-12-31": time.Date(1969, 12, 31, 0, 0, 0, 0, time.UTC),
		"zero time":  {},
	} {
		// generous limits: this demo is not about the 2 ms default
		a, err := tok.Authorizer(pub, biscuit.WithWorldOptions(datalog.WithMaxDuration(10*time.Second)))
		if err != nil {
			t.Fatal(err)
		}
		a.AddFact(biscuit.Fact{Predicate: biscuit.Predicate{Name: "time", IDs: []biscuit.Term{biscuit.Date(instant)}}})
		// check if time($t), $t < 2000-01-01T00:00:00Z
		a.AddCheck(biscuit.Check{Queries: []biscuit.Rule{{
			Head: biscuit.Predicate{Name: "query"},
			Body: []biscuit.Predicate{{Name: "time", IDs: []biscuit.Term{biscuit.Variable("t")}}},
			Expressions: []biscuit.Expression{{
				biscuit.Value{Term: biscuit.Variable("t")},
				biscuit.Value{Term: biscuit.Date(time.Date(2000, 1, 1, 0, 0, 0, 0, time.UTC))},
				biscuit.BinaryLessThan,
			}},
		}}})
		a.AddPolicy(biscuit.DefaultAllowPolicy)

		err = a.Authorize()
		// acceptable outcomes: the instant is ordered correctly (nil), or the
		// authorizer reports that it cannot represent it. Not acceptable: the
		// check "1969 < 2000" silently evaluates to false.
		if err != nil && !strings.Contains(err.Error(), "epoch") {
			t.Errorf("%s: a date before the epoch was wrapped and compared as a far-future date: %v\n%s", name, err, a.PrintWorld())
		}
	}
}
