package datalog

import (
	"errors"
	"testing"
	"time"
)

// Since commit 12d9da8 World.Run waits for its worker, the worker waits for
// the join producer, and the producer only looks at its stop channel between
// two steps. One step can be arbitrarily long (here one expression over two
// 40000-element sets, which Contains has always evaluated in n*n), so Run no
// longer returns at maxDuration: with a 10 ms limit it blocks for seconds.
// Before the commit Run returned ErrWorldRunLimitTimeout after ~10 ms.
func TestReview1RunDeadlineIsNotABound(t *testing.T) {
	const n = 40000
	set := make(Set, n)
	for i := range set {
		set[i] = Integer(i)
	}

	w := NewWorld(WithMaxDuration(10 * time.Millisecond))
	w.AddFact(Fact{Predicate{Name: 1, Terms: []Term{set}}})
	w.AddRule(Rule{
		Head: Predicate{Name: 2, Terms: []Term{Integer(0)}},
		Body: []Predicate{{Name: 1, Terms: []Term{Variable(0)}}},
		Expressions: []Expression{{
			Value{Variable(0)}, Value{Variable(0)}, BinaryOp{Contains{}},
		}},
	})

	start := time.Now()
	err := w.Run(&SymbolTable{})
	elapsed := time.Since(start)

	if !errors.Is(err, ErrWorldRunLimitTimeout) {
		t.Fatalf("expected a timeout, got %v after %v", err, elapsed)
	}
	if elapsed > time.Second {
		t.Fatalf("Run with maxDuration=10ms returned only after %v", elapsed)
	}
}
