package biscuit_test

// Incomplete repair of 02bfeda ("refuse a root public key that is not 32 bytes
// instead of panicking in ed25519.Verify"). The same wrong-size root key still
// panics on the signing side: NewBuilder(...).Build() and biscuit.New pass the
// root private key straight to ed25519.Sign, which panics on any length other
// than 64 (a typical mistake is to hand over the 32-byte seed). Low severity:
// the key comes from the application, not from the presented token.

import (
	"crypto/ed25519"
	"crypto/rand"
	"errors"
	"testing"

	"github.com/biscuit-auth/biscuit-go/v2"
)

func TestReviewRootPrivateKeyOfWrongSizePanics(t *testing.T) {
	_, priv, err := ed25519.GenerateKey(rand.Reader)
	if err != nil {
		t.Fatal(err)
	}
	for name, key := range map[string]ed25519.PrivateKey{
		"seed only": ed25519.PrivateKey(priv.Seed()),
		"truncated": priv[:63],
		"nil":       nil,
	} {
		func() {
			defer func() {
				if r := recover(); r != nil {
					t.Errorf("%s: Build panicked instead of returning ErrInvalidKeySize: %v", name, r)
				}
			}()
			b := biscuit.NewBuilder(key)
			if err := b.AddAuthorityFact(biscuit.Fact{Predicate: biscuit.Predicate{Name: "right", IDs: []biscuit.Term{biscuit.String("file1")}}}); err != nil {
				t.Fatal(err)
			}
			tok, err := b.Build()
			if !errors.Is(err, biscuit.ErrInvalidKeySize) || tok != nil {
				t.Errorf("%s: got token %v, error %v; want ErrInvalidKeySize", name, tok != nil, err)
			}
		}()
	}
}
