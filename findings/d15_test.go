package repro

import (
	"crypto/ed25519"
	"crypto/rand"
	"testing"

	biscuit "github.com/biscuit-auth/biscuit-go/v2"
	"github.com/biscuit-auth/biscuit-go/v2/pb"
	"google.golang.org/protobuf/proto"
)

// D15: protobuf-go does not enforce `required` inside messages that are members of a oneof.
// A block whose expression holds an OpBinary / OpUnary without `kind` reaches `*op.Kind`.
func craft(t *testing.T, op *pb.Op) []byte {
	t.Helper()
	rootPub, rootPriv, _ := ed25519.GenerateKey(rand.Reader)
	_ = rootPub
	nextPub, nextPriv, _ := ed25519.GenerateKey(rand.Reader)
	name := uint64(0)
	blk := &pb.Block{
		Version: proto.Uint32(3),
		ChecksV2: []*pb.CheckV2{{Queries: []*pb.RuleV2{{
			Head:        &pb.PredicateV2{Name: &name},
			Expressions: []*pb.ExpressionV2{{Ops: []*pb.Op{op}}},
		}}}},
	}
	raw, err := proto.MarshalOptions{AllowPartial: true}.Marshal(blk)
	if err != nil {
		t.Fatal(err)
	}
	alg := pb.PublicKey_Ed25519
	msg := append(append([]byte{}, raw...), 0, 0, 0, 0)
	msg = append(msg, nextPub...)
	sig := ed25519.Sign(rootPriv, msg)
	env := &pb.Biscuit{
		Authority: &pb.SignedBlock{Block: raw, NextKey: &pb.PublicKey{Algorithm: &alg, Key: nextPub}, Signature: sig},
		Proof:     &pb.Proof{Content: &pb.Proof_NextSecret{NextSecret: nextPriv.Seed()}},
	}
	out, err := proto.Marshal(env)
	if err != nil {
		t.Fatal(err)
	}
	return out
}

func TestD15BinaryKindMissing(t *testing.T) {
	data := craft(t, &pb.Op{Content: &pb.Op_Binary{Binary: &pb.OpBinary{}}})
	defer func() {
		if r := recover(); r != nil {
			t.Fatalf("Unmarshal panicked on untrusted bytes: %v", r)
		}
	}()
	_, err := biscuit.Unmarshal(data)
	t.Logf("err=%v", err)
}

func TestD15UnaryKindMissing(t *testing.T) {
	data := craft(t, &pb.Op{Content: &pb.Op_Unary{Unary: &pb.OpUnary{}}})
	defer func() {
		if r := recover(); r != nil {
			t.Fatalf("Unmarshal panicked on untrusted bytes: %v", r)
		}
	}()
	_, err := biscuit.Unmarshal(data)
	t.Logf("err=%v", err)
}
