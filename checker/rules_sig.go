package main

import (
	"fmt"
	"go/token"
	"go/types"
	"strings"

	"golang.org/x/tools/go/ssa"
)

func init() {
	register(
		&Rule{ID: "SIG-PAYLOAD", Doc: "every ed25519.Sign/Verify message is exactly block||alg||nextkey (link) or block||alg||nextkey||signature (seal) over one signed block; signers store what they sign", Run: ruleSigPayload, Min: 3},
		&Rule{ID: "SIG-WALK", Doc: "NewVerifier is reached only after the authority link was verified with the root key, every block link with the previous next key, and the proof against the last key", Run: ruleSigWalk, Min: 7},
		&Rule{ID: "SIG-GATE", Doc: "Unmarshal accepts a token only after the key/signature size gates of the authority and of every block", Run: ruleSigGate, Min: 4},
		&Rule{ID: "SIG-PAIR", Doc: "each signer draws exactly one key pair: public half announced and signed, seed stored as the next secret", Run: ruleSigPair, Min: 4},
		&Rule{ID: "CONS-LEN", Doc: "every Biscuit literal has len(blocks) == len(container.Blocks) by construction", Run: ruleConsLen, Min: 2},
	)
}

type compKind int

const (
	cOther compKind = iota
	cBlock
	cAlg
	cKey
	cSig
)

func (k compKind) String() string { return [...]string{"OTHER", "BLOCK", "ALG", "KEY", "SIG"}[k] }

type component struct {
	kind     compKind
	sigma    string    // access path of the signed block this component was read from; "" for fresh values / constants
	val      ssa.Value // the component value (unwrapped)
	sigmaVal ssa.Value // the *pb.SignedBlock value the component was read from (nil for fresh values)
	note     string
}

// concatNF flattens append(append(x, y...), z...) chains into their ordered parts.
func concatNF(v ssa.Value) []ssa.Value {
	v = unwrap(v)
	if c, ok := v.(*ssa.Call); ok {
		if bi, isB := c.Call.Value.(*ssa.Builtin); isB && bi.Name() == "append" && len(c.Call.Args) == 2 {
			return append(concatNF(c.Call.Args[0]), unwrap(c.Call.Args[1]))
		}
	}
	if isEmptyFresh(v) {
		return nil
	}
	if s, ok := v.(*ssa.Slice); ok && isEmptyFresh(s) {
		return nil
	}
	return []ssa.Value{v}
}

// loadOfField: v == *(&X.name) -> X
func loadOfField(v ssa.Value, name string) (ssa.Value, bool) {
	u, ok := unwrap(v).(*ssa.UnOp)
	if !ok || u.Op != token.MUL {
		return nil, false
	}
	fa, ok := u.X.(*ssa.FieldAddr)
	if !ok || fieldName(fa) != name {
		return nil, false
	}
	return fa.X, true
}

func isSignedBlockPtr(v ssa.Value) bool {
	return isNamed(deref(v.Type()), pkgPathOf("pb"), "SignedBlock")
}

// algBuffer: v is the 4-byte buffer written once by PutUint32; returns the encoded value.
func (p *Prog) algBuffer(v ssa.Value) (ssa.Value, bool) {
	var alloc *ssa.Alloc
	var mk *ssa.MakeSlice
	switch x := v.(type) {
	case *ssa.Slice:
		alloc, _ = x.X.(*ssa.Alloc)
	case *ssa.MakeSlice:
		mk = x
	}
	var root ssa.Value
	if alloc != nil {
		arr, ok := deref(alloc.Type()).Underlying().(*types.Array)
		if !ok || arr.Len() != 4 {
			return nil, false
		}
		root = alloc
	} else if mk != nil {
		if n, ok := constInt(mk.Len); !ok || n != 4 {
			return nil, false
		}
		root = mk
	} else {
		return nil, false
	}
	// every use of the buffer: slices of it passed to exactly one PutUint32, or appended
	var put *ssa.Call
	nput := 0
	var visit func(x ssa.Value) bool
	visit = func(x ssa.Value) bool {
		for _, ref := range *x.Referrers() {
			switch r := ref.(type) {
			case *ssa.Slice:
				if !visit(r) {
					return false
				}
			case *ssa.Call:
				if isCallTo(&r.Call, "encoding/binary.littleEndian.PutUint32") {
					put = r
					nput++
				} else if bi, ok := r.Call.Value.(*ssa.Builtin); ok && bi.Name() == "append" {
					// read only
				} else {
					return false
				}
			case *ssa.IndexAddr, *ssa.Store:
				return false // written some other way
			case *ssa.DebugRef:
			default:
				return false
			}
		}
		return true
	}
	if !visit(root) || nput != 1 {
		return nil, false
	}
	return put.Call.Args[2], true
}

func (p *Prog) classify(c ssa.Value) component {
	c = unwrap(c)
	if x, ok := loadOfField(c, "Block"); ok && isSignedBlockPtr(x) {
		return component{kind: cBlock, sigma: p.D(x), val: c, sigmaVal: x}
	}
	if x, ok := loadOfField(c, "Signature"); ok && isSignedBlockPtr(x) {
		return component{kind: cSig, sigma: p.D(x), val: c, sigmaVal: x}
	}
	if pk, ok := loadOfField(c, "Key"); ok {
		if x, ok2 := loadOfField(pk, "NextKey"); ok2 && isSignedBlockPtr(x) {
			return component{kind: cKey, sigma: p.D(x), val: c, sigmaVal: x}
		}
	}
	if enc, ok := p.algBuffer(c); ok {
		if k, isC := constInt(enc); isC {
			return component{kind: cAlg, sigma: "", val: c, note: fmt.Sprint(k)}
		}
		// uint32(Number(*X.NextKey.Algorithm))
		if cv, isCv := enc.(*ssa.Convert); isCv {
			if call, isCall := cv.X.(*ssa.Call); isCall && isCallTo(&call.Call, "pb.PublicKey_Algorithm.Number") {
				if u, isU := call.Call.Args[0].(*ssa.UnOp); isU && u.Op == token.MUL {
					if pk, ok1 := loadOfField(u.X, "Algorithm"); ok1 {
						if x, ok2 := loadOfField(pk, "NextKey"); ok2 && isSignedBlockPtr(x) {
							return component{kind: cAlg, sigma: p.D(x), val: c, sigmaVal: x}
						}
					}
				}
			}
		}
		return component{kind: cOther, val: c, note: "4-byte buffer encoding " + shortD(enc)}
	}
	// fresh values in signers
	if e, ok := c.(*ssa.Extract); ok {
		if call, isCall := e.Tuple.(*ssa.Call); isCall {
			if isCallTo(&call.Call, "google.golang.org/protobuf/proto.Marshal") && e.Index == 0 {
				return component{kind: cBlock, sigma: "", val: c, note: "fresh"}
			}
			if isCallTo(&call.Call, "crypto/ed25519.GenerateKey") && e.Index == 0 {
				return component{kind: cKey, sigma: "", val: c, note: "fresh"}
			}
		}
	}
	return component{kind: cOther, val: c, note: shortD(c)}
}

type payload struct {
	shape string // "link" | "seal" | ""
	sigma string // "" when over fresh values
	fresh bool
	comps []component
	why   string
}

func (p *Prog) payloadOf(msg ssa.Value) payload {
	var comps []component
	for _, v := range concatNF(msg) {
		comps = append(comps, p.classify(v))
	}
	// one level of helper inlining: the message is the result of a repository function that
	// builds the payload from a *pb.SignedBlock parameter
	if len(comps) == 1 && comps[0].kind == cOther {
		if call, ok := unwrap(msg).(*ssa.Call); ok {
			if f := call.Call.StaticCallee(); f != nil && f.Blocks != nil && p.isRepoFunc(f) {
				rets := returnsOf(f)
				if len(rets) == 1 && len(rets[0].Results) == 1 {
					inner := p.payloadOf(retVal(rets[0], 0))
					if inner.shape != "" && !inner.fresh {
						// the signed block must be one of the helper's parameters
						for i, pa := range f.Params {
							if p.D(pa) == inner.sigma && i < len(call.Call.Args) {
								arg := call.Call.Args[i]
								for k := range inner.comps {
									if inner.comps[k].sigma == inner.sigma {
										inner.comps[k].sigma = p.D(arg)
										inner.comps[k].sigmaVal = arg
									}
								}
								inner.sigma = p.D(arg)
								return inner
							}
						}
					}
				}
			}
		}
	}
	pl := payload{comps: comps}
	kinds := ""
	for _, c := range comps {
		kinds += c.kind.String() + " "
	}
	kinds = strings.TrimSpace(kinds)
	switch kinds {
	case "BLOCK ALG KEY":
		pl.shape = "link"
	case "BLOCK ALG KEY SIG":
		pl.shape = "seal"
	default:
		pl.why = "message is [" + kinds + "], expected [BLOCK ALG KEY] (link) or [BLOCK ALG KEY SIG] (seal)"
		for _, c := range comps {
			if c.kind == cOther {
				pl.why += "; unrecognised component " + c.note
			}
		}
		return pl
	}
	// all components over the same signed block (ALG may be the Ed25519 constant)
	sig := comps[0].sigma
	pl.fresh = comps[0].note == "fresh"
	for _, c := range comps {
		if c.kind == cAlg && c.sigma == "" {
			if c.note != "0" {
				pl.shape, pl.why = "", "algorithm constant "+c.note+" is not Ed25519 (0)"
				return pl
			}
			continue
		}
		if c.sigma != sig || (c.note == "fresh") != pl.fresh {
			pl.shape = ""
			pl.why = fmt.Sprintf("components mix different signed blocks: %s from %q but %s from %q", comps[0].kind, sig, c.kind, c.sigma)
			return pl
		}
	}
	pl.sigma = sig
	return pl
}

func ruleSigPayload(p *Prog, r *Reporter) {
	globalP = p
	for _, fn := range p.funcsIn("biscuit") {
		name := p.FuncName(fn)
		for _, c := range callsIn(fn) {
			cc := c.Common()
			isSign := isCallTo(cc, "crypto/ed25519.Sign")
			isVerify := isCallTo(cc, "crypto/ed25519.Verify")
			if !isSign && !isVerify {
				continue
			}
			pos := p.instrPos(c)
			pl := p.payloadOf(cc.Args[1])
			what := "Verify"
			if isSign {
				what = "Sign"
			}
			if pl.shape == "" {
				r.Bad(pos, name, what+" message", pl.why)
				continue
			}
			construct := what + " " + pl.shape
			if isVerify {
				if pl.fresh {
					r.Bad(pos, name, construct, "Verify over values that are not read from a signed block")
					continue
				}
				sigArg := cc.Args[2]
				switch pl.shape {
				case "link":
					x, ok := loadOfField(sigArg, "Signature")
					ok = ok && p.D(x) == pl.sigma
					r.Check(ok, pos, name, construct+" of "+normaliseD(pl.sigma), "verifies block||alg||nextkey of one signed block against that block's own signature",
						"the signature argument "+shortD(sigArg)+" is not the Signature of the signed block whose bytes/key form the message ("+pl.sigma+")")
				case "seal":
					ok := strings.HasPrefix(p.D(sigArg), "pb.Proof.GetFinalSignature(")
					r.Check(ok, pos, name, construct+" of "+normaliseD(pl.sigma), "verifies block||alg||nextkey||signature of the last block against the proof's final signature",
						"the seal message is checked against "+shortD(sigArg)+", not against Proof.GetFinalSignature()")
				}
				continue
			}
			// signers
			cv, _ := c.(*ssa.Call)
			if cv == nil {
				r.Bad(pos, name, construct, "Sign result discarded")
				continue
			}
			switch {
			case pl.shape == "link" && pl.fresh:
				ok, why := p.signerStores(fn, cv, pl)
				r.Check(ok, pos, name, construct+" (new block)", "signs marshalled block||Ed25519||new public key and stores exactly those values and the signature in the SignedBlock", why)
			case pl.shape == "seal" && !pl.fresh:
				ok := false
				for _, a := range allocsOf(fn, "pb", "Proof_FinalSignature") {
					if v, has := litFields(a)["FinalSignature"]; has && v == ssa.Value(cv) {
						ok = true
					}
				}
				r.Check(ok, pos, name, construct+" of "+normaliseD(pl.sigma), "seal signature over block||alg||nextkey||signature stored as Proof.FinalSignature", "the seal signature is not what is stored in Proof_FinalSignature")
			default:
				r.Bad(pos, name, construct, "a signer must sign either a new block (link over fresh values) or the seal of an existing block")
			}
		}
	}
}

// signerStores: the SignedBlock literal of the signer carries the signed values.
func (p *Prog) signerStores(fn *ssa.Function, sign *ssa.Call, pl payload) (bool, string) {
	for _, a := range allocsOf(fn, "pb", "SignedBlock") {
		f := litFields(a)
		if f["Signature"] != ssa.Value(sign) {
			continue
		}
		if unwrap(f["Block"]) != pl.comps[0].val {
			return false, "SignedBlock.Block is " + shortD(f["Block"]) + ", not the bytes that were signed"
		}
		nk, _ := f["NextKey"].(*ssa.Alloc)
		if nk == nil {
			return false, "SignedBlock.NextKey is not a PublicKey literal"
		}
		kf := litFields(nk)
		if unwrap(kf["Key"]) != pl.comps[2].val {
			return false, "NextKey.Key is " + shortD(kf["Key"]) + ", not the public key that was signed"
		}
		alg, _ := kf["Algorithm"].(*ssa.Alloc)
		if alg == nil {
			return false, "NextKey.Algorithm is not the address of a local constant"
		}
		sts := storesDirect(alg)
		if len(sts) != 1 {
			return false, "NextKey.Algorithm written more than once"
		}
		if k, ok := constInt(sts[0].Val); !ok || fmt.Sprint(k) != pl.comps[1].note {
			return false, "stored algorithm differs from the signed algorithm constant"
		}
		return true, ""
	}
	return false, "no SignedBlock literal stores this signature"
}

func ruleSigPair(p *Prog, r *Reporter) {
	globalP = p
	for _, fn := range p.funcsIn("biscuit") {
		var gens []*ssa.Call
		for _, c := range callsIn(fn) {
			if isCallTo(c.Common(), "crypto/ed25519.GenerateKey") {
				if cv, ok := c.(*ssa.Call); ok {
					gens = append(gens, cv)
				}
			}
		}
		if len(gens) == 0 {
			continue
		}
		name := p.FuncName(fn)
		if len(gens) != 1 {
			r.Bad(p.Pos(fn.Pos()), name, "GenerateKey count", fmt.Sprintf("%d key generations in one signer", len(gens)))
			continue
		}
		g := gens[0]
		pos := p.instrPos(g)
		inLoop := false
		for _, l := range naturalLoops(fn) {
			if l.body[g.Block()] {
				inLoop = true
			}
		}
		r.Check(!inLoop, pos, name, "GenerateKey once", "exactly one key pair per operation", "key generation inside a loop")
		// public half: signed and announced (checked by SIG-PAYLOAD signerStores); here: it reaches a Sign message
		pubs := extractOf(g, 0)
		privs := extractOf(g, 1)
		okPub := false
		for _, c := range callsIn(fn) {
			if isCallTo(c.Common(), "crypto/ed25519.Sign") && len(pubs) > 0 {
				for _, comp := range concatNF(c.Common().Args[1]) {
					if unwrap(comp) == ssa.Value(pubs[0]) {
						okPub = true
					}
				}
			}
		}
		r.Check(okPub, pos, name, "public key signed", "the generated public key is part of the signed message", "the generated public key is not part of any signed message in this operation")
		// private half: Seed() stored as Proof_NextSecret of the Proof placed in the returned envelope
		okSeed := false
		why := "the generated private key's seed is not stored as the token's next secret"
		if len(privs) > 0 {
			for _, a := range allocsOf(fn, "pb", "Proof_NextSecret") {
				v := litFields(a)["NextSecret"]
				if c, ok := v.(*ssa.Call); ok && isCallTo(&c.Call, "crypto/ed25519.PrivateKey.Seed") && unwrap(c.Call.Args[0]) == ssa.Value(privs[0]) {
					// a -> Proof.Content -> pb.Biscuit.Proof -> Biscuit.container -> returned
					if p.flowsToReturn(fn, a) {
						okSeed = true
					} else {
						why = "the Proof holding the new secret is not part of the returned token"
					}
				}
			}
		}
		r.Check(okSeed, pos, name, "seed stored as next secret", "Seed() of the generated private key becomes Proof.NextSecret of the returned token", why)
	}
}

// flowsToReturn: allocation a is (transitively, through composite literal field stores) part of a returned value.
func (p *Prog) flowsToReturn(fn *ssa.Function, a ssa.Value) bool {
	seen := map[ssa.Value]bool{}
	var rec func(v ssa.Value, depth int) bool
	rec = func(v ssa.Value, depth int) bool {
		if seen[v] || depth > 8 || v.Referrers() == nil {
			return false
		}
		seen[v] = true
		for _, ref := range *v.Referrers() {
			switch x := ref.(type) {
			case *ssa.Return:
				return true
			case *ssa.MakeInterface:
				if rec(x, depth+1) {
					return true
				}
			case *ssa.Store:
				if x.Val == v {
					if root := rootAlloc(x.Addr); root != nil && rec(root, depth+1) {
						return true
					}
				}
			}
		}
		return false
	}
	return rec(a, 0)
}

func condOfValue(v ssa.Value) []*ssa.If {
	var out []*ssa.If
	var walk func(x ssa.Value)
	walk = func(x ssa.Value) {
		if x.Referrers() == nil {
			return
		}
		for _, ref := range *x.Referrers() {
			switch r := ref.(type) {
			case *ssa.If:
				out = append(out, r)
			case *ssa.UnOp:
				if r.Op == token.NOT {
					walk(r)
				}
			}
		}
	}
	walk(v)
	return out
}

// usedOnlyAsCondition: every use of the boolean v is an If (through negations); returns the Ifs.
func usedOnlyAsCondition(v ssa.Value) ([]*ssa.If, bool) {
	ok := true
	var ifs []*ssa.If
	var walk func(x ssa.Value)
	walk = func(x ssa.Value) {
		for _, ref := range *x.Referrers() {
			switch r := ref.(type) {
			case *ssa.If:
				ifs = append(ifs, r)
			case *ssa.UnOp:
				if r.Op == token.NOT {
					walk(r)
				} else {
					ok = false
				}
			case *ssa.DebugRef:
			default:
				ok = false
			}
		}
	}
	walk(v)
	return ifs, ok && len(ifs) > 0
}

// acceptEdge: for boolean check value v, the edge taken when v is true; the other side must only reach error returns.
func acceptEdge(v ssa.Value) (e edge, failOK bool, ok bool) {
	ifs, only := usedOnlyAsCondition(v)
	if !only || len(ifs) != 1 {
		return edge{}, false, false
	}
	_, t, f := condOf(ifs[0])
	return edge{ifs[0].Block(), t}, onlyErrorReturnsFrom(f), true
}

func ruleSigWalk(p *Prog, r *Reporter) {
	globalP = p
	nWalk := 0
	for _, fn := range p.funcsIn("biscuit") {
		var ctor []*ssa.Call
		for _, c := range callsIn(fn) {
			if isCallTo(c.Common(), "biscuit.NewVerifier") {
				if cv, ok := c.(*ssa.Call); ok {
					ctor = append(ctor, cv)
				} else {
					r.Bad(p.instrPos(c), p.FuncName(fn), "NewVerifier", "authorizer constructor called in go/defer")
				}
			}
		}
		if len(ctor) == 0 {
			continue
		}
		nWalk++
		for _, n := range ctor {
			p.checkWalk(r, fn, n)
		}
	}
	if nWalk == 0 {
		r.Bad("?", "biscuit", "verification entry", "no function in package biscuit reaches NewVerifier: tokens cannot be verified")
	}
	// the authorizer struct itself is only built by NewVerifier
	impl, _ := authorizerImpl(p)
	if impl != nil {
		for _, fn := range p.funcsIn("biscuit") {
			for _, a := range allocsOf(fn, "biscuit", impl.Obj().Name()) {
				r.Check(fn.Name() == "NewVerifier" && fn.Parent() == nil, p.instrPos(a), p.FuncName(fn), "authorizer literal", "authorizers are built only by NewVerifier", "an authorizer is constructed outside NewVerifier, bypassing the signature walk")
			}
		}
	}
}

func (p *Prog) checkWalk(r *Reporter, fn *ssa.Function, n *ssa.Call) {
	name := p.FuncName(fn)
	posN := p.instrPos(n)
	tok := tokenParam(fn)
	if tok == nil || len(n.Call.Args) == 0 || n.Call.Args[0] != ssa.Value(tok) {
		r.Bad(posN, name, "NewVerifier argument", "the authorizer is not created for the token whose chain this function verifies")
		return
	}
	T := tok.Name()
	authority := T + ".container.Authority"
	type vcall struct {
		call *ssa.Call
		pl   payload
	}
	var verifies []vcall
	for _, c := range callsIn(fn) {
		if isCallTo(c.Common(), "crypto/ed25519.Verify") {
			if cv, ok := c.(*ssa.Call); ok {
				verifies = append(verifies, vcall{cv, p.payloadOf(cv.Call.Args[1])})
			}
		}
	}
	entry := fn.Blocks[0]
	// w1: authority link verified with the root key parameter
	var v1 *vcall
	for i := range verifies {
		v := &verifies[i]
		if v.pl.shape == "link" && v.pl.sigma == authority {
			v1 = v
		}
	}
	if v1 == nil {
		r.Bad(posN, name, "w1 authority link", "no Verify of the authority block's link (block||alg||nextkey of "+authority+")")
		return
	}
	rootKey, isParam := unwrap(v1.call.Call.Args[0]).(*ssa.Parameter)
	okKey := isParam && isNamed(rootKey.Type(), "crypto/ed25519", "PublicKey")
	e1, fail1, ok1 := acceptEdge(v1.call)
	okDom := ok1 && !reachAvoidingEdges(entry, n.Block(), map[edge]bool{e1: true})
	r.Check(okKey && okDom && fail1, p.instrPos(v1.call), name, "w1 authority link",
		"authority link verified with the caller's root key; failure only reaches error returns; NewVerifier only reachable through the success edge",
		describeWalkFailure(okKey, ok1, okDom, fail1, "the authority block"))
	// w2/w3: full-range loop over container.Blocks
	var rl *rangeLoop
	for _, l := range rangeLoops(fn) {
		if p.D(l.seq) == T+".container.Blocks" {
			rl = l
		}
	}
	if rl == nil {
		r.Bad(posN, name, "w2 block loop", "no full-range loop over "+T+".container.Blocks: later blocks are not verified (partial ranges such as Blocks[1:] do not count)")
		return
	}
	var v2 *vcall
	for i := range verifies {
		v := &verifies[i]
		if v.pl.shape == "link" && rl.body[v.call.Block()] && v.pl.sigma != authority {
			v2 = v
		}
	}
	if v2 == nil {
		r.Bad(posN, name, "w2 block link", "the loop over the blocks contains no Verify of the current block's link")
		return
	}
	// sigma must be the range element
	elemOK := false
	for _, c := range v2.pl.comps {
		if c.kind == cBlock && c.sigmaVal != nil && rl.isElem(c.sigmaVal) {
			elemOK = true
		}
	}
	// key: phi at the loop header: entry = Authority.NextKey.Key, back edge = elem.NextKey.Key
	kphi, _ := unwrap(v2.call.Call.Args[0]).(*ssa.Phi)
	keyOK := false
	whyKey := "the key used for a block is not the loop-carried current key"
	if kphi != nil && kphi.Block() == rl.header {
		keyOK = true
		for i, e := range kphi.Edges {
			pred := rl.header.Preds[i]
			d := p.D(e)
			if rl.body[pred] {
				x, ok := loadOfField(e, "Key")
				var sb ssa.Value
				if ok {
					sb, ok = loadOfField(x, "NextKey")
				}
				if !ok || !rl.isElem(sb) {
					keyOK = false
					whyKey = "on the back edge the current key becomes " + d + ", not the verified block's NextKey.Key: the chain is not advanced"
				}
			} else if d != authority+".NextKey.Key" {
				keyOK = false
				whyKey = "the first block is verified with " + d + ", not with " + authority + ".NextKey.Key"
			}
		}
	}
	e2, fail2, ok2 := acceptEdge(v2.call)
	backOK := ok2
	for _, latch := range rl.latches {
		// every way back to the header must have passed the success edge of this iteration's Verify
		if ok2 && reachAvoidingEdges(rl.bodyBB, latch, map[edge]bool{e2: true}) && latch != e2.from {
			backOK = false
		}
		if ok2 && latch == e2.from && e2.to != rl.header {
			backOK = false
		}
	}
	exitsOK := true
	whyExit := ""
	for _, ex := range rl.exits() {
		if ex.from == rl.header && ex.to == rl.doneBB {
			continue
		}
		if !onlyErrorReturnsFrom(ex.to) {
			exitsOK = false
			whyExit = "the loop can be left at " + p.instrPos(ex.from.Instrs[len(ex.from.Instrs)-1]) + " towards a non-error continuation (break/return before all blocks are verified)"
		}
	}
	r.Check(elemOK && keyOK && backOK && fail2 && exitsOK, p.instrPos(v2.call), name, "w2 block links",
		"every block is verified against the key announced by its predecessor; the key advances on each iteration; the loop is left early only through error returns",
		firstNonEmpty(
			cond(!elemOK, "the verified message is not built from the current range element"),
			cond(!keyOK, whyKey),
			cond(!backOK, "an iteration can continue to the next block without passing the success edge of Verify (skipped or ignored verification)"),
			cond(!fail2, "the failure edge of Verify reaches a non-error continuation"),
			cond(!exitsOK, whyExit)))
	if !(rl.doneBB.Dominates(n.Block()) || rl.doneBB == n.Block()) {
		r.Bad(posN, name, "w3 loop completion", "NewVerifier can be reached without completing the loop over the blocks")
	} else {
		r.OK(posN, name, "w3 loop completion", "NewVerifier is dominated by exhaustion of the block loop")
	}
	// w4: proof
	cut := map[edge]bool{}
	nProof := 0
	for _, c := range callsIn(fn) {
		cv, isCall := c.(*ssa.Call)
		if !isCall || !isCallTo(&cv.Call, "bytes.Equal") {
			continue
		}
		a, b := unwrap(cv.Call.Args[0]), unwrap(cv.Call.Args[1])
		var other ssa.Value
		if a == ssa.Value(kphi) {
			other = b
		} else if b == ssa.Value(kphi) {
			other = a
		} else {
			continue
		}
		want := "crypto/ed25519.PrivateKey.Public(crypto/ed25519.NewKeyFromSeed(pb.Proof.GetNextSecret(" + T + ".container.Proof))).(ed25519.PublicKey)"
		okPub := p.D(other) == want
		e, failOK, ok := acceptEdge(cv)
		if okPub && ok {
			cut[e] = true
			nProof++
		}
		r.Check(okPub && ok && failOK, p.instrPos(cv), name, "w4 next-secret proof", "the last announced key equals the public key derived from the token's next secret; mismatch only reaches error returns",
			firstNonEmpty(cond(!okPub, "bytes.Equal compares the current key with "+shortD(other)+", not with the public key of Proof.GetNextSecret()"), cond(!ok, "the comparison result is not used as a branch condition"), cond(!failOK, "a mismatch reaches a non-error continuation")))
	}
	for i := range verifies {
		v := &verifies[i]
		if v.pl.shape != "seal" {
			continue
		}
		keyIsLast := unwrap(v.call.Call.Args[0]) == ssa.Value(kphi)
		lastOK, whyLast := p.isLastBlock(fn, v.pl, T)
		e, failOK, ok := acceptEdge(v.call)
		if keyIsLast && lastOK && ok {
			cut[e] = true
			nProof++
		}
		r.Check(keyIsLast && lastOK && ok && failOK, p.instrPos(v.call), name, "w4 seal proof", "the seal over the last block is verified with the last announced key; failure only reaches error returns",
			firstNonEmpty(cond(!keyIsLast, "the seal is verified with "+shortD(v.call.Call.Args[0])+", not with the last announced key"), cond(!lastOK, whyLast), cond(!ok, "the Verify result is not used as a branch condition"), cond(!failOK, "a failed seal verification reaches a non-error continuation")))
	}
	covered := nProof > 0 && !reachAvoidingEdges(rl.doneBB, n.Block(), cut)
	r.Check(covered, posN, name, "w4 proof coverage", "every path from the end of the chain walk to NewVerifier passes the success edge of a proof check",
		"NewVerifier is reachable after the chain walk without a successful proof check (missing proof test, or a default/other case that accepts)")
}

func cond(c bool, s string) string {
	if c {
		return s
	}
	return ""
}

func firstNonEmpty(ss ...string) string {
	for _, s := range ss {
		if s != "" {
			return s
		}
	}
	return "rule violated"
}

func describeWalkFailure(okKey, okCond, okDom, failOK bool, what string) string {
	switch {
	case !okKey:
		return what + " is not verified with the caller-supplied root public key"
	case !okCond:
		return "the result of Verify for " + what + " is not used (only) as a branch condition"
	case !okDom:
		return "NewVerifier is reachable without passing the success edge of the Verify for " + what
	case !failOK:
		return "the failure edge of the Verify for " + what + " reaches a non-error continuation"
	}
	return "rule violated"
}

// isLastBlock: sigma of the seal payload is Authority when there are no blocks, else Blocks[len-1].
func (p *Prog) isLastBlock(fn *ssa.Function, pl payload, T string) (bool, string) {
	var sb ssa.Value
	for _, c := range pl.comps {
		if c.kind == cBlock {
			sb = c.sigmaVal
		}
	}
	// the selection: a two-way phi in this function, or a helper method of the token that returns the block
	type leaf struct {
		d  string
		gs []guard
	}
	var leaves []leaf
	if ph, ok := sb.(*ssa.Phi); ok && len(ph.Edges) == 2 {
		for i, e := range ph.Edges {
			leaves = append(leaves, leaf{p.D(e), guardsOnEdge(ph.Block().Preds[i], ph.Block())})
		}
	} else if c, ok := sb.(*ssa.Call); ok && c.Call.StaticCallee() != nil && p.isRepoFunc(c.Call.StaticCallee()) && len(c.Call.Args) == 1 && p.D(c.Call.Args[0]) == T {
		h := c.Call.StaticCallee()
		T = h.Params[0].Name()
		for _, ret := range returnsOf(h) {
			leaves = append(leaves, leaf{p.D(retVal(ret, 0)), guardsOf(ret.Block())})
		}
	}
	if len(leaves) != 2 {
		return false, "the sealed block " + pl.sigma + " is not selected as 'authority if there are no blocks, else the last block'"
	}
	sawAuth, sawLast := false, false
	for _, lf := range leaves {
		d := lf.d
		gs := lf.gs
		zero := func(want bool) bool {
			for _, g := range gs {
				bo, ok := g.cond.(*ssa.BinOp)
				if !ok {
					continue
				}
				k, isC := constInt(bo.Y)
				if !isC || k != 0 {
					continue
				}
				dx := p.D(bo.X)
				if dx != "len("+T+".blocks)" && dx != "len("+T+".container.Blocks)" {
					continue
				}
				isZero := (bo.Op == token.EQL) == g.val
				if bo.Op != token.EQL && bo.Op != token.NEQ {
					continue
				}
				if isZero == want {
					return true
				}
			}
			return false
		}
		switch {
		case d == T+".container.Authority" && zero(true):
			sawAuth = true
		case (d == T+".container.Blocks[(len("+T+".blocks)-1:int)]" || d == T+".container.Blocks[(len("+T+".container.Blocks)-1:int)]") && zero(false):
			sawLast = true
		default:
			return false, "the sealed block may be " + d + " on a path where that is not the last block"
		}
	}
	if sawAuth && sawLast {
		return true, ""
	}
	return false, "the sealed block is not 'authority if no blocks else Blocks[len-1]'"
}

func ruleSigGate(p *Prog, r *Reporter) {
	globalP = p
	n := 0
	for _, fn := range p.funcsIn("biscuit") {
		// functions decoding a pb.Biscuit envelope and returning a *Biscuit
		var env *ssa.Alloc
		for _, a := range allocsOf(fn, "pb", "Biscuit") {
			if passedTo(a, "google.golang.org/protobuf/proto.Unmarshal") {
				env = a
			}
		}
		if env == nil {
			continue
		}
		n++
		name := p.FuncName(fn)
		C := p.D(env)
		C = stripAmp(C)
		for _, ret := range returnsOf(fn) {
			if isErrorReturn(ret) || isNilConst(retVal(ret, 0)) {
				continue
			}
			pos := p.instrPos(ret)
			gs := guardsOf(ret.Block())
			envD := ""
			// the envelope is addressed through the alloc: describe its fields relative to it
			envD = C
			okA := lenGuardD(p, gs, envD+".Authority.NextKey.Key", 32)
			okS := lenGuardD(p, gs, envD+".Authority.Signature", 64)
			r.Check(okA, pos, name, "authority key size gate", "len(Authority.NextKey.Key)==32 dominates acceptance", "a token whose authority next key is not 32 bytes is accepted (later Verify panics / payload encoding ambiguous)")
			r.Check(okS, pos, name, "authority signature size gate", "len(Authority.Signature)==64 dominates acceptance", "a token whose authority signature is not 64 bytes is accepted")
			var rl *rangeLoop
			for _, l := range rangeLoops(fn) {
				if p.D(l.seq) == envD+".Blocks" {
					rl = l
				}
			}
			if rl == nil || !(rl.doneBB.Dominates(ret.Block()) || rl.doneBB == ret.Block()) {
				r.Bad(pos, name, "block size gates", "acceptance is not dominated by a full-range loop over the envelope's blocks")
				continue
			}
			okK, okSig := true, true
			for _, latch := range rl.latches {
				eg := guardsOnEdge(latch, rl.header)
				elem := ""
				for b := range rl.body {
					for _, in := range b.Instrs {
						if v, ok := in.(ssa.Value); ok && rl.isElem(v) {
							elem = p.D(v)
						}
					}
				}
				if !lenGuardD(p, eg, elem+".NextKey.Key", 32) {
					okK = false
				}
				if !lenGuardD(p, eg, elem+".Signature", 64) {
					okSig = false
				}
			}
			r.Check(okK, pos, name, "block key size gate", "every iteration passes len(NextKey.Key)==32 before continuing", "a block whose next key is not 32 bytes passes the decoder")
			r.Check(okSig, pos, name, "block signature size gate", "every iteration passes len(Signature)==64 before continuing", "a block whose signature is not 64 bytes passes the decoder")
		}
	}
	if n == 0 {
		r.Bad("?", "biscuit", "decoder", "no function decodes a pb.Biscuit envelope")
	}
}

func lenGuardD(p *Prog, gs []guard, d string, n int64) bool {
	return lenGuardDepth(p, gs, d, n, 0)
}

func lenGuardDepth(p *Prog, gs []guard, d string, n int64, depth int) bool {
	want := "len(" + d + ")"
	for _, g := range gs {
		bo, ok := g.cond.(*ssa.BinOp)
		if !ok {
			continue
		}
		c, isC := constInt(bo.Y)
		if isC && c == n && p.D(bo.X) == want {
			if (bo.Op == token.EQL && g.val) || (bo.Op == token.NEQ && !g.val) {
				return true
			}
			continue
		}
		// the success edge of a helper that holds the gate: `x, err := helper(base); err == nil`
		if depth > 1 || !isNilConst(bo.Y) || !((bo.Op == token.NEQ && !g.val) || (bo.Op == token.EQL && g.val)) {
			continue
		}
		ex, isE := bo.X.(*ssa.Extract)
		if !isE || !isErrorType(ex.Type()) {
			continue
		}
		call, isC2 := ex.Tuple.(*ssa.Call)
		if !isC2 {
			continue
		}
		h := call.Call.StaticCallee()
		if h == nil || !p.isRepoFunc(h) || h.Blocks == nil {
			continue
		}
		for i, a := range call.Call.Args {
			if i >= len(h.Params) {
				break
			}
			base := p.D(a)
			if !strings.HasPrefix(d, base+".") {
				continue
			}
			suffix := strings.TrimPrefix(d, base)
			all := true
			nOK := 0
			for _, ret := range returnsOf(h) {
				if isErrorReturn(ret) {
					continue
				}
				nOK++
				if !lenGuardDepth(p, guardsOf(ret.Block()), h.Params[i].Name()+suffix, n, depth+1) {
					all = false
				}
			}
			if all && nOK > 0 {
				return true
			}
		}
	}
	return false
}

// ---- CONS-LEN

type lenExpr struct {
	base  string
	delta int64
	ok    bool
}

func (p *Prog) sliceLen(v ssa.Value, depth int) lenExpr {
	if depth > 6 {
		return lenExpr{}
	}
	if v == nil || isNilConst(v) {
		return lenExpr{"0", 0, true}
	}
	v = unwrap(v)
	switch x := v.(type) {
	case *ssa.MakeSlice:
		return p.intExpr(x.Len)
	case *ssa.Slice:
		if a, ok := x.X.(*ssa.Alloc); ok {
			if arr, isArr := deref(a.Type()).Underlying().(*types.Array); isArr {
				return lenExpr{"0", arr.Len(), true}
			}
		}
	case *ssa.Call:
		if bi, ok := x.Call.Value.(*ssa.Builtin); ok && bi.Name() == "append" && len(x.Call.Args) == 2 {
			a, b := p.sliceLen(x.Call.Args[0], depth+1), p.sliceLen(x.Call.Args[1], depth+1)
			if a.ok && b.ok {
				switch {
				case a.base == "0":
					return lenExpr{b.base, a.delta + b.delta, true}
				case b.base == "0":
					return lenExpr{a.base, a.delta + b.delta, true}
				}
			}
			return lenExpr{}
		}
	case *ssa.UnOp:
		// load of a field of a local literal: use the value stored there before the load
		if fa, ok := x.X.(*ssa.FieldAddr); ok && x.Op == token.MUL {
			if a, isA := fa.X.(*ssa.Alloc); isA {
				var best *ssa.Store
				for _, ref := range *a.Referrers() {
					fb, ok := ref.(*ssa.FieldAddr)
					if !ok || fb.Field != fa.Field {
						continue
					}
					for _, rr := range *fb.Referrers() {
						if st, ok := rr.(*ssa.Store); ok && st.Addr == ssa.Value(fb) && instrDominates(st, x) {
							if best == nil || instrDominates(best, st) {
								best = st
							}
						}
					}
				}
				if best != nil {
					return p.sliceLen(best.Val, depth+1)
				}
			}
		}
		return lenExpr{"len(" + p.D(v) + ")", 0, true}
	case *ssa.Parameter, *ssa.Phi:
		return lenExpr{"len(" + p.D(v) + ")", 0, true}
	}
	return lenExpr{}
}

func (p *Prog) intExpr(v ssa.Value) lenExpr {
	if k, ok := constInt(v); ok {
		return lenExpr{"0", k, true}
	}
	if bo, ok := v.(*ssa.BinOp); ok && (bo.Op == token.ADD || bo.Op == token.SUB) {
		if k, isC := constInt(bo.Y); isC {
			e := p.intExpr(bo.X)
			if bo.Op == token.SUB {
				k = -k
			}
			e.delta += k
			return e
		}
	}
	if c, ok := v.(*ssa.Call); ok {
		if bi, isB := c.Call.Value.(*ssa.Builtin); isB && bi.Name() == "len" {
			return lenExpr{"len(" + p.D(c.Call.Args[0]) + ")", 0, true}
		}
	}
	return lenExpr{}
}

func ruleConsLen(p *Prog, r *Reporter) {
	globalP = p
	for _, fn := range p.funcsIn("biscuit") {
		for _, a := range allocsOf(fn, "biscuit", "Biscuit") {
			if a.Comment != "complit" && !strings.Contains(a.Comment, "complit") {
				// new(Biscuit) without literal: treat the same way
			}
			name := p.FuncName(fn)
			pos := p.instrPos(a)
			f := litFields(a)
			bl := p.sliceLen(f["blocks"], 0)
			cont := f["container"]
			var cl lenExpr
			contD := ""
			if ca, ok := cont.(*ssa.Alloc); ok {
				if passedTo(ca, "google.golang.org/protobuf/proto.Unmarshal") {
					contD = stripAmp(p.D(ca))
					cl = lenExpr{"len(" + contD + ".Blocks)", 0, true}
				} else {
					cl = p.sliceLen(litFields(ca)["Blocks"], 0)
				}
			}
			if !bl.ok || !cl.ok {
				r.Dunno(pos, name, "Biscuit literal", "cannot derive the lengths of blocks ("+shortD(f["blocks"])+") and container.Blocks symbolically")
				continue
			}
			okLen := false
			switch {
			case bl.base == "0" && cl.base == "0":
				okLen = bl.delta == cl.delta
			case bl.base == cl.base:
				okLen = bl.delta == cl.delta
			default:
				// inductive case: len(P.blocks)+k vs len(P.container.Blocks)+k for the same parent token P
				if strings.HasSuffix(bl.base, ".blocks)") && strings.HasSuffix(cl.base, ".container.Blocks)") {
					pb := strings.TrimSuffix(strings.TrimPrefix(bl.base, "len("), ".blocks)")
					pc := strings.TrimSuffix(strings.TrimPrefix(cl.base, "len("), ".container.Blocks)")
					okLen = pb == pc && bl.delta == cl.delta
				}
			}
			r.Check(okLen, pos, name, "Biscuit literal", fmt.Sprintf("len(blocks) = %s%+d and len(container.Blocks) = %s%+d agree (inductively on the parent token)", bl.base, bl.delta, cl.base, cl.delta),
				fmt.Sprintf("len(blocks) = %s%+d but len(container.Blocks) = %s%+d: the parsed blocks and the signed blocks get out of step (the seal is verified/created over Blocks[len(blocks)-1])", bl.base, bl.delta, cl.base, cl.delta))
		}
	}
}
