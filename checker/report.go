package main

import (
	"encoding/json"
	"fmt"
	"os"
	"path/filepath"
	"sort"
	"strings"
)

type Status string

const (
	Discharged Status = "discharged"
	Violated   Status = "violated"
	Undecided  Status = "undecided"
)

// Oblig is one rule instance: a construct the rule examined and its verdict.
type Oblig struct {
	Rule      string `json:"rule"`
	Key       string `json:"key"`
	Pos       string `json:"pos"`
	Func      string `json:"function"`
	Construct string `json:"construct"`
	Status    Status `json:"status"`
	Why       string `json:"why"`
	Config    string `json:"config,omitempty"`
	// Props (debug JSON only): the properties that still report this obligation after the helper-inlined view was consulted
	Props   []string `json:"reported_props,omitempty"`
	TwoView bool     `json:"two_view,omitempty"`
}

// Reporter collects the obligations of one rule.
type Reporter struct {
	rule   string
	obs    []*Oblig
	keys   map[string]int
	notes  []string
	config string
}

func (r *Reporter) add(st Status, pos, fn, construct, why string) *Oblig {
	base := r.rule + "/" + fn + "/" + construct
	if r.keys == nil {
		r.keys = map[string]int{}
	}
	n := r.keys[base]
	r.keys[base] = n + 1
	o := &Oblig{Rule: r.rule, Key: fmt.Sprintf("%s#%d", base, n), Pos: pos, Func: fn, Construct: construct, Status: st, Why: why, Config: r.config}
	r.obs = append(r.obs, o)
	return o
}

func (r *Reporter) OK(pos, fn, construct, why string)    { r.add(Discharged, pos, fn, construct, why) }
func (r *Reporter) Bad(pos, fn, construct, why string)   { r.add(Violated, pos, fn, construct, why) }
func (r *Reporter) Dunno(pos, fn, construct, why string) { r.add(Undecided, pos, fn, construct, why) }
func (r *Reporter) Note(format string, a ...any) {
	r.notes = append(r.notes, fmt.Sprintf(format, a...))
}

// Check records OK when cond holds, otherwise Bad.
func (r *Reporter) Check(cond bool, pos, fn, construct, okWhy, badWhy string) bool {
	if cond {
		r.OK(pos, fn, construct, okWhy)
	} else {
		r.Bad(pos, fn, construct, badWhy)
	}
	return cond
}

// Rule is a named analysis.
type Rule struct {
	ID  string
	Doc string
	Run func(p *Prog, r *Reporter)
	Min int // minimum number of obligations (specification constants / ">=1 anchor")
}

type KnownFinding struct {
	Property string `json:"property"`
	Rule     string `json:"rule"`
	Key      string `json:"key"`
	What     string `json:"what"`
	Status   string `json:"status"` // "known" | "fixed"
	Commit   string `json:"commit,omitempty"`
}

type knownFile struct {
	Comment  string         `json:"comment"`
	Findings []KnownFinding `json:"findings"`
}

func loadKnown(path string) ([]KnownFinding, error) {
	b, err := os.ReadFile(path)
	if err != nil {
		if os.IsNotExist(err) {
			return nil, nil
		}
		return nil, err
	}
	var kf knownFile
	if err := json.Unmarshal(b, &kf); err != nil {
		return nil, err
	}
	return kf.Findings, nil
}

// keyNoOrdinalConfig strips nothing today; keys are already line-free.
func matchKnown(known []KnownFinding, prop string, o *Oblig) *KnownFinding {
	for i := range known {
		k := &known[i]
		if k.Status == "known" && k.Property == prop && k.Key == o.Key {
			return k
		}
	}
	return nil
}

type ruleSummary struct {
	ID        string `json:"id"`
	Doc       string `json:"doc"`
	Instances int    `json:"instances"`
	Violated  int    `json:"violated"`
	Undecided int    `json:"undecided"`
	Min       int    `json:"min_instances"`
}

type evidence struct {
	PropertyID  string         `json:"property_id"`
	Tier        string         `json:"tier"`
	Seed        int            `json:"seed"`
	Level       string         `json:"level"`
	Coverage    map[string]any `json:"coverage"`
	Assumptions []string       `json:"assumptions"`
	WallS       float64        `json:"wall_s"`
	Violations  int            `json:"violations"`
}

func writeJSON(path string, v any) error {
	if err := os.MkdirAll(filepath.Dir(path), 0o755); err != nil {
		return err
	}
	b, err := json.MarshalIndent(v, "", " ")
	if err != nil {
		return err
	}
	tmp := path + ".tmp"
	if err := os.WriteFile(tmp, append(b, '\n'), 0o644); err != nil {
		return err
	}
	return os.Rename(tmp, path)
}

func sortObligs(obs []*Oblig) {
	sort.SliceStable(obs, func(i, j int) bool {
		if obs[i].Rule != obs[j].Rule {
			return obs[i].Rule < obs[j].Rule
		}
		return obs[i].Key < obs[j].Key
	})
}

func summarise(o *Oblig) string {
	return fmt.Sprintf("[%s] %s %s :: %s — %s (%s)", o.Status, o.Pos, o.Func, o.Construct, o.Why, o.Rule)
}

func oneLine(s string) string {
	return strings.Join(strings.Fields(s), " ")
}
