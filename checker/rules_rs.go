package main

import (
	"go/token"
	"go/types"
	"sort"
	"strings"

	"golang.org/x/tools/go/ssa"
)

func init() {
	register(
		&Rule{ID: "RS-BASE", Doc: "the fields Reset restores from (base state) are written only by the constructor and option closures, and only Clone()d by request-time code", Run: ruleRSBase, Min: 2},
		&Rule{ID: "RS-COMPLETE", Doc: "Reset assigns every authorizer field that any other method stores to (except write-only accumulators)", Run: ruleRSComplete, Min: 4},
		&Rule{ID: "RS-COPY", Doc: "Reset (and the constructor) derive world/symbols from the base state through Clone(), and clear the other request fields", Run: ruleRSCopy, Min: 4},
	)
}

// authorizerMethods returns the declared methods with receiver *authorizer.
func authorizerImpl(p *Prog) (*types.Named, []*ssa.Function) {
	// semantic anchor: the concrete type in package biscuit implementing the exported Authorizer interface
	iface := p.NamedType("biscuit", "Authorizer")
	if iface == nil {
		return nil, nil
	}
	it, _ := iface.Underlying().(*types.Interface)
	var impl *types.Named
	sc := p.Pkgs["biscuit"].Types.Scope()
	for _, n := range sc.Names() {
		tn, ok := sc.Lookup(n).(*types.TypeName)
		if !ok {
			continue
		}
		named, ok := tn.Type().(*types.Named)
		if !ok {
			continue
		}
		if _, isStruct := named.Underlying().(*types.Struct); !isStruct {
			continue
		}
		if types.Implements(types.NewPointer(named), it) {
			impl = named
		}
	}
	if impl == nil {
		return nil, nil
	}
	var ms []*ssa.Function
	for _, f := range p.funcsIn("biscuit") {
		if f.Signature.Recv() != nil && f.Parent() == nil && types.Identical(deref(f.Signature.Recv().Type()), impl) {
			ms = append(ms, f)
		}
	}
	return impl, ms
}

// fieldStoresVia lists stores into fields of the struct pointed to by root (a parameter) in fn.
type fieldStore struct {
	field string
	st    *ssa.Store
}

func fieldStoresVia(fn *ssa.Function, root ssa.Value) []fieldStore {
	var out []fieldStore
	for _, b := range fn.Blocks {
		for _, in := range b.Instrs {
			st, ok := in.(*ssa.Store)
			if !ok {
				continue
			}
			fa, ok := st.Addr.(*ssa.FieldAddr)
			if !ok || !aliasOfParam(fa.X, root) {
				continue
			}
			out = append(out, fieldStore{fieldName(fa), st})
		}
	}
	return out
}

// fieldLoadsVia lists loads of fields of *root in fn.
func fieldLoadsVia(fn *ssa.Function, root ssa.Value) map[string][]*ssa.UnOp {
	out := map[string][]*ssa.UnOp{}
	for _, b := range fn.Blocks {
		for _, in := range b.Instrs {
			u, ok := in.(*ssa.UnOp)
			if !ok || u.Op != token.MUL {
				continue
			}
			fa, ok := u.X.(*ssa.FieldAddr)
			if !ok || !aliasOfParam(fa.X, root) {
				continue
			}
			out[fieldName(fa)] = append(out[fieldName(fa)], u)
		}
	}
	return out
}

func resetMethod(ms []*ssa.Function) *ssa.Function {
	for _, m := range ms {
		if m.Name() == "Reset" {
			return m
		}
	}
	return nil
}

// baseFields: the fields Reset reads from its receiver (the state it restores from).
func baseFields(reset *ssa.Function) []string {
	var out []string
	for f := range fieldLoadsVia(reset, reset.Params[0]) {
		out = append(out, f)
	}
	sort.Strings(out)
	return out
}

func ruleRSBase(p *Prog, r *Reporter) {
	globalP = p
	impl, ms := authorizerImpl(p)
	if impl == nil {
		r.Dunno("?", "biscuit", "authorizer type", "no struct type implementing biscuit.Authorizer found")
		return
	}
	reset := resetMethod(ms)
	if reset == nil {
		r.Dunno("?", "biscuit."+impl.Obj().Name(), "Reset", "Reset method not found")
		return
	}
	base := map[string]bool{}
	for _, f := range baseFields(reset) {
		base[f] = true
	}
	if len(base) == 0 {
		r.Bad(p.Pos(reset.Pos()), p.FuncName(reset), "base state", "Reset reads no field of the authorizer: there is no base state to restore from")
		return
	}
	// (a) stores into base fields anywhere in package biscuit
	for _, fn := range p.funcsIn("biscuit") {
		for _, b := range fn.Blocks {
			for _, in := range b.Instrs {
				st, ok := in.(*ssa.Store)
				if !ok {
					continue
				}
				fa, ok := st.Addr.(*ssa.FieldAddr)
				if !ok || !types.Identical(deref(fa.X.Type()), impl) || !base[fieldName(fa)] {
					continue
				}
				name := p.FuncName(fn)
				construct := "store " + impl.Obj().Name() + "." + fieldName(fa)
				pos := p.instrPos(st)
				switch {
				case isAllocRoot(fa.X):
					r.OK(pos, name, construct, "written on the freshly allocated authorizer (constructor)")
				case fn.Parent() != nil && isOptionClosure(p, fn, impl):
					r.OK(pos, name, construct, "written by a construction-time AuthorizerOption closure")
				default:
					r.Bad(pos, name, construct, "request-time code overwrites the state that Reset restores from: content of one request leaks into the next")
				}
			}
		}
	}
	rsBaseConstructor(p, r, impl, base, ms)
	// (b) request-time uses of the base fields: only as the receiver of Clone()
	for _, m := range ms {
		for f, loads := range fieldLoadsVia(m, m.Params[0]) {
			if !base[f] {
				continue
			}
			for _, ld := range loads {
				okUse := true
				why := ""
				for _, u := range *ld.Referrers() {
					c, isCall := u.(*ssa.Call)
					if isCall && c.Call.StaticCallee() != nil && c.Call.StaticCallee().Name() == "Clone" && len(c.Call.Args) > 0 && c.Call.Args[0] == ssa.Value(ld) {
						continue
					}
					// a read-only observation: a callee that does not write its receiver, whose result is only measured with len()
					if isCall && c.Call.StaticCallee() != nil && len(c.Call.Args) > 0 && c.Call.Args[0] == ssa.Value(ld) && onlyMeasured(p, c) {
						continue
					}
					okUse = false
					why = "used by " + oneLine(u.String())
				}
				r.Check(okUse, p.instrPos(ld), p.FuncName(m), "use "+impl.Obj().Name()+"."+f,
					"base state only cloned", "base state is used other than through Clone() ("+why+"): it may be mutated or aliased by request-time code")
			}
		}
	}
}

// rsBaseConstructor is clause (c) of RS-BASE: outside the authorizer's methods (constructor, option
// closures, helpers) the base fields are filled once and then left alone - no callee that writes
// through its receiver is applied to them. A base table extended with the token's symbols, or a base
// world preloaded with its facts, makes "a new authorizer" depend on the token it was made for: Reset
// then restores that content, and a snapshot (which is rebuilt on the base table) is tied to one token.
func rsBaseConstructor(p *Prog, r *Reporter, impl *types.Named, base map[string]bool, ms []*ssa.Function) {
	isMethod := map[*ssa.Function]bool{}
	for _, m := range ms {
		isMethod[m] = true
	}
	o := p.own()
	for _, fn := range p.funcsIn("biscuit") {
		if isMethod[fn] || (fn.Parent() != nil && isOptionClosure(p, fn, impl)) {
			continue // methods: clause (b); construction-time options configure the base (limits) by design
		}
		for _, b := range fn.Blocks {
			for _, in := range b.Instrs {
				ld, ok := in.(*ssa.UnOp)
				if !ok || ld.Op != token.MUL {
					continue
				}
				fa, isFA := ld.X.(*ssa.FieldAddr)
				if !isFA || !types.Identical(deref(fa.X.Type()), impl) || !base[fieldName(fa)] {
					continue
				}
				for _, u := range *ld.Referrers() {
					c, isCall := u.(ssa.CallInstruction)
					if !isCall || len(c.Common().Args) == 0 || c.Common().Args[0] != ssa.Value(ld) {
						continue
					}
					for _, callee := range p.CG().Callees(c) {
						why, mut := o.mutates[callee][0]
						r.Check(!mut, p.instrPos(c), p.FuncName(fn), "base "+impl.Obj().Name()+"."+fieldName(fa)+" passed to "+callee.Name(),
							"the callee does not write the base state", "the base state of a new authorizer is modified after its allocation ("+calleeName(callee)+": "+why+"): what Reset restores and what a snapshot is rebuilt on then depends on the token or request the authorizer was created for")
					}
				}
			}
		}
	}
}

func isAllocRoot(v ssa.Value) bool {
	_, ok := v.(*ssa.Alloc)
	return ok
}

// isOptionClosure: fn is a function literal whose signature is that of biscuit.AuthorizerOption.
func isOptionClosure(p *Prog, fn *ssa.Function, impl *types.Named) bool {
	opt := p.NamedType("biscuit", "AuthorizerOption")
	if opt == nil {
		return false
	}
	sig, ok := opt.Underlying().(*types.Signature)
	return ok && types.Identical(stripRecv(fn.Signature), sig)
}

func ruleRSComplete(p *Prog, r *Reporter) {
	globalP = p
	impl, ms := authorizerImpl(p)
	if impl == nil {
		r.Dunno("?", "biscuit", "authorizer type", "not found")
		return
	}
	reset := resetMethod(ms)
	if reset == nil {
		r.Dunno("?", "biscuit."+impl.Obj().Name(), "Reset", "Reset method not found")
		return
	}
	resetSet := map[string]bool{}
	for _, fs := range fieldStoresVia(reset, reset.Params[0]) {
		resetSet[fs.field] = true
	}
	stored := map[string][]string{}
	for _, m := range ms {
		if m == reset {
			continue
		}
		for _, fs := range fieldStoresVia(m, m.Params[0]) {
			stored[fs.field] = append(stored[fs.field], m.Name())
		}
		// a map held in a field and filled by a method is request state just as well (a "seen" set,
		// a memo): an entry written through the field counts as a store to it
		for _, b := range m.Blocks {
			for _, in := range b.Instrs {
				mu, ok := in.(*ssa.MapUpdate)
				if !ok {
					continue
				}
				if ld, isLd := mu.Map.(*ssa.UnOp); isLd && ld.Op == token.MUL {
					if fa, isFA := ld.X.(*ssa.FieldAddr); isFA && aliasOfParam(fa.X, m.Params[0]) {
						stored[fieldName(fa)] = append(stored[fieldName(fa)], m.Name())
					}
				}
			}
		}
	}
	var fields []string
	for f := range stored {
		fields = append(fields, f)
	}
	sort.Strings(fields)
	for _, f := range fields {
		construct := "field " + impl.Obj().Name() + "." + f
		who := strings.Join(dedupStrings(stored[f]), ",")
		if resetSet[f] {
			r.OK(p.Pos(reset.Pos()), p.FuncName(reset), construct, "stored by "+who+" and reassigned by Reset")
			continue
		}
		// write-only accumulator?
		wo := true
		for _, m := range ms {
			for _, ld := range fieldLoadsVia(m, m.Params[0])[f] {
				for _, u := range *ld.Referrers() {
					c, isCall := u.(*ssa.Call)
					if !isCall {
						wo = false
						continue
					}
					b, isB := c.Call.Value.(*ssa.Builtin)
					if !isB || b.Name() != "append" || c.Call.Args[0] != ssa.Value(ld) {
						wo = false
						continue
					}
					for _, uu := range *c.Referrers() {
						st, isSt := uu.(*ssa.Store)
						if !isSt {
							wo = false
							continue
						}
						fa, isFA := st.Addr.(*ssa.FieldAddr)
						if !isFA || fieldName(fa) != f {
							wo = false
						}
					}
				}
			}
		}
		r.Check(wo, p.Pos(reset.Pos()), p.FuncName(reset), construct,
			"stored by "+who+", never read except to append to itself (write-only accumulator): cannot influence a later request",
			"stored by "+who+" but not reassigned by Reset: its content survives the reset")
	}
	// every field Reset does assign is recorded too (instance count)
	for f := range resetSet {
		if _, ok := stored[f]; !ok {
			r.OK(p.Pos(reset.Pos()), p.FuncName(reset), "field "+impl.Obj().Name()+"."+f, "reassigned by Reset")
		}
	}
}

func dedupStrings(in []string) []string {
	seen := map[string]bool{}
	var out []string
	for _, s := range in {
		if !seen[s] {
			seen[s] = true
			out = append(out, s)
		}
	}
	sort.Strings(out)
	return out
}

// isEmptyFresh: nil / zero constant / empty slice literal / make(T, 0).
func isEmptyFresh(v ssa.Value) bool {
	if isZeroValue(v) {
		return true
	}
	switch x := v.(type) {
	case *ssa.Slice:
		if a, ok := x.X.(*ssa.Alloc); ok {
			if arr, ok := deref(a.Type()).Underlying().(*types.Array); ok && arr.Len() == 0 {
				return true
			}
		}
	case *ssa.MakeSlice:
		if c, ok := constInt(x.Len); ok && c == 0 {
			return true
		}
	}
	return false
}

func ruleRSCopy(p *Prog, r *Reporter) {
	globalP = p
	impl, ms := authorizerImpl(p)
	if impl == nil {
		r.Dunno("?", "biscuit", "authorizer type", "not found")
		return
	}
	reset := resetMethod(ms)
	if reset == nil {
		r.Dunno("?", "biscuit."+impl.Obj().Name(), "Reset", "Reset method not found")
		return
	}
	recv := reset.Params[0]
	base := map[string]bool{}
	for _, f := range baseFields(reset) {
		base[f] = true
	}
	cloned := map[string]string{} // request field -> base field it is cloned from
	for _, fs := range fieldStoresVia(reset, recv) {
		construct := "Reset: " + fs.field
		pos := p.instrPos(fs.st)
		name := p.FuncName(reset)
		v := fs.st.Val
		if c, ok := v.(*ssa.Call); ok && c.Call.StaticCallee() != nil && c.Call.StaticCallee().Name() == "Clone" && len(c.Call.Args) == 1 {
			src := p.D(c.Call.Args[0])
			pre := recv.Name() + "."
			if strings.HasPrefix(src, pre) && base[strings.TrimPrefix(src, pre)] {
				cloned[fs.field] = strings.TrimPrefix(src, pre)
				r.OK(pos, name, construct, "assigned a Clone() of "+src)
				continue
			}
		}
		if dependsOn(v, func(x ssa.Value) bool {
			u, ok := x.(*ssa.UnOp)
			if !ok {
				return false
			}
			fa, ok := u.X.(*ssa.FieldAddr)
			return ok && fa.X == ssa.Value(recv)
		}) {
			r.Bad(pos, name, construct, "assigned "+shortD(v)+": derived from authorizer state without Clone() (aliases the base state or keeps request state)")
			continue
		}
		r.Check(isEmptyFresh(v), pos, name, construct, "cleared to an empty value", "assigned "+shortD(v)+", which is neither empty nor a clone of the base state")
	}
	// constructor consistency: the same request fields start as clones of the same base fields, after the options ran
	ctor := p.Func("biscuit", "", "NewVerifier")
	if ctor == nil {
		r.Dunno("?", "biscuit.NewVerifier", "constructor", "not found")
		return
	}
	for reqField, baseField := range cloned {
		ok := false
		pos := p.Pos(ctor.Pos())
		for _, b := range ctor.Blocks {
			for _, in := range b.Instrs {
				st, isSt := in.(*ssa.Store)
				if !isSt {
					continue
				}
				fa, isFA := st.Addr.(*ssa.FieldAddr)
				if !isFA || fieldName(fa) != reqField || !types.Identical(deref(fa.X.Type()), impl) {
					continue
				}
				if c, isC := st.Val.(*ssa.Call); isC && c.Call.StaticCallee() != nil && c.Call.StaticCallee().Name() == "Clone" {
					if strings.HasSuffix(p.D(c.Call.Args[0]), "."+baseField) && afterOptionLoop(ctor, c) {
						ok = true
						pos = p.instrPos(st)
					}
				}
			}
		}
		r.Check(ok, pos, p.FuncName(ctor), "NewVerifier: "+reqField, "initialised as Clone() of "+baseField+" after every option was applied",
			"constructor does not initialise "+reqField+" as a Clone() of "+baseField+" after the options loop: a fresh authorizer differs from a reset one")
	}
	// symmetry: besides the initial values, the constructor does nothing to the request state that Reset
	// would not do: no call receives the new authorizer's request fields (or the authorizer itself, except
	// the option appliers, whose writes RS-BASE confines to the base state)
	nSym := 0
	for _, c := range callsIn(ctor) {
		cc := c.Common()
		args := callArgs(cc)
		for _, a := range args {
			d := p.D(a)
			touches := ""
			for reqField := range cloned {
				if strings.HasSuffix(d, "."+reqField) || strings.Contains(d, "."+reqField+".") || strings.Contains(d, "."+reqField+"[") {
					if al := rootAlloc(a); al != nil && types.Identical(deref(al.Type()), impl) {
						touches = reqField
					} else if strings.HasPrefix(d, "new#") || strings.HasPrefix(d, "&new#") {
						touches = reqField
					}
				}
			}
			if touches == "" {
				continue
			}
			// a callee that only reads the request state changes nothing
			mut := false
			for _, callee := range p.CG().Callees(c) {
				for ai, a2 := range args {
					if a2 == a {
						if _, m := p.own().mutates[callee][ai]; m {
							mut = true
						}
					}
				}
				if callee.Blocks == nil || !p.isRepoFunc(callee) {
					mut = mut || !readOnlyExternal(calleeName(callee))
				}
			}
			if !mut {
				continue
			}
			nSym++
			callee := "a call"
			if f := cc.StaticCallee(); f != nil {
				callee = calleeName(f)
			}
			r.Bad(p.instrPos(c), p.FuncName(ctor), "NewVerifier: use of "+touches, "the constructor hands the new authorizer's "+touches+" to "+callee+" after initialising it: a fresh authorizer starts with content that Reset does not restore (fresh and reset authorizers differ)")
		}
		if f := cc.StaticCallee(); f != nil {
			for _, m := range ms {
				if m == f {
					nSym++
					r.Bad(p.instrPos(c), p.FuncName(ctor), "NewVerifier: calls "+f.Name(), "the constructor calls the authorizer method "+f.Name()+" on the new object: request-level content is added that Reset does not restore")
				}
			}
		}
	}
	if nSym == 0 {
		r.OK(p.Pos(ctor.Pos()), p.FuncName(ctor), "NewVerifier: symmetry with Reset", "the constructor only initialises the request state, like Reset")
	}
}

// afterOptionLoop: the instruction executes after the full-range loop over the variadic options parameter.
func afterOptionLoop(fn *ssa.Function, in ssa.Instruction) bool {
	if !fn.Signature.Variadic() {
		return true
	}
	opts := fn.Params[len(fn.Params)-1]
	for _, rl := range rangeLoops(fn) {
		if rl.seq == ssa.Value(opts) {
			return rl.doneBB.Dominates(in.Block()) || rl.doneBB == in.Block()
		}
	}
	return false
}

// aliasOfParam: v is root, or a load of the cell root was spilled into because a function literal captures it
// (go/ssa then reads the parameter through `*cell` everywhere; the cell is only ever assigned root).
func aliasOfParam(v, root ssa.Value) bool {
	if v == root {
		return true
	}
	u, ok := v.(*ssa.UnOp)
	if !ok || u.Op != token.MUL {
		return false
	}
	a, ok := u.X.(*ssa.Alloc)
	if !ok {
		return false
	}
	n := 0
	for _, st := range storesInto(a) {
		if st.Val != root {
			return false
		}
		n++
	}
	return n > 0
}
