package main

type selfValResult struct {
	Applied  int      `json:"applied"`
	Detected int      `json:"detected"`
	Skipped  int      `json:"skipped"`
	Broken   int      `json:"not_detected"`
	Details  []string `json:"details"`
}

func selfValidate(prop, root string) selfValResult { return selfValResult{} }
