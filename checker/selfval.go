package main

import (
	"encoding/json"
	"fmt"
	"os"
	"os/exec"
	"path/filepath"
	"sort"
	"strings"
	"sync"
)

// Self-validation of the checker (thorough tier): every seeded change kept under
// /verif/seeded (a realistic modification of biscuit-go that breaks a property while
// compiling and passing the test suite) is applied to a scratch copy of the CURRENT
// /repo and the property's rules must report it; behaviour-preserving rewrites under
// /verif/benign must leave them silent. This is static analysis of the variant's
// source; the result is reported in the evidence and is never a verdict about /repo.

type selfValResult struct {
	Applied        int `json:"applied"`
	Detected       int `json:"detected"`
	Skipped        int `json:"skipped"`
	Broken         int `json:"not_detected"`
	OutOfClaim     int `json:"not_detected_outside_claim"`
	BenignApplied  int `json:"benign_applied"`
	BenignSilent   int `json:"benign_silent"`
	BenignAlarming int `json:"benign_alarming"`
	// behaviour-preserving refactorings written by sub-agents (benign/refactor*): measured, not expected to be all silent
	RefactorApplied  int      `json:"refactorings_applied"`
	RefactorSilent   int      `json:"refactorings_silent"`
	RefactorAlarming int      `json:"refactorings_false_alarms"`
	Details          []string `json:"details"`
}

type seedMeta struct {
	Property   string   `json:"property"`
	DetectedBy []string `json:"detected_by_checks"`
	// OutsideClaim: why the check of the targeted property is not expected to report this change
	// (the broken clause is one the property's claim explicitly leaves to another property).
	OutsideClaim string `json:"outside_claim_of_target,omitempty"`
}

func selfValidate(prop, root string) selfValResult {
	var res selfValResult
	exe, err := os.Executable()
	if err != nil {
		res.Details = append(res.Details, "cannot locate own executable: "+err.Error())
		return res
	}
	type job struct {
		dir     string
		benign  bool
		outside string
		measure bool // refactoring corpus: counted, never expected
	}
	var jobs []job
	seeds, _ := filepath.Glob(filepath.Join(root, "seeded", "*", "patch.diff"))
	sort.Strings(seeds)
	for _, pth := range seeds {
		dir := filepath.Dir(pth)
		var m seedMeta
		if b, err := os.ReadFile(filepath.Join(dir, "meta.json")); err == nil {
			json.Unmarshal(b, &m)
		}
		// the changes written to break this property; with BVCHECK_ALLSEEDS=1 also every change that the
		// check of this property is recorded to report although it targets another property (about five
		// times as many variants since round 5: 241 changes, each judged on two views)
		want := m.Property == prop
		if os.Getenv("BVCHECK_ALLSEEDS") == "1" {
			for _, d := range m.DetectedBy {
				if d == prop {
					want = true
				}
			}
		}
		if want {
			jobs = append(jobs, job{dir: dir, outside: m.OutsideClaim})
		}
	}
	benign, _ := filepath.Glob(filepath.Join(root, "benign", "b*", "patch.diff"))
	sort.Strings(benign)
	for _, pth := range benign {
		jobs = append(jobs, job{dir: filepath.Dir(pth), benign: true})
	}
	// the refactoring corpora are measured only on request (they double the run time): BVCHECK_REFACTORINGS=1
	var refs []string
	if os.Getenv("BVCHECK_REFACTORINGS") == "1" {
		refs, _ = filepath.Glob(filepath.Join(root, "benign", "refactor*", "*", "patch.diff"))
	}
	sort.Strings(refs)
	for _, pth := range refs {
		jobs = append(jobs, job{dir: filepath.Dir(pth), benign: true, measure: true})
	}
	var mu sync.Mutex
	var wg sync.WaitGroup
	sem := make(chan struct{}, 6)
	for _, j := range jobs {
		wg.Add(1)
		go func(j job) {
			defer wg.Done()
			sem <- struct{}{}
			defer func() { <-sem }()
			status, note := runVariant(exe, *flagRepo, j.dir, prop)
			mu.Lock()
			defer mu.Unlock()
			name := filepath.Base(j.dir)
			switch {
			case status == "skipped" && j.measure:
				// made against an older tree
			case j.measure:
				res.RefactorApplied++
				if status == "silent" {
					res.RefactorSilent++
				} else {
					res.RefactorAlarming++
					res.Details = append(res.Details, filepath.Base(filepath.Dir(j.dir))+"/"+name+": refactoring (behaviour-preserving) raises a false alarm of this check: "+note)
				}
			case status == "skipped":
				res.Skipped++
				res.Details = append(res.Details, name+": skipped ("+note+")")
			case j.benign:
				res.BenignApplied++
				if status == "silent" {
					res.BenignSilent++
					res.Details = append(res.Details, name+": benign rewrite, silent")
				} else {
					res.BenignAlarming++
					res.Details = append(res.Details, name+": benign rewrite RAISED AN ALARM: "+note)
				}
			default:
				res.Applied++
				if status == "violation" {
					res.Detected++
					res.Details = append(res.Details, name+": detected: "+note)
				} else if j.outside != "" {
					res.OutOfClaim++
					res.Details = append(res.Details, name+": not reported by this check, as stated in its claim: "+j.outside)
				} else {
					res.Broken++
					res.Details = append(res.Details, name+": NOT detected")
				}
			}
		}(j)
	}
	wg.Wait()
	sort.Strings(res.Details)
	return res
}

// runVariant copies repo to a temporary directory, applies dir/patch.diff and runs the property's quick check on it.
func runVariant(exe, repo, dir, prop string) (status, note string) {
	tmp, err := os.MkdirTemp("", "bvcheck-variant-")
	if err != nil {
		return "skipped", err.Error()
	}
	defer os.RemoveAll(tmp)
	cp := exec.Command("sh", "-c", fmt.Sprintf("cd %q && tar --exclude=.git -cf - . | tar -xf - -C %q", repo, tmp))
	if out, err := cp.CombinedOutput(); err != nil {
		return "skipped", "copy failed: " + strings.TrimSpace(string(out))
	}
	ap := exec.Command("git", "apply", "--whitespace=nowarn", filepath.Join(dir, "patch.diff"))
	ap.Dir = tmp
	ap.Env = append(os.Environ(), "GIT_CEILING_DIRECTORIES="+filepath.Dir(tmp))
	if out, err := ap.CombinedOutput(); err != nil {
		return "skipped", "patch no longer applies to the current tree: " + oneLine(string(out))
	}
	run := exec.Command(exe, "-property", prop, "-tier", "quick", "-no-evidence", "-repo", tmp, "-verif", verifRoot())
	out, err := run.CombinedOutput()
	s := string(out)
	if strings.Contains(s, "type-check/load errors") {
		return "skipped", "variant does not type-check"
	}
	if err != nil && strings.Contains(s, "VIOLATION property="+prop) {
		first := ""
		for _, ln := range strings.Split(s, "\n") {
			if strings.HasPrefix(ln, "[violated]") || strings.HasPrefix(ln, "[undecided]") {
				first = ln
				break
			}
		}
		if len(first) > 260 {
			first = first[:260] + "..."
		}
		return "violation", first
	}
	if err == nil {
		return "silent", ""
	}
	return "skipped", "checker failed: " + oneLine(s)
}
