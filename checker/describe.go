package main

import (
	"fmt"
	"go/constant"
	"go/token"
	"go/types"
	"strings"

	"golang.org/x/tools/go/ssa"
)

// describer renders SSA values as normalised access-path expressions such as
// "b.container.Blocks[(φ5.0+1)].NextKey.Key". Descriptions never contain
// positions; they are compared structurally by the rules.
type describer struct {
	p     *Prog
	memo  map[ssa.Value]string
	ids   map[*ssa.Function]map[ssa.Value]int
	depth int
}

func (p *Prog) newDescriber() *describer {
	return &describer{p: p, memo: map[ssa.Value]string{}, ids: map[*ssa.Function]map[ssa.Value]int{}}
}

var globalDescr *describer

// D describes v.
func (p *Prog) D(v ssa.Value) string {
	if globalDescr == nil || globalDescr.p != p {
		globalDescr = p.newDescriber()
	}
	return globalDescr.d(v)
}

func shortType(t types.Type) string {
	s := types.TypeString(t, func(pk *types.Package) string {
		if sn, ok := shortNames[pk.Path()]; ok {
			return sn
		}
		return pk.Name()
	})
	return s
}

func (d *describer) id(v ssa.Value) int {
	fn := v.Parent()
	m := d.ids[fn]
	if m == nil {
		m = map[ssa.Value]int{}
		d.ids[fn] = m
		if fn != nil {
			n := 0
			for _, b := range fn.Blocks {
				for _, in := range b.Instrs {
					switch in.(type) {
					case *ssa.Alloc, *ssa.MakeSlice, *ssa.MakeMap, *ssa.MakeChan, *ssa.Select, *ssa.Phi:
						m[in.(ssa.Value)] = n
						n++
					}
				}
			}
		}
	}
	return m[v]
}

func stripAmp(s string) string {
	if strings.HasPrefix(s, "&") {
		return s[1:]
	}
	return s
}

// singleStore returns the only value ever stored to alloc a (nil if none or several,
// or if the address escapes to anything but loads/stores/field accesses).
func singleStore(a *ssa.Alloc) ssa.Value {
	var st ssa.Value
	n := 0
	for _, r := range *a.Referrers() {
		switch r := r.(type) {
		case *ssa.Store:
			if r.Addr == a {
				st = r.Val
				n++
			}
		}
	}
	if n == 1 {
		return st
	}
	return nil
}

func (d *describer) d(v ssa.Value) string {
	if v == nil {
		return "<none>"
	}
	if s, ok := d.memo[v]; ok {
		return s
	}
	d.depth++
	defer func() { d.depth-- }()
	if d.depth > 60 {
		return "…"
	}
	s := d.d1(v)
	d.memo[v] = s
	return s
}

func (d *describer) d1(v ssa.Value) string {
	switch v := v.(type) {
	case *ssa.Parameter:
		return v.Name()
	case *ssa.FreeVar:
		// captured variables are held by reference: the free variable is the address of the variable
		return "&^" + v.Name()
	case *ssa.Const:
		if v.Value == nil {
			return "nil"
		}
		if v.Value.Kind() == constant.String {
			return v.Value.ExactString()
		}
		return v.Value.ExactString() + ":" + shortType(v.Type())
	case *ssa.Global:
		pk := ""
		if v.Pkg != nil {
			pk = v.Pkg.Pkg.Name()
		}
		return "&@" + pk + "." + v.Name()
	case *ssa.Function:
		return "func:" + d.p.FuncName(v)
	case *ssa.Builtin:
		return v.Name()
	case *ssa.FieldAddr:
		st := deref(v.X.Type()).Underlying().(*types.Struct)
		if a, ok := v.X.(*ssa.Alloc); ok {
			// spilled value (e.g. a value receiver copied to a local): describe through the stored value
			if sv := singleStore(a); sv != nil {
				return "&" + d.d(sv) + "." + st.Field(v.Field).Name()
			}
		}
		return "&" + stripAmp(d.d(v.X)) + "." + st.Field(v.Field).Name()
	case *ssa.Field:
		st := v.X.Type().Underlying().(*types.Struct)
		return d.d(v.X) + "." + st.Field(v.Field).Name()
	case *ssa.IndexAddr:
		return "&" + stripAmp(d.d(v.X)) + "[" + d.d(v.Index) + "]"
	case *ssa.Index:
		return d.d(v.X) + "[" + d.d(v.Index) + "]"
	case *ssa.Lookup:
		return d.d(v.X) + "[" + d.d(v.Index) + "]"
	case *ssa.UnOp:
		if v.Op == token.MUL {
			if a, ok := v.X.(*ssa.Alloc); ok {
				if st := singleStore(a); st != nil {
					return d.d(st)
				}
				return fmt.Sprintf("*new#%d", d.id(a))
			}
			s := d.d(v.X)
			if strings.HasPrefix(s, "&") {
				return s[1:]
			}
			return "*" + s
		}
		if v.Op == token.ARROW {
			return "<-" + d.d(v.X)
		}
		return v.Op.String() + d.d(v.X)
	case *ssa.BinOp:
		// x+0 (what an inlined constant argument leaves behind) is x
		if v.Op == token.ADD {
			if k, ok := v.Y.(*ssa.Const); ok && k.Value != nil && k.Value.ExactString() == "0" {
				return d.d(v.X)
			}
		}
		return "(" + d.d(v.X) + v.Op.String() + d.d(v.Y) + ")"
	case *ssa.Slice:
		if v.Low == nil && v.High == nil && v.Max == nil {
			return stripAmp(d.d(v.X)) + "[:]"
		}
		lo, hi := "", ""
		if v.Low != nil {
			lo = d.d(v.Low)
		}
		if v.High != nil {
			hi = d.d(v.High)
		}
		s := stripAmp(d.d(v.X)) + "[" + lo + ":" + hi
		if v.Max != nil {
			s += ":" + d.d(v.Max)
		}
		return s + "]"
	case *ssa.Call:
		return d.call(&v.Call)
	case *ssa.Extract:
		return d.d(v.Tuple) + "#" + fmt.Sprint(v.Index)
	case *ssa.ChangeType:
		return d.d(v.X)
	case *ssa.ChangeInterface:
		return d.d(v.X)
	case *ssa.MakeInterface:
		return d.d(v.X)
	case *ssa.Convert:
		return shortType(v.Type()) + "(" + d.d(v.X) + ")"
	case *ssa.SliceToArrayPointer:
		return d.d(v.X)
	case *ssa.Phi:
		return fmt.Sprintf("φ%d.%d", v.Block().Index, d.id(v))
	case *ssa.TypeAssert:
		s := d.d(v.X) + ".(" + shortType(v.AssertedType) + ")"
		if v.CommaOk {
			s += "?"
		}
		return s
	case *ssa.Alloc:
		return fmt.Sprintf("&new#%d", d.id(v))
	case *ssa.MakeSlice:
		return fmt.Sprintf("make#%d", d.id(v))
	case *ssa.MakeMap:
		return fmt.Sprintf("makemap#%d", d.id(v))
	case *ssa.MakeChan:
		return fmt.Sprintf("makechan#%d", d.id(v))
	case *ssa.MakeClosure:
		return "closure:" + d.p.FuncName(v.Fn.(*ssa.Function))
	case *ssa.Range:
		return "range(" + d.d(v.X) + ")"
	case *ssa.Next:
		return "next(" + d.d(v.Iter) + ")"
	case *ssa.Select:
		return fmt.Sprintf("select#%d", d.id(v))
	}
	return fmt.Sprintf("?%T", v)
}

func (d *describer) call(c *ssa.CallCommon) string {
	var args []string
	for _, a := range c.Args {
		args = append(args, d.d(a))
	}
	if c.IsInvoke() {
		return d.d(c.Value) + "." + c.Method.Name() + "(" + strings.Join(args, ", ") + ")"
	}
	name := ""
	if f := c.StaticCallee(); f != nil {
		name = calleeName(f)
	} else {
		name = d.d(c.Value)
	}
	return name + "(" + strings.Join(args, ", ") + ")"
}

// calleeName returns "pkgname.Func" or "pkgname.Type.Method" for a static callee
// (pointer-ness of the receiver is dropped).
func calleeName(f *ssa.Function) string {
	if f == nil {
		return ""
	}
	if o := f.Object(); o != nil {
		if fo, ok := o.(*types.Func); ok {
			sig := fo.Type().(*types.Signature)
			pk := ""
			if fo.Pkg() != nil {
				pk = fo.Pkg().Path()
				if sn, ok := shortNames[pk]; ok {
					pk = sn
				}
			}
			if sig.Recv() != nil {
				t := deref(sig.Recv().Type())
				tn := shortType(t)
				if n, ok := t.(*types.Named); ok {
					tn = n.Obj().Name()
				}
				return pk + "." + tn + "." + fo.Name()
			}
			return pk + "." + fo.Name()
		}
	}
	if f.Parent() != nil {
		return calleeName(f.Parent()) + "$anon"
	}
	return f.Name()
}

// isCallTo reports whether the call's static callee is name (as given by calleeName).
func isCallTo(c *ssa.CallCommon, names ...string) bool {
	f := c.StaticCallee()
	if f == nil {
		return false
	}
	n := calleeName(f)
	for _, x := range names {
		if n == x {
			return true
		}
	}
	return false
}

// unwrap strips value-preserving wrappers (type changes, interface boxing, full slices).
func unwrap(v ssa.Value) ssa.Value {
	for {
		switch x := v.(type) {
		case *ssa.ChangeType:
			v = x.X
		case *ssa.ChangeInterface:
			v = x.X
		case *ssa.MakeInterface:
			v = x.X
		case *ssa.Slice:
			if x.Low == nil && x.High == nil && x.Max == nil {
				if _, isArr := deref(x.X.Type()).Underlying().(*types.Array); isArr {
					return v
				}
				v = x.X
			} else if c, ok := x.Low.(*ssa.Const); ok && x.High == nil && x.Max == nil && c.Value != nil && c.Int64() == 0 {
				if _, isArr := deref(x.X.Type()).Underlying().(*types.Array); isArr {
					return v
				}
				v = x.X
			} else {
				return v
			}
		case *ssa.UnOp:
			// load of a single-store local
			if x.Op == token.MUL {
				if a, ok := x.X.(*ssa.Alloc); ok {
					if st := singleStore(a); st != nil {
						v = st
						continue
					}
				}
			}
			return v
		default:
			return v
		}
	}
}

func isNilConst(v ssa.Value) bool {
	c, ok := unwrap(v).(*ssa.Const)
	return ok && c.Value == nil
}

func constInt(v ssa.Value) (int64, bool) {
	c, ok := unwrap(v).(*ssa.Const)
	if !ok || c.Value == nil || c.Value.Kind() != constant.Int {
		return 0, false
	}
	i, exact := constant.Int64Val(c.Value)
	return i, exact
}
