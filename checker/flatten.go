package main

import (
	"bytes"
	"fmt"
	"go/ast"
	"go/format"
	"go/parser"
	"go/token"
	"os"
)

// flattenIIFE rewrites, in one Go source file, statements whose only right-hand side (or only
// expression) is an immediately invoked parameterless function literal
//
//	x, err := func() (T, error) { body }()
//
// into straight-line code
//
//	var r0 T; var r1 error
//	{ L: switch { default: body' } }      // body': `return a, b` -> `r0, r1 = a, b; break L`
//	x, err := r0, r1
//
// which is what the source inliner leaves behind for helpers with several statements. The literal must
// not use defer or recover (their scope would change). Returns the new source and the number of rewrites.
func flattenIIFE(src []byte, nonNil map[string]bool) ([]byte, int, error) {
	fset := token.NewFileSet()
	f, err := parser.ParseFile(fset, "x.go", src, parser.ParseComments)
	if err != nil {
		return nil, 0, err
	}
	n := 0
	counter := 0
	var rewriteList func(list []ast.Stmt) []ast.Stmt
	iife := func(e ast.Expr) *ast.FuncLit {
		c, ok := e.(*ast.CallExpr)
		if !ok || len(c.Args) != 0 {
			return nil
		}
		fl, ok := c.Fun.(*ast.FuncLit)
		if !ok || (fl.Type.Params != nil && len(fl.Type.Params.List) > 0) {
			return nil
		}
		bad := false
		ast.Inspect(fl.Body, func(m ast.Node) bool {
			switch x := m.(type) {
			case *ast.FuncLit:
				return false
			case *ast.DeferStmt:
				bad = true
			case *ast.CallExpr:
				if id, isId := x.Fun.(*ast.Ident); isId && id.Name == "recover" {
					bad = true
				}
			}
			return true
		})
		if bad {
			return nil
		}
		return fl
	}
	// build the replacement statements for literal fl; returns (prefix statements, result temporaries)
	build := func(fl *ast.FuncLit, th *thread) ([]ast.Stmt, []ast.Expr) {
		counter++
		label := fmt.Sprintf("inl%d", counter)
		var temps []ast.Expr
		var pre []ast.Stmt
		var named []*ast.Ident
		var inner []ast.Stmt
		if fl.Type.Results != nil {
			k := 0
			for _, fld := range fl.Type.Results.List {
				cnt := len(fld.Names)
				if cnt == 0 {
					cnt = 1
				}
				for j := 0; j < cnt; j++ {
					t := ast.NewIdent(fmt.Sprintf("inl%dr%d", counter, k))
					k++
					temps = append(temps, t)
					pre = append(pre, &ast.DeclStmt{Decl: &ast.GenDecl{Tok: token.VAR, Specs: []ast.Spec{&ast.ValueSpec{Names: []*ast.Ident{t}, Type: fld.Type}}}})
					if len(fld.Names) > 0 {
						named = append(named, fld.Names[j])
						inner = append(inner, &ast.DeclStmt{Decl: &ast.GenDecl{Tok: token.VAR, Specs: []ast.Spec{&ast.ValueSpec{Names: []*ast.Ident{ast.NewIdent(fld.Names[j].Name)}, Type: fld.Type}}}})
						inner = append(inner, &ast.AssignStmt{Lhs: []ast.Expr{ast.NewIdent("_")}, Tok: token.ASSIGN, Rhs: []ast.Expr{ast.NewIdent(fld.Names[j].Name)}})
					}
				}
			}
		}
		// rewrite returns of the literal itself
		var rw func(list []ast.Stmt) []ast.Stmt
		var rwStmt func(s ast.Stmt) ast.Stmt
		retStmts := func(r *ast.ReturnStmt) []ast.Stmt {
			var out []ast.Stmt
			switch {
			case len(temps) == 0:
			case len(r.Results) == 0 && len(named) == len(temps):
				rhs := []ast.Expr{}
				for _, nm := range named {
					rhs = append(rhs, ast.NewIdent(nm.Name))
				}
				out = append(out, &ast.AssignStmt{Lhs: temps, Tok: token.ASSIGN, Rhs: rhs})
			default:
				out = append(out, &ast.AssignStmt{Lhs: temps, Tok: token.ASSIGN, Rhs: r.Results})
			}
			// jump threading: the statement after the call tests one result and leaves the function when the
			// test holds. Where this return decides that test, the exit (or the fall-through) is taken here, so
			// no merge of "failed" and "succeeded" paths is left for the analysis to untangle.
			if th != nil && len(r.Results) == len(temps) && th.idx < len(r.Results) {
				switch th.decide(r.Results[th.idx], nonNil, r) {
				case 1: // the test holds: leave now
					out = append(out, th.exit(temps)...)
					return out
				case 0: // the test fails: go on after the call
				default: // unknown at this return: test here
					out = append(out, &ast.IfStmt{Cond: th.cond(temps), Body: &ast.BlockStmt{List: th.exit(temps)}})
				}
			}
			out = append(out, &ast.BranchStmt{Tok: token.BREAK, Label: ast.NewIdent(label)})
			return out
		}
		rw = func(list []ast.Stmt) []ast.Stmt {
			var out []ast.Stmt
			for _, s := range list {
				if r, ok := s.(*ast.ReturnStmt); ok {
					out = append(out, retStmts(r)...)
					continue
				}
				out = append(out, rwStmt(s))
			}
			return out
		}
		rwStmt = func(s ast.Stmt) ast.Stmt {
			switch x := s.(type) {
			case *ast.BlockStmt:
				x.List = rw(x.List)
			case *ast.IfStmt:
				if th != nil {
					if be, ok := x.Cond.(*ast.BinaryExpr); ok && be.Op == token.NEQ {
						if id, isId := be.X.(*ast.Ident); isId && isNilIdent(be.Y) && len(x.Body.List) > 0 {
							if r, isR := x.Body.List[0].(*ast.ReturnStmt); isR {
								th.guarded[r] = id.Name
							}
						}
					}
				}
				x.Body.List = rw(x.Body.List)
				if x.Else != nil {
					x.Else = rwStmt(x.Else)
				}
			case *ast.ForStmt:
				x.Body.List = rw(x.Body.List)
			case *ast.RangeStmt:
				x.Body.List = rw(x.Body.List)
			case *ast.SwitchStmt:
				for _, c := range x.Body.List {
					cc := c.(*ast.CaseClause)
					cc.Body = rw(cc.Body)
				}
			case *ast.TypeSwitchStmt:
				for _, c := range x.Body.List {
					cc := c.(*ast.CaseClause)
					cc.Body = rw(cc.Body)
				}
			case *ast.SelectStmt:
				for _, c := range x.Body.List {
					cc := c.(*ast.CommClause)
					cc.Body = rw(cc.Body)
				}
			case *ast.LabeledStmt:
				x.Stmt = rwStmt(x.Stmt)
			}
			return s
		}
		body := rw(rewriteList(fl.Body.List))
		sw := &ast.LabeledStmt{Label: ast.NewIdent(label), Stmt: &ast.SwitchStmt{Body: &ast.BlockStmt{List: []ast.Stmt{&ast.CaseClause{Body: body}}}}}
		blk := &ast.BlockStmt{List: append(inner, sw)}
		return append(pre, blk), temps
	}
	rewriteStmt := func(s ast.Stmt, next ast.Stmt) []ast.Stmt {
		switch x := s.(type) {
		case *ast.AssignStmt:
			if len(x.Rhs) == 1 {
				if fl := iife(x.Rhs[0]); fl != nil {
					pre, temps := build(fl, newThread(x.Lhs, next, fl))
					if len(temps) == len(x.Lhs) {
						n++
						x.Rhs = temps
						return append(pre, x)
					}
				}
			}
		case *ast.ExprStmt:
			if fl := iife(x.X); fl != nil {
				pre, temps := build(fl, nil)
				n++
				if len(temps) > 0 {
					var blanks []ast.Expr
					for range temps {
						blanks = append(blanks, ast.NewIdent("_"))
					}
					return append(pre, &ast.AssignStmt{Lhs: blanks, Tok: token.ASSIGN, Rhs: temps})
				}
				return pre
			}
		case *ast.ReturnStmt:
			if len(x.Results) == 1 {
				if fl := iife(x.Results[0]); fl != nil {
					pre, temps := build(fl, nil)
					n++
					x.Results = temps
					return append(pre, x)
				}
			}
		case *ast.DeclStmt:
			if gd, ok := x.Decl.(*ast.GenDecl); ok && gd.Tok == token.VAR && len(gd.Specs) == 1 {
				if vs := gd.Specs[0].(*ast.ValueSpec); len(vs.Values) == 1 {
					if fl := iife(vs.Values[0]); fl != nil {
						pre, temps := build(fl, nil)
						if len(temps) == len(vs.Names) {
							n++
							vs.Values = temps
							return append(pre, x)
						}
					}
				}
			}
		}
		return []ast.Stmt{s}
	}
	var descend func(s ast.Stmt)
	rewriteList = func(list []ast.Stmt) []ast.Stmt {
		var out []ast.Stmt
		// `if [!]IIFE { ... }` -> `t := IIFE; if [!]t { ... }`
		var pre []ast.Stmt
		for _, s := range list {
			// `if x, err := IIFE; cond { ... }` -> `{ x, err := IIFE; if cond { ... } }`
			if is, ok := s.(*ast.IfStmt); ok && is.Init != nil {
				if as, isA := is.Init.(*ast.AssignStmt); isA && len(as.Rhs) == 1 && iife(as.Rhs[0]) != nil {
					init := is.Init
					is.Init = nil
					blk := &ast.BlockStmt{List: []ast.Stmt{init, is}}
					n++
					pre = append(pre, blk)
					continue
				}
			}
			if is, ok := s.(*ast.IfStmt); ok && is.Init == nil {
				cond := is.Cond
				neg := false
				if u, isU := cond.(*ast.UnaryExpr); isU && u.Op == token.NOT {
					cond, neg = u.X, true
				}
				if fl := iife(cond); fl != nil && fl.Type.Results != nil && len(fl.Type.Results.List) == 1 && len(fl.Type.Results.List[0].Names) <= 1 {
					counter++
					t := ast.NewIdent(fmt.Sprintf("inl%dc", counter))
					pre = append(pre, &ast.AssignStmt{Lhs: []ast.Expr{t}, Tok: token.DEFINE, Rhs: []ast.Expr{cond}})
					if neg {
						is.Cond = &ast.UnaryExpr{Op: token.NOT, X: ast.NewIdent(t.Name)}
					} else {
						is.Cond = ast.NewIdent(t.Name)
					}
				}
			}
			pre = append(pre, s)
		}
		list = pre
		for i, s := range list {
			descend(s)
			var next ast.Stmt
			if i+1 < len(list) {
				next = list[i+1]
			}
			out = append(out, rewriteStmt(s, next)...)
		}
		return out
	}
	descend = func(s ast.Stmt) {
		switch x := s.(type) {
		case *ast.BlockStmt:
			x.List = rewriteList(x.List)
		case *ast.IfStmt:
			x.Body.List = rewriteList(x.Body.List)
			if x.Else != nil {
				descend(x.Else)
			}
		case *ast.ForStmt:
			x.Body.List = rewriteList(x.Body.List)
		case *ast.RangeStmt:
			x.Body.List = rewriteList(x.Body.List)
		case *ast.SwitchStmt:
			for _, c := range x.Body.List {
				cc := c.(*ast.CaseClause)
				cc.Body = rewriteList(cc.Body)
			}
		case *ast.TypeSwitchStmt:
			for _, c := range x.Body.List {
				cc := c.(*ast.CaseClause)
				cc.Body = rewriteList(cc.Body)
			}
		case *ast.SelectStmt:
			for _, c := range x.Body.List {
				cc := c.(*ast.CommClause)
				cc.Body = rewriteList(cc.Body)
			}
		case *ast.LabeledStmt:
			descend(x.Stmt)
		case *ast.GoStmt:
			if fl, ok := x.Call.Fun.(*ast.FuncLit); ok {
				fl.Body.List = rewriteList(fl.Body.List)
			}
		case *ast.DeferStmt:
			if fl, ok := x.Call.Fun.(*ast.FuncLit); ok {
				fl.Body.List = rewriteList(fl.Body.List)
			}
		}
	}
	for _, d := range f.Decls {
		if fd, ok := d.(*ast.FuncDecl); ok && fd.Body != nil {
			fd.Body.List = rewriteList(fd.Body.List)
		}
	}
	if n == 0 {
		return src, 0, nil
	}
	// positions of synthesised nodes are zero: comments would be misplaced, drop the ones inside function bodies
	var keep []*ast.CommentGroup
	for _, cg := range f.Comments {
		inside := false
		for _, d := range f.Decls {
			if fd, ok := d.(*ast.FuncDecl); ok && fd.Body != nil && cg.Pos() > fd.Body.Pos() && cg.End() < fd.Body.End() {
				inside = true
			}
		}
		if !inside {
			keep = append(keep, cg)
		}
	}
	f.Comments = keep
	var buf bytes.Buffer
	if err := format.Node(&buf, fset, f); err != nil {
		return nil, 0, err
	}
	// must parse again
	if _, err := parser.ParseFile(token.NewFileSet(), "x.go", buf.Bytes(), 0); err != nil {
		return nil, 0, err
	}
	return buf.Bytes(), n, nil
}

func flattenFile(path string, nonNil map[string]bool) (int, error) {
	src, err := os.ReadFile(path)
	if err != nil {
		return 0, err
	}
	total := 0
	for i := 0; i < 6; i++ {
		out, n, err := flattenIIFE(src, nonNil)
		if err != nil {
			return total, err
		}
		if n == 0 {
			break
		}
		total += n
		src = out
	}
	if total > 0 {
		return total, os.WriteFile(path, src, 0o644)
	}
	return 0, nil
}

// thread describes the statement that follows an inlined call: `if <test of lhs[idx]> { exit }` where exit
// ends in a return or panic.
type thread struct {
	idx     int    // which result is tested
	kind    string // "v", "!v", "v!=nil", "v==nil"
	lhs     []string
	body    []ast.Stmt
	guarded map[*ast.ReturnStmt]string
}

func isNilIdent(e ast.Expr) bool {
	id, ok := e.(*ast.Ident)
	return ok && id.Name == "nil"
}

func terminates(list []ast.Stmt) bool {
	if len(list) == 0 {
		return false
	}
	switch x := list[len(list)-1].(type) {
	case *ast.ReturnStmt:
		return true
	case *ast.ExprStmt:
		if c, ok := x.X.(*ast.CallExpr); ok {
			if id, isId := c.Fun.(*ast.Ident); isId && id.Name == "panic" {
				return true
			}
		}
	}
	return false
}

func newThread(lhs []ast.Expr, next ast.Stmt, fl *ast.FuncLit) *thread {
	is, ok := next.(*ast.IfStmt)
	if !ok || is.Init != nil || is.Else != nil || !terminates(is.Body.List) {
		return nil
	}
	var names []string
	for _, l := range lhs {
		id, isId := l.(*ast.Ident)
		if !isId {
			return nil
		}
		names = append(names, id.Name)
	}
	th := &thread{lhs: names, body: is.Body.List, idx: -1, guarded: map[*ast.ReturnStmt]string{}}
	find := func(e ast.Expr) int {
		id, isId := e.(*ast.Ident)
		if !isId {
			return -1
		}
		for i, n := range names {
			if n == id.Name && n != "_" {
				return i
			}
		}
		return -1
	}
	switch c := is.Cond.(type) {
	case *ast.Ident:
		th.idx, th.kind = find(c), "v"
	case *ast.UnaryExpr:
		if c.Op == token.NOT {
			th.idx, th.kind = find(c.X), "!v"
		}
	case *ast.BinaryExpr:
		if isNilIdent(c.Y) && (c.Op == token.NEQ || c.Op == token.EQL) {
			th.idx = find(c.X)
			th.kind = map[token.Token]string{token.NEQ: "v!=nil", token.EQL: "v==nil"}[c.Op]
		}
	}
	if th.idx < 0 {
		return nil
	}
	// the exit is copied into the literal's body: no name it uses may be declared there
	used := map[string]bool{}
	for _, st := range is.Body.List {
		ast.Inspect(st, func(n ast.Node) bool {
			if id, isId := n.(*ast.Ident); isId {
				used[id.Name] = true
			}
			return true
		})
	}
	clash := false
	ast.Inspect(fl.Body, func(n ast.Node) bool {
		switch x := n.(type) {
		case *ast.FuncLit:
			return false
		case *ast.AssignStmt:
			if x.Tok == token.DEFINE {
				for _, l := range x.Lhs {
					if id, isId := l.(*ast.Ident); isId && used[id.Name] {
						clash = true
					}
				}
			}
		case *ast.ValueSpec:
			for _, id := range x.Names {
				if used[id.Name] {
					clash = true
				}
			}
		case *ast.RangeStmt:
			for _, e := range []ast.Expr{x.Key, x.Value} {
				if id, isId := e.(*ast.Ident); isId && x.Tok == token.DEFINE && used[id.Name] {
					clash = true
				}
			}
		}
		return true
	})
	if clash {
		return nil
	}
	if fl.Type.Results != nil {
		for _, fld := range fl.Type.Results.List {
			for _, nm := range fld.Names {
				if used[nm.Name] {
					return nil
				}
			}
		}
	}
	return th
}

// decide: 1 if the tested condition certainly holds for this returned expression, 0 if it certainly does not, -1 unknown.
func (th *thread) decide(e ast.Expr, nonNil map[string]bool, r *ast.ReturnStmt) int {
	val := -1 // for bool kinds: 1 true, 0 false; for nil kinds: 1 non-nil, 0 nil
	switch x := e.(type) {
	case *ast.Ident:
		switch {
		case x.Name == "true":
			val = 1
		case x.Name == "false", x.Name == "nil":
			val = 0
		case nonNil[x.Name]:
			val = 1
		case th.guarded[r] == x.Name:
			val = 1
		}
	case *ast.CallExpr:
		if sel, ok := x.Fun.(*ast.SelectorExpr); ok {
			if p, isId := sel.X.(*ast.Ident); isId && ((p.Name == "errors" && sel.Sel.Name == "New") || (p.Name == "fmt" && sel.Sel.Name == "Errorf")) {
				val = 1
			}
		}
	case *ast.CompositeLit:
		if _, isArr := x.Type.(*ast.ArrayType); !isArr {
			if _, isMap := x.Type.(*ast.MapType); !isMap {
				val = 1 // a struct value boxed into the result interface
			}
		}
	case *ast.UnaryExpr:
		if _, ok := x.X.(*ast.CompositeLit); ok && x.Op == token.AND {
			val = 1
		}
	}
	isBoolLit := false
	if id, ok := e.(*ast.Ident); ok && (id.Name == "true" || id.Name == "false") {
		isBoolLit = true
	}
	switch th.kind {
	case "v":
		if isBoolLit {
			return val
		}
	case "!v":
		if isBoolLit {
			return 1 - val
		}
	case "v!=nil":
		if !isBoolLit && val >= 0 {
			return val
		}
	case "v==nil":
		if !isBoolLit && val >= 0 {
			return 1 - val
		}
	}
	return -1
}

func (th *thread) cond(temps []ast.Expr) ast.Expr {
	t := ast.NewIdent(temps[th.idx].(*ast.Ident).Name)
	switch th.kind {
	case "v":
		return t
	case "!v":
		return &ast.UnaryExpr{Op: token.NOT, X: t}
	case "v!=nil":
		return &ast.BinaryExpr{X: t, Op: token.NEQ, Y: ast.NewIdent("nil")}
	}
	return &ast.BinaryExpr{X: t, Op: token.EQL, Y: ast.NewIdent("nil")}
}

// exit returns a copy of the exit statements with the call's left-hand names replaced by the result temporaries.
func (th *thread) exit(temps []ast.Expr) []ast.Stmt {
	var buf bytes.Buffer
	buf.WriteString("package p\nfunc _() {\n")
	fs := token.NewFileSet()
	for _, st := range th.body {
		format.Node(&buf, fs, st)
		buf.WriteString("\n")
	}
	buf.WriteString("}\n")
	f, err := parser.ParseFile(token.NewFileSet(), "e.go", buf.Bytes(), 0)
	if err != nil {
		return nil
	}
	body := f.Decls[0].(*ast.FuncDecl).Body
	sub := map[string]string{}
	for i, n := range th.lhs {
		if n != "_" && i < len(temps) {
			sub[n] = temps[i].(*ast.Ident).Name
		}
	}
	skip := map[*ast.Ident]bool{}
	ast.Inspect(body, func(n ast.Node) bool {
		switch x := n.(type) {
		case *ast.SelectorExpr:
			skip[x.Sel] = true
		case *ast.KeyValueExpr:
			if id, ok := x.Key.(*ast.Ident); ok {
				skip[id] = true
			}
		}
		return true
	})
	ast.Inspect(body, func(n ast.Node) bool {
		if id, ok := n.(*ast.Ident); ok && !skip[id] {
			if to, has := sub[id.Name]; has {
				id.Name = to
			}
		}
		return true
	})
	stripPos(body)
	return body.List
}

// stripPos clears positions so that nodes parsed from another file set print in the host file.
func stripPos(n ast.Node) {
	ast.Inspect(n, func(m ast.Node) bool {
		switch x := m.(type) {
		case *ast.Ident:
			x.NamePos = token.NoPos
		case *ast.BasicLit:
			x.ValuePos = token.NoPos
		case *ast.CallExpr:
			x.Lparen, x.Rparen = token.NoPos, token.NoPos
		case *ast.ReturnStmt:
			x.Return = token.NoPos
		case *ast.BlockStmt:
			x.Lbrace, x.Rbrace = token.NoPos, token.NoPos
		case *ast.IfStmt:
			x.If = token.NoPos
		case *ast.CompositeLit:
			x.Lbrace, x.Rbrace = token.NoPos, token.NoPos
		case *ast.UnaryExpr:
			x.OpPos = token.NoPos
		case *ast.BinaryExpr:
			x.OpPos = token.NoPos
		case *ast.AssignStmt:
			x.TokPos = token.NoPos
		case *ast.StarExpr:
			x.Star = token.NoPos
		case *ast.ParenExpr:
			x.Lparen, x.Rparen = token.NoPos, token.NoPos
		case *ast.IndexExpr:
			x.Lbrack, x.Rbrack = token.NoPos, token.NoPos
		case *ast.KeyValueExpr:
			x.Colon = token.NoPos
		}
		return true
	})
}

// countIIFE counts immediately invoked function literals outside go and defer statements.
func countIIFE(src []byte) int {
	f, err := parser.ParseFile(token.NewFileSet(), "x.go", src, 0)
	if err != nil {
		return 0
	}
	skip := map[*ast.CallExpr]bool{}
	n := 0
	ast.Inspect(f, func(m ast.Node) bool {
		switch x := m.(type) {
		case *ast.GoStmt:
			skip[x.Call] = true
		case *ast.DeferStmt:
			skip[x.Call] = true
		case *ast.CallExpr:
			if _, ok := x.Fun.(*ast.FuncLit); ok && !skip[x] {
				n++
			}
		}
		return true
	})
	return n
}
