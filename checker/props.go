package main

// Property binds a property id to the rules that decide its structural clauses.
type Property struct {
	ID          string
	Rules       []string
	Explanation string
	Decides     string
	NotDecided  string
}

var trustedBase = []string{
	"Go type checker (go/types) and go/ssa construction from golang.org/x/tools v0.29.0",
	"crypto/ed25519 contracts: Verify/Sign/NewKeyFromSeed panic on wrong key/seed lengths; GenerateKey returns an error iff the reader fails; signatures unforgeable and deterministic",
	"google.golang.org/protobuf: proto.Unmarshal with default options rejects messages with missing required fields and never yields nil elements in repeated message fields; proto.Marshal does not write to the message",
	"fmt, bytes, strings, regexp.Compile, math/big do not panic on arbitrary input",
	"participle fills grammar struct fields as its struct-tag grammar says",
}

var propertyOrder = []string{}
var properties = map[string]*Property{}

func defProperty(p *Property) {
	properties[p.ID] = p
	propertyOrder = append(propertyOrder, p.ID)
}
