package main

// Property binds a property id to the rules that decide its structural clauses.
type Property struct {
	ID          string
	Rules       []string
	Explanation string
	Decides     string
	NotDecided  string
	Technique   string
}

var trustedBase = []string{
	"Go type checker (go/types) and go/ssa construction from golang.org/x/tools v0.29.0",
	"crypto/ed25519 contracts: Verify/Sign/NewKeyFromSeed panic on wrong key/seed lengths; GenerateKey returns an error iff the reader fails; signatures unforgeable and deterministic",
	"google.golang.org/protobuf: proto.Unmarshal with default options rejects messages with missing required fields and never yields nil elements in repeated message fields; proto.Marshal does not write to the message",
	"fmt, bytes, strings, regexp.Compile, math/big do not panic on arbitrary input",
	"participle fills grammar struct fields as its struct-tag grammar says",
}

var propertyOrder = []string{}
var properties = map[string]*Property{}

func defProperty(p *Property) {
	properties[p.ID] = p
	propertyOrder = append(propertyOrder, p.ID)
}

func init() {
	defProperty(&Property{
		ID:          "C16",
		Rules:       []string{"KI-PROPAGATE", "KI-LOOKUP", "KI-FLOW"},
		Explanation: "Static decision of the structural clauses of C16 on the current source of /repo: (KI-PROPAGATE) every pb.Biscuit envelope constructed anywhere in package biscuit sets RootKeyId - from the parent token's envelope in every function that has a *Biscuit receiver/parameter, from the creation option in the root constructor - and the option plumbing (rootKeyIDOption -> builderOptions -> WithRootKeyID -> biscuitOptions) stores and forwards the identifier; this is an induction over all derivation histories because it quantifies over all constructors. (KI-LOOKUP) every return of the WithRootPublicKeys projection is classified with its dominating branch decisions: the default key only under id==nil, a map value only under id!=nil with the presence flag, every other path ErrNoPublicKeyAvailable - so no fallback to another key exists on any path. (KI-FLOW) AuthorizerFor asks the source for the token's own id, wraps the error with %w, rejects an empty key and verifies with exactly the returned key.",
		Decides:     "identifier propagation through every envelope constructor; exact key selection on every path of the lookup closure; use of the selected key for chain verification",
		NotDecided:  "protobuf presence semantics of the optional uint32 field (trusted); runtime equality of the reported identifier values",
	})
	defProperty(&Property{
		ID:          "C20",
		Rules:       []string{"RG-ERR", "RG-PLUMB"},
		Explanation: "Static decision of the structural clauses of C20: (RG-ERR) for every call of ed25519.GenerateKey in the repository the error result is compared with nil, the non-nil branch reaches only returns that carry that error with a nil token, and every use of the two key results lies on the err==nil side (edge dominance). By GenerateKey's contract a failing reader at any byte offset k yields exactly that error, so for every failure point the operation returns an error and no token, and never touches the nil keys (the panic of the pinned tree). (RG-PLUMB) the reader handed to GenerateKey is the caller's: the io.Reader parameter, or options.rng of a local options struct to which every element of the variadic options is applied; WithRNG stores the reader; Build and New forward it.",
		Decides:     "error discipline at every key-generation site for all failure offsets; plumbing of the caller-supplied random source",
		NotDecided:  "short reads that io.ReadFull turns into errors (stdlib); that the returned token verifies (covered by C01's SIG-PAIR/SIG-STORE rules)",
	})
}
