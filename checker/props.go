package main

// Property binds a property id to the rules that decide its structural clauses.
type Property struct {
	ID          string
	Rules       []string
	Explanation string
	Decides     string
	NotDecided  string
	Technique   string
}

var trustedBase = []string{
	"Go type checker (go/types) and go/ssa construction from golang.org/x/tools v0.29.0",
	"crypto/ed25519 contracts: Verify/Sign/NewKeyFromSeed panic on wrong key/seed lengths; GenerateKey returns an error iff the reader fails; signatures unforgeable and deterministic",
	"google.golang.org/protobuf: proto.Unmarshal with default options rejects messages with missing required fields and never yields nil elements in repeated message fields; proto.Marshal does not write to the message",
	"fmt, bytes, strings, regexp.Compile, math/big do not panic on arbitrary input",
	"participle fills grammar struct fields as its struct-tag grammar says",
}

var propertyOrder = []string{}
var properties = map[string]*Property{}

func defProperty(p *Property) {
	properties[p.ID] = p
	propertyOrder = append(propertyOrder, p.ID)
}

func init() {
	defProperty(&Property{
		ID:          "C16",
		Rules:       []string{"KI-PROPAGATE", "KI-LOOKUP", "KI-FLOW"},
		Explanation: "Static decision of the structural clauses of C16 on the current source of /repo: (KI-PROPAGATE) every pb.Biscuit envelope constructed anywhere in package biscuit sets RootKeyId - from the parent token's envelope in every function that has a *Biscuit receiver/parameter, from the creation option in the root constructor - and the option plumbing (rootKeyIDOption -> builderOptions -> WithRootKeyID -> biscuitOptions) stores and forwards the identifier; this is an induction over all derivation histories because it quantifies over all constructors. (KI-LOOKUP) every return of the WithRootPublicKeys projection is classified with its dominating branch decisions: the default key only under id==nil, a map value only under id!=nil with the presence flag, every other path ErrNoPublicKeyAvailable - so no fallback to another key exists on any path. (KI-FLOW) AuthorizerFor asks the source for the token's own id, wraps the error with %w, rejects an empty key and verifies with exactly the returned key.",
		Decides:     "identifier propagation through every envelope constructor; exact key selection on every path of the lookup closure; use of the selected key for chain verification",
		NotDecided:  "protobuf presence semantics of the optional uint32 field (trusted); runtime equality of the reported identifier values",
	})
	defProperty(&Property{
		ID:          "C20",
		Rules:       []string{"RG-ERR", "RG-PLUMB"},
		Explanation: "Static decision of the structural clauses of C20: (RG-ERR) for every call of ed25519.GenerateKey in the repository the error result is compared with nil, the non-nil branch reaches only returns that carry that error with a nil token, and every use of the two key results lies on the err==nil side (edge dominance). By GenerateKey's contract a failing reader at any byte offset k yields exactly that error, so for every failure point the operation returns an error and no token, and never touches the nil keys (the panic of the pinned tree). (RG-PLUMB) the reader handed to GenerateKey is the caller's: the io.Reader parameter, or options.rng of a local options struct to which every element of the variadic options is applied; WithRNG stores the reader; Build and New forward it.",
		Decides:     "error discipline at every key-generation site for all failure offsets; plumbing of the caller-supplied random source",
		NotDecided:  "short reads that io.ReadFull turns into errors (stdlib); that the returned token verifies (covered by C01's SIG-PAIR/SIG-STORE rules)",
	})
}

func init() {
	defProperty(&Property{
		ID:    "C13",
		Rules: []string{"RS-BASE", "RS-COMPLETE", "RS-COPY"},
		Explanation: "Static decision of the structural clauses of C13 (who-may-write + completeness of Reset). The state Reset restores from is computed from the code: the authorizer fields Reset reads (today baseWorld, baseSymbols). RS-BASE: every store to those fields anywhere in package biscuit is on the freshly allocated authorizer (constructor) or inside a function literal of type AuthorizerOption (construction-time option); request-time methods only ever use them as the receiver of Clone(). RS-COMPLETE: every field that any method of the authorizer stores to is reassigned by Reset, except fields proved write-only (all loads flow into an append stored back to the same field). RS-COPY: Reset assigns world/symbols a Clone() of the base fields and clears every other request field to an empty value; the constructor initialises the same fields as Clone() of the same base fields after the option loop. Together: after any sequence of rounds with any content the authorizer state equals that of a new authorizer, by induction over rounds.",
		Decides:     "who may write the base state; completeness of Reset over all request-mutable fields; copy (not alias) semantics of the restore; constructor/Reset agreement",
		NotDecided:  "equality of outcomes with a fresh authorizer beyond state equality (needs engine determinism, C12/C05); deep independence of World.Clone/SymbolTable.Clone results is checked by OWN-CLONE under C08",
		Technique:   "who-may-write / field-effect analysis over SSA (stores, loads, Clone provenance) on the authorizer implementation",
	})
	defProperty(&Property{
		ID:    "C11",
		Rules: []string{"LM-FIELDS", "LM-SENTINEL", "LM-CHAN", "LM-OPTS", "LM-CLONE", "LM-ERR", "RS-COPY"},
		Explanation: "Static decision of the structural clauses of C11. LM-FIELDS: every field of runLimits is read in World.Run and feeds a bound (branch comparison or timeout constructor). LM-SENTINEL: every result production of Run is classified with its dominating branch decisions: ErrWorldRunLimitMaxFacts only under 'fact count exceeds maxFacts', ErrWorldRunLimitMaxIterations only after exhaustion of the maxIterations loop, ErrWorldRunLimitTimeout only on the deadline case of the select, nil only under 'fact count before == after an InsertAll' (fixpoint), errors of rule application only under err != nil; all five productions must exist. LM-ERR: every World.Run call in package biscuit has its error tested and returned. LM-OPTS + LM-CLONE + RS-COPY: every variadic option parameter (AuthorizerOption, WorldOption, builder/biscuit options) is applied in a full-range loop or forwarded as opts..., World copies carry runLimits, Reset/constructor clone the configured base world - so limits given at construction reach every world used. LM-CHAN: for every go statement, every channel send of the goroutine is proved unable to block forever: buffered channel with at most one send per path, or a select case next to a receive from a stop channel that its owner closes by defer on every exit (channel identity resolved through closures, parameters and call sites).",
		Decides:     "limits read and enforced on every path of Run; sentinel/branch agreement; success only at fixpoint; error propagation at all Run call sites; option and limit plumbing through every constructor and copy; absence of forever-blocking sends in library goroutines",
		NotDecided:  "wall-clock bounds (how long after the deadline Run returns; a worker still running, as opposed to blocked, after a timeout); the exact >= vs > boundary of maxFacts; adequacy of the default limits",
		Technique:   "SSA edge-dominance (guards) on result productions + channel/goroutine send analysis + option-forwarding dataflow",
	})
}

func init() {
	defProperty(&Property{
		ID:    "C06",
		Rules: []string{"EX-ORDER", "EX-ARITH", "EX-STRINGS", "EX-DISPATCH", "EX-STACK", "FX-EQUAL", "PN-ASSERT", "PN-HASH", "PN-DIV"},
		Explanation: "Static decision of the structural clauses of C06. EX-ORDER: the result expressions of LessThan/LessOrEqual/GreaterThan/GreaterOrEqual (Integer and Date clauses), And, Or and Negate are evaluated abstractly over the complete finite domain the operators can observe - the three orderings {<,=,>} of the two asserted operands, resp. all truth assignments - and compared with the specification truth table (the operands are touched only through comparisons, so this is exhaustive; rewrites such as !(a<=b) or swapped operands evaluate to the same table). EX-ARITH: no native + - * << or negation on datalog.Integer anywhere in package datalog; every big.Int.Int64() is dominated by IsInt64() on the same value; Add/Sub/Mul call the big.Int method of their own name on (left,right) in that order; native / is reachable only on paths that have excluded divisor 0 and the pair (MinInt64,-1) (edge cut-set). EX-STRINGS: the success values of Prefix, Suffix, Regex, Contains (string case), Add (string case), Intersection, Union, Equal and Length are, as normalised access-path expressions, exactly the library function of the operator's own meaning applied to (left, right) in that order (strings.HasPrefix/HasSuffix/Contains, regexp.Compile(right).Match(left), symbols.Insert(left+right), Set.Intersect/Union, left.Equal(right), len of the string / bytes / set); Set.has is 'exists an Equal element over the full range', Intersect keeps the elements of s that t has, Union all of s plus the elements of t that s lacks. EX-DISPATCH: the registries datalog constant <-> implementing type <-> Type() tag <-> printer clause <-> biscuit constant (convert / fromDatalog) are total, injective and name-consistent over the frozen list of 17 binary, 3 unary operators and 7 term kinds. EX-STACK: every Push/Pop error in Evaluate is tested and returned, success only under len(stack)==1. FX-EQUAL: every Term.Equal gates any true result by the comma-ok of the assertion to its own type. PN-ASSERT/PN-HASH/PN-DIV: ill-typed operands reach an error rather than a failed assertion, no interface-keyed map or interface == whose implementors are unhashable, integer division guarded against zero - i.e. evaluation cannot panic through these classes.",
		Decides:     "exact truth tables of the ordering and boolean operators; exactness/overflow discipline of + - * /; totality and consistency of operator dispatch; stack discipline; type-strict equality; absence of assertion/hash/division panics in evaluation",
		NotDecided:  "the library functions themselves (strings, regexp, math/big); set-inclusion branch of Contains beyond its use of Equal; semantics of symbols.Str for out-of-range symbols",
		Technique:   "abstract interpretation over the finite ordering/truth domain + SSA guard (edge cut-set) analysis + registry table agreement",
	})
	defProperty(&Property{
		ID:    "C10",
		Rules: []string{"PN-HASH", "PN-ASSERT", "PN-PBREQ", "PN-STDLIB", "PN-INDEX", "PN-CONSTINDEX", "PN-DIV", "PN-EXPLICIT", "RG-ERR", "EX-STACK"},
		Explanation: "Static decision, over every function reachable in the call graph (static + CHA over repository implementors, closures and go bodies included, so panics on library goroutines are covered) from the token entry points (Unmarshal, every exported method of *Biscuit and *Block, NewVerifier, every method of the authorizer), of the panic classes a token can steer: PN-HASH (maps keyed by / == between interface values with unhashable implementors), PN-ASSERT (single-result type assertions must be dominated by the matching Type() tag test; tag map extracted from the implementors' Type() methods), PN-PBREQ (pointer-typed protobuf fields dereferenced only if the struct tag says required, under a nil guard, or via the nil-safe getter), PN-STDLIB (NewKeyFromSeed under len==32; Verify keys length-tested on every phi edge; Sign/Seed/Public only on keys from GenerateKey/NewKeyFromSeed/parameters; PutUint32 into >=4-byte buffers; no MustCompile of token data), PN-INDEX (sign-changing/truncating integer conversions feeding an index are bounded in the source domain first, per target architecture; symbol table indexes bounded above and below), PN-CONSTINDEX (a slice or string indexed / sliced with a constant is first proved long enough: the first-element probes of set conversion, prefix stripping), PN-DIV, PN-EXPLICIT (explicit panics discharged by operator-registry totality), plus RG-ERR (no nil keys) and EX-STACK.",
		Decides:     "absence of the enumerated panic classes on every path reachable from untrusted token bytes, including library goroutines",
		NotDecided:  "index expressions not fed by a lossy conversion (join odometer indexes, slices of protobuf-internal data), stack depth / memory exhaustion, panics inside protobuf, regexp, participle; explicit panics reachable only from caller-built (not token-derived) expressions",
		Technique:   "call-graph reachability from token entry points + per-class SSA guard/dominance rules + struct-tag (schema) lookup",
	})
}

func init() {
	ownExpl := "Ownership/effect analysis over the whole repository (SSA). origin(v) classifies every value as fresh, or as (a reference into) memory that belongs to a parameter, to a package-level variable, or to a token (reached through a value of static type Biscuit/Block), following field/index/load/slice/phi/closure-capture chains and accessor summaries (functions returning references into their arguments). Interprocedural summaries are computed to a fixpoint over the static+CHA call graph: MUTATES(f,i) - f writes (store, append base, copy destination, map update) through parameter i or passes it to a mutating parameter; RETAINS(f,i) - f stores a reference rooted at parameter i into a holder type that has mutating methods, or into a package variable. OWN-WRITE: no write instruction anywhere targets token-reached or package-level memory (append counts as a write regardless of capacity: capacity is a run-time quantity). OWN-MUT: at every call site, no argument that is a reference into a token or package variable (other than the *Biscuit/*Block itself) is bound to a MUTATES or RETAINS parameter of any resolved callee. OWN-CLONE: Clone/SplitOff/Build results and every Block literal assembled by a builder have only fresh reference components (make, new, append onto fresh, Clone results), so derived tokens, builders and authorizers work on storage disjoint from the token's."
	defProperty(&Property{
		ID:          "C08",
		Rules:       []string{"OWN-WRITE", "OWN-MUT", "OWN-CLONE"},
		Explanation: ownExpl + " Because each operation is shown in isolation to write only storage it freshly allocated (or its own mutable holder), the argument holds for every interleaving of build / create-block / add / build-block / append / seal / serialize / unmarshal / get-block-id / authorize over a family of tokens sharing ancestors.",
		Decides:     "absence of any write to memory reachable from a token, a built block or a package variable after construction; independence (non-aliasing) of everything handed to builders, derived tokens and authorizers",
		NotDecided:  "that equal values serialise equally (C07); exported accessors that hand internal slices to the caller (Checks()); reuse of a builder after Build (SplitOff truncates the builder's own table)",
		Technique:   "interprocedural ownership / mutator-summary analysis over go/ssa with a static+CHA call graph",
	})
	defProperty(&Property{
		ID:          "C19",
		Rules:       []string{"OWN-WRITE", "OWN-MUT", "OWN-CLONE"},
		Explanation: ownExpl + " For C19 this decides the write-freedom half: if no instruction reachable from the listed operations can write to storage reachable from the shared token, from shared parsed values passed as arguments, or from package variables, there is no write for any goroutine to race with, for every schedule.",
		Decides:     "write-freedom of every operation on a shared token / shared package state (no data race is possible on token-reachable or package-level memory)",
		NotDecided:  "that each goroutine's result equals the sequential one (follows from write-freedom plus determinism, C12); internals of participle parser instances and protobuf (documented concurrency-safe, trusted); the library's own worker goroutines after a timeout (C11)",
		Technique:   "interprocedural ownership / mutator-summary analysis over go/ssa (write-freedom => race-freedom)",
	})
}

func init() {
	defProperty(&Property{
		ID:    "C01",
		Rules: []string{"SIG-PAYLOAD", "SIG-WALK", "SIG-GATE", "SIG-PAIR", "CONS-LEN", "KI-FLOW", "PN-STDLIB", "SEAL-GUARD", "WR-VERBATIM"},
		Explanation: "Static decision of the structural clauses of C01. Acceptance of a token is one call (NewVerifier) in each function of package biscuit that reaches it; SIG-WALK proves, on every path to that call (edge cut-sets over the SSA control-flow graph), that (w1) the authority block's link message was verified with the caller's root key parameter, (w2) inside a full-range loop over container.Blocks each element's link was verified with a loop-carried key whose entry value is Authority.NextKey.Key and whose back-edge value is the verified element's NextKey.Key, every way back to the loop header passes the success edge of that Verify, and every early exit reaches only error returns, (w3) the loop completed, (w4) every path from loop completion to NewVerifier passes the success edge of either bytes.Equal(current key, Public(NewKeyFromSeed(Proof.GetNextSecret()))) or Verify(current key, seal(last block), Proof.GetFinalSignature()), where the last block is Authority if len(blocks)==0 else Blocks[len-1] (per phi edge); the authorizer struct is built nowhere else. SIG-PAYLOAD normalises the message of every ed25519.Sign/Verify call (append chains, fresh buffers, the 4-byte little-endian algorithm buffer) to a component list and requires exactly [BLOCK ALG KEY] or [BLOCK ALG KEY SIG] over one and the same signed block, the right signature operand, and - for signers - that the SignedBlock literal stores exactly the signed bytes, key, algorithm and the signature (sibling agreement between signers and verifier). SIG-GATE: the decoder accepts only after the 32/64-byte gates of the authority and of every block. SIG-PAIR: one GenerateKey per signer, public half signed, Seed() stored as the returned token's next secret. CONS-LEN: len(blocks)==len(container.Blocks) for every Biscuit literal (symbolic lengths, inductive on the parent). KI-FLOW: the public entry point verifies with the selected key. Under the trusted unforgeability of ed25519 this gives 'only if' for all byte strings and, by induction over build/append/seal, 'if' for all library-built tokens.",
		Decides:     "that no path accepts a token without the complete, correctly keyed signature walk and proof check; that signed and verified messages agree and bind block bytes, algorithm and next key of the same block; decoder size gates; key-pair plumbing of signers",
		NotDecided:  "ed25519 and protobuf themselves; domain separation between link and seal messages (cryptographic argument); the exported NewVerifier, which by upstream design performs no verification and is outside the property's observation point",
		Technique:   "SSA must-pass-through (edge cut-set / dominance) analysis of the chain walk + message normal forms compared between signers and verifier",
	})
	azExpl := "Static decision on the SSA form of the authorizer's Authorize/Query methods. AZ-SCOPE: a taint analysis whose sources are the range element of the loop over the token's non-authority blocks and the per-iteration World.Clone(); every datalog.World method call that receives tainted data has as receiver a Clone() of the authority-level world created inside that same loop iteration; no tainted value is stored into an authorizer field except a proved write-only accumulator. AZ-RESETRULES: v.world.ResetRules() dominates the block loop and no authority-level AddRule follows it. AZ-WORLDSEL: every QueryRule whose query derives from a block's checks runs on that block's clone, every other query (authorizer checks, authority checks, policies, Query()) on the authority-level world, each after a dominating Run of the same world, with the authorizer's symbol table. "
	defProperty(&Property{
		ID:          "C02",
		Rules:       []string{"AZ-SCOPE", "AZ-RESETRULES", "AZ-WORLDSEL", "AZ-PRECEDENCE", "AZ-DISJ", "OWN-CLONE"},
		Explanation: azExpl + "AZ-PRECEDENCE/AZ-DISJ: block-derived data can therefore flow only into the errs accumulator and error returns; the success/policy return is dominated by len(errs)==0. OWN-CLONE: World.Clone returns a fresh fact-set header and rule slice, so additions to a block world never reach the authority-level world. Non-interference: for every token, appended block and authorizer content, an appended block can only add failure paths.",
		Decides:     "that no data of an appended block can flow into the authority-level world, the policy verdict or another block's world (information-flow / non-interference on all paths)",
		NotDecided:  "that the Datalog engine evaluates the parent part identically in both runs (engine exactness, C05/C12); symbol-table interaction beyond interning being injective",
		Technique:   "intraprocedural taint / information-flow analysis over go/ssa with dominance checks",
	})
	defProperty(&Property{
		ID:          "C03",
		Rules:       []string{"AZ-SCOPE", "AZ-RESETRULES", "AZ-WORLDSEL", "OWN-CLONE"},
		Explanation: azExpl + "The rules are per loop iteration, hence hold for every block position; the clone is always taken from the authority-level world, never from a previous block's world. OWN-CLONE: the clone does not share its fact-set header or rule storage with its source.",
		Decides:     "block-private scoping of facts and rules of non-authority blocks on every path, for all block positions; authorizer queries see the authority-level world only",
		NotDecided:  "equality of query results (engine exactness); World.Clone shares the facts backing array beyond its length (no holder ever reads beyond its own length; noted, not a violation)",
		Technique:   "intraprocedural taint / information-flow analysis over go/ssa",
	})
	defProperty(&Property{
		ID:    "C04",
		Rules: []string{"AZ-DISJ", "AZ-PRECEDENCE", "AZ-POLICY", "AZ-WORLDSEL", "AZ-RESETRULES", "AZ-REINTERN", "LM-ERR"},
		Explanation: "Static decision of the control skeleton that turns query results into nil / ErrPolicyDenied / ErrNoMatchingPolicy / verification failure. AZ-DISJ: for each of the three check collections (authorizer checks, authority checks, checks of each block) a full-range loop exists, left early only through error returns; per check a bool flag phi is true exactly on edges guarded by len(*QueryRule(q)) != 0 for q ranging over all Queries of that check and false only on exhaustion; a failure is appended to errs exactly under !flag and reaches the errs slice that decides the outcome. AZ-PRECEDENCE: every return that may be nil or a policy verdict is dominated by len(errs)==0, decided after the block loop. AZ-POLICY: the verdict is the loop-carried result of a full-range, in-order loop over the policies; each policy query is guarded by !matched (first match wins); nil is assigned only on edges guarded by 'query satisfied, kind==Allow, not yet matched', ErrPolicyDenied only with kind==Deny; ErrNoMatchingPolicy exactly when !matched. AZ-WORLDSEL/AZ-RESETRULES: scopes. AZ-REINTERN: token content enters a world only via fromDatalogX(token symbols) then convert(authorizer symbols). LM-ERR: Run errors fail the authorization.",
		Decides:     "the decision procedure's control skeleton for any number and order of checks, queries and policies (properties of loops and branch guards, not of instances)",
		NotDecided:  "whether each QueryRule result is right (engine, C05); error-producing expressions inside queries (QueryRule discards Apply's error - outside the fragment the property fixes)",
		Technique:   "SSA phi-leaf / edge-guard analysis of flag and verdict variables, loop-shape (full range, early exit) analysis",
	})
}

func init() {
	defProperty(&Property{
		ID:    "C09",
		Rules: []string{"SEAL-GUARD", "SEAL-SAME", "SEAL-NOPROOF", "SIG-WALK", "SIG-PAYLOAD", "RV-ENUM", "WR-VERBATIM", "KI-PROPAGATE", "CONS-LEN"},
		Explanation: "Static decision of the structural clauses of C09. SEAL-GUARD: in every method that derives a new envelope from a token (today Append and Seal) every Sign call and every success return is dominated by the branch Proof.GetNextSecret() != nil, the failing side returning an error, and the signing key is NewKeyFromSeed of that secret - since Unmarshal keeps the decoded proof unchanged (WR-VERBATIM) a sealed or re-loaded sealed token refuses both operations. SEAL-SAME: the function that signs a seal payload returns a Biscuit whose authority is a copy of *parent.authority, whose blocks[i] are copies of *parent.blocks[i] in a full-range loop into a slice of equal length, whose symbols are a Clone, whose envelope has the parent's Authority pointer and exactly a full copy of the parent's signed Blocks (nothing appended), the parent's RootKeyId (KI-PROPAGATE) and a Proof_FinalSignature. SEAL-NOPROOF: no function reachable (call graph) from any method of the authorizer reads pb.Biscuit.Proof or calls GetProof/GetNextSecret/GetFinalSignature, so the authorization outcome cannot depend on the proof kind. SIG-WALK w4 + SIG-PAYLOAD(seal): an altered seal signature, last block or last key is rejected. RV-ENUM: sealing adds no revocation identifier.",
		Decides:     "refusal of append/seal on sealed tokens on all paths; structural identity of the sealed token's authorization-relevant content with its parent; independence of authorization from the proof; seal verification binding last block, last key and signature",
		NotDecided:  "run-time equality of authorization outcomes (follows from SEAL-SAME + SEAL-NOPROOF only modulo engine determinism, C12)",
		Technique:   "SSA guard dominance + composite-literal provenance + call-graph reachability (who-may-read the proof)",
	})
	defProperty(&Property{
		ID:    "C17",
		Rules: []string{"RV-ENUM", "RV-FRESH", "WR-VERBATIM", "SIG-PAYLOAD", "SIG-PAIR", "RG-PLUMB"},
		Explanation: "Static decision of the structural clauses of C17. RV-FRESH: every function that signs and returns a *Biscuit returns the token it has just built, never one loaded from a builder, token or package variable (no memoised issuance). RV-ENUM: RevocationIds returns a slice that starts from an empty base with Authority.Signature and to which a full-range, in-order loop over container.Blocks appends exactly the Signature of the range element on every iteration (no filter, no early exit): exactly one identifier per signed block, authority first. WR-VERBATIM: every derived envelope keeps the parent's Authority pointer and a full in-order copy of its Blocks (plus at most one new block at the end), Serialize marshals the stored envelope and Unmarshal keeps the decoded one, so the identifiers of a derived or re-loaded token begin with the parent's unchanged and equal the signature field an independent decoder reads. SIG-PAYLOAD + SIG-PAIR + RG-PLUMB: each block signature covers the next public key drawn from the caller's random source in that very operation (exactly one GenerateKey per signing), so two signing operations sign different messages unless the random source repeats.",
		Decides:     "one identifier per block, order and stability of identifiers across derivation and serialisation; that every signature binds fresh per-operation randomness",
		NotDecided:  "collision probability of signatures (cryptographic)",
		Technique:   "SSA accumulator-shape analysis (phi/append normal form) + envelope provenance",
	})
}

func init() {
	defProperty(&Property{
		ID:    "C07",
		Rules: []string{"WR-PROTO", "WR-ENUM", "WR-SYMS", "WR-SYMTAB", "WR-FIELDS", "WR-ELEMWISE", "WR-VERSION", "WR-VERBATIM", "EX-DISPATCH", "SIG-GATE", "KI-PROPAGATE", "OWN-MUT", "OWN-CLONE"},
		Explanation: "Static decision of the finite tables and coverage conditions on which wire fidelity rests, against a frozen copy of the published Biscuit v2 schema (wire constants: message/field numbers and labels, enum members, the 28 default symbols, offset 1024, version 3 - any edit to them is a behaviour change for every other implementation). WR-PROTO: pb/biscuit.proto is parsed and compared field by field and enum by enum with the frozen table, and the generated struct tags (wire kind, number, label, name, oneof) and enum constants of pb/biscuit.pb.go with the same table. WR-ENUM: the encoder and decoder switches for binary/unary operators, term kinds and expression element kinds are extracted clause by clause and must be total over the frozen lists, injective and name-consistent in both directions (datalog.BinaryX <-> pb.OpBinary_X <-> datalog.X{}), which also catches a consistent swap in both directions that round-trips inside this library but breaks interoperability. WR-SYMS: DEFAULT_SYMBOLS equals the frozen list in order, OFFSET is 1024 and never assigned, every threshold constant in Insert/Sym/Index/Str/Var is 1024, builders record Len() of their starting table and split the block's table exactly there. WR-SYMTAB: every Biscuit literal's token-wide symbol table is a fresh Clone() that is extended, before the token is returned, with the symbols of exactly the blocks added in that function (authority first, then every decoded block on every continuing iteration of the full-range loop; the new block in Append/newBiscuit, none in Seal), and a new block is accepted only under IsDisjoint(token table, block table). WR-FIELDS: every converter between the library's and the protobuf structures reads every field of its source and sets every field of every result literal. WR-ELEMWISE: every element-wise conversion loop (expressions, terms, facts, rules, queries) writes exactly one output element on every path that continues to the next input element (no input element is skipped or filtered). WR-VERSION: the decoder accepts a block only under version>=3 and version<=3 and keeps the declared version; encoders/builders write version 3. OWN-MUT/OWN-CLONE: the token-wide symbol table from which per-block tables are cut is never aliased between a token and its derivations or builders (an aliased table shifts or drops the symbols a sibling block declares on the wire). WR-VERBATIM: derived and re-loaded tokens carry the parent's signed blocks verbatim and Serialize marshals the stored envelope, so re-serialisation reproduces existing blocks byte for byte.",
		Decides:     "agreement of schema, generated code, converters and symbol rules with the published wire format; field coverage of all converters; version gate; verbatim carriage of signed blocks",
		NotDecided:  "byte-level equality of a full round trip and protobuf encoding itself; resolvability of every symbol index for arbitrary block content (only the split point is checked); equality of String() output",
		Technique:   "table agreement: schema file, struct tags, enum constants and switch clauses extracted from the typed AST and compared with a frozen specification table",
	})
}

func init() {
	defProperty(&Property{
		ID:    "C14",
		Rules: []string{"PG-LEXER", "PG-LADDER", "PG-EMIT", "PG-OPMAP", "PG-POLICY", "PG-ERR", "PG-LITERAL", "PR-PARENS", "PN-CONSTINDEX"},
		Explanation: "Static decision of the structural clauses of C14. PG-LEXER: the lexer rule table (token class names, patterns, priority order) and the parser options (lookahead 1, elided whitespace/EOL, unquoted strings) equal the frozen lexical syntax of the documented grammar, and every grammar entry point is built with them. PG-LADDER: starting from parser.Expression the chain of Left-field types is followed; each level's operator set is read from the participle tag of its operator node, its associativity from the Right field (slice + @@* = left-associative chain, pointer + @@? = non-associative); the extracted ladder must equal the frozen precedence of the property statement (|| < && < non-associative comparisons < + - < * / < prefix ! < method calls) and the precedence table parsed from GRAMMAR.md. PG-EMIT: in every operator node the operand's ToExpr call dominates the operator's (postfix emission), in every level Left is emitted before any Right (left associativity), negation is emitted as operand then UnaryNegate exactly under Operator != nil. PG-OPMAP: every operator token accepted by a grammar tag is a key of operatorMap, whose value has a clause in Operator.ToExpr assigning the specified biscuit operator (no silent zero value, no nil Op that panics on first use). PG-POLICY: in both policy entry points the kind is PolicyKindAllow exactly on the path where the 'allow if' alternative was parsed and PolicyKindDeny where 'deny if' was, with the queries of that alternative. PN-CONSTINDEX: constant indexes into captured token values and stripped prefixes are length-guarded (or covered by participle's Capture contract). PG-ERR: no error result of any call inside package parser is discarded. PG-LITERAL: every set element is tested for being a variable (ErrVariableInSet) inside the full element loop, an unbound parameter yields an error, parsed facts are tested term by term (ErrVariableInFact). PR-PARENS: UnaryParens is emitted exactly after a parenthesised sub-expression.",
		Decides:     "precedence, associativity and non-associativity of the grammar against the documentation; postfix emission order; totality of the operator-token mapping; error discipline of the conversion layer; reporting of the listed malformed inputs",
		NotDecided:  "absence of panics inside participle and its lexer; that the lexer regular expressions denote exactly the documented literal forms; value-level correctness of converted literals",
		Technique:   "struct-tag grammar extraction + table agreement with GRAMMAR.md + SSA dominance (emission order) + error-discard analysis",
	})
	defProperty(&Property{
		ID:    "C15",
		Rules: []string{"PR-OPSYM", "PR-KEYWORD", "PR-PARENS", "EX-DISPATCH", "PG-OPMAP", "PN-INDEX", "WR-FIELDS", "WR-ELEMWISE", "WR-SYMS"},
		Explanation: "Static decision of the structural clauses of C15: the printer's concrete syntax is the parser's. PR-OPSYM: for every operator the composed chain parser token -> operatorMap -> Operator.ToExpr -> biscuit operator -> datalog implementor -> Type() constant -> printer clause is followed (links verified by PG-OPMAP and EX-DISPATCH) and the clause's format string must be the form the parser reads for that very operator: \"%s tok %s\" for infix tokens, \"%s.tok(%s)\" for methods, \"%s.length()\", \"!%s\", \"(%s)\". PR-KEYWORD: the printers of checks, rules, queries and predicates emit 'check if', ' or ', ' <- ', ', ', name(...), $variables, quoted strings, hex: bytes, RFC 3339 dates, %t booleans, and the grammar tags read the same tokens; dates are parsed with the same RFC 3339 layout they are printed with. PR-PARENS: parentheses are printed iff the explicit UnaryParens operator is present, which the parser emits exactly for a parenthesised sub-expression, and Parens evaluates as the identity. PN-INDEX: printing resolves symbols with bounded lookups (never panics on a symbol id). WR-FIELDS / WR-ELEMWISE: the printed block content (facts, rules, checks, every expression operator including the explicit parenthesis operators) is what Unmarshal reconstructs, field for field and element for element, so the text is the same before and after serialisation. WR-SYMS: symbol and variable lookups accept exactly the valid index range (no valid name is printed as invalid).",
		Decides:     "agreement of every operator symbol, keyword and delimiter between printer and parser; grouping printed iff parsed; panic-freedom of symbol resolution while printing",
		NotDecided:  "printer-after-parser identity over all expressions and terms (string escaping, set element printing, date formatting are run-time formatting questions); Block.Code's statement separators",
		Technique:   "table agreement between printer switch clauses / string literals and grammar struct tags",
	})
}

func init() {
	defProperty(&Property{
		ID:    "C18",
		Rules: []string{"SN-FIELDS", "SN-KIND", "SN-DIRTY", "SN-SYMS", "WR-ENUM", "WR-FIELDS", "PN-PBREQ", "PN-ASSERT"},
		Explanation: "Static decision of the structural clauses of C18. SN-FIELDS: the pb.AuthorizerPolicies literal built by SerializePolicies sets every payload field of the message (symbols, version, facts, rules, checks, policies) and the functions reachable from LoadPolicies read every one of them; the version written is the single version the loader accepts. SN-KIND: the allow/deny switches of saving and loading are total, mutually inverse and name-consistent. SN-DIRTY: every non-error return of SerializePolicies is dominated by !dirty, and every Run of the authority-level world in an authorizer method is followed, on its success side, by dirty = true, so saving is refused once the authorizer has been evaluated. SN-SYMS: the symbol table saved is the authorizer's table that checks and policies are converted with; the loader extends its table with the snapshot's symbols before any fromDatalogX / AddFact / AddRule and resolves against that extended table. WR-ENUM / WR-FIELDS: the shared converters are total and field-complete. PN-PBREQ / PN-ASSERT: malformed bytes reach an error, not a nil dereference or failed assertion, in the loader.",
		Decides:     "completeness and agreement of what is saved and what is loaded; refusal to save an evaluated authorizer on all paths; ordering of symbol-table extension before interpretation",
		NotDecided:  "that raw symbol indexes of saved facts/rules line up with the loading authorizer's table for arbitrary prior state (holds by construction for a fresh loader); outcome equivalence at run time",
		Technique:   "field-coverage and switch-table agreement + SSA dominance (ordering, guards)",
	})
	defProperty(&Property{
		ID:    "C12",
		Rules: []string{"DT-MAPRANGE", "DT-SOURCES", "FS-DEDUP", "FX-EQUAL", "AZ-REINTERN", "AZ-DISJ", "OWN-MUT", "EN-APPLYALL"},
		Explanation: "Static decision of necessary conditions of C12 (thin claim). DT-MAPRANGE: every range over a map in packages biscuit and datalog has an order-insensitive body (map inserts, constant-result existence tests), so no result depends on Go's randomised map order. DT-SOURCES: no function reachable from the authorizer's methods calls math/rand, crypto/rand, time.Now/Since; the only selects are non-blocking cancellation polls, the documented deadline-versus-result select of World.Run and the producer's send-or-stop select. FS-DEDUP: facts enter a fact set only through Insert, which appends only after a full-range structural-equality scan found no equal fact - duplicating a fact is a no-op and re-loading the token on a second Authorize is idempotent. FX-EQUAL: term equality is type-strict. AZ-REINTERN: all content is re-interned into the authorizer's table (interning is injective), so consistent renaming yields the same joins. OWN-MUT: no package-level mutable state (caches keyed by symbol index, shared buffers) is consulted by evaluation. EN-APPLYALL: every rule is applied in every iteration regardless of its position. AZ-DISJ: every check is evaluated with its own freshly initialised success flag and every check of a collection is evaluated, so the order of checks cannot matter.",
		Decides:     "absence of order- and time-dependent sources in the evaluation path; set semantics of the fact store; no hidden shared state between evaluations",
		NotDecided:  "permutation invariance of the join enumeration and of the fixpoint themselves (needs the exactness of C05, which is not statically decided); that a second Authorize sees the same rules (authority rules are dropped by ResetRules after the first call while their derived facts persist)",
		Technique:   "effect / nondeterminism-source enumeration over the call graph + loop-shape analysis of the fact store",
	})
	defProperty(&Property{
		ID:    "C05",
		Rules: []string{"EN-APPLYALL", "EN-CONSUME", "EN-HEAD", "EN-MATCH", "EN-UNIFY", "EN-EXITS", "FS-DEDUP", "FX-UNIFY", "FX-EQUAL", "LM-SENTINEL"},
		Explanation: "Static decision of structural necessary conditions of C05 (thin claim; the join enumeration itself is NOT decided). EN-APPLYALL: in every iteration of World.Run a full-range loop applies every rule to the world's current facts, leaves early only by ending the evaluation, and all facts derived in the iteration are merged (InsertAll) before the fixpoint test. LM-SENTINEL: success is reported only when an iteration added no fact. EN-CONSUME: Rule.Apply joins the rule's whole body and all expressions, inserts an instance of a clone of the rule head for every combination it receives, and leaves its receive loop early only with an error. EN-HEAD: the derived fact is the cloned head in which every variable position (full-range loop) is replaced by the value matched for that very variable, a missing binding ends Apply with an error, and QueryRule returns exactly what Apply derives from the world's facts. EN-MATCH: Predicate.Match returns true only after a complete positional scan with equal name and arity, passing a position only if one side is a variable or the constants are Equal. EN-UNIFY: in the join, variables are bound by visiting every term position of every body predicate (full ranges) and binding the variable at position j to the matched fact's term at the same position j. EN-EXITS: the enumeration goroutine ends only for one of the enumerated reasons (index odometer exhausted, no facts, head variable missing from the body, expression error sent, expression-only rule evaluated once, consumer gone); any other early termination loses combinations. FX-UNIFY: the consistency verdict of a repeated variable (MatchedVariables.Insert) controls a branch. FX-EQUAL: term equality is type-strict for all seven kinds. FS-DEDUP: the fact store is a set (structural de-duplication over the full range).",
		Decides:     "the skeleton of naive evaluation (all rules, every iteration, all received combinations, success only at fixpoint) and the local matching/unification/equality predicates",
		NotDecided:  "exactness of the join odometer (combine / advanceIndexes): a skipped last fact or a lost carry is invisible to any structural rule short of re-proving the algorithm, which needs a symbolic or model-based argument from another technique family; expression results (C06)",
		Technique:   "loop-shape and guard analysis over go/ssa of the evaluation skeleton (not of the join enumeration)",
	})
}
