package main

// Property binds a property id to the rules that decide its structural clauses.
type Property struct {
	ID          string
	Rules       []string
	Explanation string
	Decides     string
	NotDecided  string
	Technique   string
}

var trustedBase = []string{
	"Go type checker (go/types) and go/ssa construction from golang.org/x/tools v0.29.0",
	"crypto/ed25519 contracts: Verify/Sign/NewKeyFromSeed panic on wrong key/seed lengths; GenerateKey returns an error iff the reader fails; signatures unforgeable and deterministic",
	"google.golang.org/protobuf: proto.Unmarshal with default options rejects messages with missing required fields and never yields nil elements in repeated message fields; proto.Marshal does not write to the message",
	"fmt, bytes, strings, regexp.Compile, math/big do not panic on arbitrary input",
	"participle fills grammar struct fields as its struct-tag grammar says",
}

var propertyOrder = []string{}
var properties = map[string]*Property{}

func defProperty(p *Property) {
	properties[p.ID] = p
	propertyOrder = append(propertyOrder, p.ID)
}

func init() {
	defProperty(&Property{
		ID:          "C16",
		Rules:       []string{"KI-PROPAGATE", "KI-LOOKUP", "KI-FLOW"},
		Explanation: "Static decision of the structural clauses of C16 on the current source of /repo: (KI-PROPAGATE) every pb.Biscuit envelope constructed anywhere in package biscuit sets RootKeyId - from the parent token's envelope in every function that has a *Biscuit receiver/parameter, from the creation option in the root constructor - and the option plumbing (rootKeyIDOption -> builderOptions -> WithRootKeyID -> biscuitOptions) stores and forwards the identifier; this is an induction over all derivation histories because it quantifies over all constructors. (KI-LOOKUP) every return of the WithRootPublicKeys projection is classified with its dominating branch decisions: the default key only under id==nil, a map value only under id!=nil with the presence flag, every other path ErrNoPublicKeyAvailable - so no fallback to another key exists on any path. (KI-FLOW) AuthorizerFor asks the source for the token's own id, wraps the error with %w, rejects an empty key and verifies with exactly the returned key.",
		Decides:     "identifier propagation through every envelope constructor; exact key selection on every path of the lookup closure; use of the selected key for chain verification",
		NotDecided:  "protobuf presence semantics of the optional uint32 field (trusted); runtime equality of the reported identifier values",
	})
	defProperty(&Property{
		ID:          "C20",
		Rules:       []string{"RG-ERR", "RG-PLUMB"},
		Explanation: "Static decision of the structural clauses of C20: (RG-ERR) for every call of ed25519.GenerateKey in the repository the error result is compared with nil, the non-nil branch reaches only returns that carry that error with a nil token, and every use of the two key results lies on the err==nil side (edge dominance). By GenerateKey's contract a failing reader at any byte offset k yields exactly that error, so for every failure point the operation returns an error and no token, and never touches the nil keys (the panic of the pinned tree). (RG-PLUMB) the reader handed to GenerateKey is the caller's: the io.Reader parameter, or options.rng of a local options struct to which every element of the variadic options is applied; WithRNG stores the reader; Build and New forward it.",
		Decides:     "error discipline at every key-generation site for all failure offsets; plumbing of the caller-supplied random source",
		NotDecided:  "short reads that io.ReadFull turns into errors (stdlib); that the returned token verifies (covered by C01's SIG-PAIR/SIG-STORE rules)",
	})
}

func init() {
	defProperty(&Property{
		ID:    "C13",
		Rules: []string{"RS-BASE", "RS-COMPLETE", "RS-COPY"},
		Explanation: "Static decision of the structural clauses of C13 (who-may-write + completeness of Reset). The state Reset restores from is computed from the code: the authorizer fields Reset reads (today baseWorld, baseSymbols). RS-BASE: every store to those fields anywhere in package biscuit is on the freshly allocated authorizer (constructor) or inside a function literal of type AuthorizerOption (construction-time option); request-time methods only ever use them as the receiver of Clone(). RS-COMPLETE: every field that any method of the authorizer stores to is reassigned by Reset, except fields proved write-only (all loads flow into an append stored back to the same field). RS-COPY: Reset assigns world/symbols a Clone() of the base fields and clears every other request field to an empty value; the constructor initialises the same fields as Clone() of the same base fields after the option loop. Together: after any sequence of rounds with any content the authorizer state equals that of a new authorizer, by induction over rounds.",
		Decides:     "who may write the base state; completeness of Reset over all request-mutable fields; copy (not alias) semantics of the restore; constructor/Reset agreement",
		NotDecided:  "equality of outcomes with a fresh authorizer beyond state equality (needs engine determinism, C12/C05); deep independence of World.Clone/SymbolTable.Clone results is checked by OWN-CLONE under C08",
		Technique:   "who-may-write / field-effect analysis over SSA (stores, loads, Clone provenance) on the authorizer implementation",
	})
	defProperty(&Property{
		ID:    "C11",
		Rules: []string{"LM-FIELDS", "LM-SENTINEL", "LM-CHAN", "LM-OPTS", "LM-CLONE", "LM-ERR", "RS-COPY"},
		Explanation: "Static decision of the structural clauses of C11. LM-FIELDS: every field of runLimits is read in World.Run and feeds a bound (branch comparison or timeout constructor). LM-SENTINEL: every result production of Run is classified with its dominating branch decisions: ErrWorldRunLimitMaxFacts only under 'fact count exceeds maxFacts', ErrWorldRunLimitMaxIterations only after exhaustion of the maxIterations loop, ErrWorldRunLimitTimeout only on the deadline case of the select, nil only under 'fact count before == after an InsertAll' (fixpoint), errors of rule application only under err != nil; all five productions must exist. LM-ERR: every World.Run call in package biscuit has its error tested and returned. LM-OPTS + LM-CLONE + RS-COPY: every variadic option parameter (AuthorizerOption, WorldOption, builder/biscuit options) is applied in a full-range loop or forwarded as opts..., World copies carry runLimits, Reset/constructor clone the configured base world - so limits given at construction reach every world used. LM-CHAN: for every go statement, every channel send of the goroutine is proved unable to block forever: buffered channel with at most one send per path, or a select case next to a receive from a stop channel that its owner closes by defer on every exit (channel identity resolved through closures, parameters and call sites).",
		Decides:     "limits read and enforced on every path of Run; sentinel/branch agreement; success only at fixpoint; error propagation at all Run call sites; option and limit plumbing through every constructor and copy; absence of forever-blocking sends in library goroutines",
		NotDecided:  "wall-clock bounds (how long after the deadline Run returns; a worker still running, as opposed to blocked, after a timeout); the exact >= vs > boundary of maxFacts; adequacy of the default limits",
		Technique:   "SSA edge-dominance (guards) on result productions + channel/goroutine send analysis + option-forwarding dataflow",
	})
}

func init() {
	defProperty(&Property{
		ID:    "C06",
		Rules: []string{"EX-ORDER", "EX-ARITH", "EX-DISPATCH", "EX-STACK", "FX-EQUAL", "PN-ASSERT", "PN-HASH", "PN-DIV"},
		Explanation: "Static decision of the structural clauses of C06. EX-ORDER: the result expressions of LessThan/LessOrEqual/GreaterThan/GreaterOrEqual (Integer and Date clauses), And, Or and Negate are evaluated abstractly over the complete finite domain the operators can observe - the three orderings {<,=,>} of the two asserted operands, resp. all truth assignments - and compared with the specification truth table (the operands are touched only through comparisons, so this is exhaustive; rewrites such as !(a<=b) or swapped operands evaluate to the same table). EX-ARITH: no native + - * << or negation on datalog.Integer anywhere in package datalog; every big.Int.Int64() is dominated by IsInt64() on the same value; Add/Sub/Mul call the big.Int method of their own name on (left,right) in that order; native / is reachable only on paths that have excluded divisor 0 and the pair (MinInt64,-1) (edge cut-set). EX-DISPATCH: the registries datalog constant <-> implementing type <-> Type() tag <-> printer clause <-> biscuit constant (convert / fromDatalog) are total, injective and name-consistent over the frozen list of 17 binary, 3 unary operators and 7 term kinds. EX-STACK: every Push/Pop error in Evaluate is tested and returned, success only under len(stack)==1. FX-EQUAL: every Term.Equal gates any true result by the comma-ok of the assertion to its own type. PN-ASSERT/PN-HASH/PN-DIV: ill-typed operands reach an error rather than a failed assertion, no interface-keyed map or interface == whose implementors are unhashable, integer division guarded against zero - i.e. evaluation cannot panic through these classes.",
		Decides:     "exact truth tables of the ordering and boolean operators; exactness/overflow discipline of + - * /; totality and consistency of operator dispatch; stack discipline; type-strict equality; absence of assertion/hash/division panics in evaluation",
		NotDecided:  "results of string/regex/set-algebra operators (strings, regexp, set union/intersection contents), Length values, and anything inside math/big or regexp",
		Technique:   "abstract interpretation over the finite ordering/truth domain + SSA guard (edge cut-set) analysis + registry table agreement",
	})
	defProperty(&Property{
		ID:    "C10",
		Rules: []string{"PN-HASH", "PN-ASSERT", "PN-PBREQ", "PN-STDLIB", "PN-INDEX", "PN-DIV", "PN-EXPLICIT", "RG-ERR", "EX-STACK"},
		Explanation: "Static decision, over every function reachable in the call graph (static + CHA over repository implementors, closures and go bodies included, so panics on library goroutines are covered) from the token entry points (Unmarshal, every exported method of *Biscuit and *Block, NewVerifier, every method of the authorizer), of the panic classes a token can steer: PN-HASH (maps keyed by / == between interface values with unhashable implementors), PN-ASSERT (single-result type assertions must be dominated by the matching Type() tag test; tag map extracted from the implementors' Type() methods), PN-PBREQ (pointer-typed protobuf fields dereferenced only if the struct tag says required, under a nil guard, or via the nil-safe getter), PN-STDLIB (NewKeyFromSeed under len==32; Verify keys length-tested on every phi edge; Sign/Seed/Public only on keys from GenerateKey/NewKeyFromSeed/parameters; PutUint32 into >=4-byte buffers; no MustCompile of token data), PN-INDEX (sign-changing/truncating integer conversions feeding an index are bounded in the source domain first, per target architecture; symbol table indexes bounded above and below), PN-DIV, PN-EXPLICIT (explicit panics discharged by operator-registry totality), plus RG-ERR (no nil keys) and EX-STACK.",
		Decides:     "absence of the enumerated panic classes on every path reachable from untrusted token bytes, including library goroutines",
		NotDecided:  "index expressions not fed by a lossy conversion (join odometer indexes, slices of protobuf-internal data), stack depth / memory exhaustion, panics inside protobuf, regexp, participle; explicit panics reachable only from caller-built (not token-derived) expressions",
		Technique:   "call-graph reachability from token entry points + per-class SSA guard/dominance rules + struct-tag (schema) lookup",
	})
}

func init() {
	ownExpl := "Ownership/effect analysis over the whole repository (SSA). origin(v) classifies every value as fresh, or as (a reference into) memory that belongs to a parameter, to a package-level variable, or to a token (reached through a value of static type Biscuit/Block), following field/index/load/slice/phi/closure-capture chains and accessor summaries (functions returning references into their arguments). Interprocedural summaries are computed to a fixpoint over the static+CHA call graph: MUTATES(f,i) - f writes (store, append base, copy destination, map update) through parameter i or passes it to a mutating parameter; RETAINS(f,i) - f stores a reference rooted at parameter i into a holder type that has mutating methods, or into a package variable. OWN-WRITE: no write instruction anywhere targets token-reached or package-level memory (append counts as a write regardless of capacity: capacity is a run-time quantity). OWN-MUT: at every call site, no argument that is a reference into a token or package variable (other than the *Biscuit/*Block itself) is bound to a MUTATES or RETAINS parameter of any resolved callee. OWN-CLONE: Clone/SplitOff/Build results and every Block literal assembled by a builder have only fresh reference components (make, new, append onto fresh, Clone results), so derived tokens, builders and authorizers work on storage disjoint from the token's."
	defProperty(&Property{
		ID:          "C08",
		Rules:       []string{"OWN-WRITE", "OWN-MUT", "OWN-CLONE"},
		Explanation: ownExpl + " Because each operation is shown in isolation to write only storage it freshly allocated (or its own mutable holder), the argument holds for every interleaving of build / create-block / add / build-block / append / seal / serialize / unmarshal / get-block-id / authorize over a family of tokens sharing ancestors.",
		Decides:     "absence of any write to memory reachable from a token, a built block or a package variable after construction; independence (non-aliasing) of everything handed to builders, derived tokens and authorizers",
		NotDecided:  "that equal values serialise equally (C07); exported accessors that hand internal slices to the caller (Checks()); reuse of a builder after Build (SplitOff truncates the builder's own table)",
		Technique:   "interprocedural ownership / mutator-summary analysis over go/ssa with a static+CHA call graph",
	})
	defProperty(&Property{
		ID:          "C19",
		Rules:       []string{"OWN-WRITE", "OWN-MUT", "OWN-CLONE"},
		Explanation: ownExpl + " For C19 this decides the write-freedom half: if no instruction reachable from the listed operations can write to storage reachable from the shared token, from shared parsed values passed as arguments, or from package variables, there is no write for any goroutine to race with, for every schedule.",
		Decides:     "write-freedom of every operation on a shared token / shared package state (no data race is possible on token-reachable or package-level memory)",
		NotDecided:  "that each goroutine's result equals the sequential one (follows from write-freedom plus determinism, C12); internals of participle parser instances and protobuf (documented concurrency-safe, trusted); the library's own worker goroutines after a timeout (C11)",
		Technique:   "interprocedural ownership / mutator-summary analysis over go/ssa (write-freedom => race-freedom)",
	})
}

func init() {
	defProperty(&Property{
		ID:    "C01",
		Rules: []string{"SIG-PAYLOAD", "SIG-WALK", "SIG-GATE", "SIG-PAIR", "CONS-LEN", "KI-FLOW", "PN-STDLIB", "SEAL-GUARD", "WR-VERBATIM"},
		Explanation: "Static decision of the structural clauses of C01. Acceptance of a token is one call (NewVerifier) in each function of package biscuit that reaches it; SIG-WALK proves, on every path to that call (edge cut-sets over the SSA control-flow graph), that (w1) the authority block's link message was verified with the caller's root key parameter, (w2) inside a full-range loop over container.Blocks each element's link was verified with a loop-carried key whose entry value is Authority.NextKey.Key and whose back-edge value is the verified element's NextKey.Key, every way back to the loop header passes the success edge of that Verify, and every early exit reaches only error returns, (w3) the loop completed, (w4) every path from loop completion to NewVerifier passes the success edge of either bytes.Equal(current key, Public(NewKeyFromSeed(Proof.GetNextSecret()))) or Verify(current key, seal(last block), Proof.GetFinalSignature()), where the last block is Authority if len(blocks)==0 else Blocks[len-1] (per phi edge); the authorizer struct is built nowhere else. SIG-PAYLOAD normalises the message of every ed25519.Sign/Verify call (append chains, fresh buffers, the 4-byte little-endian algorithm buffer) to a component list and requires exactly [BLOCK ALG KEY] or [BLOCK ALG KEY SIG] over one and the same signed block, the right signature operand, and - for signers - that the SignedBlock literal stores exactly the signed bytes, key, algorithm and the signature (sibling agreement between signers and verifier). SIG-GATE: the decoder accepts only after the 32/64-byte gates of the authority and of every block. SIG-PAIR: one GenerateKey per signer, public half signed, Seed() stored as the returned token's next secret. CONS-LEN: len(blocks)==len(container.Blocks) for every Biscuit literal (symbolic lengths, inductive on the parent). KI-FLOW: the public entry point verifies with the selected key. Under the trusted unforgeability of ed25519 this gives 'only if' for all byte strings and, by induction over build/append/seal, 'if' for all library-built tokens.",
		Decides:     "that no path accepts a token without the complete, correctly keyed signature walk and proof check; that signed and verified messages agree and bind block bytes, algorithm and next key of the same block; decoder size gates; key-pair plumbing of signers",
		NotDecided:  "ed25519 and protobuf themselves; domain separation between link and seal messages (cryptographic argument); the exported NewVerifier, which by upstream design performs no verification and is outside the property's observation point",
		Technique:   "SSA must-pass-through (edge cut-set / dominance) analysis of the chain walk + message normal forms compared between signers and verifier",
	})
	azExpl := "Static decision on the SSA form of the authorizer's Authorize/Query methods. AZ-SCOPE: a taint analysis whose sources are the range element of the loop over the token's non-authority blocks and the per-iteration World.Clone(); every datalog.World method call that receives tainted data has as receiver a Clone() of the authority-level world created inside that same loop iteration; no tainted value is stored into an authorizer field except a proved write-only accumulator. AZ-RESETRULES: v.world.ResetRules() dominates the block loop and no authority-level AddRule follows it. AZ-WORLDSEL: every QueryRule whose query derives from a block's checks runs on that block's clone, every other query (authorizer checks, authority checks, policies, Query()) on the authority-level world, each after a dominating Run of the same world, with the authorizer's symbol table. "
	defProperty(&Property{
		ID:          "C02",
		Rules:       []string{"AZ-SCOPE", "AZ-RESETRULES", "AZ-WORLDSEL", "AZ-PRECEDENCE", "AZ-DISJ", "OWN-CLONE"},
		Explanation: azExpl + "AZ-PRECEDENCE/AZ-DISJ: block-derived data can therefore flow only into the errs accumulator and error returns; the success/policy return is dominated by len(errs)==0. OWN-CLONE: World.Clone returns a fresh fact-set header and rule slice, so additions to a block world never reach the authority-level world. Non-interference: for every token, appended block and authorizer content, an appended block can only add failure paths.",
		Decides:     "that no data of an appended block can flow into the authority-level world, the policy verdict or another block's world (information-flow / non-interference on all paths)",
		NotDecided:  "that the Datalog engine evaluates the parent part identically in both runs (engine exactness, C05/C12); symbol-table interaction beyond interning being injective",
		Technique:   "intraprocedural taint / information-flow analysis over go/ssa with dominance checks",
	})
	defProperty(&Property{
		ID:          "C03",
		Rules:       []string{"AZ-SCOPE", "AZ-RESETRULES", "AZ-WORLDSEL", "OWN-CLONE"},
		Explanation: azExpl + "The rules are per loop iteration, hence hold for every block position; the clone is always taken from the authority-level world, never from a previous block's world. OWN-CLONE: the clone does not share its fact-set header or rule storage with its source.",
		Decides:     "block-private scoping of facts and rules of non-authority blocks on every path, for all block positions; authorizer queries see the authority-level world only",
		NotDecided:  "equality of query results (engine exactness); World.Clone shares the facts backing array beyond its length (no holder ever reads beyond its own length; noted, not a violation)",
		Technique:   "intraprocedural taint / information-flow analysis over go/ssa",
	})
	defProperty(&Property{
		ID:    "C04",
		Rules: []string{"AZ-DISJ", "AZ-PRECEDENCE", "AZ-POLICY", "AZ-WORLDSEL", "AZ-RESETRULES", "AZ-REINTERN", "LM-ERR"},
		Explanation: "Static decision of the control skeleton that turns query results into nil / ErrPolicyDenied / ErrNoMatchingPolicy / verification failure. AZ-DISJ: for each of the three check collections (authorizer checks, authority checks, checks of each block) a full-range loop exists, left early only through error returns; per check a bool flag phi is true exactly on edges guarded by len(*QueryRule(q)) != 0 for q ranging over all Queries of that check and false only on exhaustion; a failure is appended to errs exactly under !flag and reaches the errs slice that decides the outcome. AZ-PRECEDENCE: every return that may be nil or a policy verdict is dominated by len(errs)==0, decided after the block loop. AZ-POLICY: the verdict is the loop-carried result of a full-range, in-order loop over the policies; each policy query is guarded by !matched (first match wins); nil is assigned only on edges guarded by 'query satisfied, kind==Allow, not yet matched', ErrPolicyDenied only with kind==Deny; ErrNoMatchingPolicy exactly when !matched. AZ-WORLDSEL/AZ-RESETRULES: scopes. AZ-REINTERN: token content enters a world only via fromDatalogX(token symbols) then convert(authorizer symbols). LM-ERR: Run errors fail the authorization.",
		Decides:     "the decision procedure's control skeleton for any number and order of checks, queries and policies (properties of loops and branch guards, not of instances)",
		NotDecided:  "whether each QueryRule result is right (engine, C05); error-producing expressions inside queries (QueryRule discards Apply's error - outside the fragment the property fixes)",
		Technique:   "SSA phi-leaf / edge-guard analysis of flag and verdict variables, loop-shape (full range, early exit) analysis",
	})
}

func init() {
	defProperty(&Property{
		ID:    "C09",
		Rules: []string{"SEAL-GUARD", "SEAL-SAME", "SEAL-NOPROOF", "SIG-WALK", "SIG-PAYLOAD", "RV-ENUM", "WR-VERBATIM", "KI-PROPAGATE", "CONS-LEN"},
		Explanation: "Static decision of the structural clauses of C09. SEAL-GUARD: in every method that derives a new envelope from a token (today Append and Seal) every Sign call and every success return is dominated by the branch Proof.GetNextSecret() != nil, the failing side returning an error, and the signing key is NewKeyFromSeed of that secret - since Unmarshal keeps the decoded proof unchanged (WR-VERBATIM) a sealed or re-loaded sealed token refuses both operations. SEAL-SAME: the function that signs a seal payload returns a Biscuit whose authority is a copy of *parent.authority, whose blocks[i] are copies of *parent.blocks[i] in a full-range loop into a slice of equal length, whose symbols are a Clone, whose envelope has the parent's Authority pointer and exactly a full copy of the parent's signed Blocks (nothing appended), the parent's RootKeyId (KI-PROPAGATE) and a Proof_FinalSignature. SEAL-NOPROOF: no function reachable (call graph) from any method of the authorizer reads pb.Biscuit.Proof or calls GetProof/GetNextSecret/GetFinalSignature, so the authorization outcome cannot depend on the proof kind. SIG-WALK w4 + SIG-PAYLOAD(seal): an altered seal signature, last block or last key is rejected. RV-ENUM: sealing adds no revocation identifier.",
		Decides:     "refusal of append/seal on sealed tokens on all paths; structural identity of the sealed token's authorization-relevant content with its parent; independence of authorization from the proof; seal verification binding last block, last key and signature",
		NotDecided:  "run-time equality of authorization outcomes (follows from SEAL-SAME + SEAL-NOPROOF only modulo engine determinism, C12)",
		Technique:   "SSA guard dominance + composite-literal provenance + call-graph reachability (who-may-read the proof)",
	})
	defProperty(&Property{
		ID:    "C17",
		Rules: []string{"RV-ENUM", "WR-VERBATIM", "SIG-PAYLOAD", "SIG-PAIR", "RG-PLUMB"},
		Explanation: "Static decision of the structural clauses of C17. RV-ENUM: RevocationIds returns a slice that starts from an empty base with Authority.Signature and to which a full-range, in-order loop over container.Blocks appends exactly the Signature of the range element on every iteration (no filter, no early exit): exactly one identifier per signed block, authority first. WR-VERBATIM: every derived envelope keeps the parent's Authority pointer and a full in-order copy of its Blocks (plus at most one new block at the end), Serialize marshals the stored envelope and Unmarshal keeps the decoded one, so the identifiers of a derived or re-loaded token begin with the parent's unchanged and equal the signature field an independent decoder reads. SIG-PAYLOAD + SIG-PAIR + RG-PLUMB: each block signature covers the next public key drawn from the caller's random source in that very operation (exactly one GenerateKey per signing), so two signing operations sign different messages unless the random source repeats.",
		Decides:     "one identifier per block, order and stability of identifiers across derivation and serialisation; that every signature binds fresh per-operation randomness",
		NotDecided:  "collision probability of signatures (cryptographic)",
		Technique:   "SSA accumulator-shape analysis (phi/append normal form) + envelope provenance",
	})
}

func init() {
	defProperty(&Property{
		ID:    "C07",
		Rules: []string{"WR-PROTO", "WR-ENUM", "WR-SYMS", "WR-FIELDS", "WR-VERSION", "WR-VERBATIM", "EX-DISPATCH", "SIG-GATE", "KI-PROPAGATE"},
		Explanation: "Static decision of the finite tables and coverage conditions on which wire fidelity rests, against a frozen copy of the published Biscuit v2 schema (wire constants: message/field numbers and labels, enum members, the 28 default symbols, offset 1024, version 3 - any edit to them is a behaviour change for every other implementation). WR-PROTO: pb/biscuit.proto is parsed and compared field by field and enum by enum with the frozen table, and the generated struct tags (wire kind, number, label, name, oneof) and enum constants of pb/biscuit.pb.go with the same table. WR-ENUM: the encoder and decoder switches for binary/unary operators, term kinds and expression element kinds are extracted clause by clause and must be total over the frozen lists, injective and name-consistent in both directions (datalog.BinaryX <-> pb.OpBinary_X <-> datalog.X{}), which also catches a consistent swap in both directions that round-trips inside this library but breaks interoperability. WR-SYMS: DEFAULT_SYMBOLS equals the frozen list in order, OFFSET is 1024 and never assigned, every threshold constant in Insert/Sym/Index/Str/Var is 1024, builders record Len() of their starting table and split the block's table exactly there. WR-FIELDS: every converter between the library's and the protobuf structures reads every field of its source and sets every field of every result literal. WR-VERSION: the decoder accepts a block only under version>=3 and version<=3 and keeps the declared version; encoders/builders write version 3. WR-VERBATIM: derived and re-loaded tokens carry the parent's signed blocks verbatim and Serialize marshals the stored envelope, so re-serialisation reproduces existing blocks byte for byte.",
		Decides:     "agreement of schema, generated code, converters and symbol rules with the published wire format; field coverage of all converters; version gate; verbatim carriage of signed blocks",
		NotDecided:  "byte-level equality of a full round trip and protobuf encoding itself; resolvability of every symbol index for arbitrary block content (only the split point is checked); equality of String() output",
		Technique:   "table agreement: schema file, struct tags, enum constants and switch clauses extracted from the typed AST and compared with a frozen specification table",
	})
}
