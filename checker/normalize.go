package main

import (
	"bytes"
	"fmt"
	"go/ast"
	"go/format"
	"go/token"
	"go/types"
	"io/fs"
	"os"
	"path/filepath"
	"sort"
	"strings"

	"golang.org/x/tools/go/ast/astutil"
	"golang.org/x/tools/go/packages"
	"golang.org/x/tools/go/types/typeutil"

	"verif/checker/inlinex"
)

// Helper-inlined view.
//
// The rules are intraprocedural around named anchors. A correct edit that moves part of an anchored
// function into a new helper leaves obligations open although nothing changed. normalizedView undoes such
// moves: it copies the repository to a temporary directory and inlines, at source level, every call to a
// function that the reference tree (knownFuncs, generated from the tree the rules were written against)
// does not have. Inlining preserves behaviour, so clauses proved on that view hold for the tree as written.
// Functions of the reference tree are never inlined: they are the anchors.

func funcKey(pkgShortName string, fn *types.Func) string {
	recv := ""
	if sig, ok := fn.Type().(*types.Signature); ok && sig.Recv() != nil {
		t := sig.Recv().Type()
		if p, isP := t.(*types.Pointer); isP {
			t = p.Elem()
		}
		if n, isN := t.(*types.Named); isN {
			recv = n.Obj().Name()
		}
	}
	return pkgShortName + "." + recv + "." + fn.Name()
}

func loadSyntax(dir string) ([]*packages.Package, *token.FileSet, error) {
	env := []string{}
	for _, e := range os.Environ() {
		k := strings.SplitN(e, "=", 2)[0]
		switch k {
		case "GOFLAGS", "GOWORK", "GOPROXY", "GOSUMDB", "GOTOOLCHAIN", "GOARCH", "GOOS", "CGO_ENABLED":
			continue
		}
		env = append(env, e)
	}
	env = append(env, "GOFLAGS=-mod=mod", "GOWORK=off", "GOPROXY=off", "GOSUMDB=off", "GOTOOLCHAIN=local", "GOOS=linux", "CGO_ENABLED=0")
	fset := token.NewFileSet()
	cfg := &packages.Config{
		Mode: packages.NeedName | packages.NeedFiles | packages.NeedCompiledGoFiles | packages.NeedImports |
			packages.NeedTypes | packages.NeedTypesSizes | packages.NeedSyntax | packages.NeedTypesInfo | packages.NeedModule,
		Dir: dir, Env: env, Fset: fset, BuildFlags: []string{"-tags=verif"},
	}
	pkgs, err := packages.Load(cfg, "./...")
	if err != nil {
		return nil, nil, err
	}
	for _, pk := range pkgs {
		if len(pk.Errors) > 0 {
			return nil, nil, fmt.Errorf("%s: %v", pk.PkgPath, pk.Errors[0])
		}
	}
	return pkgs, fset, nil
}

func copyTree(src, dst string) error {
	return filepath.WalkDir(src, func(path string, d fs.DirEntry, err error) error {
		if err != nil {
			return err
		}
		rel, _ := filepath.Rel(src, path)
		if d.IsDir() {
			if d.Name() == ".git" {
				return filepath.SkipDir
			}
			return os.MkdirAll(filepath.Join(dst, rel), 0o755)
		}
		if !d.Type().IsRegular() {
			return nil
		}
		b, err := os.ReadFile(path)
		if err != nil {
			return err
		}
		return os.WriteFile(filepath.Join(dst, rel), b, 0o644)
	})
}

// normalizedView returns a temporary copy of repo with all calls to non-reference functions inlined, and the
// names of the functions that were inlined. The caller removes the directory.
func normalizedView(repo string) (string, []string, error) {
	dir, err := os.MkdirTemp("", "bvcheck-view-")
	if err != nil {
		return "", nil, err
	}
	if err := copyTree(repo, dir); err != nil {
		return dir, nil, err
	}
	inlined := map[string]bool{}
	gaveUp := map[string]bool{}
	for iter := 0; iter < 80; iter++ {
		pkgs, fset, err := loadSyntax(dir)
		if err != nil {
			return dir, nil, err
		}
		progress := false
		for _, pk := range pkgs {
			sn, ok := shortNames[pk.PkgPath]
			if !ok || sn == "pb" || len(pk.CompiledGoFiles) == 0 {
				continue
			}
			// candidate callees: declared here, absent from the reference tree, not recursive
			decls := map[*types.Func]*ast.FuncDecl{}
			declFile := map[*types.Func]*ast.File{}
			for _, f := range pk.Syntax {
				for _, d := range f.Decls {
					fd, isF := d.(*ast.FuncDecl)
					if !isF || fd.Body == nil {
						continue
					}
					obj, _ := pk.TypesInfo.Defs[fd.Name].(*types.Func)
					if obj == nil || knownFuncs[funcKey(sn, obj)] || gaveUp[funcKey(sn, obj)] {
						continue
					}
					if fd.Name.Name == "init" || fd.Name.Name == "main" {
						continue
					}
					rec := false
					ast.Inspect(fd.Body, func(n ast.Node) bool {
						if c, isC := n.(*ast.CallExpr); isC && typeutil.StaticCallee(pk.TypesInfo, c) == obj {
							rec = true
						}
						return true
					})
					if rec {
						continue
					}
					decls[obj] = fd
					declFile[obj] = f
				}
			}
			if len(decls) == 0 {
				continue
			}
			// one call per file per iteration (positions go stale after an edit)
			for fi, f := range pk.Syntax {
				var call *ast.CallExpr
				var callee *types.Func
				ast.Inspect(f, func(n ast.Node) bool {
					if call != nil {
						return false
					}
					c, isC := n.(*ast.CallExpr)
					if !isC {
						return true
					}
					if o := typeutil.StaticCallee(pk.TypesInfo, c); o != nil && decls[o] != nil {
						// innermost first: arguments may hold candidate calls too
						inner := false
						for _, a := range c.Args {
							ast.Inspect(a, func(m ast.Node) bool {
								if c2, ok := m.(*ast.CallExpr); ok {
									if o2 := typeutil.StaticCallee(pk.TypesInfo, c2); o2 != nil && decls[o2] != nil {
										inner = true
									}
								}
								return true
							})
						}
						if !inner {
							call, callee = c, o
						}
					}
					return true
				})
				if call == nil {
					continue
				}
				path := pk.CompiledGoFiles[fi]
				content, err := os.ReadFile(path)
				if err != nil {
					return dir, nil, err
				}
				cf := declFile[callee]
				cpath := fset.File(cf.Pos()).Name()
				ccontent, err := os.ReadFile(cpath)
				if err != nil {
					return dir, nil, err
				}
				logf := func(string, ...any) {}
				ce, err := inlinex.AnalyzeCallee(logf, fset, pk.Types, pk.TypesInfo, decls[callee], ccontent)
				if err != nil {
					gaveUp[funcKey(sn, callee)] = true
					progress = true
					continue
				}
				res, err := inlinex.Inline(&inlinex.Caller{Fset: fset, Types: pk.Types, Info: pk.TypesInfo, File: f, Call: call, Content: content}, ce, &inlinex.Options{Logf: logf})
				if err != nil {
					gaveUp[funcKey(sn, callee)] = true
					progress = true
					continue
				}
				if err := os.WriteFile(path, res.Content, 0o644); err != nil {
					return dir, nil, err
				}
				inlined[funcKey(sn, callee)] = true
				progress = true
			}
		}
		if !progress {
			break
		}
	}
	if len(inlined) == 0 {
		return dir, nil, nil
	}
	// drop the helpers that nothing refers to any more, and imports that only they used
	pkgs, fset, err := loadSyntax(dir)
	if err != nil {
		return dir, nil, err
	}
	for _, pk := range pkgs {
		sn, ok := shortNames[pk.PkgPath]
		if !ok {
			continue
		}
		used := map[types.Object]bool{}
		for _, o := range pk.TypesInfo.Uses {
			used[o] = true
		}
		for fi, f := range pk.Syntax {
			changed := false
			var keep []ast.Decl
			for _, d := range f.Decls {
				if fd, isF := d.(*ast.FuncDecl); isF {
					if obj, _ := pk.TypesInfo.Defs[fd.Name].(*types.Func); obj != nil && inlined[funcKey(sn, obj)] && !used[obj] && !ast.IsExported(fd.Name.Name) {
						changed = true
						continue
					}
				}
				keep = append(keep, d)
			}
			if !changed {
				continue
			}
			f.Decls = keep
			// comments of removed declarations would be re-attached elsewhere: drop free-floating ones inside them
			for _, imp := range f.Imports {
				p := strings.Trim(imp.Path.Value, `"`)
				if imp.Name != nil && (imp.Name.Name == "_" || imp.Name.Name == ".") {
					continue
				}
				if !astutil.UsesImport(f, p) {
					if imp.Name != nil {
						astutil.DeleteNamedImport(fset, f, imp.Name.Name, p)
					} else {
						astutil.DeleteImport(fset, f, p)
					}
				}
			}
			f.Comments = filterComments(f)
			var buf bytes.Buffer
			if err := format.Node(&buf, fset, f); err != nil {
				return dir, nil, err
			}
			if err := os.WriteFile(pk.CompiledGoFiles[fi], buf.Bytes(), 0o644); err != nil {
				return dir, nil, err
			}
		}
	}
	// flatten what the inliner left as immediately invoked literals; a file that no longer type-checks
	// afterwards (a rewrite this pass does not foresee) is restored
	if pkgs2, _, err := loadSyntax(dir); err == nil {
		for _, pk := range pkgs2 {
			if _, ok := shortNames[pk.PkgPath]; !ok {
				continue
			}
			for _, path := range pk.CompiledGoFiles {
				before, _ := os.ReadFile(path)
				if n, err := flattenFile(path, nonNilErrs(pkgs2)); err != nil || n == 0 {
					if err != nil {
						os.WriteFile(path, before, 0o644)
					}
					continue
				}
				if _, _, err := loadSyntax(dir); err != nil {
					os.WriteFile(path, before, 0o644)
				}
			}
		}
	}
	// A literal the flattening could not remove keeps the moved code out of the anchored function (and its
	// captures spill the function's parameters): such a view is not used.
	if countTreeIIFE(dir) > countTreeIIFE(repo) {
		return dir, nil, nil
	}
	var names []string
	for k := range inlined {
		names = append(names, k)
	}
	sort.Strings(names)
	return dir, names, nil
}

// filterComments keeps the comment groups that lie inside or directly before a remaining declaration.
func filterComments(f *ast.File) []*ast.CommentGroup {
	var out []*ast.CommentGroup
	for _, cg := range f.Comments {
		keep := cg.End() < f.Package
		for _, d := range f.Decls {
			if cg.Pos() >= d.Pos() && cg.End() <= d.End() {
				keep = true
			}
			if fd, ok := d.(*ast.FuncDecl); ok && fd.Doc == cg {
				keep = true
			}
			if gd, ok := d.(*ast.GenDecl); ok && gd.Doc == cg {
				keep = true
			}
		}
		if keep {
			out = append(out, cg)
		}
	}
	return out
}

// printKnownFuncs prints the reference table for the tree at repo (development aid: bvcheck -knownfuncs).
func printKnownFuncs(repo string) error {
	pkgs, _, err := loadSyntax(repo)
	if err != nil {
		return err
	}
	var keys []string
	for _, pk := range pkgs {
		sn, ok := shortNames[pk.PkgPath]
		if !ok {
			continue
		}
		for _, f := range pk.Syntax {
			for _, d := range f.Decls {
				if fd, isF := d.(*ast.FuncDecl); isF {
					if obj, _ := pk.TypesInfo.Defs[fd.Name].(*types.Func); obj != nil {
						keys = append(keys, funcKey(sn, obj))
					}
				}
			}
		}
	}
	sort.Strings(keys)
	fmt.Println("// Code generated by bvcheck -knownfuncs; DO NOT EDIT.")
	fmt.Println("// The functions of the tree the rules were written against: anchors, never inlined by normalizedView.")
	fmt.Println("package main\n\nvar knownFuncs = map[string]bool{")
	last := ""
	for _, k := range keys {
		if k != last {
			fmt.Printf("\t%q: true,\n", k)
		}
		last = k
	}
	fmt.Println("}")
	return nil
}

// nonNilErrs: package-level variables of type error that are initialised by errors.New / fmt.Errorf and never
// assigned or have their address taken: they are never nil.
func nonNilErrs(pkgs []*packages.Package) map[string]bool {
	out := map[string]bool{}
	for _, pk := range pkgs {
		if _, ok := shortNames[pk.PkgPath]; !ok {
			continue
		}
		cand := map[types.Object]bool{}
		for _, f := range pk.Syntax {
			for _, d := range f.Decls {
				gd, ok := d.(*ast.GenDecl)
				if !ok || gd.Tok != token.VAR {
					continue
				}
				for _, sp := range gd.Specs {
					vs := sp.(*ast.ValueSpec)
					for i, nm := range vs.Names {
						if i >= len(vs.Values) {
							continue
						}
						c, isC := vs.Values[i].(*ast.CallExpr)
						if !isC {
							continue
						}
						if sel, isS := c.Fun.(*ast.SelectorExpr); isS {
							if p, isId := sel.X.(*ast.Ident); isId && ((p.Name == "errors" && sel.Sel.Name == "New") || (p.Name == "fmt" && sel.Sel.Name == "Errorf")) {
								if o := pk.TypesInfo.Defs[nm]; o != nil {
									cand[o] = true
								}
							}
						}
					}
				}
			}
		}
		for _, f := range pk.Syntax {
			ast.Inspect(f, func(n ast.Node) bool {
				switch x := n.(type) {
				case *ast.AssignStmt:
					for _, l := range x.Lhs {
						if id, ok := l.(*ast.Ident); ok {
							delete(cand, pk.TypesInfo.Uses[id])
						}
					}
				case *ast.UnaryExpr:
					if id, ok := x.X.(*ast.Ident); ok && x.Op == token.AND {
						delete(cand, pk.TypesInfo.Uses[id])
					}
				}
				return true
			})
		}
		for o := range cand {
			out[o.Name()] = true
		}
	}
	return out
}

func countTreeIIFE(root string) int {
	total := 0
	filepath.WalkDir(root, func(path string, d fs.DirEntry, err error) error {
		if err != nil {
			return nil
		}
		if d.IsDir() {
			if d.Name() == ".git" || d.Name() == "vendor" || d.Name() == "samples" {
				return filepath.SkipDir
			}
			return nil
		}
		if strings.HasSuffix(path, ".go") && !strings.HasSuffix(path, "_test.go") && !strings.HasSuffix(path, ".pb.go") {
			if b, err := os.ReadFile(path); err == nil {
				total += countIIFE(b)
			}
		}
		return nil
	})
	return total
}
