package main

import (
	"go/token"
	"go/types"
	"regexp"
	"strings"

	"golang.org/x/tools/go/ssa"
)

func init() {
	register(
		&Rule{ID: "EN-JOINTEST", Doc: "the join moves to the next body predicate (or on to variable extraction) only when the candidate fact Matches the predicate at the cursor", Run: ruleENJoinTest, Min: 2},
		&Rule{ID: "EQ-PAIRWISE", Doc: "a boolean function that compares two slices position by position has established that their lengths are equal", Run: ruleEQPairwise, Min: 2},
		&Rule{ID: "EQ-OPS", Doc: "a function that compares the kinds of two expression ops also compares what the kind leaves open (value, unary operator, binary operator)", Run: ruleEQOps, Min: 1},
	)
}

var joinTestRe = regexp.MustCompile(`^datalog\.Predicate\.Match\(\*\^(\w+)\[[^\[\]]+\[\*(new#\d+)\]\]\.Predicate, \^(\w+)\[\*(new#\d+)\]\)$`)

// ruleENJoinTest: variable extraction only binds variables; predicate names and constants are
// filtered by the Match test of the search loop alone. That test must be Match itself, on the fact
// selected by the cursor's index and the predicate at the cursor, with nothing in between.
func ruleENJoinTest(p *Prog, r *Reporter) {
	globalP = p
	comb := p.Func("datalog", "", "combine")
	if comb == nil || len(comb.AnonFuncs) == 0 {
		r.Dunno("?", "datalog.combine", "producer", "the join producer was not found")
		return
	}
	var factsName, predsName string
	for _, pa := range comb.Params {
		if isRepoNamed(deref(pa.Type()), "datalog", "FactSet") {
			factsName = pa.Name()
		}
		if sl, ok := pa.Type().Underlying().(*types.Slice); ok && isRepoNamed(sl.Elem(), "datalog", "Predicate") {
			predsName = pa.Name()
		}
	}
	for _, body := range comb.AnonFuncs {
		name := p.FuncName(body)
		var mc *ssa.Call
		for _, c := range callsIn(body) {
			if cv, ok := c.(*ssa.Call); ok && isCallTo(&cv.Call, "datalog.Predicate.Match") {
				if mc != nil {
					r.Bad(p.instrPos(cv), name, "candidate test", "more than one Match call in the search")
					return
				}
				mc = cv
			}
		}
		if mc == nil {
			r.Bad(p.Pos(body.Pos()), name, "candidate test", "the search does not call Match on the candidate fact directly (a cached or precomputed answer stands in for it): predicate names and constants are filtered nowhere else")
			return
		}
		m := joinTestRe.FindStringSubmatch(p.D(mc))
		okShape := m != nil && m[1] == factsName && m[3] == predsName && m[2] == m[4]
		r.Check(okShape, p.instrPos(mc), name, "candidate test", "Match((*facts)[indexes[current]], predicates[current])", "the candidate test is "+shortD(mc)+", not Match of the fact selected by the cursor's index with the predicate at the cursor")
		if !okShape {
			return
		}
		// the cursor variable
		var cur *ssa.Alloc
		for _, b := range body.Blocks {
			for _, in := range b.Instrs {
				if a, ok := in.(*ssa.Alloc); ok && p.D(a) == "&"+m[2] {
					cur = a
				}
			}
		}
		// the loop that holds the test
		var inner *loop
		for _, l := range naturalLoops(body) {
			if l.body[mc.Block()] && (inner == nil || len(l.body) < len(inner.body)) {
				inner = l
			}
		}
		if cur == nil || inner == nil {
			r.Dunno(p.instrPos(mc), name, "cursor", "cursor variable or search loop not identified")
			return
		}
		okAdv := true
		why := ""
		for _, st := range storesInto(cur) {
			if st.Parent() != body || !inner.body[st.Block()] {
				continue
			}
			if !hasGuard(st.Block(), mc, true) {
				okAdv = false
				why = "the cursor is advanced at " + p.instrPos(st) + " on a path where the candidate did not match"
			}
		}
		for _, ex := range inner.exits() {
			// leaving towards a return is abandoning the search; anything else goes on to extraction
			if blockReturn(ex.to) != nil && len(ex.to.Instrs) <= 2 {
				continue
			}
			leadsOn := false
			for bb := range reachableFrom(ex.to) {
				for _, in := range bb.Instrs {
					if c, ok := in.(*ssa.Call); ok && isCallTo(&c.Call, "datalog.MatchedVariables.Clone", "datalog.MatchedVariables.Insert") {
						leadsOn = true
					}
				}
			}
			if !leadsOn {
				continue
			}
			g := false
			for _, gg := range guardsOnEdge(ex.from, ex.to) {
				if gg.cond == ssa.Value(mc) && gg.val {
					g = true
				}
			}
			if !g && !hasGuard(ex.from, mc, true) {
				okAdv = false
				why = "the search loop is left towards variable extraction from " + p.instrPos(ex.from.Instrs[len(ex.from.Instrs)-1]) + " without a successful Match"
			}
		}
		r.Check(okAdv, p.instrPos(mc), name, "advance only on a match", "the cursor moves on, and the search hands over to extraction, only under Match == true", why)
	}
}

// lockstep describes `for i := range A { ... B[i] ... }` in a boolean function.
func ruleEQPairwise(p *Prog, r *Reporter) {
	globalP = p
	for _, fn := range p.funcsIn("datalog", "biscuit") {
		res := fn.Signature.Results()
		if res.Len() != 1 || shortType(res.At(0).Type()) != "bool" {
			continue
		}
		for _, rl := range rangeLoops(fn) {
			at, ok := rl.seq.Type().Underlying().(*types.Slice)
			if !ok {
				continue
			}
			done := map[string]bool{}
			for b := range rl.body {
				for _, in := range b.Instrs {
					ia, ok := in.(*ssa.IndexAddr)
					if !ok || ia.Index != ssa.Value(rl.incr) || sameSeq(ia.X, rl.seq) {
						continue
					}
					bt, ok := ia.X.Type().Underlying().(*types.Slice)
					if !ok || !types.Identical(bt.Elem(), at.Elem()) {
						continue
					}
					// read, not written
					read := false
					for _, ref := range *ia.Referrers() {
						if u, isU := ref.(*ssa.UnOp); isU && u.Op == token.MUL {
							read = true
						}
					}
					if !read {
						continue
					}
					A, B := p.D(rl.seq), p.D(ia.X)
					if done[B] {
						continue
					}
					done[B] = true
					okLen := false
					for _, g := range guardsOf(rl.header) {
						bo, isB := g.cond.(*ssa.BinOp)
						if !isB {
							continue
						}
						eq := (bo.Op == token.EQL && g.val) || (bo.Op == token.NEQ && !g.val)
						if !eq {
							continue
						}
						dx, dy := p.D(bo.X), p.D(bo.Y)
						if (dx == "len("+A+")" && dy == "len("+B+")") || (dy == "len("+A+")" && dx == "len("+B+")") {
							okLen = true
						}
					}
					// or: every caller passes slices whose lengths it has compared (helper taking the two slices)
					if !okLen {
						okLen = p.callersCompareLengths(fn, rl.seq, ia.X)
					}
					r.Check(okLen, p.instrPos(ia), p.FuncName(fn), "pairwise "+A+" / "+B, "the lengths were compared before the position-by-position walk", "two lists are compared position by position over the range of "+A+" without establishing len("+A+") == len("+B+"): a list equals any longer list it is a prefix of (facts of different arity are taken for duplicates)")
				}
			}
		}
	}
}

// callersCompareLengths: a and b are parameters of fn and every static call site passes values whose
// lengths are compared (==) by a guard of the call.
func (p *Prog) callersCompareLengths(fn *ssa.Function, a, b ssa.Value) bool {
	ia, ib := -1, -1
	for i, pa := range fn.Params {
		if ssa.Value(pa) == a {
			ia = i
		}
		if ssa.Value(pa) == b {
			ib = i
		}
	}
	if ia < 0 || ib < 0 {
		return false
	}
	n := 0
	for _, caller := range p.Funcs {
		for _, c := range callsIn(caller) {
			if c.Common().StaticCallee() != fn {
				continue
			}
			n++
			cv, ok := c.(*ssa.Call)
			if !ok {
				return false
			}
			A, B := p.D(cv.Call.Args[ia]), p.D(cv.Call.Args[ib])
			okLen := false
			for _, g := range guardsOf(cv.Block()) {
				bo, isB := g.cond.(*ssa.BinOp)
				if !isB {
					continue
				}
				eq := (bo.Op == token.EQL && g.val) || (bo.Op == token.NEQ && !g.val)
				dx, dy := p.D(bo.X), p.D(bo.Y)
				if eq && ((dx == "len("+A+")" && dy == "len("+B+")") || (dy == "len("+A+")" && dx == "len("+B+")")) {
					okLen = true
				}
			}
			if !okLen {
				return false
			}
		}
	}
	return n > 0
}

// ruleEQOps: Op.Type() tells value / unary / binary apart and nothing more. A function that compares the
// Type() of two ops is deciding whether two expressions are the same; it must then also compare the value
// terms (Equal), the unary operator and the binary operator, or two different expressions pass for one.
func ruleEQOps(p *Prog, r *Reporter) {
	globalP = p
	isOpType := func(v ssa.Value) bool {
		c, ok := unwrap(v).(*ssa.Call)
		if !ok || !c.Call.IsInvoke() || c.Call.Method.Name() != "Type" {
			return false
		}
		return isRepoNamed(c.Call.Value.Type(), "datalog", "Op")
	}
	n := 0
	for _, fn := range p.funcsIn("datalog", "biscuit") {
		if fn.Parent() != nil {
			continue
		}
		var cmp *ssa.BinOp
		for _, f := range withClosures(fn) {
			for _, b := range f.Blocks {
				for _, in := range b.Instrs {
					if bo, ok := in.(*ssa.BinOp); ok && (bo.Op == token.EQL || bo.Op == token.NEQ) && isOpType(bo.X) && isOpType(bo.Y) {
						cmp = bo
					}
				}
			}
		}
		if cmp == nil {
			continue
		}
		n++
		// evidence, in fn, its closures and the repository functions it calls directly
		scope := withClosures(fn)
		for _, c := range callsIn(fn) {
			if cal := c.Common().StaticCallee(); cal != nil && p.isRepoFunc(cal) && cal != fn {
				scope = append(scope, withClosures(cal)...)
			}
		}
		val, un, bin := false, false, false
		for _, f := range scope {
			for _, b := range f.Blocks {
				for _, in := range b.Instrs {
					switch x := in.(type) {
					case *ssa.Call:
						if x.Call.IsInvoke() && x.Call.Method.Name() == "Equal" && isRepoNamed(x.Call.Value.Type(), "datalog", "Term") && strings.Contains(p.D(x), ".ID") {
							val = true
						}
						if isCallTo(&x.Call, "reflect.DeepEqual") {
							val, un, bin = true, true, true
						}
					case *ssa.BinOp:
						if x.Op != token.EQL && x.Op != token.NEQ {
							continue
						}
						for _, side := range []ssa.Value{x.X, x.Y} {
							c, ok := unwrap(side).(*ssa.Call)
							if !ok || !c.Call.IsInvoke() || c.Call.Method.Name() != "Type" {
								continue
							}
							if isRepoNamed(c.Call.Value.Type(), "datalog", "UnaryOpFunc") {
								un = true
							}
							if isRepoNamed(c.Call.Value.Type(), "datalog", "BinaryOpFunc") {
								bin = true
							}
						}
					}
				}
			}
		}
		var miss []string
		if !val {
			miss = append(miss, "the value terms (Value.ID.Equal)")
		}
		if !un {
			miss = append(miss, "the unary operator (UnaryOpFunc.Type())")
		}
		if !bin {
			miss = append(miss, "the binary operator (BinaryOpFunc.Type())")
		}
		r.Check(len(miss) == 0, p.instrPos(cmp), p.FuncName(fn), "op comparison", "kind, value, unary operator and binary operator are all compared", "two expressions are compared by the kind of their ops without "+strings.Join(miss, ", ")+": expressions that differ only there (< against >, one constant against another) are taken for the same, so a rule or query is dropped or merged with another one")
	}
	if n == 0 {
		r.OK("-", "datalog, biscuit", "op comparison", "no function compares the kinds of two ops (rules and expressions are never tested for equality)")
	}
}

func init() {
	register(&Rule{ID: "PN-NILRESULT", Doc: "a decoder that reports success hands out a usable value: (nil, nil) is never returned where the value is an interface or pointer the caller uses unchecked", Run: rulePNNilResult, Min: 10})
}

// rulePNNilResult: for every function reachable from the token entry points whose results are
// (V, error) with V an interface or pointer type, each return whose error is the nil constant
// carries a V that cannot be nil as far as its construction shows: not the nil constant, and
// not the value of a map lookup whose presence was not tested. (Values of unknown provenance -
// parameters, fields, results of other calls - are not judged; the callee's own returns are.)
func rulePNNilResult(p *Prog, r *Reporter) {
	globalP = p
	for _, fn := range sortedFuncs(p, p.reachE()) {
		res := fn.Signature.Results()
		if res.Len() != 2 || !isErrorType(res.At(1).Type()) {
			continue
		}
		switch res.At(0).Type().Underlying().(type) {
		case *types.Interface, *types.Pointer:
		default:
			continue
		}
		// is the value used unchecked by some caller? (a caller that tests it for nil may get nil)
		name := p.FuncName(fn)
		bad := ""
		n := 0
		for _, ret := range returnsOf(fn) {
			if !isNilConst(retVal(ret, 1)) {
				continue
			}
			n++
			v := retVal(ret, 0)
			type leaf struct {
				v    ssa.Value
				pred *ssa.BasicBlock
				blk  *ssa.BasicBlock
			}
			leaves := []leaf{{v, nil, ret.Block()}}
			if _, isPhi := v.(*ssa.Phi); isPhi {
				leaves = nil
				for _, l := range phiLeaves(v) {
					leaves = append(leaves, leaf{l.val, l.pred, l.blk})
				}
			}
			for _, l := range leaves {
				x := unwrap(l.v)
				if mi, isMI := l.v.(*ssa.MakeInterface); isMI {
					x = unwrap(mi.X)
				}
				switch y := x.(type) {
				case *ssa.Const:
					if y.IsNil() {
						// nil on this edge: allowed only if the edge cannot be taken into a success return,
						// which the phi structure already says it can
						bad = p.instrPos(ret) + ": returns (nil, nil)"
					}
				case *ssa.Lookup:
					if _, isMap := y.X.Type().Underlying().(*types.Map); isMap && !y.CommaOk {
						bad = p.instrPos(ret) + ": returns the value of the map lookup " + shortD(y) + " without testing that the key is present (nil for an unknown key)"
					}
				case *ssa.Extract:
					if lk, isL := y.Tuple.(*ssa.Lookup); isL && lk.CommaOk && y.Index == 0 {
						okEx := firstExtractOfLookup(lk)
						guarded := okEx != nil && (hasGuard(ret.Block(), okEx, true) || (l.pred != nil && edgeHasGuard(l.pred, l.blk, okEx)))
						if !guarded {
							bad = p.instrPos(ret) + ": returns the value of the map lookup " + shortD(lk) + " on a path where the key may be absent"
						}
					}
				}
			}
		}
		if n == 0 {
			continue
		}
		r.Check(bad == "", p.Pos(fn.Pos()), name, "success value", "every success return carries a constructed value", "a success return can carry nil ("+bad+"): callers use the value without a nil test, so an unknown enumerator or key in a token ends in a nil dereference instead of an error")
	}
}

func firstExtractOfLookup(lk *ssa.Lookup) *ssa.Extract {
	if lk.Referrers() == nil {
		return nil
	}
	for _, ref := range *lk.Referrers() {
		if e, ok := ref.(*ssa.Extract); ok && e.Index == 1 {
			return e
		}
	}
	return nil
}

func edgeHasGuard(from, to *ssa.BasicBlock, cond ssa.Value) bool {
	for _, g := range guardsOnEdge(from, to) {
		if g.cond == cond && g.val {
			return true
		}
	}
	return false
}
