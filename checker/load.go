package main

import (
	"fmt"
	"go/ast"
	"go/token"
	"go/types"
	"os"
	"path/filepath"
	"sort"
	"strings"

	"golang.org/x/tools/go/packages"
	"golang.org/x/tools/go/ssa"
	"golang.org/x/tools/go/ssa/ssautil"
)

const modPath = "github.com/biscuit-auth/biscuit-go/v2"

// Prog is the resolved program all rules work on: type-checked syntax, SSA
// form and lookup tables for the four repository packages.
type Prog struct {
	Repo   string
	Arch   string
	Fset   *token.FileSet
	Pkgs   map[string]*packages.Package // short name -> package (biscuit, datalog, parser, pb)
	SSA    *ssa.Program
	SSAPkg map[string]*ssa.Package
	// Funcs: every source-level function with a body in the repository
	// packages (methods, package functions, anonymous functions), sorted.
	Funcs []*ssa.Function
	// oneofCache: pb message structs reachable through a oneof member (see underOneof).
	oneofCache    map[*types.Struct]bool
	oneofWrappers int
	// partialDecode: position of a decoder configured with AllowPartial ("" if none).
	partialDecode  string
	memberIdxDone  bool
	memberIdxCache *memberIndex
	partialTypes   map[*types.Struct]bool
	// byObj: declared function object -> SSA function.
	byObj map[*types.Func]*ssa.Function
	// decls: SSA function -> its syntax
	sizes types.Sizes

	cg   *callGraph
	ownA *ownAnalysis
}

var shortNames = map[string]string{
	modPath:              "biscuit",
	modPath + "/datalog": "datalog",
	modPath + "/parser":  "parser",
	modPath + "/pb":      "pb",
}

// Load type-checks the non-test files of every package under repo (build tag
// "verif" on) and builds SSA with function bodies for the repository packages.
func Load(repo, arch string) (*Prog, error) {
	env := []string{}
	for _, e := range os.Environ() {
		k := strings.SplitN(e, "=", 2)[0]
		switch k {
		case "GOFLAGS", "GOWORK", "GOPROXY", "GOSUMDB", "GOTOOLCHAIN", "GOARCH", "GOOS", "CGO_ENABLED":
			continue
		}
		env = append(env, e)
	}
	env = append(env, "GOFLAGS=-mod=mod", "GOWORK=off", "GOPROXY=off", "GOSUMDB=off", "GOTOOLCHAIN=local", "GOOS=linux", "CGO_ENABLED=0")
	if arch != "" {
		env = append(env, "GOARCH="+arch)
	}
	fset := token.NewFileSet()
	cfg := &packages.Config{
		Mode: packages.NeedName | packages.NeedFiles | packages.NeedCompiledGoFiles | packages.NeedImports |
			packages.NeedTypes | packages.NeedTypesSizes | packages.NeedSyntax | packages.NeedTypesInfo | packages.NeedModule,
		Dir:        repo,
		Env:        env,
		Fset:       fset,
		BuildFlags: []string{"-tags=verif"},
		Tests:      false,
	}
	pkgs, err := packages.Load(cfg, "./...")
	if err != nil {
		return nil, fmt.Errorf("load: %v", err)
	}
	p := &Prog{Repo: repo, Arch: arch, Fset: fset, Pkgs: map[string]*packages.Package{}, SSAPkg: map[string]*ssa.Package{}, byObj: map[*types.Func]*ssa.Function{}}
	var initial []*packages.Package
	var errs []string
	for _, pkg := range pkgs {
		for _, e := range pkg.Errors {
			errs = append(errs, e.Error())
		}
		if len(pkg.CompiledGoFiles) == 0 {
			continue
		}
		sn, ok := shortNames[pkg.PkgPath]
		if !ok {
			// a package added to the repository: analysed by the generic rules
			sn = strings.TrimPrefix(pkg.PkgPath, modPath+"/")
		}
		p.Pkgs[sn] = pkg
		initial = append(initial, pkg)
		if pkg.TypesSizes != nil {
			p.sizes = pkg.TypesSizes
		}
	}
	if len(errs) > 0 {
		sort.Strings(errs)
		return nil, fmt.Errorf("type-check/load errors:\n  %s", strings.Join(errs, "\n  "))
	}
	for _, need := range []string{"biscuit", "datalog", "parser", "pb"} {
		if p.Pkgs[need] == nil {
			return nil, fmt.Errorf("package %q not found under %s (loaded %d packages)", need, repo, len(initial))
		}
	}
	prog, spkgs := ssautil.Packages(initial, ssa.InstantiateGenerics)
	for i, sp := range spkgs {
		if sp == nil {
			return nil, fmt.Errorf("no SSA package for %s", initial[i].PkgPath)
		}
		sn := shortNames[initial[i].PkgPath]
		if sn == "" {
			sn = strings.TrimPrefix(initial[i].PkgPath, modPath+"/")
		}
		p.SSAPkg[sn] = sp
	}
	prog.Build()
	p.SSA = prog
	seen := map[*ssa.Function]bool{}
	var add func(f *ssa.Function)
	add = func(f *ssa.Function) {
		if f == nil || seen[f] || f.Blocks == nil {
			return
		}
		seen[f] = true
		p.Funcs = append(p.Funcs, f)
		for _, a := range f.AnonFuncs {
			add(a)
		}
	}
	for _, sp := range p.SSAPkg {
		for _, m := range sp.Members {
			switch m := m.(type) {
			case *ssa.Function:
				add(m)
				if o, ok := m.Object().(*types.Func); ok {
					p.byObj[o] = m
				}
			case *ssa.Type:
				for _, t := range []types.Type{m.Type(), types.NewPointer(m.Type())} {
					ms := prog.MethodSets.MethodSet(t)
					for i := 0; i < ms.Len(); i++ {
						fn := prog.MethodValue(ms.At(i))
						if fn != nil && fn.Synthetic == "" {
							add(fn)
							if o, ok := fn.Object().(*types.Func); ok {
								p.byObj[o] = fn
							}
						}
					}
				}
			}
		}
	}
	sort.Slice(p.Funcs, func(i, j int) bool { return p.FuncName(p.Funcs[i]) < p.FuncName(p.Funcs[j]) })
	return p, nil
}

// pkgShort returns the short repository package name of an SSA function ("" if external).
func (p *Prog) pkgShort(f *ssa.Function) string {
	for f.Parent() != nil {
		f = f.Parent()
	}
	if f.Pkg == nil {
		if o := f.Object(); o != nil && o.Pkg() != nil {
			return shortNames[o.Pkg().Path()]
		}
		return ""
	}
	for sn, sp := range p.SSAPkg {
		if sp == f.Pkg {
			return sn
		}
	}
	return ""
}

// FuncName is a stable human readable name: pkg.(*T).M, pkg.F, pkg.F$1.
func (p *Prog) FuncName(f *ssa.Function) string {
	if f == nil {
		return "<nil>"
	}
	name := f.RelString(nil)
	name = strings.ReplaceAll(name, modPath+"/", "")
	name = strings.ReplaceAll(name, modPath, "biscuit")
	return name
}

// Func finds a package-level function or method by short name,
// e.g. Func("biscuit", "", "Unmarshal") or Func("biscuit", "Biscuit", "Append").
func (p *Prog) Func(pkg, recv, name string) *ssa.Function {
	sp := p.SSAPkg[pkg]
	if sp == nil {
		return nil
	}
	if recv == "" {
		return sp.Func(name)
	}
	tm, _ := sp.Members[recv].(*ssa.Type)
	if tm == nil {
		return nil
	}
	for _, t := range []types.Type{tm.Type(), types.NewPointer(tm.Type())} {
		ms := p.SSA.MethodSets.MethodSet(t)
		for i := 0; i < ms.Len(); i++ {
			if ms.At(i).Obj().Name() == name {
				fn := p.SSA.MethodValue(ms.At(i))
				if fn != nil && fn.Synthetic == "" {
					return fn
				}
				// promoted through embedding: return the underlying declared method
				if o, ok := ms.At(i).Obj().(*types.Func); ok {
					if f := p.byObj[o]; f != nil {
						return f
					}
				}
			}
		}
	}
	return nil
}

// NamedType returns the named type pkg.name or nil.
func (p *Prog) NamedType(pkg, name string) *types.Named {
	pk := p.Pkgs[pkg]
	if pk == nil {
		return nil
	}
	o := pk.Types.Scope().Lookup(name)
	if o == nil {
		return nil
	}
	n, _ := o.Type().(*types.Named)
	return n
}

func (p *Prog) Pos(pos token.Pos) string {
	if !pos.IsValid() {
		return "?"
	}
	ps := p.Fset.Position(pos)
	rel, err := filepath.Rel(p.Repo, ps.Filename)
	if err != nil {
		rel = ps.Filename
	}
	return fmt.Sprintf("%s:%d", rel, ps.Line)
}

// instrPos returns the best position for an instruction (falls back to
// operands / neighbouring instructions since many SSA instructions have NoPos).
func (p *Prog) instrPos(in ssa.Instruction) string {
	if in == nil {
		return "?"
	}
	if in.Pos().IsValid() {
		return p.Pos(in.Pos())
	}
	if v, ok := in.(ssa.Value); ok {
		_ = v
	}
	b := in.Block()
	if b != nil {
		idx := -1
		for i, x := range b.Instrs {
			if x == in {
				idx = i
			}
		}
		for d := 1; d < len(b.Instrs); d++ {
			for _, j := range []int{idx - d, idx + d} {
				if j >= 0 && j < len(b.Instrs) && b.Instrs[j].Pos().IsValid() {
					return p.Pos(b.Instrs[j].Pos()) + "~"
				}
			}
		}
		if b.Parent() != nil && b.Parent().Pos().IsValid() {
			return p.Pos(b.Parent().Pos()) + "~"
		}
	}
	return "?"
}

// isNamed reports whether t (after pointer stripping when deref) is the named type pkgpath.name.
func isNamed(t types.Type, pkgPath, name string) bool {
	if t == nil {
		return false
	}
	if a, ok := t.(*types.Alias); ok {
		t = types.Unalias(a)
	}
	n, ok := t.(*types.Named)
	if !ok {
		return false
	}
	o := n.Obj()
	if o.Name() != name {
		return false
	}
	if o.Pkg() == nil {
		return pkgPath == ""
	}
	return o.Pkg().Path() == pkgPath
}

func deref(t types.Type) types.Type {
	if p, ok := t.Underlying().(*types.Pointer); ok {
		return p.Elem()
	}
	return t
}

func pkgPathOf(short string) string {
	for k, v := range shortNames {
		if v == short {
			return k
		}
	}
	return short
}

// isRepoNamed: t is (pointer to)? named type short.name of a repository package.
func isRepoNamed(t types.Type, short, name string) bool {
	return isNamed(deref(t), pkgPathOf(short), name)
}

// funcDecl returns the syntax of a declared function.
func (p *Prog) funcDecl(f *ssa.Function) *ast.FuncDecl {
	if d, ok := f.Syntax().(*ast.FuncDecl); ok {
		return d
	}
	return nil
}
