package main

import (
	"fmt"
	"go/ast"
	"go/constant"
	"go/token"
	"go/types"
	"reflect"
	"regexp"
	"sort"
	"strings"

	"golang.org/x/tools/go/ssa"
)

func init() {
	register(
		&Rule{ID: "PN-HASH", Doc: "no map keyed by (or == between) interface values whose repository implementors are not comparable, in code reachable from token entry points", Run: rulePNHash, Min: 1},
		&Rule{ID: "PN-ASSERT", Doc: "every single-result type assertion reachable from token entry points is guarded by the matching Type() tag", Run: rulePNAssert, Min: 20},
		&Rule{ID: "PN-SLICE", Doc: "every slice expression with a computed bound is proved within 0..len: the bound is non-negative by provenance (lengths, counters, guarded differences) and tested against the length", Run: rulePNSlice, Min: 2},
		&Rule{ID: "PN-OPTPTR", Doc: "optional pointer fields of the library's own structs (root key id, ...) are dereferenced only under a nil test", Run: rulePNOptPtr, Min: 2},
		&Rule{ID: "PN-PBREQ", Doc: "pointer-typed protobuf fields are dereferenced only when the schema marks them required (or under a nil guard / through a getter)", Run: rulePNPbReq, Min: 10},
		&Rule{ID: "PN-STDLIB", Doc: "length / provenance preconditions of ed25519 and encoding/binary calls hold on every path", Run: rulePNStdlib, Min: 8},
		&Rule{ID: "PN-INDEX", Doc: "sign-changing or truncating integer conversions that feed an index are bounded in the source domain first", Run: rulePNIndex, Min: 2},
		&Rule{ID: "PN-CONSTINDEX", Doc: "a slice indexed or sliced with a constant is first proved long enough", Run: rulePNConstIndex, Min: 2},
		&Rule{ID: "PN-CLOSE", Doc: "no channel can be closed twice (explicit close next to a deferred close, close inside a loop)", Run: rulePNClose, Min: 1},
		&Rule{ID: "PN-DIV", Doc: "integer division by a non-constant divisor is guarded by a zero test", Run: rulePNDiv, Min: 1},
		&Rule{ID: "PN-EXPLICIT", Doc: "explicit panic calls reachable from token entry points are discharged by a named totality argument", Run: rulePNExplicit, Min: 1},
	)
}

// tokenEntries: the API surface through which untrusted token bytes reach the library.
func (p *Prog) tokenEntries() []*ssa.Function {
	var out []*ssa.Function
	add := func(f *ssa.Function) {
		if f != nil {
			out = append(out, f)
		}
	}
	add(p.Func("biscuit", "", "Unmarshal"))
	add(p.Func("biscuit", "Unmarshaler", "Unmarshal"))
	add(p.Func("biscuit", "", "NewVerifier"))
	_, ms := authorizerImpl(p)
	out = append(out, ms...)
	for _, f := range p.funcsIn("biscuit") {
		if f.Parent() != nil || f.Signature.Recv() == nil {
			continue
		}
		rt := deref(f.Signature.Recv().Type())
		if isRepoNamed(rt, "biscuit", "Biscuit") && ast.IsExported(f.Name()) {
			add(f)
		}
		if isRepoNamed(rt, "biscuit", "Block") && ast.IsExported(f.Name()) {
			add(f)
		}
	}
	return dedupFuncs(out)
}

// reachE: functions with bodies reachable from the token entry points.
func (p *Prog) reachE() map[*ssa.Function]bool {
	return p.CG().Reach(p.tokenEntries()...)
}

func sortedFuncs(p *Prog, m map[*ssa.Function]bool) []*ssa.Function {
	var out []*ssa.Function
	for f := range m {
		if f.Blocks != nil && p.isRepoFunc(f) {
			out = append(out, f)
		}
	}
	sort.Slice(out, func(i, j int) bool { return p.FuncName(out[i]) < p.FuncName(out[j]) })
	return out
}

// repoImplementors lists the repository's concrete named types implementing iface.
func (p *Prog) repoImplementors(iface *types.Interface) []types.Type {
	var out []types.Type
	for _, t := range p.CG().repoTypes {
		if _, isI := t.Underlying().(*types.Interface); isI {
			continue
		}
		if _, isP := t.(*types.Pointer); isP {
			// pointer implementors are always comparable; list value types only unless only the pointer implements
			if types.Implements(t.(*types.Pointer).Elem(), iface) {
				continue
			}
		}
		if types.Implements(t, iface) {
			out = append(out, t)
		}
	}
	return out
}

// hashHazard: can hashing / comparing a value of static type t panic at run time?
func (p *Prog) hashHazard(t types.Type, depth int) (bool, string) {
	if depth > 4 {
		return false, ""
	}
	switch u := t.Underlying().(type) {
	case *types.Interface:
		if u.NumMethods() == 0 {
			return true, "empty interface (any dynamic type)"
		}
		for _, impl := range p.repoImplementors(u) {
			if !types.Comparable(impl) {
				return true, "implementor " + shortType(impl) + " is not comparable"
			}
		}
		return false, ""
	case *types.Struct:
		for i := 0; i < u.NumFields(); i++ {
			if h, w := p.hashHazard(u.Field(i).Type(), depth+1); h {
				return true, "field " + u.Field(i).Name() + ": " + w
			}
		}
	case *types.Array:
		return p.hashHazard(u.Elem(), depth+1)
	}
	return false, ""
}

func rulePNHash(p *Prog, r *Reporter) {
	globalP = p
	n := 0
	for _, fn := range sortedFuncs(p, p.reachE()) {
		name := p.FuncName(fn)
		for _, b := range fn.Blocks {
			for _, in := range b.Instrs {
				var mt *types.Map
				what := ""
				switch x := in.(type) {
				case *ssa.MakeMap:
					mt, _ = x.Type().Underlying().(*types.Map)
					what = "make map"
				case *ssa.MapUpdate:
					mt, _ = x.Map.Type().Underlying().(*types.Map)
					what = "map update"
				case *ssa.Lookup:
					mt, _ = x.X.Type().Underlying().(*types.Map)
					what = "map lookup"
				case *ssa.BinOp:
					if x.Op != token.EQL && x.Op != token.NEQ {
						continue
					}
					_, xi := x.X.Type().Underlying().(*types.Interface)
					_, yi := x.Y.Type().Underlying().(*types.Interface)
					if !xi || !yi || isNilConst(x.X) || isNilConst(x.Y) {
						continue
					}
					if isErrorType(x.X.Type()) {
						// error comparisons: sentinel identity; dynamic types are pointers (errors.New) unless a repo error type is uncomparable
					}
					n++
					if h, w := p.hashHazard(x.X.Type(), 0); h {
						r.Bad(p.instrPos(x), name, "== on "+shortType(x.X.Type()), "comparing interface values may panic at run time: "+w)
					} else {
						r.OK(p.instrPos(x), name, "== on "+shortType(x.X.Type()), "all repository implementors are comparable")
					}
					continue
				default:
					continue
				}
				if mt == nil {
					continue
				}
				n++
				construct := what + " " + shortType(mt)
				if mi := p.memberIdx(); mi != nil && mi.sound && (fn == mi.add || fn == mi.has || fn == mi.ctor) {
					// the only keys are those of the index's key function: a comparable term kind boxed as itself, or a string
					r.OK(p.instrPos(in), name, construct, "keys come from the checked key function (comparable kinds and strings only)")
					continue
				}
				if h, w := p.hashHazard(mt.Key(), 0); h {
					r.Bad(p.instrPos(in), name, construct, "map key may be unhashable at run time (panic 'hash of unhashable type', not recoverable on a library goroutine): "+w)
				} else {
					r.OK(p.instrPos(in), name, construct, "key type is always hashable")
				}
			}
		}
	}
	if n == 0 {
		r.OK("-", "Reach(E)", "no interface-keyed map or interface comparison", "nothing to check")
	}
}

// typeTag returns the constant returned by method Type() of concrete type t ("" if none).
func (p *Prog) typeTag(t types.Type) (constant.Value, types.Type) {
	ms := p.SSA.MethodSets.MethodSet(t)
	sel := ms.Lookup(nil, "Type")
	if sel == nil {
		return nil, nil
	}
	fn := p.SSA.MethodValue(sel)
	if fn == nil || fn.Blocks == nil {
		return nil, nil
	}
	var val constant.Value
	var typ types.Type
	for _, ret := range returnsOf(fn) {
		c, ok := retVal(ret, 0).(*ssa.Const)
		if !ok || c.Value == nil {
			return nil, nil
		}
		if val != nil && !constant.Compare(val, token.EQL, c.Value) {
			return nil, nil
		}
		val, typ = c.Value, c.Type()
	}
	return val, typ
}

// typeCallOn: v is `x.Type()` (invoke or static) — returns x.
func typeCallOn(v ssa.Value) ssa.Value {
	c, ok := v.(*ssa.Call)
	if !ok {
		return nil
	}
	if c.Call.IsInvoke() && c.Call.Method.Name() == "Type" {
		return c.Call.Value
	}
	if f := c.Call.StaticCallee(); f != nil && f.Name() == "Type" && len(c.Call.Args) == 1 {
		return c.Call.Args[0]
	}
	return nil
}

func sameValue(p *Prog, a, b ssa.Value) bool {
	if a == b {
		return true
	}
	ua, ub := unwrap(a), unwrap(b)
	if ua == ub {
		return true
	}
	// two loads of the same field of the same single-assignment local
	if la, ok := ua.(*ssa.UnOp); ok && la.Op == token.MUL {
		if lb, ok := ub.(*ssa.UnOp); ok && lb.Op == token.MUL {
			if fa, ok := la.X.(*ssa.FieldAddr); ok {
				if fb, ok := lb.X.(*ssa.FieldAddr); ok && fa.X == fb.X && fa.Field == fb.Field {
					if al, ok := fa.X.(*ssa.Alloc); ok && singleStore(al) != nil && len(storesInto(al)) == 1 {
						return true
					}
				}
			}
		}
	}
	// embedded interface fields etc.: identical access paths without calls or phis in between
	da, db := p.D(a), p.D(b)
	return da == db && !strings.Contains(da, "(") && !strings.Contains(da, "φ")
}

func rulePNAssert(p *Prog, r *Reporter) {
	globalP = p
	for _, fn := range sortedFuncs(p, p.reachE()) {
		name := p.FuncName(fn)
		for _, b := range fn.Blocks {
			for _, in := range b.Instrs {
				ta, ok := in.(*ssa.TypeAssert)
				if !ok || ta.CommaOk {
					continue
				}
				construct := "assert " + shortD(ta.X) + ".(" + shortType(ta.AssertedType) + ")"
				pos := p.instrPos(ta)
				if _, toIface := ta.AssertedType.Underlying().(*types.Interface); toIface {
					r.Bad(pos, name, construct, "unguarded assertion to an interface type")
					continue
				}
				// stdlib contract: PrivateKey.Public() returns ed25519.PublicKey
				if c, isC := unwrap(ta.X).(*ssa.Call); isC && isCallTo(&c.Call, "crypto/ed25519.PrivateKey.Public") && isNamed(ta.AssertedType, "crypto/ed25519", "PublicKey") {
					r.OK(pos, name, construct, "crypto/ed25519 contract: PrivateKey.Public() returns an ed25519.PublicKey")
					continue
				}
				tag, tagT := p.typeTag(ta.AssertedType)
				if tag == nil {
					r.Bad(pos, name, construct, "asserted type has no constant Type() tag: the assertion cannot be proved guarded")
					continue
				}
				ok2 := false
				gs := guardsOf(b)
				for _, g := range gs {
					bo, isB := g.cond.(*ssa.BinOp)
					if !isB || bo.Op != token.EQL || !g.val {
						continue
					}
					var callV, constV ssa.Value = bo.X, bo.Y
					if _, isC := bo.X.(*ssa.Const); isC {
						callV, constV = bo.Y, bo.X
					}
					c, isC := constV.(*ssa.Const)
					if !isC || c.Value == nil || !types.Identical(c.Type(), tagT) || !constant.Compare(c.Value, token.EQL, tag) {
						continue
					}
					y := typeCallOn(callV)
					if y == nil {
						continue
					}
					if sameValue(p, y, ta.X) || typesProvedEqual(p, gs, y, ta.X) {
						ok2 = true
					}
				}
				r.Check(ok2, pos, name, construct, "dominated by the branch "+shortD(ta.X)+".Type() == tag of "+shortType(ta.AssertedType),
					"no dominating test of Type() against the tag of "+shortType(ta.AssertedType)+": an ill-typed term from a token panics here instead of producing an error")
			}
		}
	}
}

// typesProvedEqual: the guards establish a.Type() == b.Type().
func typesProvedEqual(p *Prog, gs []guard, a, b ssa.Value) bool {
	for _, g := range gs {
		bo, ok := g.cond.(*ssa.BinOp)
		if !ok {
			continue
		}
		eq := (bo.Op == token.EQL && g.val) || (bo.Op == token.NEQ && !g.val)
		if !eq {
			continue
		}
		x, y := typeCallOn(bo.X), typeCallOn(bo.Y)
		if x == nil || y == nil {
			continue
		}
		if (sameValue(p, x, a) && sameValue(p, y, b)) || (sameValue(p, x, b) && sameValue(p, y, a)) {
			return true
		}
	}
	return false
}

// pbFieldReq reports whether field f of pb struct st is marked required in its protobuf tag.
func pbFieldTag(st *types.Struct, idx int) (isPB bool, req bool, oneof bool) {
	tag := reflect.StructTag(st.Tag(idx))
	if v, ok := tag.Lookup("protobuf"); ok {
		parts := strings.Split(v, ",")
		for _, x := range parts {
			if x == "req" {
				return true, true, false
			}
		}
		return true, false, false
	}
	if _, ok := tag.Lookup("protobuf_oneof"); ok {
		return true, false, true
	}
	return false, false, false
}

// pbFieldLoad: v is a load of a pointer-typed field of a message struct of package pb; returns the struct/field.
func pbFieldLoad(v ssa.Value) (st *types.Struct, idx int, owner string, ok bool) {
	u, isU := v.(*ssa.UnOp)
	if !isU || u.Op != token.MUL {
		return nil, 0, "", false
	}
	fa, isFA := u.X.(*ssa.FieldAddr)
	if !isFA {
		return nil, 0, "", false
	}
	n, isN := deref(fa.X.Type()).(*types.Named)
	if !isN || n.Obj().Pkg() == nil || shortNames[n.Obj().Pkg().Path()] != "pb" {
		return nil, 0, "", false
	}
	s, isS := n.Underlying().(*types.Struct)
	if !isS {
		return nil, 0, "", false
	}
	if _, isPtr := s.Field(fa.Field).Type().Underlying().(*types.Pointer); !isPtr {
		return nil, 0, "", false
	}
	return s, fa.Field, n.Obj().Name(), true
}

func rulePNPbReq(p *Prog, r *Reporter) {
	globalP = p
	p.partialDecode = ""
	// the discharge "required" relies on the decoder's required-field check: no decode may switch it off
	nDecode := 0
	var optDecoded []*types.Struct
	p.partialTypes = nil
	for _, pk := range []string{"biscuit", "datalog", "parser"} {
		sp := p.SSAPkg[pk]
		if sp == nil {
			continue
		}
		fns := append([]*ssa.Function{}, p.funcsIn(pk)...)
		if ini := sp.Func("init"); ini != nil {
			fns = append(fns, ini)
		}
		for _, fn := range fns {
			for _, b := range fn.Blocks {
				for _, in := range b.Instrs {
					switch x := in.(type) {
					case *ssa.Store:
						fa, ok := x.Addr.(*ssa.FieldAddr)
						if !ok || !isNamed(deref(fa.X.Type()), "google.golang.org/protobuf/proto", "UnmarshalOptions") || fieldName(fa) != "AllowPartial" {
							continue
						}
						k, isK := x.Val.(*ssa.Const)
						if isK && k.Value != nil && k.Value.String() == "false" {
							r.OK(p.instrPos(x), p.FuncName(fn), "UnmarshalOptions.AllowPartial", "left false")
						} else {
							p.partialDecode = p.instrPos(x)
							r.OK(p.instrPos(x), p.FuncName(fn), "UnmarshalOptions.AllowPartial", "a decoder accepts partial messages: `required` is not trusted anywhere below, every dereference needs its own nil test")
						}
					case ssa.CallInstruction:
						if f := x.Common().StaticCallee(); f != nil && (calleeName(f) == "google.golang.org/protobuf/proto.Unmarshal" || strings.HasPrefix(calleeName(f), "google.golang.org/protobuf/proto.UnmarshalOptions.")) {
							nDecode++
							if strings.HasPrefix(calleeName(f), "google.golang.org/protobuf/proto.UnmarshalOptions.") {
								for _, a := range x.Common().Args {
									if n, isN := deref(unwrap(a).Type()).(*types.Named); isN {
										if stt, isS := n.Underlying().(*types.Struct); isS && n.Obj().Pkg() != nil && n.Obj().Pkg().Name() == "pb" {
											optDecoded = append(optDecoded, stt)
										}
									}
								}
							}
						}
					}
				}
			}
		}
	}
	if p.partialDecode != "" {
		p.partialTypes = map[*types.Struct]bool{}
		var mark func(st *types.Struct)
		mark = func(st *types.Struct) {
			if st == nil || p.partialTypes[st] {
				return
			}
			p.partialTypes[st] = true
			for i := 0; i < st.NumFields(); i++ {
				t := st.Field(i).Type()
				if it, isI := t.Underlying().(*types.Interface); isI && strings.Contains(st.Tag(i), "protobuf_oneof:") {
					for _, w := range p.repoImplementors(it) {
						if ws, isS := deref(w).Underlying().(*types.Struct); isS && ws.NumFields() == 1 {
							mark(pbMsgOf(ws.Field(0).Type()))
						}
					}
					continue
				}
				mark(pbMsgOf(t))
			}
		}
		for _, st := range optDecoded {
			mark(st)
		}
	}
	r.Check(nDecode >= 3, "builder.go", "biscuit", "decode calls", fmt.Sprintf("%d protobuf decode calls inspected", nDecode), "fewer protobuf decode calls than expected: the decoder configuration cannot be checked")
	r.Check(len(p.underOneof()) > 0 && p.oneofWrappers >= 3, "pb/biscuit.pb.go", "pb", "oneof members", "oneof wrapper types and the messages reachable through them were identified in the generated code", "no oneof wrapper types found in package pb: the set of messages whose required fields the decoder does not enforce cannot be computed")
	for _, fn := range p.funcsIn("biscuit") {
		name := p.FuncName(fn)
		for _, b := range fn.Blocks {
			for _, in := range b.Instrs {
				var ptr ssa.Value
				how := ""
				switch x := in.(type) {
				case *ssa.FieldAddr:
					ptr, how = x.X, "field access"
				case *ssa.UnOp:
					if x.Op == token.MUL {
						ptr, how = x.X, "dereference"
					}
				case ssa.CallInstruction:
					cc := x.Common()
					if f := cc.StaticCallee(); f != nil && len(cc.Args) > 0 {
						// passing to a repository function that takes the message by pointer
						if p.pkgShort(f) == "biscuit" {
							for _, a := range cc.Args {
								if st, idx, owner, ok := pbFieldLoad(a); ok {
									p.checkPbDeref(r, fn, b, in, a, st, idx, owner, "argument of "+calleeName(f))
								}
							}
						}
						// method with a value receiver called through the pointer (e.g. Number())
					}
					continue
				}
				if ptr == nil {
					continue
				}
				st, idx, owner, ok := pbFieldLoad(ptr)
				if !ok {
					continue
				}
				p.checkPbDeref(r, fn, b, in, ptr, st, idx, owner, how)
				_ = name
			}
		}
	}
}

func (p *Prog) checkPbDeref(r *Reporter, fn *ssa.Function, b *ssa.BasicBlock, in ssa.Instruction, ptr ssa.Value, st *types.Struct, idx int, owner, how string) {
	isPB, req, _ := pbFieldTag(st, idx)
	construct := how + " of " + owner + "." + st.Field(idx).Name()
	pos := p.instrPos(in)
	name := p.FuncName(fn)
	if !isPB {
		return
	}
	if req && p.partialDecode != "" && p.partialTypes[st] {
		if nilGuard(p, b, p.D(ptr), false) {
			r.OK(pos, name, construct, "required field dereferenced under a nil guard (a decoder accepts partial messages)")
			return
		}
		r.Bad(pos, name, construct, "required field dereferenced without a nil test while the decoder configured at "+p.partialDecode+" accepts messages with missing required fields (AllowPartial): crafted bytes make this a nil-pointer panic")
		return
	}
	if req && !p.underOneof()[st] {
		r.OK(pos, name, construct, "schema marks the field required: proto.Unmarshal rejects messages without it")
		return
	}
	if req {
		// protobuf-go (decode fast path, impl/decode.go + initOneofFieldCoders) propagates the
		// "initialized" state of a nested message only for the first member of a oneof: a message
		// that is only reachable through a oneof member is accepted with required fields missing.
		if nilGuard(p, b, p.D(ptr), false) {
			r.OK(pos, name, construct, "required field of a oneof member dereferenced under a nil guard")
			return
		}
		r.Bad(pos, name, construct, "required field of a message that is reached through a oneof member: proto.Unmarshal does not enforce `required` there, so a token omitting the field makes this a nil-pointer panic (test for nil)")
		return
	}
	if nilGuard(p, b, p.D(ptr), false) {
		r.OK(pos, name, construct, "optional field dereferenced under a nil guard")
		return
	}
	if st.NumFields() == 1 && strings.Contains(st.Tag(idx), ",oneof") {
		// the single member of a generated oneof wrapper (Op_Value.Value, TermV2_Set.Set, ...): the
		// decoder creates a wrapper only around a message it allocated (trusted protobuf contract, the
		// same one the generated getters rely on); what the message's own required fields are worth
		// is decided where they are dereferenced (underOneof).
		r.OK(pos, name, construct, "member of a oneof wrapper selected by a type switch: the decoder creates the wrapper around a non-nil message")
		return
	}
	r.Bad(pos, name, construct, "optional protobuf field dereferenced without a nil test: a token omitting it makes this a nil-pointer panic (use the generated getter or test for nil)")
}

func lenGuard(p *Prog, blk *ssa.BasicBlock, v ssa.Value, n int64) bool {
	return lenGuardIn(p, guardsOf(blk), v, n)
}

func lenGuardIn(p *Prog, gs []guard, v ssa.Value, n int64) bool {
	want := "len(" + p.D(v) + ")"
	for _, g := range gs {
		bo, ok := g.cond.(*ssa.BinOp)
		if !ok {
			continue
		}
		c, isC := constInt(bo.Y)
		if !isC || c != n || p.D(bo.X) != want {
			continue
		}
		if (bo.Op == token.EQL && g.val) || (bo.Op == token.NEQ && !g.val) {
			return true
		}
	}
	return false
}

// keyProvenanceOK: a private key value comes from NewKeyFromSeed, GenerateKey or a parameter.
func privKeyOK(v ssa.Value) (bool, string) {
	v = unwrap(v)
	switch x := v.(type) {
	case *ssa.Parameter:
		return true, "caller-supplied key (API parameter)"
	case *ssa.Call:
		if isCallTo(&x.Call, "crypto/ed25519.NewKeyFromSeed") {
			return true, "result of NewKeyFromSeed"
		}
	case *ssa.Extract:
		if c, ok := x.Tuple.(*ssa.Call); ok && isCallTo(&c.Call, "crypto/ed25519.GenerateKey") {
			return true, "result of GenerateKey (error discipline: RG-ERR)"
		}
	case *ssa.UnOp:
		if fa, ok := x.X.(*ssa.FieldAddr); ok && x.Op == token.MUL && fieldName(fa) == "rootKey" {
			return true, "builder's root key (caller-supplied)"
		}
	}
	return false, ""
}

func rulePNStdlib(p *Prog, r *Reporter) {
	globalP = p
	for _, fn := range p.funcsIn("biscuit", "datalog", "parser") {
		name := p.FuncName(fn)
		for _, c := range callsIn(fn) {
			cc := c.Common()
			pos := p.instrPos(c)
			switch {
			case isCallTo(cc, "crypto/ed25519.NewKeyFromSeed"):
				r.Check(lenGuard(p, c.Block(), cc.Args[0], 32), pos, name, "NewKeyFromSeed("+shortD(cc.Args[0])+")",
					"seed length tested == 32 on every path", "NewKeyFromSeed panics unless len(seed)==32 and no dominating length test exists: a token with a short next secret crashes the verifier")
			case isCallTo(cc, "crypto/ed25519.Verify"):
				ok, why := p.pubKeyLenOK(cc.Args[0], guardsOf(c.Block()), 0)
				r.Check(ok, pos, name, "Verify key "+shortD(cc.Args[0]), why, "ed25519.Verify panics unless len(key)==32: "+why)
			case isCallTo(cc, "crypto/ed25519.Sign"):
				ok, why := privKeyOK(cc.Args[0])
				r.Check(ok, pos, name, "Sign key "+shortD(cc.Args[0]), why, "private key of unknown provenance (Sign panics on a wrong length)")
			case isCallTo(cc, "crypto/ed25519.PrivateKey.Seed", "crypto/ed25519.PrivateKey.Public"):
				ok, why := privKeyOK(cc.Args[0])
				r.Check(ok, pos, name, calleeName(cc.StaticCallee())+" on "+shortD(cc.Args[0]), why, "private key of unknown provenance (panics on a wrong length)")
			case isCallTo(cc, "encoding/binary.littleEndian.PutUint32", "encoding/binary.bigEndian.PutUint32"):
				ok := false
				if s, isS := unwrap(cc.Args[1]).(*ssa.Slice); isS {
					if a, isA := s.X.(*ssa.Alloc); isA {
						if arr, isArr := deref(a.Type()).Underlying().(*types.Array); isArr && arr.Len() >= 4 {
							ok = true
						}
					}
				}
				if a, isA := unwrap(cc.Args[1]).(*ssa.Alloc); isA {
					if arr, isArr := deref(a.Type()).Underlying().(*types.Array); isArr && arr.Len() >= 4 {
						ok = true
					}
				}
				if mk, isM := unwrap(cc.Args[1]).(*ssa.MakeSlice); isM {
					if n, isC := constInt(mk.Len); isC && n >= 4 {
						ok = true
					}
				}
				r.Check(ok, pos, name, "PutUint32 buffer", "buffer is a fresh make([]byte, n>=4)", "PutUint32 into a buffer not known to hold 4 bytes")
			case isCallTo(cc, "regexp.MustCompile"):
				if _, isConst := cc.Args[0].(*ssa.Const); !isConst {
					r.Bad(pos, name, "regexp.MustCompile", "MustCompile of a non-constant pattern panics on an invalid pattern")
				}
			}
		}
	}
}

// pubKeyLenOK: key is a parameter, or has a dominating len==32 test (phi: on every incoming edge).
func (p *Prog) pubKeyLenOK(k ssa.Value, gs []guard, depth int) (bool, string) {
	if depth > 3 {
		return false, "key provenance too deep"
	}
	uk := unwrap(k)
	if lenGuardIn(p, gs, k, 32) || lenGuardIn(p, gs, uk, 32) {
		return true, "len(key)==32 tested on every path"
	}
	if _, isP := uk.(*ssa.Parameter); isP {
		// a key that a verifier looked up for the id the presented token announces is not under the
		// presenter's control, but which entry is used is: a wrong-sized entry must yield an error, not a panic
		return false, "the caller-supplied key " + shortD(k) + " reaches ed25519.Verify without a length test (a key of another size - one bad entry of a key map, selected by the id the token announces - panics)"
	}
	if ph, isPhi := uk.(*ssa.Phi); isPhi {
		for i, e := range ph.Edges {
			pred := ph.Block().Preds[i]
			if ok, why := p.pubKeyLenOK(e, guardsOnEdge(pred, ph.Block()), depth+1); !ok {
				return false, fmt.Sprintf("incoming value %s of the current-key variable: %s", shortD(e), why)
			}
		}
		return true, "every value the current-key variable can hold is a parameter or was length-tested"
	}
	return false, "no dominating len(key)==32 test for " + shortD(k)
}

func intWidth(p *Prog, t types.Type) (bits int64, signed bool, ok bool) {
	b, isB := t.Underlying().(*types.Basic)
	if !isB || b.Info()&types.IsInteger == 0 {
		return 0, false, false
	}
	return p.sizes.Sizeof(t) * 8, b.Info()&types.IsUnsigned == 0, true
}

// feedsIndex: does v (through arithmetic) reach an index or slice bound?
func feedsIndex(v ssa.Value, depth int) (bool, ssa.Instruction) {
	if depth > 4 || v.Referrers() == nil {
		return false, nil
	}
	for _, ref := range *v.Referrers() {
		switch x := ref.(type) {
		case *ssa.IndexAddr:
			if x.Index == v {
				return true, x
			}
		case *ssa.Index:
			if x.Index == v {
				return true, x
			}
		case *ssa.Slice:
			if x.Low == v || x.High == v || x.Max == v {
				return true, x
			}
		case *ssa.MakeSlice:
			if x.Len == v || x.Cap == v {
				return true, x
			}
		case *ssa.BinOp:
			switch x.Op {
			case token.ADD, token.SUB, token.MUL, token.QUO, token.REM:
				if ok, at := feedsIndex(x, depth+1); ok {
					return true, at
				}
			}
		case *ssa.Convert:
			if ok, at := feedsIndex(x, depth+1); ok {
				return true, at
			}
		}
	}
	return false, nil
}

// boundedBefore: a dominating comparison bounds src (pre-conversion value) from above in its own domain.
func boundedBefore(p *Prog, blk *ssa.BasicBlock, src ssa.Value) bool {
	d := p.D(stripLossless(p, src))
	for _, g := range guardsOf(blk) {
		bo, ok := g.cond.(*ssa.BinOp)
		if !ok {
			continue
		}
		lhs, rhs := p.D(stripLossless(p, bo.X)), p.D(stripLossless(p, bo.Y))
		switch {
		case lhs == d && ((bo.Op == token.LSS || bo.Op == token.LEQ) == g.val) && (bo.Op == token.LSS || bo.Op == token.LEQ || bo.Op == token.GEQ || bo.Op == token.GTR):
			if upperOK(bo.Y) {
				return true
			}
		case rhs == d && ((bo.Op == token.GTR || bo.Op == token.GEQ) == g.val) && (bo.Op == token.LSS || bo.Op == token.LEQ || bo.Op == token.GEQ || bo.Op == token.GTR):
			if upperOK(bo.X) {
				return true
			}
		}
	}
	return false
}

// upperOK: the bound is a constant, a (converted) len(...), or len(...) +/- constant.
func upperOK(v ssa.Value) bool {
	if _, ok := constInt(v); ok {
		return true
	}
	if c, ok := v.(*ssa.Convert); ok {
		v = c.X
	}
	if bo, ok := v.(*ssa.BinOp); ok && (bo.Op == token.SUB || bo.Op == token.ADD) {
		if _, isC := constInt(bo.Y); isC {
			return upperOK(bo.X)
		}
	}
	if c, ok := v.(*ssa.Call); ok {
		if b, isB := c.Call.Value.(*ssa.Builtin); isB && b.Name() == "len" {
			return true
		}
	}
	return false
}

// lowerBounded: a signed index source is proved non-negative: src (or X where src = X - K)
// is compared with a constant C >= K on the side where it is >= C.
func lowerBounded(p *Prog, blk *ssa.BasicBlock, src ssa.Value) bool {
	cands := map[string]int64{p.D(src): 0}
	if bo, ok := src.(*ssa.BinOp); ok && bo.Op == token.SUB {
		if k, isC := constInt(bo.Y); isC {
			cands[p.D(bo.X)] = k
		}
	}
	for _, g := range guardsOf(blk) {
		bo, ok := g.cond.(*ssa.BinOp)
		if !ok {
			continue
		}
		c, isC := constInt(bo.Y)
		if !isC {
			continue
		}
		k, isCand := cands[p.D(bo.X)]
		if !isCand {
			continue
		}
		switch {
		case bo.Op == token.LSS && !g.val && c >= k: // !(x < c)  => x >= c
			return true
		case bo.Op == token.GEQ && g.val && c >= k:
			return true
		case bo.Op == token.GTR && g.val && c+1 >= k:
			return true
		case bo.Op == token.LEQ && !g.val && c+1 >= k:
			return true
		}
	}
	return false
}

func rulePNIndex(p *Prog, r *Reporter) {
	globalP = p
	n := 0
	for _, fn := range p.funcsIn("biscuit", "datalog") {
		name := p.FuncName(fn)
		for _, b := range fn.Blocks {
			for _, in := range b.Instrs {
				cv, ok := in.(*ssa.Convert)
				if !ok {
					continue
				}
				sb, ss, ok1 := intWidth(p, cv.X.Type())
				db, ds, ok2 := intWidth(p, cv.Type())
				if !ok1 || !ok2 {
					continue
				}
				lossy := (sb > db) || (sb == db && !ss && ds)
				if !lossy {
					continue
				}
				feeds, at := feedsIndex(cv, 0)
				if !feeds {
					continue
				}
				n++
				construct := shortType(cv.Type()) + "(" + shortD(cv.X) + ") -> index"
				okB := boundedBefore(p, b, cv.X)
				r.Check(okB, p.instrPos(cv), name, construct,
					"source value bounded by a dominating comparison in its own (unsigned/wider) domain before the conversion",
					fmt.Sprintf("%d-bit %s converted to %d-bit int and used as an index at %s with no dominating bound on the unconverted value: a huge symbol/variable id from a token becomes a negative or wrapped index (panic)", sb, shortType(cv.X.Type()), db, p.instrPos(at)))
			}
		}
	}
	if n == 0 {
		r.Note("no lossy conversion feeds an index under this configuration")
	}
	// symbol-table lookups: every non-constant index into the table / the default symbols is proved in range
	st := p.NamedType("datalog", "SymbolTable")
	nIdx := 0
	for _, f := range p.funcsIn("datalog") {
		if f.Signature.Recv() == nil || st == nil || !types.Identical(deref(f.Signature.Recv().Type()), st) {
			continue
		}
		rls := rangeLoops(f)
		for _, b := range f.Blocks {
			for _, in := range b.Instrs {
				ia, ok := in.(*ssa.IndexAddr)
				if !ok {
					continue
				}
				if _, isConst := constInt(ia.Index); isConst {
					continue
				}
				isRange := false
				for _, rl := range rls {
					if ia.Index == ssa.Value(rl.incr) && (ia.X == rl.seq || sameSeq(ia.X, rl.seq)) {
						isRange = true
					}
					// the counter of a full-range loop over S indexes a slice made with len(S) elements (or more)
					if ia.Index == ssa.Value(rl.incr) {
						if mk, isMk := unwrap(ia.X).(*ssa.MakeSlice); isMk && !rl.body[mk.Block()] {
							ld := p.D(mk.Len)
							sd := p.D(rl.seq)
							if ld == "len("+sd+")" || strings.HasPrefix(ld, "(len("+sd+")+") {
								isRange = true
							}
							// make(T, len(S)-k) indexed by the counter of a loop over S[k:]
							if sl, isSl := rl.seq.(*ssa.Slice); isSl && sl.High == nil && sl.Low != nil {
								if ld == "(len("+p.D(sl.X)+")-"+p.D(sl.Low)+")" || ld == "(len("+p.D(sl.X)+")-"+p.D(sl.Low)+":int)" {
									isRange = true
								}
							}
						}
					}
				}
				if isRange {
					continue
				}
				nIdx++
				ok2, why := indexInRange(p, b, ia)
				r.Check(ok2, p.instrPos(ia), p.FuncName(f), "index "+normaliseD(shortD(ia.Index))+" into "+normaliseD(shortD(ia.X)), "dominated by a strict upper bound against the length of the indexed sequence (and a lower bound if signed)", why)
			}
		}
	}
	if nIdx < 2 {
		r.Dunno("datalog/symbol.go", "datalog.SymbolTable", "symbol lookups", fmt.Sprintf("only %d computed table indexes found in SymbolTable methods (expected the Str/Var lookups)", nIdx))
	}
}

func stripAllConv(v ssa.Value) ssa.Value {
	for {
		switch x := v.(type) {
		case *ssa.Convert:
			v = x.X
		case *ssa.ChangeType:
			v = x.X
		default:
			return v
		}
	}
}

// indexInRange: a dominating guard proves index < len(sequence) (strictly), plus >= 0 for signed sources.
func indexInRange(p *Prog, blk *ssa.BasicBlock, ia *ssa.IndexAddr) (bool, string) {
	src := stripAllConv(ia.Index)
	srcD := p.D(src)
	var constLen int64 = -1
	lenD := ""
	if arr, ok := deref(ia.X.Type()).Underlying().(*types.Array); ok {
		constLen = arr.Len()
	} else {
		lenD = "len(" + p.D(ia.X) + ")"
	}
	upper := false
	for _, g := range guardsOf(blk) {
		bo, ok := g.cond.(*ssa.BinOp)
		if !ok {
			continue
		}
		op := bo.Op
		if !g.val {
			switch op {
			case token.LSS:
				op = token.GEQ
			case token.LEQ:
				op = token.GTR
			case token.GTR:
				op = token.LEQ
			case token.GEQ:
				op = token.LSS
			default:
				continue
			}
		}
		l, rr := stripAllConv(bo.X), stripAllConv(bo.Y)
		// normalise to: idx OP bound
		if p.D(rr) == srcD {
			l, rr = rr, l
			switch op {
			case token.LSS:
				op = token.GTR
			case token.LEQ:
				op = token.GEQ
			case token.GTR:
				op = token.LSS
			case token.GEQ:
				op = token.LEQ
			}
		}
		if p.D(l) != srcD {
			continue
		}
		switch op {
		case token.LSS:
			if lenD != "" && p.D(rr) == lenD {
				upper = true
			}
			if k, isC := constInt(rr); isC && constLen >= 0 && k <= constLen {
				upper = true
			}
		case token.LEQ:
			if sub, isB := rr.(*ssa.BinOp); isB && sub.Op == token.SUB {
				if k, isC := constInt(sub.Y); isC && k >= 1 && lenD != "" && p.D(stripAllConv(sub.X)) == lenD {
					upper = true
				}
			}
			if k, isC := constInt(rr); isC && constLen >= 0 && k <= constLen-1 {
				upper = true
			}
		}
	}
	if !upper {
		return false, "index " + shortD(ia.Index) + " is not dominated by a strict upper bound against the length of " + shortD(ia.X) + " (off-by-one or missing bound: a crafted symbol id panics with index out of range)"
	}
	if _, signed, isInt := intWidth(p, src.Type()); isInt && signed && !lowerBounded(p, blk, src) {
		return false, "signed index " + shortD(ia.Index) + " has no dominating lower bound (may be negative)"
	}
	return true, ""
}

// indexSource strips conversions from an index expression to the value that must be bounded.
func indexSource(v ssa.Value) ssa.Value {
	for {
		c, ok := v.(*ssa.Convert)
		if !ok {
			return v
		}
		v = c.X
	}
}

func rulePNDiv(p *Prog, r *Reporter) {
	globalP = p
	for _, fn := range p.funcsIn("biscuit", "datalog", "parser") {
		name := p.FuncName(fn)
		for _, b := range fn.Blocks {
			for _, in := range b.Instrs {
				bo, ok := in.(*ssa.BinOp)
				if !ok || (bo.Op != token.QUO && bo.Op != token.REM) {
					continue
				}
				if _, _, isInt := intWidth(p, bo.X.Type()); !isInt {
					continue
				}
				if c, isC := constInt(bo.Y); isC && c != 0 {
					continue
				}
				okG := false
				for _, g := range guardsOf(b) {
					c, isB := g.cond.(*ssa.BinOp)
					if !isB {
						continue
					}
					if c.X == bo.Y || p.D(c.X) == p.D(bo.Y) {
						if z, isC := constInt(c.Y); isC && z == 0 && ((c.Op == token.EQL && !g.val) || (c.Op == token.NEQ && g.val)) {
							okG = true
						}
					}
				}
				r.Check(okG, p.instrPos(bo), name, "integer "+bo.Op.String()+" by "+shortD(bo.Y), "divisor tested != 0 on every path", "integer division without a dominating zero test of the divisor (run-time panic)")
			}
		}
	}
}

func rulePNExplicit(p *Prog, r *Reporter) {
	globalP = p
	reach := p.reachE()
	for _, fn := range sortedFuncs(p, reach) {
		name := p.FuncName(fn)
		for _, b := range fn.Blocks {
			for _, in := range b.Instrs {
				pn, ok := in.(*ssa.Panic)
				if !ok {
					continue
				}
				if s, isS := constString(pn.X); isS && s == "blocking select matched no case" {
					continue // compiler-generated, unreachable
				}
				pos := p.instrPos(pn)
				if !pn.Pos().IsValid() {
					continue // synthesised by go/ssa (no source panic call)
				}
				recvName := ""
				if fn.Signature.Recv() != nil {
					if n, isN := deref(fn.Signature.Recv().Type()).(*types.Named); isN {
						recvName = n.Obj().Name()
					}
				}
				if p.pkgShort(fn) == "biscuit" && fn.Name() == "convert" && (recvName == "UnaryOp" || recvName == "BinaryOp") {
					ok, why := p.convertDefaultUnreachable(fn, recvName)
					r.Check(ok, pos, name, "panic in default clause", why, "panic reachable from token content: "+why)
					continue
				}
				r.Bad(pos, name, "panic(...)", "explicit panic reachable from a token entry point and not covered by a totality argument")
			}
		}
	}
	// the two convert methods must exist (instance floor)
	for _, rn := range []string{"UnaryOp", "BinaryOp"} {
		if p.Func("biscuit", rn, "convert") == nil {
			r.Dunno("?", "biscuit."+rn+".convert", "anchor", "method not found")
		}
	}
}

// convertDefaultUnreachable: every operator constant that fromDatalog<Kind> can produce from a token
// has a case clause in <Kind>.convert, so its panicking default clause is unreachable for token content.
func (p *Prog) convertDefaultUnreachable(conv *ssa.Function, kind string) (bool, string) {
	from := p.Func("biscuit", "", "fromDatalog"+kind)
	if from == nil {
		return false, "fromDatalog" + kind + " not found"
	}
	produced := map[string]bool{}
	for _, ret := range returnsOf(from) {
		if !isNilConst(retVal(ret, 1)) {
			continue // error path
		}
		c, ok := unwrap(retVal(ret, 0)).(*ssa.Const)
		if !ok || c.Value == nil {
			return false, "fromDatalog" + kind + " returns a non-constant operator on a success path"
		}
		produced[c.Value.ExactString()] = true
	}
	cases := switchCases(conv, conv.Params[0])
	// clauses written as an if chain or as a lookup table keyed by the operator constants
	for _, tb := range p.switchTables(conv) {
		if tb.isType {
			continue
		}
		for _, e := range tb.entries {
			for _, c := range e.consts {
				cases[c.Val().ExactString()] = true
			}
		}
	}
	var missing []string
	for v := range produced {
		if !cases[v] {
			missing = append(missing, v)
		}
	}
	sort.Strings(missing)
	if len(missing) > 0 {
		return false, "operator value(s) " + strings.Join(missing, ",") + " produced from tokens by fromDatalog" + kind + " have no case in convert"
	}
	return true, fmt.Sprintf("all %d operator values that fromDatalog%s can produce from a token have a case clause; the default clause is unreachable for token content", len(produced), kind)
}

// switchCases collects the constants a value is compared with (==) in fn.
func switchCases(fn *ssa.Function, tag ssa.Value) map[string]bool {
	out := map[string]bool{}
	for _, b := range fn.Blocks {
		for _, in := range b.Instrs {
			bo, ok := in.(*ssa.BinOp)
			if !ok || bo.Op != token.EQL {
				continue
			}
			if unwrap(bo.X) == tag || bo.X == tag {
				if c, isC := bo.Y.(*ssa.Const); isC && c.Value != nil {
					out[c.Value.ExactString()] = true
				}
			}
		}
	}
	return out
}

// stripLossless removes integer conversions that preserve the value on the analysed architecture.
func stripLossless(p *Prog, v ssa.Value) ssa.Value {
	for {
		c, ok := v.(*ssa.Convert)
		if !ok {
			return v
		}
		sb, ss, ok1 := intWidth(p, c.X.Type())
		db, ds, ok2 := intWidth(p, c.Type())
		if !ok1 || !ok2 {
			return v
		}
		lossless := (ss == ds && db >= sb) || (!ss && ds && db > sb)
		if !lossless {
			return v
		}
		v = c.X
	}
}

func rulePNConstIndex(p *Prog, r *Reporter) {
	globalP = p
	for _, fn := range p.funcsIn("biscuit", "datalog", "parser") {
		name := p.FuncName(fn)
		for _, b := range fn.Blocks {
			for _, in := range b.Instrs {
				var seq ssa.Value
				var need int64 = -1
				switch x := in.(type) {
				case *ssa.IndexAddr:
					if _, isSlice := x.X.Type().Underlying().(*types.Slice); isSlice {
						if k, ok := constInt(x.Index); ok {
							seq, need = x.X, k+1
						}
					}
				case *ssa.Index:
					if _, isStr := x.X.Type().Underlying().(*types.Basic); isStr {
						if k, ok := constInt(x.Index); ok {
							seq, need = x.X, k+1
						}
					}
				case *ssa.Slice:
					switch x.X.Type().Underlying().(type) {
					case *types.Slice, *types.Basic:
						for _, bnd := range []ssa.Value{x.Low, x.High} {
							if bnd == nil {
								continue
							}
							if k, ok := constInt(bnd); ok && k > 0 && k+0 > need {
								seq, need = x.X, k
							}
						}
					}
				}
				if seq == nil || need <= 0 {
					continue
				}
				// fresh buffers of known size
				if mk, ok := unwrap(seq).(*ssa.MakeSlice); ok {
					if n, isC := constInt(mk.Len); isC && n >= need {
						continue
					}
				}
				if sl, ok := seq.(*ssa.Slice); ok {
					if a, isA := sl.X.(*ssa.Alloc); isA {
						if arr, isArr := deref(a.Type()).Underlying().(*types.Array); isArr && arr.Len() >= need {
							continue
						}
					}
				}
				// participle's Capture contract: called with the (non-empty) list of captured token values
				if pa, isP := seq.(*ssa.Parameter); isP && fn.Name() == "Capture" && need == 1 && pa == fn.Params[len(fn.Params)-1] {
					r.OK(p.instrPos(in), name, "constant index 0 on "+pa.Name(), "participle contract: Capture receives at least one token value")
					continue
				}
				lenD := "len(" + p.D(seq) + ")"
				ok := false
				for _, g := range guardsOf(b) {
					bo, isB := g.cond.(*ssa.BinOp)
					if !isB || p.D(bo.X) != lenD {
						continue
					}
					k, isC := constInt(bo.Y)
					if !isC {
						continue
					}
					op := bo.Op
					val := g.val
					switch {
					case op == token.EQL && val && k >= need, op == token.NEQ && !val && k >= need:
						ok = true
					case op == token.GEQ && val && k >= need, op == token.GTR && val && k+1 >= need:
						ok = true
					case op == token.LSS && !val && k >= need, op == token.LEQ && !val && k+1 >= need:
						ok = true
					case op == token.EQL && !val && k == 0 && need == 1, op == token.NEQ && val && k == 0 && need == 1:
						ok = true
					}
				}
				// strings.HasPrefix(s, "lit") proves len(s) >= len(lit)
				for _, g := range guardsOf(b) {
					if c, isC := g.cond.(*ssa.Call); isC && g.val && isCallTo(&c.Call, "strings.HasPrefix") && p.D(c.Call.Args[0]) == p.D(seq) {
						if lit, isS := constString(c.Call.Args[1]); isS && int64(len(lit)) >= need {
							ok = true
						}
					}
				}
				r.Check(ok, p.instrPos(in), name, fmt.Sprintf("constant index/bound %d on %s", need-1, normaliseD(shortD(seq))), "dominated by a length test that covers the constant", fmt.Sprintf("%s is indexed/sliced with a constant although its length is not known to be at least %d on this path (an empty or short value from a token or caller panics)", shortD(seq), need))
			}
		}
	}
}

func rulePNClose(p *Prog, r *Reporter) {
	globalP = p
	n := 0
	for _, fn := range p.funcsIn("biscuit", "datalog", "parser") {
		type cl struct {
			in       ssa.Instruction
			deferred bool
			ch       string
		}
		var closes []cl
		for _, b := range fn.Blocks {
			for _, in := range b.Instrs {
				c, ok := in.(ssa.CallInstruction)
				if !ok {
					continue
				}
				bi, isB := c.Common().Value.(*ssa.Builtin)
				if !isB || bi.Name() != "close" {
					// a deferred function literal / helper that closes a channel of this function
					if d, isD := in.(*ssa.Defer); isD {
						for _, ch := range deferredCloses(p, d) {
							closes = append(closes, cl{in, true, ch})
						}
					}
					continue
				}
				_, def := in.(*ssa.Defer)
				closes = append(closes, cl{in, def, p.D(unwrap(c.Common().Args[0]))})
			}
		}
		byCh := map[string][]cl{}
		for _, c := range closes {
			byCh[c.ch] = append(byCh[c.ch], c)
		}
		for ch, cs := range byCh {
			n++
			bad := ""
			nDef := 0
			for _, c := range cs {
				if c.deferred {
					nDef++
				}
				for _, l := range naturalLoops(fn) {
					if l.body[c.in.Block()] {
						bad = "close inside a loop"
					}
				}
			}
			if nDef > 1 {
				bad = "two deferred closes"
			}
			if nDef >= 1 && len(cs) > nDef {
				bad = "an explicit close on a path that also runs the deferred close at return"
			}
			if nDef == 0 && len(cs) > 1 {
				// several explicit closes: must be on mutually exclusive paths
				for i := range cs {
					for j := range cs {
						if i != j && reachAvoiding(cs[i].in.Block(), cs[j].in.Block(), nil) {
							bad = "two closes on one path"
						}
					}
				}
			}
			r.Check(bad == "", p.instrPos(cs[0].in), p.FuncName(fn), "close("+normaliseD(ch)+")", "closed at most once on every path", "channel "+ch+" can be closed twice ("+bad+"): 'close of closed channel' panics, on a library goroutine it kills the process")
		}
	}
	if n == 0 {
		r.Bad("?", "datalog", "close sites", "no channel close found (the rule-body producer and Apply's stop channel are expected)")
	}
}

// underOneof: struct types of package pb that are (transitively) reachable through a
// message-typed member of a oneof. Their `required` fields are not enforced by the decoder.
func (p *Prog) underOneof() map[*types.Struct]bool {
	if p.oneofCache != nil {
		return p.oneofCache
	}
	out := map[*types.Struct]bool{}
	pk := p.Pkgs["pb"]
	if pk == nil {
		p.oneofCache = out
		return out
	}
	msgOf := func(t types.Type) *types.Struct {
		for {
			switch u := t.(type) {
			case *types.Pointer:
				t = u.Elem()
				continue
			case *types.Slice:
				t = u.Elem()
				continue
			}
			break
		}
		n, ok := t.(*types.Named)
		if !ok || n.Obj().Pkg() == nil || n.Obj().Pkg() != pk.Types {
			return nil
		}
		st, _ := n.Underlying().(*types.Struct)
		return st
	}
	var mark func(st *types.Struct)
	mark = func(st *types.Struct) {
		if st == nil || out[st] {
			return
		}
		out[st] = true
		for i := 0; i < st.NumFields(); i++ {
			if !strings.Contains(st.Tag(i), "protobuf:") && !strings.Contains(st.Tag(i), "protobuf_oneof:") {
				continue
			}
			if strings.Contains(st.Tag(i), "protobuf_oneof:") {
				continue // members are found through their wrapper types below
			}
			mark(msgOf(st.Field(i).Type()))
		}
	}
	sc := pk.Types.Scope()
	// oneof wrappers: single-field structs whose tag ends in ",oneof"
	var wrappers []*types.Struct
	for _, nm := range sc.Names() {
		tn, ok := sc.Lookup(nm).(*types.TypeName)
		if !ok {
			continue
		}
		st, ok := tn.Type().Underlying().(*types.Struct)
		if !ok || st.NumFields() != 1 || !strings.Contains(st.Tag(0), ",oneof") {
			continue
		}
		wrappers = append(wrappers, st)
	}
	for _, w := range wrappers {
		mark(msgOf(w.Field(0).Type()))
	}
	// a message that holds a oneof whose member is marked is itself only as trustworthy as
	// its own position; nothing to add. Iterate: messages nested under marked ones were marked by mark().
	p.oneofCache = out
	p.oneofWrappers = len(wrappers)
	return out
}

// pbMsgOf: the struct of the generated message type behind pointers / slices, or nil.
func pbMsgOf(t types.Type) *types.Struct {
	for {
		switch u := t.(type) {
		case *types.Pointer:
			t = u.Elem()
			continue
		case *types.Slice:
			t = u.Elem()
			continue
		}
		break
	}
	n, ok := t.(*types.Named)
	if !ok || n.Obj().Pkg() == nil || n.Obj().Pkg().Name() != "pb" {
		return nil
	}
	st, _ := n.Underlying().(*types.Struct)
	return st
}

// rulePNOptPtr: *x.f where f is a pointer-to-scalar field of a repository struct (not generated code).
func rulePNOptPtr(p *Prog, r *Reporter) {
	globalP = p
	for _, fn := range p.funcsIn("biscuit", "datalog", "parser") {
		name := p.FuncName(fn)
		for _, b := range fn.Blocks {
			for _, in := range b.Instrs {
				u, ok := in.(*ssa.UnOp)
				if !ok || u.Op != token.MUL {
					continue
				}
				// u = *f(...) where f hands out one of those optional pointers
				if cv, isCall := u.X.(*ssa.Call); isCall {
					cal := cv.Call.StaticCallee()
					pt, isPtr := cv.Type().Underlying().(*types.Pointer)
					if cal == nil || !isPtr || !p.isRepoFunc(cal) || cal.Blocks == nil {
						continue
					}
					if _, isBasic := pt.Elem().Underlying().(*types.Basic); !isBasic {
						continue
					}
					fresh := true
					for _, ret := range returnsOf(cal) {
						if _, isA := unwrap(retVal(ret, 0)).(*ssa.Alloc); !isA {
							fresh = false
						}
					}
					if fresh {
						continue
					}
					okG := false
					for _, g := range guardsOf(b) {
						if bo, isB := g.cond.(*ssa.BinOp); isB && (isNilConst(bo.X) || isNilConst(bo.Y)) && ((bo.Op == token.NEQ) == g.val) {
							x := bo.X
							if isNilConst(x) {
								x = bo.Y
							}
							if x == ssa.Value(cv) || p.D(x) == p.D(cv) {
								okG = true
							}
						}
					}
					r.Check(okG, p.instrPos(u), name, "dereference of "+cal.Name()+"()", "under a nil test of the returned pointer", "the optional pointer returned by "+p.FuncName(cal)+" is dereferenced without a nil test: when the field was never set (the sender decides) this is a nil-pointer panic instead of the error the caller expects")
					continue
				}
				// u = *ptr ; ptr = *(&x.f)
				ld, ok := u.X.(*ssa.UnOp)
				if !ok || ld.Op != token.MUL {
					continue
				}
				fa, ok := ld.X.(*ssa.FieldAddr)
				if !ok {
					continue
				}
				pt, ok := ld.Type().Underlying().(*types.Pointer)
				if !ok {
					continue
				}
				if _, isBasic := pt.Elem().Underlying().(*types.Basic); !isBasic {
					continue
				}
				owner, isN := deref(fa.X.Type()).(*types.Named)
				if !isN || owner.Obj().Pkg() == nil || owner.Obj().Pkg().Name() == "pb" || shortNames[owner.Obj().Pkg().Path()] == "" {
					continue
				}
				construct := "dereference of " + owner.Obj().Name() + "." + fieldName(fa)
				d := p.D(ld)
				okG := nilGuard(p, b, d, false)
				if !okG {
					// `if v := x.f; v != nil { *v }`: the guard is on this very load
					for _, g := range guardsOf(b) {
						if bo, isB := g.cond.(*ssa.BinOp); isB && (bo.X == ssa.Value(ld) || bo.Y == ssa.Value(ld)) && (isNilConst(bo.X) || isNilConst(bo.Y)) && ((bo.Op == token.NEQ) == g.val) {
							okG = true
						}
					}
				}
				// a field this function has just set from an address (x.f = &v) is not optional here
				if !okG {
					if al, isA := fa.X.(*ssa.Alloc); isA {
						if v, set := litFields(al)[fieldName(fa)]; set {
							if _, isAddr := v.(*ssa.Alloc); isAddr {
								okG = true
							}
						}
					}
				}
				// grammar nodes: a field that is a mandatory capture (`@Token`, no ?, *, | around it) is set by every successful parse
				if !okG && owner.Obj().Pkg().Name() == "parser" {
					if st, isS := owner.Underlying().(*types.Struct); isS {
						if mandatoryCapture.MatchString(strings.TrimSpace(st.Tag(fa.Field))) {
							r.OK(p.instrPos(u), name, construct, "mandatory capture of the grammar: set by every successful parse")
							continue
						}
					}
				}
				r.Check(okG, p.instrPos(u), name, construct, "under a nil test of that field", "an optional pointer field is dereferenced without a nil test: when it was never set (no option given) this is a nil-pointer panic instead of the error or result the caller expects")
			}
		}
	}
}

var mandatoryCapture = regexp.MustCompile("^@(@|[A-Za-z]+)$")

// ---- PN-SLICE: computed slice bounds

// nonNegative: v >= 0 on every path to blk, by provenance.
func (p *Prog) nonNegative(v ssa.Value, blk *ssa.BasicBlock, depth int, seen map[ssa.Value]bool) bool {
	if depth > 6 || seen[v] {
		return false
	}
	seen[v] = true
	defer delete(seen, v)
	if k, ok := constInt(v); ok {
		return k >= 0
	}
	// a dominating comparison of the value itself with zero: v < 0 excluded, v >= 0 established
	for _, g := range guardsOf(blk) {
		bo, ok := g.cond.(*ssa.BinOp)
		if !ok || (bo.X != v && p.D(bo.X) != p.D(v)) {
			continue
		}
		if k, isK := constInt(bo.Y); isK {
			switch {
			case bo.Op == token.LSS && k == 0 && !g.val, bo.Op == token.GEQ && k == 0 && g.val, bo.Op == token.GTR && k == -1 && g.val, bo.Op == token.LEQ && k == -1 && !g.val:
				return true
			}
		}
	}
	switch x := v.(type) {
	case *ssa.Call:
		if b, ok := x.Call.Value.(*ssa.Builtin); ok && (b.Name() == "len" || b.Name() == "cap" || b.Name() == "copy") {
			return true
		}
		// a method whose every result is non-negative (Len)
		if f := x.Call.StaticCallee(); f != nil && p.isRepoFunc(f) && f.Blocks != nil && f.Signature.Results().Len() == 1 {
			for _, ret := range returnsOf(f) {
				if !p.nonNegative(retVal(ret, 0), ret.Block(), depth+1, seen) {
					return false
				}
			}
			return true
		}
	case *ssa.Convert:
		// widening of an unsigned or of a non-negative value
		if bt, ok := x.X.Type().Underlying().(*types.Basic); ok && bt.Info()&types.IsUnsigned != 0 {
			sw, _, _ := intWidth(p, x.X.Type())
			dw, _, _ := intWidth(p, x.Type())
			return sw < dw
		}
		return p.nonNegative(x.X, blk, depth+1, seen)
	case *ssa.Phi:
		for i, e := range x.Edges {
			if !p.nonNegative(e, x.Block().Preds[i], depth+1, seen) {
				return false
			}
		}
		return true
	case *ssa.BinOp:
		switch x.Op {
		case token.ADD, token.MUL:
			// (no overflow reasoning: operands are lengths and counters)
			return p.nonNegative(x.X, blk, depth+1, seen) && p.nonNegative(x.Y, blk, depth+1, seen)
		case token.SUB:
			// a - b with a dominating a >= b (or, for constant b, a guard on a)
			for _, g := range guardsOf(blk) {
				bo, ok := g.cond.(*ssa.BinOp)
				if !ok {
					continue
				}
				sameXY := p.D(bo.X) == p.D(x.X) && p.D(bo.Y) == p.D(x.Y)
				sameYX := p.D(bo.X) == p.D(x.Y) && p.D(bo.Y) == p.D(x.X)
				switch {
				case sameXY && ((bo.Op == token.GEQ && g.val) || (bo.Op == token.GTR && g.val) || (bo.Op == token.LSS && !g.val)):
					return true
				case sameYX && ((bo.Op == token.LEQ && g.val) || (bo.Op == token.LSS && g.val) || (bo.Op == token.GTR && !g.val)):
					return true
				}
				// constant subtrahend k: guard a >= k, a > k-1, a != 0 / a == 0 false (k == 1, a non-negative)
				if k, isK := constInt(x.Y); isK && k >= 0 && p.D(bo.X) == p.D(x.X) {
					if c, isC := constInt(bo.Y); isC {
						switch {
						case bo.Op == token.GEQ && g.val && c >= k, bo.Op == token.GTR && g.val && c+1 >= k, bo.Op == token.LSS && !g.val && c >= k, bo.Op == token.LEQ && !g.val && c+1 >= k:
							return true
						case k == 1 && c == 0 && ((bo.Op == token.EQL && !g.val) || (bo.Op == token.NEQ && g.val)) && p.nonNegative(x.X, blk, depth+1, seen):
							return true
						}
					}
				}
			}
			return false
		}
	case *ssa.UnOp:
		if x.Op != token.MUL {
			return false
		}
		// load of a struct field: every store to that field in the repository is non-negative
		if fa, ok := x.X.(*ssa.FieldAddr); ok {
			owner := deref(fa.X.Type())
			n := 0
			for _, fn := range p.Funcs {
				for _, b := range fn.Blocks {
					for _, in := range b.Instrs {
						st, isSt := in.(*ssa.Store)
						if !isSt {
							continue
						}
						fa2, isFA := st.Addr.(*ssa.FieldAddr)
						if !isFA || fa2.Field != fa.Field || !types.Identical(deref(fa2.X.Type()), owner) {
							continue
						}
						n++
						if !p.nonNegative(st.Val, b, depth+1, seen) {
							return false
						}
					}
				}
			}
			return n > 0
		}
		// spilled local
		if a, ok := x.X.(*ssa.Alloc); ok {
			sts := storesInto(a)
			for _, st := range sts {
				if st.Addr != ssa.Value(a) || !p.nonNegative(st.Val, st.Block(), depth+1, seen) {
					return false
				}
			}
			return len(sts) > 0
		}
	case *ssa.Parameter:
		// every call site in the repository passes a non-negative value
		fn := x.Parent()
		idx := -1
		for i, pr := range fn.Params {
			if pr == x {
				idx = i
			}
		}
		n := 0
		for _, caller := range p.Funcs {
			for _, c := range callsIn(caller) {
				if c.Common().StaticCallee() != fn {
					continue
				}
				args := callArgs(c.Common())
				if idx < 0 || idx >= len(args) {
					return false
				}
				n++
				if !p.nonNegative(args[idx], c.Block(), depth+1, seen) {
					return false
				}
			}
		}
		return n > 0
	}
	// loop counters of range loops
	if bo, ok := v.(*ssa.BinOp); ok && bo.Op == token.ADD {
		return false
	}
	return false
}

func rulePNSlice(p *Prog, r *Reporter) {
	globalP = p
	for _, fn := range p.funcsIn("biscuit", "datalog", "parser") {
		name := p.FuncName(fn)
		for _, b := range fn.Blocks {
			for _, in := range b.Instrs {
				sl, ok := in.(*ssa.Slice)
				if !ok {
					continue
				}
				seqD := p.D(sl.X)
				if _, isPtrArr := sl.X.Type().Underlying().(*types.Pointer); isPtrArr {
					seqD = strings.TrimPrefix(seqD, "&")
				}
				for bi, bnd := range []ssa.Value{sl.Low, sl.High, sl.Max} {
					if bnd == nil {
						continue
					}
					if _, isC := constInt(bnd); isC {
						continue // PN-CONSTINDEX
					}
					which := []string{"low", "high", "max"}[bi]
					construct := which + " bound of " + normaliseD(shortD(sl.X))
					d := p.D(bnd)
					// upper: bound <= len(seq) (cap for max)
					upper := d == "len("+seqD+")" || d == "cap("+seqD+")"
					if bo, isB := bnd.(*ssa.BinOp); isB && bo.Op == token.SUB {
						if k, isK := constInt(bo.Y); isK && k >= 0 && (p.D(bo.X) == "len("+seqD+")") {
							upper = true
						}
					}
					for _, g := range guardsOf(b) {
						bo, isB := g.cond.(*ssa.BinOp)
						if !isB {
							continue
						}
						lenD := "len(" + seqD + ")"
						if p.D(bo.X) == d && p.D(bo.Y) == lenD && ((bo.Op == token.GTR && !g.val) || (bo.Op == token.LEQ && g.val) || (bo.Op == token.LSS && g.val) || (bo.Op == token.GEQ && !g.val)) {
							upper = true
						}
						if p.D(bo.Y) == d && p.D(bo.X) == lenD && ((bo.Op == token.LSS && !g.val) || (bo.Op == token.GEQ && g.val) || (bo.Op == token.GTR && g.val) || (bo.Op == token.LEQ && !g.val)) {
							upper = true
						}
					}
					lower := p.nonNegative(bnd, b, 0, map[ssa.Value]bool{})
					switch {
					case upper && lower:
						r.OK(p.instrPos(sl), name, construct, "0 <= "+shortD(bnd)+" <= length: non-negative by provenance and tested against the length")
					case !lower:
						r.Bad(p.instrPos(sl), name, construct, "the computed bound "+shortD(bnd)+" is not known to be non-negative (a difference without a dominating comparison, or a value of unknown origin): content of a token or an unusual history makes the slice expression panic")
					default:
						r.Bad(p.instrPos(sl), name, construct, "the computed bound "+shortD(bnd)+" is not tested against the length of the sliced value: it can exceed it and panic")
					}
				}
			}
		}
	}
}

// deferredCloses: descriptions (in the deferring function's terms) of the channels closed by the function deferred by d.
func deferredCloses(p *Prog, d *ssa.Defer) []string {
	var callee *ssa.Function
	var bindings []ssa.Value
	switch v := d.Call.Value.(type) {
	case *ssa.MakeClosure:
		callee, _ = v.Fn.(*ssa.Function)
		bindings = v.Bindings
	case *ssa.Function:
		callee = v
	}
	if callee == nil {
		return nil
	}
	var out []string
	for _, c := range callsIn(callee) {
		bi, isB := c.Common().Value.(*ssa.Builtin)
		if !isB || bi.Name() != "close" || len(c.Common().Args) != 1 {
			continue
		}
		x := unwrap(c.Common().Args[0])
		if pr, ok := x.(*ssa.Parameter); ok {
			for i, q := range callee.Params {
				if q == pr && i < len(d.Call.Args) {
					out = append(out, p.D(unwrap(d.Call.Args[i])))
				}
			}
			continue
		}
		if u, ok := x.(*ssa.UnOp); ok && u.Op == token.MUL {
			if fv, isFV := u.X.(*ssa.FreeVar); isFV {
				for i, q := range callee.FreeVars {
					if q != fv || i >= len(bindings) {
						continue
					}
					if cell, isA := bindings[i].(*ssa.Alloc); isA {
						if sts := storesInto(cell); len(sts) == 1 {
							out = append(out, p.D(unwrap(sts[0].Val)))
						}
					}
				}
			}
		}
	}
	return out
}
