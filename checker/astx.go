package main

import (
	"go/ast"
	"go/constant"
	"go/token"
	"go/types"
	"regexp"
	"strings"

	"golang.org/x/tools/go/packages"
	"golang.org/x/tools/go/ssa"
)

// pkgOfFunc returns the loaded package containing fn.
func (p *Prog) pkgOfFunc(fn *ssa.Function) *packages.Package {
	return p.Pkgs[p.pkgShort(fn)]
}

// caseEntry is one clause of a switch statement: the constant(s) (or types) it
// matches and a summary of what its body yields.
type caseEntry struct {
	pos      token.Pos
	consts   []*types.Const // case expressions that are named constants
	typs     []types.Type   // case types (type switch) or nil
	isDeflt  bool
	results  []ast.Expr // expressions assigned or returned in the clause body (first position of returns / RHS of assignments)
	body     []ast.Stmt
	literals []string // string literals appearing in the body (format strings)
}

// switchTables extracts all switch statements (value and type switches) of the function body.
type switchTable struct {
	pos     token.Pos
	tag     ast.Expr
	isType  bool
	entries []caseEntry
}

func (p *Prog) switchTables(fn *ssa.Function) []switchTable {
	decl := p.funcDecl(fn)
	pk := p.pkgOfFunc(fn)
	if decl == nil || pk == nil || decl.Body == nil {
		return nil
	}
	info := pk.TypesInfo
	var out []switchTable
	ast.Inspect(decl.Body, func(n ast.Node) bool {
		switch sw := n.(type) {
		case *ast.SwitchStmt:
			t := switchTable{pos: sw.Pos(), tag: sw.Tag}
			for _, st := range sw.Body.List {
				cc := st.(*ast.CaseClause)
				e := caseEntry{pos: cc.Pos(), isDeflt: cc.List == nil, body: cc.Body}
				for _, x := range cc.List {
					if c := constOf(info, x); c != nil {
						e.consts = append(e.consts, c)
					}
				}
				fillBody(&e)
				t.entries = append(t.entries, e)
			}
			out = append(out, t)
		case *ast.TypeSwitchStmt:
			t := switchTable{pos: sw.Pos(), isType: true}
			for _, st := range sw.Body.List {
				cc := st.(*ast.CaseClause)
				e := caseEntry{pos: cc.Pos(), isDeflt: cc.List == nil, body: cc.Body}
				for _, x := range cc.List {
					if tv, ok := info.Types[x]; ok && tv.IsType() {
						e.typs = append(e.typs, tv.Type)
					}
				}
				fillBody(&e)
				t.entries = append(t.entries, e)
			}
			out = append(out, t)
		}
		return true
	})
	out = append(out, p.ifChainTables(decl.Body, info)...)
	out = append(out, p.lookupTables(decl.Body, pk)...)
	// a clause that delegates to a helper of the same package (`return helper(x)` / `v, err = helper(x)`):
	// what the helper builds counts as built by the clause (one level)
	for ti := range out {
		for ei := range out[ti].entries {
			e := &out[ti].entries[ei]
			var extra []ast.Stmt
			// only a clause that builds nothing itself (pure delegation)
			own := len(resultConsts(info, *e)) > 0
			for _, st := range e.body {
				ast.Inspect(st, func(n ast.Node) bool {
					if _, isCL := n.(*ast.CompositeLit); isCL {
						own = true
					}
					return true
				})
			}
			if own {
				continue
			}
			for _, rx := range e.results {
				call, isCall := rx.(*ast.CallExpr)
				if !isCall {
					continue
				}
				var id *ast.Ident
				switch f := call.Fun.(type) {
				case *ast.Ident:
					id = f
				case *ast.SelectorExpr:
					id = f.Sel
				}
				if id == nil {
					continue
				}
				fo, isFn := info.Uses[id].(*types.Func)
				if !isFn || fo.Pkg() != pk.Types {
					continue
				}
				if hf := p.byObj[fo]; hf != nil && hf != fn {
					if hd := p.funcDecl(hf); hd != nil && hd.Body != nil {
						extra = append(extra, hd.Body.List...)
					}
				}
			}
			if len(extra) > 0 {
				h := caseEntry{body: extra}
				fillBody(&h)
				e.body = append(append([]ast.Stmt{}, e.body...), extra...)
				e.results = append(e.results, h.results...)
				e.literals = append(e.literals, h.literals...)
			}
		}
	}
	return out
}

// ---- tables written without a switch statement

// ifCond recognises the condition of one link of an if chain: `tag == C`, `C == tag`, a disjunction of such
// on one tag, or the comma-ok type assertion `v, ok := tag.(T); ok`. It returns the tag text and the entry.
func ifCond(info *types.Info, st *ast.IfStmt) (tag string, e caseEntry, isType, ok bool) {
	e = caseEntry{pos: st.Pos(), body: st.Body.List}
	// comma-ok type assertion
	if as, isAs := st.Init.(*ast.AssignStmt); isAs && len(as.Lhs) == 2 && len(as.Rhs) == 1 {
		if ta, isTA := as.Rhs[0].(*ast.TypeAssertExpr); isTA && ta.Type != nil {
			if id, isId := st.Cond.(*ast.Ident); isId {
				if okId, isOk := as.Lhs[1].(*ast.Ident); isOk && info.ObjectOf(okId) == info.ObjectOf(id) {
					if tv, has := info.Types[ta.Type]; has && tv.IsType() {
						e.typs = []types.Type{tv.Type}
						return types.ExprString(ta.X), e, true, true
					}
				}
			}
		}
		return "", e, false, false
	}
	var collect func(x ast.Expr) bool
	collect = func(x ast.Expr) bool {
		switch b := x.(type) {
		case *ast.ParenExpr:
			return collect(b.X)
		case *ast.BinaryExpr:
			switch b.Op {
			case token.LOR:
				return collect(b.X) && collect(b.Y)
			case token.EQL:
				c, other := constOf(info, b.Y), b.X
				if c == nil {
					c, other = constOf(info, b.X), b.Y
				}
				if c == nil {
					return false
				}
				t := types.ExprString(other)
				if tag != "" && tag != t {
					return false
				}
				tag = t
				e.consts = append(e.consts, c)
				return true
			}
		}
		return false
	}
	if st.Init != nil {
		// `if x := f(); x == C`: a temporary for the tag
		if as, isAs := st.Init.(*ast.AssignStmt); !isAs || as.Tok != token.DEFINE || len(as.Lhs) != 1 {
			return "", e, false, false
		}
	}
	if !collect(st.Cond) {
		return "", e, false, false
	}
	return tag, e, false, true
}

func endsInReturn(stmts []ast.Stmt) bool {
	if len(stmts) == 0 {
		return false
	}
	_, ok := stmts[len(stmts)-1].(*ast.ReturnStmt)
	return ok
}

func (p *Prog) ifChainTables(body *ast.BlockStmt, info *types.Info) []switchTable {
	var out []switchTable
	seenElse := map[*ast.IfStmt]bool{}
	ast.Inspect(body, func(n ast.Node) bool {
		switch x := n.(type) {
		case *ast.IfStmt:
			if seenElse[x] {
				return true
			}
			// if / else if / else chain
			var t switchTable
			tag := ""
			cur := x
			n := 0
			for cur != nil {
				tg, e, isT, ok := ifCond(info, cur)
				if !ok || (tag != "" && tg != tag) {
					break
				}
				tag = tg
				t.isType = isT
				fillBody(&e)
				t.entries = append(t.entries, e)
				n++
				switch el := cur.Else.(type) {
				case *ast.IfStmt:
					seenElse[el] = true
					cur = el
					continue
				case *ast.BlockStmt:
					d := caseEntry{pos: el.Pos(), isDeflt: true, body: el.List}
					fillBody(&d)
					t.entries = append(t.entries, d)
				}
				cur = nil
			}
			if n >= 2 {
				t.pos = x.Pos()
				out = append(out, t)
			}
		case *ast.BlockStmt:
			// run of sibling ifs on one tag, each leaving the function (early-return style)
			i := 0
			for i < len(x.List) {
				var t switchTable
				tag := ""
				j := i
				for j < len(x.List) {
					st, isIf := x.List[j].(*ast.IfStmt)
					if !isIf || st.Else != nil {
						break
					}
					tg, e, isT, ok := ifCond(info, st)
					if !ok || (tag != "" && tg != tag) || !endsInReturn(st.Body.List) {
						break
					}
					tag = tg
					t.isType = isT
					fillBody(&e)
					t.entries = append(t.entries, e)
					j++
				}
				if j-i >= 2 {
					t.pos = x.List[i].Pos()
					if j < len(x.List) {
						d := caseEntry{pos: x.List[j].Pos(), isDeflt: true, body: x.List[j:]}
						fillBody(&d)
						t.entries = append(t.entries, d)
					}
					out = append(out, t)
					i = j
				} else {
					i++
				}
			}
		}
		return true
	})
	return out
}

// lookupTables: `v, ok := table[x]` / `table[x]` where table is a package-level map or array literal keyed by named constants.
func (p *Prog) lookupTables(body *ast.BlockStmt, pk *packages.Package) []switchTable {
	info := pk.TypesInfo
	var out []switchTable
	done := map[types.Object]bool{}
	ast.Inspect(body, func(n ast.Node) bool {
		ix, ok := n.(*ast.IndexExpr)
		if !ok {
			return true
		}
		id, isId := ix.X.(*ast.Ident)
		if !isId {
			return true
		}
		obj, isVar := info.Uses[id].(*types.Var)
		if !isVar || obj.Parent() != pk.Types.Scope() || done[obj] {
			return true
		}
		done[obj] = true
		// its declaration
		for _, f := range pk.Syntax {
			ast.Inspect(f, func(m ast.Node) bool {
				vs, isVS := m.(*ast.ValueSpec)
				if !isVS {
					return true
				}
				for i, nm := range vs.Names {
					if info.Defs[nm] != obj || i >= len(vs.Values) {
						continue
					}
					cl, isCL := vs.Values[i].(*ast.CompositeLit)
					if !isCL {
						continue
					}
					t := switchTable{pos: ix.Pos(), tag: ix.Index}
					for _, el := range cl.Elts {
						kv, isKV := el.(*ast.KeyValueExpr)
						if !isKV {
							continue
						}
						c := constOf(info, kv.Key)
						if c == nil {
							continue
						}
						ent := caseEntry{pos: kv.Pos(), consts: []*types.Const{c}, body: []ast.Stmt{&ast.ExprStmt{X: kv.Value}}}
						fillBody(&ent) // string literals of the value (format strings held in the table)
						ent.results = []ast.Expr{kv.Value}
						t.entries = append(t.entries, ent)
					}
					if len(t.entries) >= 2 {
						out = append(out, t)
					}
				}
				return true
			})
		}
		return true
	})
	return out
}

func fillBody(e *caseEntry) {
	for _, s := range e.body {
		ast.Inspect(s, func(n ast.Node) bool {
			switch x := n.(type) {
			case *ast.AssignStmt:
				e.results = append(e.results, x.Rhs...)
			case *ast.ReturnStmt:
				if len(x.Results) > 0 {
					e.results = append(e.results, x.Results[0])
				}
			case *ast.BasicLit:
				if x.Kind == token.STRING {
					e.literals = append(e.literals, strings.Trim(x.Value, "\"`"))
				}
			case *ast.SwitchStmt, *ast.TypeSwitchStmt:
				return false // nested switches are separate tables
			}
			return true
		})
	}
}

func constOf(info *types.Info, x ast.Expr) *types.Const {
	switch e := x.(type) {
	case *ast.Ident:
		c, _ := info.Uses[e].(*types.Const)
		return c
	case *ast.SelectorExpr:
		c, _ := info.Uses[e.Sel].(*types.Const)
		return c
	case *ast.ParenExpr:
		return constOf(info, e.X)
	}
	return nil
}

// resultConst: the named constant a clause yields (through &x indirections of a local assigned from it are not followed).
func resultConsts(info *types.Info, e caseEntry) []*types.Const {
	var out []*types.Const
	for _, r := range e.results {
		if c := constOf(info, r); c != nil {
			out = append(out, c)
		}
	}
	return out
}

// resultTypes: the named types of composite literals a clause yields (X{} or W{F: X{}}: innermost literal type).
func resultLitTypes(info *types.Info, e caseEntry) []types.Type {
	var out []types.Type
	for _, r := range e.results {
		ast.Inspect(r, func(n ast.Node) bool {
			cl, ok := n.(*ast.CompositeLit)
			if !ok {
				return true
			}
			inner := false
			for _, el := range cl.Elts {
				ast.Inspect(el, func(m ast.Node) bool {
					if _, ok := m.(*ast.CompositeLit); ok {
						inner = true
					}
					return true
				})
			}
			if !inner {
				if tv, ok := info.Types[cl]; ok {
					out = append(out, tv.Type)
				}
			}
			return true
		})
	}
	return out
}

func typeName(t types.Type) string {
	if n, ok := deref(t).(*types.Named); ok {
		return n.Obj().Name()
	}
	return shortType(t)
}

// constByName returns the int64 value of a named integer constant.
func constByName(p *Prog, pkg, name string) *int64 {
	pk := p.Pkgs[pkg]
	if pk == nil {
		return nil
	}
	c, ok := pk.Types.Scope().Lookup(name).(*types.Const)
	if !ok {
		return nil
	}
	if v, exact := constantInt64(c); exact {
		return &v
	}
	return nil
}

func constantInt64(c *types.Const) (int64, bool) {
	return constant.Int64Val(constant.ToInt(c.Val()))
}

// wrapsWithW: ev is errV itself, or fmt.Errorf with a %w verb and errV among its arguments.
func wrapsWithW(ev, errV ssa.Value) bool {
	if ev == errV {
		return true
	}
	c, ok := ev.(*ssa.Call)
	if !ok || !isCallTo(&c.Call, "fmt.Errorf") || len(c.Call.Args) < 2 {
		return false
	}
	format, _ := constString(c.Call.Args[0])
	return strings.Contains(format, "%w") && sliceDependsOn(c.Call.Args[1], errV)
}

// sliceMustContain: on every path that runs through block `from` (where v is computed),
// slice value s contains v. Phi edges whose predecessor cannot be reached from `from`
// belong to paths on which v was not computed and are not constrained.
func sliceMustContain(s ssa.Value, v ssa.Value, from *ssa.BasicBlock) bool {
	reach := reachableFrom(from)
	reach[from] = true
	memo := map[ssa.Value]bool{}
	var rec, rec1 func(x ssa.Value) bool
	elemStores := func(refs *[]ssa.Instruction) bool {
		for _, ref := range *refs {
			if ia, ok := ref.(*ssa.IndexAddr); ok {
				for _, rr := range *ia.Referrers() {
					if st, ok := rr.(*ssa.Store); ok && st.Addr == ssa.Value(ia) && rec(st.Val) && (st.Block() == from || reach[st.Block()]) {
						return true
					}
				}
			}
		}
		return false
	}
	rec = func(x ssa.Value) bool {
		if x == nil {
			return false
		}
		if x == v {
			return true
		}
		if done, ok := memo[x]; ok {
			return done
		}
		memo[x] = false // cycles: not proven
		res := rec1(x)
		memo[x] = res
		return res
	}
	rec1 = func(x ssa.Value) bool {
		switch y := x.(type) {
		case *ssa.Phi:
			n := 0
			for i, e := range y.Edges {
				pred := y.Block().Preds[i]
				if !reach[pred] {
					continue
				}
				n++
				if !rec(e) {
					return false
				}
			}
			return n > 0
		case *ssa.Slice:
			return y.Low == nil && rec(y.X)
		case *ssa.Alloc:
			return elemStores(y.Referrers())
		case *ssa.MakeSlice:
			return elemStores(y.Referrers())
		case *ssa.Call:
			if b, ok := y.Call.Value.(*ssa.Builtin); ok && b.Name() == "append" {
				for _, a := range y.Call.Args {
					if rec(a) {
						return true
					}
				}
			}
		case *ssa.MakeInterface:
			return rec(y.X)
		case *ssa.ChangeType:
			return rec(y.X)
		case *ssa.ChangeInterface:
			return rec(y.X)
		}
		return false
	}
	return rec(s)
}

// onlyNilGuards: block b is reached under no condition other than "src is non-nil"
// (src named by its access path).
func onlyNilGuards(p *Prog, b *ssa.BasicBlock, src string) bool {
	for _, g := range guardsOf(b) {
		bo, ok := g.cond.(*ssa.BinOp)
		if !ok {
			return false
		}
		k, isK := bo.Y.(*ssa.Const)
		if !isK || !k.IsNil() || strings.TrimPrefix(p.D(bo.X), "*") != strings.TrimPrefix(src, "*") {
			return false
		}
		if !((bo.Op == token.NEQ && g.val) || (bo.Op == token.EQL && !g.val)) {
			return false
		}
	}
	return true
}

// pbGetterRe matches the description of a generated getter call, e.g. pb.FactV2.GetPredicate(input).
var pbGetterRe = regexp.MustCompile(`^pb\.\w+\.Get(\w+)\((.+)\)$`)

// deferredFuncCloses: the function deferred by d (a function literal or a helper of the repository)
// closes channel mk in its entry block, i.e. before anything else it does and on every path.
func deferredFuncCloses(d *ssa.Defer, mk *ssa.MakeChan) bool {
	var callee *ssa.Function
	var bindings []ssa.Value
	switch v := d.Call.Value.(type) {
	case *ssa.MakeClosure:
		callee, _ = v.Fn.(*ssa.Function)
		bindings = v.Bindings
	case *ssa.Function:
		callee = v
	}
	if callee == nil || len(callee.Blocks) == 0 {
		return false
	}
	// does value x inside callee denote mk?
	denotes := func(x ssa.Value) bool {
		x = unwrap(x)
		// parameter bound to mk at the defer site
		if pr, ok := x.(*ssa.Parameter); ok {
			for i, q := range callee.Params {
				if q == pr && i < len(d.Call.Args) && unwrap(d.Call.Args[i]) == ssa.Value(mk) {
					return true
				}
			}
			return false
		}
		// captured variable: *freevar, where the captured cell holds mk
		if u, ok := x.(*ssa.UnOp); ok && u.Op == token.MUL {
			if fv, isFV := u.X.(*ssa.FreeVar); isFV {
				for i, q := range callee.FreeVars {
					if q != fv || i >= len(bindings) {
						continue
					}
					if cell, isA := bindings[i].(*ssa.Alloc); isA {
						sts := storesInto(cell)
						if len(sts) == 1 && unwrap(sts[0].Val) == ssa.Value(mk) {
							return true
						}
					}
				}
			}
		}
		return false
	}
	for _, in := range callee.Blocks[0].Instrs {
		c, ok := in.(*ssa.Call)
		if !ok {
			if _, isSel := in.(*ssa.Select); isSel {
				return false
			}
			continue
		}
		if bi, isB := c.Call.Value.(*ssa.Builtin); isB && bi.Name() == "close" && len(c.Call.Args) == 1 && denotes(c.Call.Args[0]) {
			return true
		}
		// any other call before the close might block
		if _, isB := c.Call.Value.(*ssa.Builtin); !isB {
			return false
		}
	}
	return false
}

// deadlineObserved: block blk is reached only after the context's deadline was seen:
// through the Done() case of a select, or under ctx.Err() != nil.
func deadlineObserved(p *Prog, blk *ssa.BasicBlock) bool {
	isCtxCall := func(v ssa.Value, method string) bool {
		c, ok := unwrap(v).(*ssa.Call)
		return ok && c.Call.IsInvoke() && c.Call.Method.Name() == method && isNamed(c.Call.Value.Type(), "context", "Context")
	}
	for _, g := range guardsOf(blk) {
		bo, ok := g.cond.(*ssa.BinOp)
		if !ok {
			continue
		}
		// select case index
		if ex, isE := bo.X.(*ssa.Extract); isE && ex.Index == 0 && bo.Op == token.EQL && g.val {
			if sel, isS := ex.Tuple.(*ssa.Select); isS {
				if k, isK := constInt(bo.Y); isK && int(k) >= 0 && int(k) < len(sel.States) {
					st := sel.States[k]
					if st.Dir == types.RecvOnly && isCtxCall(st.Chan, "Done") {
						return true
					}
				}
			}
		}
		// ctx.Err() != nil
		if isNilConst(bo.Y) && isCtxCall(bo.X, "Err") && ((bo.Op == token.NEQ && g.val) || (bo.Op == token.EQL && !g.val)) {
			return true
		}
	}
	return false
}

// onlyMeasured: the call does not write its receiver / arguments (ownership summaries) and its result is
// used for nothing but len() (possibly after a dereference): a read-only observation of the callee's object.
func onlyMeasured(p *Prog, c *ssa.Call) bool {
	o := p.own()
	for _, callee := range p.CG().Callees(c) {
		if len(o.mutates[callee]) > 0 {
			return false
		}
		if callee.Blocks == nil || !p.isRepoFunc(callee) {
			return false
		}
	}
	var okUses func(v ssa.Value, depth int) bool
	okUses = func(v ssa.Value, depth int) bool {
		if depth > 3 || v.Referrers() == nil {
			return false
		}
		for _, ref := range *v.Referrers() {
			switch x := ref.(type) {
			case *ssa.UnOp:
				if x.Op != token.MUL || !okUses(x, depth+1) {
					return false
				}
			case *ssa.Call:
				if bi, isB := x.Call.Value.(*ssa.Builtin); !isB || bi.Name() != "len" {
					return false
				}
			case *ssa.DebugRef:
			default:
				return false
			}
		}
		return true
	}
	// scalar results (Len() int) are fine whatever they are used for
	if _, isBasic := c.Type().Underlying().(*types.Basic); isBasic {
		return true
	}
	return okUses(c, 0)
}
