package main

import (
	"go/ast"
	"go/constant"
	"go/token"
	"go/types"
	"strings"

	"golang.org/x/tools/go/packages"
	"golang.org/x/tools/go/ssa"
)

// pkgOfFunc returns the loaded package containing fn.
func (p *Prog) pkgOfFunc(fn *ssa.Function) *packages.Package {
	return p.Pkgs[p.pkgShort(fn)]
}

// caseEntry is one clause of a switch statement: the constant(s) (or types) it
// matches and a summary of what its body yields.
type caseEntry struct {
	pos      token.Pos
	consts   []*types.Const // case expressions that are named constants
	typs     []types.Type   // case types (type switch) or nil
	isDeflt  bool
	results  []ast.Expr // expressions assigned or returned in the clause body (first position of returns / RHS of assignments)
	body     []ast.Stmt
	literals []string // string literals appearing in the body (format strings)
}

// switchTables extracts all switch statements (value and type switches) of the function body.
type switchTable struct {
	pos     token.Pos
	tag     ast.Expr
	isType  bool
	entries []caseEntry
}

func (p *Prog) switchTables(fn *ssa.Function) []switchTable {
	decl := p.funcDecl(fn)
	pk := p.pkgOfFunc(fn)
	if decl == nil || pk == nil || decl.Body == nil {
		return nil
	}
	info := pk.TypesInfo
	var out []switchTable
	ast.Inspect(decl.Body, func(n ast.Node) bool {
		switch sw := n.(type) {
		case *ast.SwitchStmt:
			t := switchTable{pos: sw.Pos(), tag: sw.Tag}
			for _, st := range sw.Body.List {
				cc := st.(*ast.CaseClause)
				e := caseEntry{pos: cc.Pos(), isDeflt: cc.List == nil, body: cc.Body}
				for _, x := range cc.List {
					if c := constOf(info, x); c != nil {
						e.consts = append(e.consts, c)
					}
				}
				fillBody(&e)
				t.entries = append(t.entries, e)
			}
			out = append(out, t)
		case *ast.TypeSwitchStmt:
			t := switchTable{pos: sw.Pos(), isType: true}
			for _, st := range sw.Body.List {
				cc := st.(*ast.CaseClause)
				e := caseEntry{pos: cc.Pos(), isDeflt: cc.List == nil, body: cc.Body}
				for _, x := range cc.List {
					if tv, ok := info.Types[x]; ok && tv.IsType() {
						e.typs = append(e.typs, tv.Type)
					}
				}
				fillBody(&e)
				t.entries = append(t.entries, e)
			}
			out = append(out, t)
		}
		return true
	})
	return out
}

func fillBody(e *caseEntry) {
	for _, s := range e.body {
		ast.Inspect(s, func(n ast.Node) bool {
			switch x := n.(type) {
			case *ast.AssignStmt:
				e.results = append(e.results, x.Rhs...)
			case *ast.ReturnStmt:
				if len(x.Results) > 0 {
					e.results = append(e.results, x.Results[0])
				}
			case *ast.BasicLit:
				if x.Kind == token.STRING {
					e.literals = append(e.literals, strings.Trim(x.Value, "\"`"))
				}
			case *ast.SwitchStmt, *ast.TypeSwitchStmt:
				return false // nested switches are separate tables
			}
			return true
		})
	}
}

func constOf(info *types.Info, x ast.Expr) *types.Const {
	switch e := x.(type) {
	case *ast.Ident:
		c, _ := info.Uses[e].(*types.Const)
		return c
	case *ast.SelectorExpr:
		c, _ := info.Uses[e.Sel].(*types.Const)
		return c
	case *ast.ParenExpr:
		return constOf(info, e.X)
	}
	return nil
}

// resultConst: the named constant a clause yields (through &x indirections of a local assigned from it are not followed).
func resultConsts(info *types.Info, e caseEntry) []*types.Const {
	var out []*types.Const
	for _, r := range e.results {
		if c := constOf(info, r); c != nil {
			out = append(out, c)
		}
	}
	return out
}

// resultTypes: the named types of composite literals a clause yields (X{} or W{F: X{}}: innermost literal type).
func resultLitTypes(info *types.Info, e caseEntry) []types.Type {
	var out []types.Type
	for _, r := range e.results {
		ast.Inspect(r, func(n ast.Node) bool {
			cl, ok := n.(*ast.CompositeLit)
			if !ok {
				return true
			}
			inner := false
			for _, el := range cl.Elts {
				ast.Inspect(el, func(m ast.Node) bool {
					if _, ok := m.(*ast.CompositeLit); ok {
						inner = true
					}
					return true
				})
			}
			if !inner {
				if tv, ok := info.Types[cl]; ok {
					out = append(out, tv.Type)
				}
			}
			return true
		})
	}
	return out
}

func typeName(t types.Type) string {
	if n, ok := deref(t).(*types.Named); ok {
		return n.Obj().Name()
	}
	return shortType(t)
}

// constByName returns the int64 value of a named integer constant.
func constByName(p *Prog, pkg, name string) *int64 {
	pk := p.Pkgs[pkg]
	if pk == nil {
		return nil
	}
	c, ok := pk.Types.Scope().Lookup(name).(*types.Const)
	if !ok {
		return nil
	}
	if v, exact := constantInt64(c); exact {
		return &v
	}
	return nil
}

func constantInt64(c *types.Const) (int64, bool) {
	return constant.Int64Val(constant.ToInt(c.Val()))
}
