package main

import (
	"fmt"
	"go/token"
	"go/types"

	"golang.org/x/tools/go/ssa"
)

func init() {
	register(
		&Rule{ID: "RG-ERR", Doc: "every ed25519.GenerateKey error is tested and returned before the keys are used", Run: ruleRGErr, Min: 1},
		&Rule{ID: "RG-PLUMB", Doc: "the reader given to GenerateKey is the caller-supplied source (parameter or options.rng), never a constant", Run: ruleRGPlumb, Min: 5},
	)
}

// funcsIn lists repository functions of the given short package names.
func (p *Prog) funcsIn(pkgs ...string) []*ssa.Function {
	var out []*ssa.Function
	for _, f := range p.Funcs {
		sn := p.pkgShort(f)
		for _, k := range pkgs {
			if sn == k {
				out = append(out, f)
			}
		}
	}
	return out
}

// callsTo lists (function, call) pairs for static calls to the named callee.
type callSite struct {
	fn   *ssa.Function
	call ssa.CallInstruction
}

func (p *Prog) callsTo(name string, pkgs ...string) []callSite {
	var out []callSite
	for _, f := range p.funcsIn(pkgs...) {
		for _, c := range callsIn(f) {
			if isCallTo(c.Common(), name) {
				out = append(out, callSite{f, c})
			}
		}
	}
	return out
}

func extractOf(v ssa.Value, idx int) []*ssa.Extract {
	var out []*ssa.Extract
	if v.Referrers() == nil {
		return nil
	}
	for _, r := range *v.Referrers() {
		if e, ok := r.(*ssa.Extract); ok && e.Index == idx {
			out = append(out, e)
		}
	}
	return out
}

// nilTest finds `v != nil` / `v == nil` comparisons of v; returns for each the
// If it controls and the successor on which v is non-nil / nil.
type nilBranch struct {
	cmp           *ssa.BinOp
	ifi           *ssa.If
	nonNil, isNil *ssa.BasicBlock
}

func nilTests(v ssa.Value) []nilBranch {
	var out []nilBranch
	if v.Referrers() == nil {
		return nil
	}
	for _, r := range *v.Referrers() {
		b, ok := r.(*ssa.BinOp)
		if !ok || (b.Op != token.NEQ && b.Op != token.EQL) {
			continue
		}
		var other ssa.Value = b.Y
		if b.Y == v {
			other = b.X
		}
		if !isNilConst(other) {
			continue
		}
		for _, rr := range *b.Referrers() {
			// through negations
			var conds []ssa.Value = []ssa.Value{b}
			_ = conds
			if i, ok := rr.(*ssa.If); ok {
				cv, t, f := condOf(i)
				if cv != ssa.Value(b) {
					continue
				}
				nb := nilBranch{cmp: b, ifi: i}
				if b.Op == token.NEQ {
					nb.nonNil, nb.isNil = t, f
				} else {
					nb.nonNil, nb.isNil = f, t
				}
				out = append(out, nb)
			}
		}
	}
	return out
}

// returnsValue: does every return reachable from blk carry v (possibly wrapped by
// fmt.Errorf with v among its arguments) as its error result, with all other results zero/nil?
func returnsPropagate(blk *ssa.BasicBlock, v ssa.Value) (ok bool, why string) {
	n := 0
	for b := range reachableFrom(blk) {
		r := blockReturn(b)
		if r == nil {
			continue
		}
		n++
		ei := errorResultIndex(r.Parent())
		if ei < 0 {
			return false, "function has no error result"
		}
		ev := retVal(r, ei)
		if !(ev == v || dependsOn(ev, func(x ssa.Value) bool { return x == v })) {
			return false, fmt.Sprintf("a return reachable from the failure branch does not carry the error (returns %s)", shortD(ev))
		}
		for i := range r.Results {
			rv := retVal(r, i)
			if i == ei {
				continue
			}
			if !isZeroValue(rv) {
				return false, fmt.Sprintf("failure branch returns a non-zero result #%d", i)
			}
		}
	}
	if n == 0 {
		return false, "failure branch reaches no return"
	}
	return true, ""
}

func isZeroValue(v ssa.Value) bool {
	c, ok := unwrap(v).(*ssa.Const)
	if !ok {
		return false
	}
	if c.Value == nil {
		return true
	}
	s := c.Value.ExactString()
	return s == "0" || s == "false" || s == `""`
}

func shortD(v ssa.Value) string {
	if v == nil {
		return "<none>"
	}
	s := globalP.D(v)
	if len(s) > 120 {
		s = s[:117] + "..."
	}
	return s
}

var globalP *Prog

func ruleRGErr(p *Prog, r *Reporter) {
	globalP = p
	for _, cs := range p.callsTo("crypto/ed25519.GenerateKey", "biscuit", "datalog", "parser") {
		cv, ok := cs.call.(*ssa.Call)
		fn := p.FuncName(cs.fn)
		pos := p.instrPos(cs.call)
		if !ok {
			r.Bad(pos, fn, "GenerateKey", "GenerateKey called in go/defer: results discarded")
			continue
		}
		errs := extractOf(cv, 2)
		if len(errs) == 0 {
			r.Bad(pos, fn, "GenerateKey", "the error result of ed25519.GenerateKey is discarded (assigned to _): an entropy failure yields nil keys that are then used")
			continue
		}
		errV := errs[0]
		tests := nilTests(errV)
		if len(tests) == 0 {
			r.Bad(pos, fn, "GenerateKey", "the error result of ed25519.GenerateKey is discarded or never compared with nil: an entropy failure yields nil keys that are then used")
			continue
		}
		t := tests[0]
		if ok, why := returnsPropagate(t.nonNil, errV); !ok {
			r.Bad(pos, fn, "GenerateKey", "on the err != nil branch: "+why)
			continue
		}
		// every use of the keys must be on the err == nil side
		bad := ""
		for _, idx := range []int{0, 1} {
			for _, e := range extractOf(cv, idx) {
				for _, u := range *e.Referrers() {
					ub := u.Block()
					if ph, ok := u.(*ssa.Phi); ok {
						_ = ph
					}
					if !hasGuard(ub, t.cmp, t.cmp.Op == token.EQL) {
						bad = fmt.Sprintf("key result #%d is used at %s on a path where the error has not been tested", idx, p.instrPos(u))
					}
				}
			}
		}
		if bad != "" {
			r.Bad(pos, fn, "GenerateKey", bad)
			continue
		}
		r.OK(pos, fn, "GenerateKey", "error tested; failure branch returns it with a nil token; keys used only under err == nil")
	}
}

func isIOReader(t types.Type) bool { return isNamed(t, "io", "Reader") }

func ruleRGPlumb(p *Prog, r *Reporter) {
	globalP = p
	// 1. reader argument of each GenerateKey call
	for _, cs := range p.callsTo("crypto/ed25519.GenerateKey", "biscuit") {
		fn := p.FuncName(cs.fn)
		pos := p.instrPos(cs.call)
		arg := cs.call.Common().Args[0]
		a := unwrap(arg)
		switch x := a.(type) {
		case *ssa.Parameter:
			r.Check(isIOReader(x.Type()), pos, fn, "GenerateKey.reader", "reader is the function's io.Reader parameter "+x.Name(), "reader parameter has unexpected type")
			continue
		case *ssa.UnOp:
			if fa, ok := x.X.(*ssa.FieldAddr); ok && x.Op == token.MUL {
				if al, ok := fa.X.(*ssa.Alloc); ok && fieldName(fa) == "rng" {
					// local options struct: must be passed by address to every element of the opts parameter
					if why := optionsApplied(p, cs.fn, al); why != "" {
						r.Bad(pos, fn, "GenerateKey.reader", why)
					} else {
						r.OK(pos, fn, "GenerateKey.reader", "reader is options.rng of the local options struct to which every option is applied")
					}
					continue
				}
			}
		}
		r.Bad(pos, fn, "GenerateKey.reader", "reader argument "+shortD(arg)+" is neither the io.Reader parameter nor options.rng: the caller's random source is not the one used")
	}
	// 2/3. the rng option stores the caller's reader
	for _, m := range []struct{ method, target string }{{"applyToBiscuit", "biscuitOptions"}, {"applyToBuilder", "builderOptions"}} {
		f := p.Func("biscuit", "rngOption", m.method)
		if f == nil {
			r.Dunno("?", "biscuit.rngOption."+m.method, "store rng", "method not found")
			continue
		}
		found := false
		for _, b := range f.Blocks {
			for _, in := range b.Instrs {
				st, ok := in.(*ssa.Store)
				if !ok {
					continue
				}
				fa, ok := st.Addr.(*ssa.FieldAddr)
				if !ok || fieldName(fa) != "rng" {
					continue
				}
				if _, isParam := fa.X.(*ssa.Parameter); !isParam {
					continue
				}
				recv := f.Params[0]
				// the stored reader must be the option's reader itself (or the option), not a wrapper around it
				sv := unwrap(st.Val)
				d := globalP.D(sv)
				if sv == ssa.Value(recv) || d == recv.Name() || d == recv.Name()+".Reader" {
					found = true
				}
			}
		}
		r.Check(found, p.Pos(f.Pos()), p.FuncName(f), "store rng", "stores the option's reader into "+m.target+".rng", "does not store the option's reader into "+m.target+".rng")
	}
	readerDiscipline(p, r)
	// 4/5. Build and New hand the caller's reader to newBiscuit through WithRNG
	for _, spec := range []struct{ recv, name, src string }{{"builderOptions", "Build", "b.rng"}, {"", "New", "rng"}} {
		f := p.Func("biscuit", spec.recv, spec.name)
		if f == nil {
			r.Dunno("?", "biscuit."+spec.name, "WithRNG", "function not found")
			continue
		}
		var with *ssa.Call
		for _, c := range callsIn(f) {
			if isCallTo(c.Common(), "biscuit.WithRNG") {
				if cv, ok := c.(*ssa.Call); ok && p.D(c.Common().Args[0]) == spec.src {
					with = cv
				}
			}
		}
		if with == nil {
			r.Bad(p.Pos(f.Pos()), p.FuncName(f), "WithRNG", "no WithRNG("+spec.src+") call: the caller's random source is dropped")
			continue
		}
		flows := false
		for _, c := range callsIn(f) {
			if isCallTo(c.Common(), "biscuit.newBiscuit") {
				args := c.Common().Args
				last := args[len(args)-1]
				if sliceMustContain(last, with, with.Block()) {
					flows = true
				}
			}
		}
		r.Check(flows, p.instrPos(with), p.FuncName(f), "WithRNG", "WithRNG("+spec.src+") is in newBiscuit's option list on every path from its construction", "the WithRNG option is built but is not in newBiscuit's option list on every path (dropped or overwritten by a later option): the caller's random source is not used")
		r.Check(onlyNilGuards(p, with.Block(), spec.src), p.instrPos(with), p.FuncName(f), "WithRNG condition", "built whenever "+spec.src+" is non-nil", "WithRNG("+spec.src+") is built under a condition other than "+spec.src+" != nil")
	}
}

// readerDiscipline: the caller's random source is consumed only by ed25519.GenerateKey (or
// io.ReadFull, which has the same fill-or-fail contract); a bare Read may return fewer bytes
// than asked with a nil error, so key material drawn that way is not the source's.
func readerDiscipline(p *Prog, r *Reporter) {
	for _, fn := range p.funcsIn("biscuit") {
		var readers []ssa.Value
		for _, pa := range fn.Params {
			if isIOReader(pa.Type()) {
				readers = append(readers, pa)
			}
		}
		for _, b := range fn.Blocks {
			for _, in := range b.Instrs {
				if u, ok := in.(*ssa.UnOp); ok && u.Op == token.MUL && isIOReader(u.Type()) {
					if fa, ok := u.X.(*ssa.FieldAddr); ok && fieldName(fa) == "rng" {
						readers = append(readers, u)
					}
				}
			}
		}
		for _, rd := range readers {
			bad := ""
			seen := map[ssa.Value]bool{}
			var walk func(v ssa.Value)
			walk = func(v ssa.Value) {
				if seen[v] || v.Referrers() == nil {
					return
				}
				seen[v] = true
				for _, ref := range *v.Referrers() {
					switch x := ref.(type) {
					case *ssa.MakeInterface:
						walk(x)
					case *ssa.ChangeInterface:
						walk(x)
					case *ssa.ChangeType:
						walk(x)
					case *ssa.Phi:
						walk(x)
					case ssa.CallInstruction:
						cc := x.Common()
						if cc.IsInvoke() && cc.Value == v {
							bad = fmt.Sprintf("%s: the random source's %s method is called directly; a short read with a nil error yields key material that is not the source's (only ed25519.GenerateKey / io.ReadFull may consume it)", p.instrPos(x), cc.Method.Name())
							continue
						}
						if isCallTo(cc, "crypto/ed25519.GenerateKey", "io.ReadFull") {
							continue
						}
						if cal := cc.StaticCallee(); cal != nil && p.isRepoFunc(cal) {
							continue
						}
						if _, isB := cc.Value.(*ssa.Builtin); isB {
							continue
						}
						bad = fmt.Sprintf("%s: the random source is handed to %s, which is neither ed25519.GenerateKey nor a repository function", p.instrPos(x), shortD(cc.Value))
					}
				}
			}
			walk(rd)
			fnm := p.FuncName(fn)
			if bad != "" {
				r.Bad(p.Pos(fn.Pos()), fnm, "reader "+shortD(rd), bad)
			} else {
				r.OK(p.Pos(fn.Pos()), fnm, "reader "+shortD(rd), "the random source is only forwarded, stored, compared with nil or consumed by ed25519.GenerateKey")
			}
		}
	}
}

func fieldName(fa *ssa.FieldAddr) string {
	st := deref(fa.X.Type()).Underlying().(*types.Struct)
	return st.Field(fa.Field).Name()
}

// sliceDependsOn: does slice value s (possibly built by append / slice literal stores) contain v?
func sliceDependsOn(s ssa.Value, v ssa.Value) bool {
	seen := map[ssa.Value]bool{}
	var rec func(x ssa.Value) bool
	rec = func(x ssa.Value) bool {
		if x == nil || seen[x] {
			return false
		}
		seen[x] = true
		if x == v {
			return true
		}
		switch y := x.(type) {
		case *ssa.Phi:
			for _, e := range y.Edges {
				if rec(e) {
					return true
				}
			}
		case *ssa.Slice:
			return rec(y.X)
		case *ssa.Alloc:
			// array literal: look at stores into its elements
			for _, ref := range *y.Referrers() {
				if ia, ok := ref.(*ssa.IndexAddr); ok {
					for _, rr := range *ia.Referrers() {
						if st, ok := rr.(*ssa.Store); ok && st.Addr == ssa.Value(ia) && rec(st.Val) {
							return true
						}
					}
				}
			}
		case *ssa.MakeSlice:
			for _, ref := range *y.Referrers() {
				if ia, ok := ref.(*ssa.IndexAddr); ok {
					for _, rr := range *ia.Referrers() {
						if st, ok := rr.(*ssa.Store); ok && st.Addr == ssa.Value(ia) && rec(st.Val) {
							return true
						}
					}
				}
			}
		case *ssa.Call:
			if b, ok := y.Call.Value.(*ssa.Builtin); ok && b.Name() == "append" {
				for _, a := range y.Call.Args {
					if rec(a) {
						return true
					}
				}
			}
		case *ssa.MakeInterface:
			return rec(y.X)
		case *ssa.ChangeType:
			return rec(y.X)
		case *ssa.ChangeInterface:
			return rec(y.X)
		}
		return false
	}
	return rec(s)
}

// optionsApplied checks that the address of local options struct al is handed to
// an apply method of every element of the function's variadic option parameter
// (full range loop, error returned). Returns "" when satisfied.
func optionsApplied(p *Prog, fn *ssa.Function, al *ssa.Alloc) string {
	var optsParam *ssa.Parameter
	if fn.Signature.Variadic() {
		optsParam = fn.Params[len(fn.Params)-1]
	}
	if optsParam == nil {
		return "the function reads options.rng but has no variadic option parameter"
	}
	for _, rl := range rangeLoops(fn) {
		if rl.seq != ssa.Value(optsParam) {
			continue
		}
		for b := range rl.body {
			for _, in := range b.Instrs {
				c, ok := in.(*ssa.Call)
				if !ok {
					continue
				}
				for _, a := range c.Call.Args {
					if a == ssa.Value(al) && rl.isElem(c.Call.Value) {
						return ""
					}
				}
			}
		}
	}
	return "no full-range loop applies every option to the local options struct"
}
