package main

import (
	"go/token"
	"go/types"

	"golang.org/x/tools/go/ssa"
)

// Ownership / effect analysis (DESIGN.md 5.3).
//
// origin(v) tells whether v is (a reference into) memory that belongs to one of
// the enclosing function's parameters, to a package-level variable, or to a
// token (reached through a value of type Biscuit/Block).

type oKind int

const (
	oNone  oKind = iota
	oRef         // v is a pointer/slice/map into memory reachable from root
	oVal         // v is a struct/array/interface value whose reference-typed parts point into root's memory
	oLocal       // v is the address of a local copy of such a value
)

type origin struct {
	root     ssa.Value // *ssa.Parameter, *ssa.Global or nil
	kind     oKind
	viaToken bool
}

type ownAnalysis struct {
	p       *Prog
	memo    map[ssa.Value]origin
	active  map[ssa.Value]bool
	mutates map[*ssa.Function]map[int]string // param index -> reason
	capture map[*ssa.Function]map[int]string
	retRef  map[*ssa.Function]map[int]bool
	// retHold: the function returns a freshly allocated struct whose field (key) was filled with a
	// reference rooted at the parameter (value): the struct is new, what that field points to is not.
	retHold map[*ssa.Function]map[int]int
}

// heldInField: the origin of what is loaded from field `field` of the struct at address base, when base
// itself is fresh memory (a new struct of this function, or the fresh result of a repository function):
// the field holds whatever was stored into it, and a reference stored there still points into its root.
func (o *ownAnalysis) heldInField(base ssa.Value, field int, t types.Type) origin {
	k := kindForValue(t)
	if k == oNone {
		return origin{}
	}
	switch a := base.(type) {
	case *ssa.Alloc:
		for _, ref := range *a.Referrers() {
			fa, ok := ref.(*ssa.FieldAddr)
			if !ok || fa.Field != field {
				continue
			}
			for _, rr := range *fa.Referrers() {
				if st, isSt := rr.(*ssa.Store); isSt && st.Addr == ssa.Value(fa) {
					if so := o.origin(st.Val); so.kind == oRef || so.kind == oVal {
						return origin{root: so.root, kind: k, viaToken: so.viaToken}
					}
				}
			}
		}
	case *ssa.Call:
		for _, callee := range o.p.CG().Callees(a) {
			if pi, ok := o.retHold[callee][field]; ok {
				args := callArgs(&a.Call)
				if pi < len(args) {
					if so := o.origin(args[pi]); so.kind != oNone {
						return origin{root: so.root, kind: k, viaToken: so.viaToken}
					}
				}
			}
		}
	}
	return origin{}
}

func isTokenType(t types.Type) bool {
	t = deref(t)
	return isRepoNamed(t, "biscuit", "Biscuit") || isRepoNamed(t, "biscuit", "Block")
}

func isRefType(t types.Type) bool {
	switch t.Underlying().(type) {
	case *types.Pointer, *types.Slice, *types.Map, *types.Chan:
		return true
	}
	return false
}

// hasRefs: values of t may contain references (so copying the value aliases memory).
func hasRefs(t types.Type, depth int) bool {
	if depth > 5 {
		return true
	}
	switch u := t.Underlying().(type) {
	case *types.Pointer, *types.Slice, *types.Map, *types.Chan, *types.Interface, *types.Signature:
		return true
	case *types.Struct:
		for i := 0; i < u.NumFields(); i++ {
			if hasRefs(u.Field(i).Type(), depth+1) {
				return true
			}
		}
	case *types.Array:
		return hasRefs(u.Elem(), depth+1)
	}
	return false
}

func kindForValue(t types.Type) oKind {
	if isRefType(t) {
		return oRef
	}
	if hasRefs(t, 0) {
		return oVal
	}
	return oNone
}

func (o *ownAnalysis) origin(v ssa.Value) origin {
	if v == nil {
		return origin{}
	}
	if r, ok := o.memo[v]; ok {
		return r
	}
	if o.active[v] {
		return origin{}
	}
	o.active[v] = true
	r := o.origin1(v)
	delete(o.active, v)
	if r.kind != oNone && isTokenType(v.Type()) {
		r.viaToken = true
	}
	o.memo[v] = r
	return r
}

func (o *ownAnalysis) origin1(v ssa.Value) origin {
	switch x := v.(type) {
	case *ssa.Parameter:
		k := kindForValue(x.Type())
		if k == oNone {
			return origin{}
		}
		return origin{root: x, kind: k, viaToken: isTokenType(x.Type())}
	case *ssa.Global:
		return origin{root: x, kind: oRef} // address of the package-level variable
	case *ssa.FreeVar:
		return o.freeVarOrigin(x)
	case *ssa.Alloc:
		// local copy of a rooted value?
		var res origin
		for _, st := range storesDirect(x) {
			so := o.origin(st.Val)
			if so.kind != oNone {
				res = origin{root: so.root, kind: oLocal, viaToken: so.viaToken}
			}
		}
		return res
	case *ssa.FieldAddr:
		b := o.origin(x.X)
		switch b.kind {
		case oRef, oLocal:
			return b
		}
	case *ssa.IndexAddr:
		b := o.origin(x.X)
		switch b.kind {
		case oRef, oLocal:
			return b
		}
	case *ssa.UnOp:
		if x.Op != token.MUL {
			return origin{}
		}
		b := o.origin(x.X)
		if b.kind == oRef || b.kind == oLocal {
			k := kindForValue(x.Type())
			if k == oNone {
				return origin{}
			}
			return origin{root: b.root, kind: k, viaToken: b.viaToken}
		}
		if fa, isFA := x.X.(*ssa.FieldAddr); isFA && b.kind == oNone {
			return o.heldInField(fa.X, fa.Field, x.Type())
		}
	case *ssa.Field:
		b := o.origin(x.X)
		if b.kind == oVal {
			k := kindForValue(x.Type())
			if k == oNone {
				return origin{}
			}
			return origin{root: b.root, kind: k, viaToken: b.viaToken}
		}
	case *ssa.Index:
		b := o.origin(x.X)
		if b.kind == oVal || b.kind == oRef {
			k := kindForValue(x.Type())
			if k == oNone {
				return origin{}
			}
			return origin{root: b.root, kind: k, viaToken: b.viaToken}
		}
	case *ssa.Lookup:
		b := o.origin(x.X)
		if b.kind == oRef {
			t := x.Type()
			if tu, ok := t.(*types.Tuple); ok {
				t = tu.At(0).Type()
			}
			k := kindForValue(t)
			if k == oNone {
				return origin{}
			}
			return origin{root: b.root, kind: k, viaToken: b.viaToken}
		}
	case *ssa.Slice:
		b := o.origin(x.X)
		if b.kind == oRef {
			return b
		}
	case *ssa.Phi:
		for _, e := range x.Edges {
			if b := o.origin(e); b.kind != oNone {
				return b
			}
		}
	case *ssa.ChangeType:
		return o.origin(x.X)
	case *ssa.ChangeInterface:
		return o.origin(x.X)
	case *ssa.MakeInterface:
		b := o.origin(x.X)
		if b.kind == oRef {
			b.kind = oVal // interface boxing a reference
			return b
		}
		return b
	case *ssa.Convert:
		return o.origin(x.X)
	case *ssa.TypeAssert:
		b := o.origin(x.X)
		if b.kind == oNone {
			return b
		}
		t := x.AssertedType
		k := kindForValue(t)
		if k == oNone {
			return origin{}
		}
		b.kind = k
		return b
	case *ssa.Extract:
		b := o.origin(x.Tuple)
		if b.kind == oNone {
			return b
		}
		k := kindForValue(x.Type())
		if k == oNone {
			return origin{}
		}
		b.kind = k
		return b
	case *ssa.Call:
		// accessor: result is a reference into the memory of one of the arguments
		for _, callee := range o.p.CG().Callees(x) {
			if rr := o.retRef[callee]; rr != nil {
				args := callArgs(&x.Call)
				for i, a := range args {
					if rr[i] {
						if b := o.origin(a); b.kind != oNone {
							k := kindForValue(x.Type())
							if _, isT := x.Type().(*types.Tuple); isT {
								k = oVal
							}
							if k != oNone {
								return origin{root: b.root, kind: k, viaToken: b.viaToken}
							}
						}
					}
				}
			}
		}
	case *ssa.Next:
		return o.origin(x.Iter)
	case *ssa.Range:
		b := o.origin(x.X)
		if b.kind == oRef {
			b.kind = oVal
			return b
		}
	}
	return origin{}
}

// callArgs returns receiver+arguments in parameter order (for invoke calls the receiver first).
func callArgs(c *ssa.CallCommon) []ssa.Value {
	if c.IsInvoke() {
		return append([]ssa.Value{c.Value}, c.Args...)
	}
	return c.Args
}

func storesDirect(a *ssa.Alloc) []*ssa.Store {
	var out []*ssa.Store
	for _, r := range *a.Referrers() {
		if st, ok := r.(*ssa.Store); ok && st.Addr == ssa.Value(a) {
			out = append(out, st)
		}
	}
	return out
}

func (o *ownAnalysis) freeVarOrigin(fv *ssa.FreeVar) origin {
	fn := fv.Parent()
	idx := -1
	for i, f := range fn.FreeVars {
		if f == fv {
			idx = i
		}
	}
	parent := fn.Parent()
	if parent == nil || idx < 0 {
		return origin{}
	}
	for _, b := range parent.Blocks {
		for _, in := range b.Instrs {
			mc, ok := in.(*ssa.MakeClosure)
			if !ok || mc.Fn != ssa.Value(fn) || idx >= len(mc.Bindings) {
				continue
			}
			return o.origin(mc.Bindings[idx])
		}
	}
	return origin{}
}

// write describes one memory write (or potential write) of a function.
type write struct {
	in     ssa.Instruction
	target ssa.Value
	what   string
	org    origin
}

func (o *ownAnalysis) writesOf(fn *ssa.Function) []write {
	var out []write
	for _, b := range fn.Blocks {
		for _, in := range b.Instrs {
			switch x := in.(type) {
			case *ssa.Store:
				if og := o.origin(x.Addr); og.kind == oRef {
					out = append(out, write{in, x.Addr, "store through " + shortD(x.Addr), og})
				}
			case *ssa.MapUpdate:
				if og := o.origin(x.Map); og.kind == oRef {
					out = append(out, write{in, x.Map, "map update on " + shortD(x.Map), og})
				}
			case ssa.CallInstruction:
				cc := x.Common()
				if bi, ok := cc.Value.(*ssa.Builtin); ok {
					switch bi.Name() {
					case "append":
						if og := o.origin(cc.Args[0]); og.kind == oRef {
							out = append(out, write{in, cc.Args[0], "append onto " + shortD(cc.Args[0]) + " (may write into its spare capacity)", og})
						}
					case "copy":
						if og := o.origin(cc.Args[0]); og.kind == oRef {
							out = append(out, write{in, cc.Args[0], "copy into " + shortD(cc.Args[0]), og})
						}
					case "delete":
						if og := o.origin(cc.Args[0]); og.kind == oRef {
							out = append(out, write{in, cc.Args[0], "delete from " + shortD(cc.Args[0]), og})
						}
					case "clear":
						if og := o.origin(cc.Args[0]); og.kind == oRef {
							out = append(out, write{in, cc.Args[0], "clear of " + shortD(cc.Args[0]), og})
						}
					}
				}
			}
		}
	}
	return out
}

func paramIndex(fn *ssa.Function, v ssa.Value) int {
	for i, pa := range fn.Params {
		if ssa.Value(pa) == v {
			return i
		}
	}
	return -1
}

// rootParam maps an origin root to (function, parameter index): for closures the
// root may be a parameter of an enclosing function.
func rootParam(root ssa.Value) (*ssa.Function, int) {
	pa, ok := root.(*ssa.Parameter)
	if !ok {
		return nil, -1
	}
	return pa.Parent(), paramIndex(pa.Parent(), pa)
}

// isImmutableHolder: storing a reference into a field of these types is structural
// sharing between immutable values, not a capture by a mutable holder.
func isImmutableHolder(t types.Type) bool {
	t = deref(t)
	if isRepoNamed(t, "biscuit", "Biscuit") || isRepoNamed(t, "biscuit", "Block") {
		return true
	}
	if n, ok := t.(*types.Named); ok && n.Obj().Pkg() != nil && shortNames[n.Obj().Pkg().Path()] == "pb" {
		return true
	}
	return false
}

func (p *Prog) own() *ownAnalysis {
	if p.ownA != nil {
		return p.ownA
	}
	o := &ownAnalysis{p: p, memo: map[ssa.Value]origin{}, active: map[ssa.Value]bool{},
		mutates: map[*ssa.Function]map[int]string{}, capture: map[*ssa.Function]map[int]string{}, retRef: map[*ssa.Function]map[int]bool{}, retHold: map[*ssa.Function]map[int]int{}}
	p.ownA = o
	set := func(m map[*ssa.Function]map[int]string, f *ssa.Function, i int, why string) bool {
		if f == nil || i < 0 {
			return false
		}
		if m[f] == nil {
			m[f] = map[int]string{}
		}
		if _, ok := m[f][i]; ok {
			return false
		}
		m[f][i] = why
		return true
	}
	// all functions with bodies: repository functions plus synthetic wrappers reachable from them
	funcs := append([]*ssa.Function{}, p.Funcs...)
	seen := map[*ssa.Function]bool{}
	for _, f := range funcs {
		seen[f] = true
	}
	for i := 0; i < len(funcs); i++ {
		for _, s := range p.CG().succs(funcs[i]) {
			if !seen[s] && s.Blocks != nil && p.isRepoFunc(s) {
				seen[s] = true
				funcs = append(funcs, s)
			}
		}
	}
	changed := true
	for iter := 0; changed && iter < 20; iter++ {
		changed = false
		o.memo = map[ssa.Value]origin{} // accessor summaries may have grown
		for _, fn := range funcs {
			// direct writes
			for _, w := range o.writesOf(fn) {
				if f, i := rootParam(w.org.root); f != nil {
					if set(o.mutates, f, i, w.what+" in "+p.FuncName(fn)) {
						changed = true
					}
				}
			}
			for _, b := range fn.Blocks {
				for _, in := range b.Instrs {
					switch x := in.(type) {
					case *ssa.Store:
						// capture: a reference rooted at a parameter is stored into a mutable holder / global
						vo := o.origin(x.Val)
						if vo.kind != oRef || isTokenType(x.Val.Type()) {
							continue
						}
						f, i := rootParam(vo.root)
						if f == nil {
							continue
						}
						switch a := x.Addr.(type) {
						case *ssa.FieldAddr:
							if !isImmutableHolder(a.X.Type()) && escapes(a.X) && o.holderMutates(a.X.Type()) {
								if set(o.capture, f, i, "stored into "+shortType(deref(a.X.Type()))+"."+fieldName(a)+" in "+p.FuncName(fn)) {
									changed = true
								}
							}
						case *ssa.Global:
							if set(o.capture, f, i, "stored into package variable "+a.Name()) {
								changed = true
							}
						}
					case ssa.CallInstruction:
						cc := x.Common()
						if _, isB := cc.Value.(*ssa.Builtin); isB {
							continue
						}
						args := callArgs(cc)
						for _, callee := range p.CG().Callees(x) {
							for ai, a := range args {
								ao := o.origin(a)
								if ao.kind == oNone || ao.kind == oLocal {
									continue
								}
								f, i := rootParam(ao.root)
								if f == nil {
									continue
								}
								// code outside the repository that is not known to be read-only may write through the reference
								if (callee.Blocks == nil || !p.isRepoFunc(callee)) && o.origin(unwrap(a)).kind == oRef && !readOnlyExternal(calleeName(callee)) && mutableRefType(unwrap(a).Type()) {
									if set(o.mutates, f, i, "passed to "+calleeName(callee)+" outside the repository, which is not known to be read-only") {
										changed = true
									}
								}
								if why, ok := o.mutates[callee][ai]; ok {
									if set(o.mutates, f, i, "passed to "+calleeName(callee)+" which mutates it ("+why+")") {
										changed = true
									}
								}
								if why, ok := o.capture[callee][ai]; ok && ao.kind == oRef && !isTokenType(a.Type()) {
									if set(o.capture, f, i, "passed to "+calleeName(callee)+" which retains it ("+why+")") {
										changed = true
									}
								}
							}
						}
					case *ssa.Return:
						for ri := range x.Results {
							if al, isAl := retVal(x, ri).(*ssa.Alloc); isAl && ri == 0 {
								if _, isSt := deref(al.Type()).Underlying().(*types.Struct); isSt {
									for _, ref := range *al.Referrers() {
										fa, isFA := ref.(*ssa.FieldAddr)
										if !isFA {
											continue
										}
										for _, rr := range *fa.Referrers() {
											st, isStore := rr.(*ssa.Store)
											if !isStore || st.Addr != ssa.Value(fa) {
												continue
											}
											so := o.origin(st.Val)
											if so.kind != oRef && so.kind != oVal {
												continue
											}
											if f, i := rootParam(so.root); f == fn && i >= 0 {
												if o.retHold[fn] == nil {
													o.retHold[fn] = map[int]int{}
												}
												if _, had := o.retHold[fn][fa.Field]; !had {
													o.retHold[fn][fa.Field] = i
													changed = true
												}
											}
										}
									}
								}
							}
							ro := o.origin(retVal(x, ri))
							if ro.kind == oRef || ro.kind == oVal {
								if f, i := rootParam(ro.root); f == fn && i >= 0 {
									if o.retRef[fn] == nil {
										o.retRef[fn] = map[int]bool{}
									}
									if !o.retRef[fn][i] {
										o.retRef[fn][i] = true
										changed = true
									}
								}
							}
						}
					}
				}
			}
		}
	}
	o.memo = map[ssa.Value]origin{}
	return o
}

// escapes: the struct at address v outlives the function (returned, stored, passed on) — conservative: true unless it is a local Alloc never used other than through field accesses.
func escapes(v ssa.Value) bool {
	a, ok := v.(*ssa.Alloc)
	if !ok {
		return true
	}
	if a.Heap {
		return true
	}
	return false
}

// holderMutates: some method of the holder type writes through its receiver, i.e. a
// reference stored in the holder may later be mutated through it. Read-only view
// types (e.g. datalog.SymbolDebugger) are not mutable holders.
func (o *ownAnalysis) holderMutates(t types.Type) bool {
	n, ok := deref(t).(*types.Named)
	if !ok {
		return true
	}
	for _, tt := range []types.Type{n, types.NewPointer(n)} {
		ms := o.p.SSA.MethodSets.MethodSet(tt)
		for i := 0; i < ms.Len(); i++ {
			fn := o.p.SSA.MethodValue(ms.At(i))
			if fn == nil {
				continue
			}
			if _, mut := o.mutates[fn][0]; mut {
				return true
			}
		}
	}
	return false
}

// mutableRefType: slices, maps and pointers to non-opaque data (not functions, channels, interfaces or strings).
func mutableRefType(t types.Type) bool {
	switch u := t.Underlying().(type) {
	case *types.Slice, *types.Map:
		return true
	case *types.Pointer:
		_ = u
		return true
	}
	return false
}
