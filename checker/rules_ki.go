package main

import (
	"go/constant"
	"go/token"
	"go/types"
	"strings"

	"golang.org/x/tools/go/ssa"
)

func init() {
	register(
		&Rule{ID: "KI-PROPAGATE", Doc: "every pb.Biscuit envelope built from a token copies RootKeyId; the root constructor takes it from the option", Run: ruleKIPropagate, Min: 4},
		&Rule{ID: "KI-LOOKUP", Doc: "WithRootPublicKeys returns the default key only for a nil id, the mapped key only for a present id, otherwise ErrNoPublicKeyAvailable", Run: ruleKILookup, Min: 3},
		&Rule{ID: "KI-FLOW", Doc: "AuthorizerFor asks the key source for the token's id, wraps its error with %w, rejects an empty key and verifies with the returned key", Run: ruleKIFlow, Min: 4},
	)
}

// litFields returns, for a struct allocated in fn (composite literal or new),
// the values stored into its fields by the allocating function.
func litFields(a *ssa.Alloc) map[string]ssa.Value {
	out := map[string]ssa.Value{}
	for _, r := range *a.Referrers() {
		fa, ok := r.(*ssa.FieldAddr)
		if !ok || fa.X != ssa.Value(a) {
			continue
		}
		for _, rr := range *fa.Referrers() {
			if st, ok := rr.(*ssa.Store); ok && st.Addr == ssa.Value(fa) {
				out[fieldName(fa)] = st.Val
			}
		}
	}
	return out
}

// allocsOf lists the allocations of struct type pkg.name in fn.
func allocsOf(fn *ssa.Function, pkg, name string) []*ssa.Alloc {
	var out []*ssa.Alloc
	for _, b := range fn.Blocks {
		for _, in := range b.Instrs {
			if a, ok := in.(*ssa.Alloc); ok && isNamed(deref(a.Type()), pkgPathOf(pkg), name) {
				out = append(out, a)
			}
		}
	}
	return out
}

// tokenParam returns the first parameter (incl. receiver) of type *biscuit.Biscuit.
func tokenParam(fn *ssa.Function) *ssa.Parameter {
	for _, p := range fn.Params {
		if _, isPtr := p.Type().(*types.Pointer); isPtr && isRepoNamed(p.Type(), "biscuit", "Biscuit") {
			return p
		}
	}
	return nil
}

func passedTo(v ssa.Value, callee string) bool {
	for _, r := range *v.Referrers() {
		if c, ok := r.(ssa.CallInstruction); ok && isCallTo(c.Common(), callee) {
			return true
		}
		if mi, ok := r.(*ssa.MakeInterface); ok {
			if passedTo(mi, callee) {
				return true
			}
		}
	}
	return false
}

func ruleKIPropagate(p *Prog, r *Reporter) {
	globalP = p
	for _, fn := range p.funcsIn("biscuit") {
		for _, a := range allocsOf(fn, "pb", "Biscuit") {
			name := p.FuncName(fn)
			pos := p.instrPos(a)
			if passedTo(a, "google.golang.org/protobuf/proto.Unmarshal") {
				r.OK(pos, name, "pb.Biscuit", "envelope filled by proto.Unmarshal (rootKeyId decoded from the wire)")
				continue
			}
			fields := litFields(a)
			v, has := fields["RootKeyId"]
			if tp := tokenParam(fn); tp != nil {
				want := tp.Name() + ".container.RootKeyId"
				if !has {
					r.Bad(pos, name, "pb.Biscuit", "envelope derived from token "+tp.Name()+" does not set RootKeyId: the derived token loses its root key identifier")
				} else if p.D(v) != want {
					r.Bad(pos, name, "pb.Biscuit", "RootKeyId is set from "+shortD(v)+", expected "+want)
				} else {
					r.OK(pos, name, "pb.Biscuit", "RootKeyId copied from "+want)
				}
				continue
			}
			if !has {
				r.Bad(pos, name, "pb.Biscuit", "root envelope does not set RootKeyId")
			} else if !strings.HasSuffix(p.D(v), ".rootKeyID") {
				r.Bad(pos, name, "pb.Biscuit", "RootKeyId is set from "+shortD(v)+", expected the rootKeyID option value")
			} else {
				r.OK(pos, name, "pb.Biscuit", "RootKeyId taken from options.rootKeyID")
			}
		}
	}
	// option plumbing
	for _, m := range []string{"applyToBiscuit", "applyToBuilder"} {
		f := p.Func("biscuit", "rootKeyIDOption", m)
		if f == nil {
			r.Dunno("?", "biscuit.rootKeyIDOption."+m, "store rootKeyID", "method not found")
			continue
		}
		ok := false
		for _, b := range f.Blocks {
			for _, in := range b.Instrs {
				st, isSt := in.(*ssa.Store)
				if !isSt {
					continue
				}
				fa, isFA := st.Addr.(*ssa.FieldAddr)
				if !isFA || fieldName(fa) != "rootKeyID" {
					continue
				}
				// stored value: address of a local holding uint32(receiver)
				if al, isAl := st.Val.(*ssa.Alloc); isAl {
					for _, s2 := range storesInto(al) {
						if dependsOn(s2.Val, func(x ssa.Value) bool { return x == ssa.Value(f.Params[0]) }) {
							ok = true
						}
					}
				}
				// unconditionally: every identifier (0 and 2^32-1 included) is recorded
				for _, ret := range returnsOf(f) {
					if !(st.Block() == ret.Block() || st.Block().Dominates(ret.Block())) {
						ok = false
					}
				}
			}
		}
		r.Check(ok, p.Pos(f.Pos()), p.FuncName(f), "store rootKeyID", "stores the option's identifier", "does not store the option's identifier into rootKeyID")
	}
	if f := p.Func("biscuit", "builderOptions", "Build"); f != nil {
		ok := false
		for _, c := range callsIn(f) {
			if isCallTo(c.Common(), "biscuit.WithRootKeyID") && p.D(c.Common().Args[0]) == "*b.rootKeyID" {
				if cv, isV := c.(*ssa.Call); isV {
					for _, c2 := range callsIn(f) {
						if isCallTo(c2.Common(), "biscuit.newBiscuit") {
							args := c2.Common().Args
							if sliceMustContain(args[len(args)-1], cv, cv.Block()) && onlyNilGuards(p, cv.Block(), "b.rootKeyID") {
								ok = true
							}
						}
					}
				}
			}
		}
		r.Check(ok, p.Pos(f.Pos()), p.FuncName(f), "WithRootKeyID", "WithRootKeyID(*b.rootKeyID) is passed to newBiscuit", "the builder's root key id is not passed to newBiscuit")
	} else {
		r.Dunno("?", "biscuit.builderOptions.Build", "WithRootKeyID", "function not found")
	}
	if f := p.Func("biscuit", "Biscuit", "RootKeyID"); f != nil {
		ok := true
		n := 0
		for _, b := range f.Blocks {
			if ret := blockReturn(b); ret != nil {
				n++
				if p.D(retVal(ret, 0)) != "b.container.RootKeyId" && p.D(retVal(ret, 0)) != f.Params[0].Name()+".container.RootKeyId" {
					ok = false
				}
			}
		}
		r.Check(ok && n > 0, p.Pos(f.Pos()), p.FuncName(f), "return", "reports container.RootKeyId", "RootKeyID does not report the envelope's RootKeyId")
	} else {
		r.Dunno("?", "biscuit.Biscuit.RootKeyID", "return", "method not found")
	}
}

func isLoadOfGlobal(v ssa.Value, pkg, name string) bool {
	u, ok := unwrap(v).(*ssa.UnOp)
	if !ok || u.Op != token.MUL {
		return false
	}
	g, ok := u.X.(*ssa.Global)
	return ok && g.Name() == name && g.Pkg != nil && g.Pkg.Pkg.Name() == pkg
}

// guardHolds: among guards of blk, is there a nil comparison of a value described by d with the wanted outcome (isNil)?
func nilGuard(p *Prog, blk *ssa.BasicBlock, d string, wantNil bool) bool {
	for _, g := range guardsOf(blk) {
		b, ok := g.cond.(*ssa.BinOp)
		if !ok || (b.Op != token.EQL && b.Op != token.NEQ) {
			continue
		}
		var x ssa.Value
		if isNilConst(b.Y) {
			x = b.X
		} else if isNilConst(b.X) {
			x = b.Y
		} else {
			continue
		}
		dx := p.D(x)
		// a generated protobuf getter returns the field itself for pointer / message fields
		if m := pbGetterRe.FindStringSubmatch(dx); m != nil && dx != d {
			dx = m[2] + "." + m[1]
		}
		if dx != d {
			continue
		}
		isNil := (b.Op == token.EQL) == g.val
		if isNil == wantNil {
			return true
		}
	}
	return false
}

func boolGuard(blk *ssa.BasicBlock, v ssa.Value, want bool) bool {
	return hasGuard(blk, v, want)
}

func ruleKILookup(p *Prog, r *Reporter) {
	globalP = p
	outer := p.Func("biscuit", "", "WithRootPublicKeys")
	if outer == nil || len(outer.AnonFuncs) != 1 {
		r.Dunno("?", "biscuit.WithRootPublicKeys", "closure", "function or its single projection closure not found")
		return
	}
	f := outer.AnonFuncs[0]
	name := p.FuncName(f)
	if len(f.Params) != 1 {
		r.Dunno(p.Pos(f.Pos()), name, "closure", "unexpected signature")
		return
	}
	id := f.Params[0].Name()
	nDefault, nMapped, nErr := 0, 0, 0
	for _, b := range f.Blocks {
		ret := blockReturn(b)
		if ret == nil {
			continue
		}
		pos := p.instrPos(ret)
		key, err := retVal(ret, 0), retVal(ret, 1)
		if !isNilConst(err) {
			// error return
			if isLoadOfGlobal(err, "biscuit", "ErrNoPublicKeyAvailable") && isNilConst(key) {
				r.OK(pos, name, "return error", "returns (nil, ErrNoPublicKeyAvailable)")
				nErr++
			} else {
				r.Bad(pos, name, "return error", "failure return is not (nil, ErrNoPublicKeyAvailable): "+shortD(key)+", "+shortD(err))
			}
			continue
		}
		kd := p.D(key)
		switch {
		case kd == "*^defaultKey":
			ok := nilGuard(p, b, id, true) && nilGuard(p, b, "^defaultKey", false)
			r.Check(ok, pos, name, "return default key", "default key returned only when the token has no id and a default exists",
				"default key returned on a path where the token's id is not known to be nil (fallback to the default key)")
			nDefault++
		case kd == "^keysByID[*"+id+"]#0":
			ex, _ := unwrap(key).(*ssa.Extract)
			ok := false
			if ex != nil {
				for _, e := range extractOf(ex.Tuple, 1) {
					if boolGuard(b, e, true) {
						ok = true
					}
				}
			}
			ok = ok && nilGuard(p, b, id, false)
			r.Check(ok, pos, name, "return mapped key", "mapped key returned only for a non-nil id present in the map",
				"mapped key returned without the presence test (ok) or for a nil id")
			nMapped++
		default:
			r.Bad(pos, name, "return key", "success return of a key that is neither *defaultKey nor keysByID[*id]: "+kd)
		}
	}
	if nDefault == 0 || nMapped == 0 || nErr == 0 {
		r.Bad(p.Pos(f.Pos()), name, "returns", "projection lacks one of: default-key return, mapped-key return, ErrNoPublicKeyAvailable return")
	}
}

func constString(v ssa.Value) (string, bool) {
	c, ok := unwrap(v).(*ssa.Const)
	if !ok || c.Value == nil || c.Value.Kind() != constant.String {
		return "", false
	}
	return constant.StringVal(c.Value), true
}

func ruleKIFlow(p *Prog, r *Reporter) {
	globalP = p
	f := p.Func("biscuit", "Biscuit", "AuthorizerFor")
	if f == nil {
		r.Dunno("?", "biscuit.Biscuit.AuthorizerFor", "function", "not found")
		return
	}
	name := p.FuncName(f)
	recv := f.Params[0]
	var src *ssa.Parameter
	for _, pa := range f.Params[1:] {
		if isRepoNamed(pa.Type(), "biscuit", "PublickKeyByIDProjection") {
			src = pa
		}
	}
	if src == nil {
		r.Dunno(p.Pos(f.Pos()), name, "keySource", "no PublickKeyByIDProjection parameter")
		return
	}
	var ks *ssa.Call
	for _, c := range callsIn(f) {
		if cv, ok := c.(*ssa.Call); ok && unwrap(cv.Call.Value) == ssa.Value(src) {
			ks = cv
		}
	}
	if ks == nil {
		r.Bad(p.Pos(f.Pos()), name, "keySource call", "the key source is never called")
		return
	}
	pos := p.instrPos(ks)
	argD := p.D(ks.Call.Args[0])
	r.Check(argD == "biscuit.Biscuit.RootKeyID("+recv.Name()+")" || argD == recv.Name()+".container.RootKeyId", pos, name, "keySource argument",
		"key source is asked for the token's own root key id", "key source is called with "+argD+" instead of the token's root key id")
	keys := extractOf(ks, 0)
	errs := extractOf(ks, 1)
	if len(keys) == 0 || len(errs) == 0 {
		r.Bad(pos, name, "keySource results", "key or error result of the key source is discarded")
		return
	}
	key, errV := keys[0], errs[0]
	// error wrapped with %w
	tests := nilTests(errV)
	okErr := false
	why := "the key source's error is not tested"
	if len(tests) > 0 {
		why = "the failure branch does not return the key source's error wrapped with %w"
		nRet, nGood := 0, 0
		for b := range reachableFrom(tests[0].nonNil) {
			ret := blockReturn(b)
			if ret == nil {
				continue
			}
			nRet++
			if wrapsWithW(retVal(ret, 1), errV) && isNilConst(retVal(ret, 0)) {
				nGood++
			}
		}
		// every failure return (not just one of them) keeps the error identifiable with errors.Is
		okErr = nRet > 0 && nGood == nRet
	}
	r.Check(okErr, pos, name, "keySource error", "error returned wrapped with %w and no authorizer", why)
	// empty key rejected
	var verify ssa.CallInstruction
	for _, c := range callsIn(f) {
		if isCallTo(c.Common(), "biscuit.Biscuit.authorizerFor") {
			verify = c
		}
	}
	if verify == nil {
		r.Bad(pos, name, "verification call", "AuthorizerFor does not call the signature-verifying constructor")
		return
	}
	emptyGuard := false
	for _, g := range guardsOf(verify.Block()) {
		b, ok := g.cond.(*ssa.BinOp)
		if !ok {
			continue
		}
		if p.D(b.X) == "len("+p.D(key)+")" {
			if c, isC := constInt(b.Y); isC && c == 0 && ((b.Op == token.EQL && !g.val) || (b.Op == token.NEQ && g.val) || (b.Op == token.GTR && g.val)) {
				// the rejected side must return ErrNoPublicKeyAvailable
				_, t, fl := condOf(g.at)
				rej := t
				if g.val {
					rej = fl
				}
				okRej := true
				for bb := range reachableFrom(rej) {
					if ret := blockReturn(bb); ret != nil && !reachAvoiding(bb, verify.Block(), nil) {
						if !isLoadOfGlobal(retVal(ret, 1), "biscuit", "ErrNoPublicKeyAvailable") {
							okRej = false
						}
					}
				}
				emptyGuard = okRej
			}
		}
	}
	r.Check(emptyGuard, p.instrPos(verify), name, "empty key", "an empty key is rejected with ErrNoPublicKeyAvailable before verification", "verification is reached without rejecting an empty key with ErrNoPublicKeyAvailable")
	args := verify.Common().Args
	okArgs := len(args) >= 3 && args[0] == ssa.Value(recv) && args[1] == ssa.Value(key)
	r.Check(okArgs, p.instrPos(verify), name, "verification key", "the chain is verified on the receiver with exactly the key the source returned", "authorizerFor is not called with (receiver, key returned by the source)")
	if ret := verify.(*ssa.Call); ret != nil {
		// the result is returned as is
		okRet := false
		for _, b := range f.Blocks {
			if rr := blockReturn(b); rr != nil && len(rr.Results) == 2 {
				e0, ok0 := retVal(rr, 0).(*ssa.Extract)
				e1, ok1 := retVal(rr, 1).(*ssa.Extract)
				if ok0 && ok1 && e0.Tuple == ssa.Value(ret) && e1.Tuple == ssa.Value(ret) {
					okRet = true
				}
			}
		}
		r.Check(okRet, p.instrPos(verify), name, "verification result", "verification outcome returned unchanged", "the verification outcome is not what AuthorizerFor returns")
	}
}
