package main

import (
	"fmt"
	"go/ast"
	"go/token"
	"go/types"
	"os"
	"path/filepath"
	"reflect"
	"regexp"
	"sort"
	"strconv"
	"strings"

	"golang.org/x/tools/go/ssa"
)

func init() {
	register(
		&Rule{ID: "PG-LADDER", Doc: "the grammar's expression ladder (operators per level, associativity) equals GRAMMAR.md and the specified precedence", Run: rulePGLadder, Min: 8},
		&Rule{ID: "PG-LEXER", Doc: "the lexer rules and parser options are the specified ones (token classes, their order, quoting, lookahead)", Run: rulePGLexer, Min: 20},
		&Rule{ID: "PG-POLICY", Doc: "'allow if' yields an allow policy with the allow queries, 'deny if' a deny policy with the deny queries, in both parser entry points", Run: rulePGPolicy, Min: 4},
		&Rule{ID: "PG-FRESHEXPR", Doc: "every parsed expression is converted into its own freshly allocated op list (no scratch buffer shared between expressions)", Run: rulePGFreshExpr, Min: 1},
		&Rule{ID: "PG-LISTS", Doc: "term lists (predicate terms, set elements) are comma separated: the grammar tag is one optional group 'element (\",\" element)*', not a repetition of it", Run: rulePGLists, Min: 2},
		&Rule{ID: "PG-PURE", Doc: "no parse function writes the shared parser object (a parser value can be used from several goroutines and carries no state from one parse to the next)", Run: rulePGPure, Min: 3},
		&Rule{ID: "PG-PARSE", Doc: "every parse method converts the syntax tree parsed from its own text parameter in that very call (no tree from a cache or memo)", Run: rulePGParse, Min: 6},
		&Rule{ID: "PR-DATE", Doc: "dates print as RFC 3339 text of time.Unix(seconds, 0) with no intermediate arithmetic on the seconds (the parser reads RFC 3339 back into Unix seconds)", Run: rulePRDate, Min: 3},
		&Rule{ID: "PR-SEP", Doc: "the printer separates predicates and expressions with ', ' exactly when both are present", Run: rulePRSep, Min: 2},
		&Rule{ID: "PG-EMIT", Doc: "operands are emitted before their operator (postfix), left before right (left-assoc)", Run: rulePGEmit, Min: 12},
		&Rule{ID: "PG-OPMAP", Doc: "every operator token of the grammar maps to a defined, non-nil expression op: literal -> operatorMap -> Operator.ToExpr -> biscuit op", Run: rulePGOpMap, Min: 19},
		&Rule{ID: "PG-ERR", Doc: "no error returned inside package parser is discarded", Run: rulePGErr, Min: 10},
		&Rule{ID: "PG-TERMS", Doc: "every scalar term the parser produces has the type of the grammar alternative it was read from and is computed from that alternative's text only (Integer from Integer, String from String, Variable from Variable, Bool from Bool, Date from Date, Bytes from Bytes)", Run: rulePGTerms, Min: 6},
		&Rule{ID: "PG-LITERAL", Doc: "malformed literals, variables in sets and unbound parameters are reported on every path", Run: rulePGLiteral, Min: 3},
		&Rule{ID: "PR-TERMTEXT", Doc: "the text of byte, integer and boolean terms is the grammar's literal of the whole value on every path: hex: followed by the hex encoding of all bytes, %d, %t", Run: rulePRTermText, Min: 3},
		&Rule{ID: "PR-FORMAT", Doc: "no printed content is used as a format: every format string of the fmt functions called in the repository is a constant (or an entry of a package-level table of constants)", Run: rulePRFormat, Min: 20},
		&Rule{ID: "PR-TABLE", Doc: "a token prints each of its blocks with the token-wide symbol table itself (the one the authorizer resolves with), and the block printers resolve with the table they were given", Run: rulePRTable, Min: 4},
		&Rule{ID: "PR-OPSYM", Doc: "the printer's symbol for every operator is the one the parser reads for it", Run: rulePROpSym, Min: 20},
		&Rule{ID: "PR-KEYWORD", Doc: "printer keywords and delimiters are the ones the grammar reads", Run: rulePRKeyword, Min: 8},
		&Rule{ID: "PR-PARENS", Doc: "grouping parentheses are printed iff they were parsed", Run: rulePRParens, Min: 3},
	)
}

var frozenOpLiterals = map[string]string{
	"+": "BinaryAdd", "-": "BinarySub", "*": "BinaryMul", "/": "BinaryDiv", "&&": "BinaryAnd", "||": "BinaryOr",
	"<=": "BinaryLessOrEqual", ">=": "BinaryGreaterOrEqual", "<": "BinaryLessThan", ">": "BinaryGreaterThan", "==": "BinaryEqual",
	"contains": "BinaryContains", "starts_with": "BinaryPrefix", "ends_with": "BinarySuffix", "matches": "BinaryRegex",
	"intersection": "BinaryIntersection", "union": "BinaryUnion", "length": "UnaryLength", "!": "UnaryNegate",
}

type ladderLevel struct {
	typ    string
	ops    []string
	assoc  string // "left" (Right []*X, @@*), "none" (Right *X, @@?), "prefix"
	method bool
}

func structOf(p *Prog, pkg, name string) *types.Struct {
	n := p.NamedType(pkg, name)
	if n == nil {
		return nil
	}
	st, _ := n.Underlying().(*types.Struct)
	return st
}

func fieldByName(st *types.Struct, name string) (int, *types.Var) {
	for i := 0; i < st.NumFields(); i++ {
		if st.Field(i).Name() == name {
			return i, st.Field(i)
		}
	}
	return -1, nil
}

var quoted = regexp.MustCompile(`"([^"]+)"`)

func tagOps(tag string) []string {
	var out []string
	// only the alternatives inside @( ... )
	i := strings.Index(tag, "@(")
	if i < 0 {
		return nil
	}
	for _, m := range quoted.FindAllStringSubmatch(tag[i:], -1) {
		out = append(out, m[1])
	}
	return out
}

func elemNamed(t types.Type) (*types.Named, bool, bool) { // named, isSlice, isPtr
	isSlice := false
	if s, ok := t.(*types.Slice); ok {
		isSlice = true
		t = s.Elem()
	}
	pt, ok := t.(*types.Pointer)
	if !ok {
		return nil, isSlice, false
	}
	n, _ := pt.Elem().(*types.Named)
	return n, isSlice, true
}

func (p *Prog) extractLadder() ([]ladderLevel, string) {
	var out []ladderLevel
	cur := "Expression"
	for depth := 0; depth < 12; depth++ {
		st := structOf(p, "parser", cur)
		if st == nil {
			return out, "type parser." + cur + " not found"
		}
		_, left := fieldByName(st, "Left")
		ri, right := fieldByName(st, "Right")
		if left != nil && right != nil {
			opT, isSlice, _ := elemNamed(right.Type())
			if opT == nil {
				return out, cur + ".Right has unexpected type"
			}
			rtag := st.Tag(ri)
			opSt := opT.Underlying().(*types.Struct)
			oi, _ := fieldByName(opSt, "Operator")
			if oi < 0 {
				return out, opT.Obj().Name() + " has no Operator field"
			}
			lv := ladderLevel{typ: cur, ops: tagOps(opSt.Tag(oi))}
			lv.method = strings.Contains(opSt.Tag(oi), "Dot")
			switch {
			case isSlice && strings.Contains(rtag, "@@*"):
				lv.assoc = "left"
			case !isSlice && strings.Contains(rtag, "@@?"):
				lv.assoc = "none"
			default:
				return out, cur + ".Right: repetition tag " + rtag + " does not match its type"
			}
			// the operand of the operator node must be the same level as Left (left-assoc chain of equal-level operands)
			ln, _, _ := elemNamed(left.Type())
			sameOperand := false
			for i := 0; i < opSt.NumFields(); i++ {
				if n, _, _ := elemNamed(opSt.Field(i).Type()); n != nil && ln != nil && n.Obj() == ln.Obj() {
					sameOperand = true
				}
			}
			if !sameOperand && !lv.method {
				return out, opT.Obj().Name() + " does not carry an operand of the next level " + ln.Obj().Name()
			}
			out = append(out, lv)
			cur = ln.Obj().Name()
			continue
		}
		// prefix level: Operator *Operator `@("!")?` + next
		oi, op := fieldByName(st, "Operator")
		if op != nil {
			lv := ladderLevel{typ: cur, ops: tagOps(st.Tag(oi)), assoc: "prefix"}
			if !strings.HasSuffix(strings.TrimSpace(st.Tag(oi)), "?") {
				return out, cur + ".Operator is not optional"
			}
			out = append(out, lv)
			next := ""
			for i := 0; i < st.NumFields(); i++ {
				if i == oi {
					continue
				}
				if n, _, _ := elemNamed(st.Field(i).Type()); n != nil {
					next = n.Obj().Name()
				}
			}
			if next == "" {
				return out, cur + " has no operand"
			}
			cur = next
			continue
		}
		// term level
		out = append(out, ladderLevel{typ: cur, assoc: "term"})
		return out, ""
	}
	return out, "ladder too deep"
}

func sameSet(a, b []string) bool {
	x, y := append([]string{}, a...), append([]string{}, b...)
	sort.Strings(x)
	sort.Strings(y)
	return strings.Join(x, " ") == strings.Join(y, " ")
}

func rulePGLadder(p *Prog, r *Reporter) {
	globalP = p
	ladder, err := p.extractLadder()
	if err != "" {
		r.Dunno("parser/grammar.go", "parser.Expression", "ladder", "cannot extract the expression ladder: "+err)
		return
	}
	want := []ladderLevel{
		{ops: []string{"||"}, assoc: "left"},
		{ops: []string{"&&"}, assoc: "left"},
		{ops: []string{"<=", ">=", "<", ">", "=="}, assoc: "none"},
		{ops: []string{"+", "-"}, assoc: "left"},
		{ops: []string{"*", "/"}, assoc: "left"},
		{ops: []string{"!"}, assoc: "prefix"},
		{ops: []string{"matches", "starts_with", "ends_with", "contains", "union", "intersection", "length"}, assoc: "left", method: true},
		{assoc: "term"},
	}
	if len(ladder) != len(want) {
		r.Bad("parser/grammar.go", "parser.Expression", "ladder depth", fmt.Sprintf("the expression ladder has %d levels, the specified precedence has %d", len(ladder), len(want)))
	}
	for i := 0; i < len(want) && i < len(ladder); i++ {
		g, w := ladder[i], want[i]
		ok := sameSet(g.ops, w.ops) && g.assoc == w.assoc && g.method == w.method
		r.Check(ok, "parser/grammar.go", "parser."+g.typ, fmt.Sprintf("level %d", i),
			fmt.Sprintf("operators %v, %s", w.ops, w.assoc),
			fmt.Sprintf("level %d (loosest first) parses %v as %s, the specification says %v as %s: precedence or associativity differs from the documented grammar", i, g.ops, g.assoc, w.ops, w.assoc))
	}
	// GRAMMAR.md precedence table (highest to lowest)
	b, e := os.ReadFile(filepath.Join(p.Repo, "parser", "GRAMMAR.md"))
	if e != nil {
		r.Dunno("parser/GRAMMAR.md", "doc", "precedence table", "cannot read GRAMMAR.md")
		return
	}
	var rows []ladderLevel
	inTable := false
	for _, line := range strings.Split(string(b), "\n") {
		if strings.Contains(line, "Operators") && strings.Contains(line, "Associativity") {
			inTable = true
			continue
		}
		if !inTable {
			continue
		}
		if !strings.HasPrefix(strings.TrimSpace(line), "|") {
			if len(rows) > 0 {
				break
			}
			continue
		}
		cells := strings.Split(strings.Trim(strings.TrimSpace(line), "|"), "|")
		if len(cells) < 2 || strings.HasPrefix(strings.TrimSpace(cells[0]), "-") {
			continue
		}
		var ops []string
		// code spans; the table escapes | as \| sometimes: handle `||`
		for _, m := range regexp.MustCompile("`([^`]+)`").FindAllStringSubmatch(strings.ReplaceAll(line, `\|`, "|"), -1) {
			ops = append(ops, m[1])
		}
		assoc := "left"
		la := strings.ToLower(line)
		if strings.Contains(la, "not associative") {
			assoc = "none"
		}
		if strings.Contains(la, "prefix") {
			assoc = "prefix"
		}
		rows = append(rows, ladderLevel{ops: ops, assoc: assoc})
	}
	// the || row breaks the naive cell split; rows were read by code spans so this is fine
	var docOrder []ladderLevel
	for i := len(rows) - 1; i >= 0; i-- {
		docOrder = append(docOrder, rows[i])
	}
	var code []ladderLevel
	for _, l := range ladder {
		if !l.method && l.assoc != "term" {
			code = append(code, l)
		}
	}
	okDoc := len(docOrder) == len(code)
	why := fmt.Sprintf("GRAMMAR.md lists %d precedence levels, the grammar has %d", len(docOrder), len(code))
	if okDoc {
		for i := range code {
			if !sameSet(code[i].ops, docOrder[i].ops) || code[i].assoc != docOrder[i].assoc {
				okDoc = false
				why = fmt.Sprintf("level %v/%s of the grammar is documented as %v/%s", code[i].ops, code[i].assoc, docOrder[i].ops, docOrder[i].assoc)
			}
		}
	}
	r.Check(okDoc, "parser/GRAMMAR.md", "doc", "precedence table", "documented precedence table equals the grammar's ladder", why)
}

func rulePGEmit(p *Prog, r *Reporter) {
	globalP = p
	for _, fn := range p.funcsIn("parser") {
		if fn.Name() != "ToExpr" || fn.Parent() != nil || fn.Signature.Recv() == nil {
			continue
		}
		rn, _ := deref(fn.Signature.Recv().Type()).(*types.Named)
		if rn == nil {
			continue
		}
		st, ok := rn.Underlying().(*types.Struct)
		if !ok {
			continue
		}
		name := p.FuncName(fn)
		recv := fn.Params[0].Name()
		var calls []ssa.CallInstruction
		for _, c := range callsIn(fn) {
			if f := c.Common().StaticCallee(); f != nil && f.Name() == "ToExpr" {
				calls = append(calls, c)
			}
		}
		_, hasLeft := fieldByName(st, "Left")
		_, hasRight := fieldByName(st, "Right")
		_, opVar := fieldByName(st, "Operator")
		switch {
		case hasLeft != nil && hasRight != nil:
			// level: Left first
			var left ssa.CallInstruction
			for _, c := range calls {
				if p.D(c.Common().Args[0]) == recv+".Left" {
					left = c
				}
			}
			ok := left != nil
			for _, c := range calls {
				if c != left && ok && !instrDominates(left, c) {
					ok = false
				}
			}
			r.Check(ok && len(calls) >= 2, p.Pos(fn.Pos()), name, "left operand first", "Left is emitted before every Right element", "the left operand is not emitted before the operator/right operands (operand order or associativity changes)")
			// Right ranged in full, in order (slice) or under nil test (pointer)
		case opVar != nil && strings.HasPrefix(rn.Obj().Name(), "OpExpr"):
			var operand, operator ssa.CallInstruction
			for _, c := range calls {
				d := p.D(c.Common().Args[0])
				if strings.HasSuffix(d, ".Operator") {
					operator = c
				} else {
					operand = c
				}
			}
			if operator == nil {
				r.Bad(p.Pos(fn.Pos()), name, "operator emitted", "the operator is never emitted")
				continue
			}
			// OpExpr7 has an optional argument expression
			optional := false
			for i := 0; i < st.NumFields(); i++ {
				if strings.Contains(st.Tag(i), "@@?") {
					optional = true
				}
			}
			ok := operand != nil && (instrDominates(operand, operator) || (optional && !reachAvoiding(operator.Block(), operand.Block(), nil)))
			r.Check(ok, p.Pos(fn.Pos()), name, "operand before operator", "postfix: the right operand is emitted before its operator", "the operator is emitted before its right operand: the expression is no longer in postfix order")
		case opVar != nil:
			// prefix level (negation): operand first, then UnaryNegate under Operator != nil
			ok := len(calls) == 1
			var app *ssa.Call
			for _, c := range callsIn(fn) {
				if cv, isC := c.(*ssa.Call); isC {
					if bi, isB := cv.Call.Value.(*ssa.Builtin); isB && bi.Name() == "append" {
						app = cv
					}
				}
			}
			ok = ok && app != nil && instrDominates(calls[0], app) && nilGuard(p, app.Block(), recv+".Operator", false)
			neg := false
			if app != nil {
				if _, e, isOne := singleAppend(app); isOne {
					if k, isC := constInt(e); isC {
						if c := constByName(p, "biscuit", "UnaryNegate"); c != nil && *c == k {
							neg = true
						}
					}
				}
			}
			r.Check(ok && neg, p.Pos(fn.Pos()), name, "prefix negation", "operand emitted, then UnaryNegate iff the ! was parsed", "negation is not emitted as 'operand, then UnaryNegate exactly when ! was present'")
		}
	}
}

func (p *Prog) operatorMapLiteral() map[string]string {
	out := map[string]string{}
	pk := p.Pkgs["parser"]
	for _, f := range pk.Syntax {
		ast.Inspect(f, func(n ast.Node) bool {
			vs, ok := n.(*ast.ValueSpec)
			if !ok {
				return true
			}
			for i, nm := range vs.Names {
				if nm.Name != "operatorMap" || i >= len(vs.Values) {
					continue
				}
				cl, ok := vs.Values[i].(*ast.CompositeLit)
				if !ok {
					continue
				}
				for _, e := range cl.Elts {
					kv, ok := e.(*ast.KeyValueExpr)
					if !ok {
						continue
					}
					k, ok1 := kv.Key.(*ast.BasicLit)
					if !ok1 {
						continue
					}
					ks, _ := strconv.Unquote(k.Value)
					if c := constOf(pk.TypesInfo, kv.Value); c != nil {
						out[ks] = c.Name()
					}
				}
			}
			return true
		})
	}
	return out
}

func rulePGOpMap(p *Prog, r *Reporter) {
	globalP = p
	ladder, err := p.extractLadder()
	if err != "" {
		r.Dunno("parser/grammar.go", "parser", "ladder", err)
		return
	}
	om := p.operatorMapLiteral()
	toExpr := p.Func("parser", "Operator", "ToExpr")
	if toExpr == nil || len(om) == 0 {
		r.Dunno("parser/grammar.go", "parser", "operatorMap / Operator.ToExpr", "not found")
		return
	}
	opToBiscuit := p.switchMapConstToConst(toExpr)
	// Operator.Capture must use operatorMap
	if cp := p.Func("parser", "Operator", "Capture"); cp != nil {
		ok := false
		for _, b := range cp.Blocks {
			for _, in := range b.Instrs {
				if lk, isL := in.(*ssa.Lookup); isL && strings.Contains(p.D(lk.X), "operatorMap") {
					ok = true
				}
			}
		}
		r.Check(ok, p.Pos(cp.Pos()), p.FuncName(cp), "Capture", "captured token looked up in operatorMap", "Operator.Capture does not use operatorMap")
	}
	for _, lv := range ladder {
		for _, lit := range lv.ops {
			want := frozenOpLiterals[lit]
			opConst, inMap := om[lit]
			construct := "operator " + strconv.Quote(lit)
			if !inMap {
				r.Bad("parser/grammar.go", "parser.operatorMap", construct, "the grammar accepts this operator token but operatorMap has no entry for it: Capture yields the zero Operator (OpMul) silently")
				continue
			}
			if lit == "!" {
				r.OK("parser/grammar.go", "parser.operatorMap", construct, "negation is emitted by the prefix level (PG-EMIT)")
				continue
			}
			got, has := opToBiscuit[opConst]
			switch {
			case !has:
				r.Bad(p.Pos(toExpr.Pos()), p.FuncName(toExpr), construct, "no clause for "+opConst+" in Operator.ToExpr: a nil Op is appended to the expression and panics on first use")
			case got != want:
				r.Bad(p.Pos(toExpr.Pos()), p.FuncName(toExpr), construct, "token "+lit+" -> "+opConst+" -> biscuit."+got+", the grammar specifies biscuit."+want)
			default:
				r.OK(p.Pos(toExpr.Pos()), p.FuncName(toExpr), construct, "-> "+opConst+" -> biscuit."+got)
			}
		}
	}
}

func rulePGErr(p *Prog, r *Reporter) {
	globalP = p
	for _, fn := range p.funcsIn("parser") {
		name := p.FuncName(fn)
		for _, c := range callsIn(fn) {
			cc := c.Common()
			sig, ok := cc.Value.Type().Underlying().(*types.Signature)
			if cc.IsInvoke() {
				sig = cc.Method.Type().(*types.Signature)
				ok = true
			}
			if !ok || sig.Results().Len() == 0 || !isErrorType(sig.Results().At(sig.Results().Len()-1).Type()) {
				continue
			}
			callee := "call"
			if f := cc.StaticCallee(); f != nil {
				callee = calleeName(f)
			} else if cc.IsInvoke() {
				callee = cc.Method.Name()
			}
			construct := "error of " + callee
			pos := p.instrPos(c)
			cv, isV := c.(*ssa.Call)
			if !isV {
				r.Bad(pos, name, construct, "called in go/defer: error lost")
				continue
			}
			var errV ssa.Value = cv
			if sig.Results().Len() > 1 {
				es := extractOf(cv, sig.Results().Len()-1)
				if len(es) == 0 {
					r.Bad(pos, name, construct, "the error result is discarded: a failed conversion (unbound parameter, malformed literal) yields a nil/zero value that is used as if valid")
					continue
				}
				errV = es[0]
			}
			used := len(nilTests(errV)) > 0
			for _, ref := range *errV.Referrers() {
				switch ref.(type) {
				case *ssa.Return, *ssa.Store, *ssa.Phi, *ssa.MakeInterface, *ssa.Call, *ssa.Panic:
					used = true
				}
			}
			r.Check(used, pos, name, construct, "error tested, returned or propagated", "the error result is discarded: a failed conversion (unbound parameter, malformed literal) yields a nil/zero value that is used as if valid")
		}
	}
}

func rulePGLiteral(p *Prog, r *Reporter) {
	globalP = p
	fn := p.Func("parser", "Term", "ToBiscuit")
	if fn == nil {
		r.Dunno("?", "parser.Term.ToBiscuit", "method", "not found")
		return
	}
	name := p.FuncName(fn)
	// variables in sets
	okSet := false
	for _, ret := range returnsOf(fn) {
		if !isLoadOfGlobal(retVal(ret, 1), "parser", "ErrVariableInSet") {
			continue
		}
		inLoop := false
		for _, rl := range rangeLoops(fn) {
			if rl.inside(ret.Block()) && strings.HasSuffix(p.D(rl.seq), ".Set") {
				inLoop = true
			}
		}
		tv := constByName(p, "biscuit", "TermTypeVariable")
		guarded := false
		for _, g := range guardsOf(ret.Block()) {
			if bo, ok := g.cond.(*ssa.BinOp); ok && bo.Op == token.EQL && g.val && typeCallOn(bo.X) != nil {
				if k, isC := constInt(bo.Y); isC && tv != nil && k == *tv {
					guarded = true
				}
			}
		}
		okSet = inLoop && guarded
	}
	r.Check(okSet, p.Pos(fn.Pos()), name, "variable in set", "every set element is tested; a variable yields ErrVariableInSet", "set literals are not checked element by element for variables (ErrVariableInSet never or not always reported)")
	// unbound parameter
	okParam := false
	for _, ret := range returnsOf(fn) {
		ev := retVal(ret, 1)
		if c, ok := ev.(*ssa.Call); ok && isCallTo(&c.Call, "fmt.Errorf") {
			f, _ := constString(c.Call.Args[0])
			if strings.Contains(f, "unbound parameter") {
				for _, g := range guardsOf(ret.Block()) {
					if bo, ok := g.cond.(*ssa.BinOp); ok && isNilConst(bo.Y) && strings.Contains(p.D(bo.X), "parameters[") {
						if (bo.Op == token.EQL) == g.val {
							okParam = true
						}
					}
				}
			}
		}
	}
	r.Check(okParam, p.Pos(fn.Pos()), name, "unbound parameter", "a parameter without a value yields an error", "an unbound parameter is not reported as an error by Term.ToBiscuit")
	// every success value of a parameter is non-nil: the assignment is on the != nil side (implied by the return above dominating)
	// facts: variables rejected by the Fact entry point
	fact := p.Func("parser", "parser", "Fact")
	if fact == nil {
		r.Dunno("?", "parser.parser.Fact", "method", "not found")
		return
	}
	okFact := false
	for _, ret := range returnsOf(fact) {
		if isLoadOfGlobal(retVal(ret, 1), "parser", "ErrVariableInFact") {
			for _, rl := range rangeLoops(fact) {
				if rl.inside(ret.Block()) {
					// success return only after exhaustion
					for _, r2 := range returnsOf(fact) {
						if isNilConst(retVal(r2, 1)) && (rl.doneBB == r2.Block() || rl.doneBB.Dominates(r2.Block())) {
							okFact = true
						}
					}
				}
			}
		}
	}
	r.Check(okFact, p.Pos(fact.Pos()), p.FuncName(fact), "variable in fact", "every term of a parsed fact is tested; a variable yields ErrVariableInFact", "facts are not checked term by term for variables")
}

// ---- printer

func literalsOf(p *Prog, fn *ssa.Function) []string {
	var out []string
	d := p.funcDecl(fn)
	if d == nil {
		return nil
	}
	ast.Inspect(d, func(n ast.Node) bool {
		if bl, ok := n.(*ast.BasicLit); ok && bl.Kind == token.STRING {
			s, err := strconv.Unquote(bl.Value)
			if err == nil {
				out = append(out, s)
			}
		}
		return true
	})
	return out
}

func rulePROpSym(p *Prog, r *Reporter) {
	globalP = p
	for _, k := range []struct{ wrap, prefix string }{{"BinaryOp", "Binary"}, {"UnaryOp", "Unary"}} {
		wrap := p.NamedType("datalog", k.wrap)
		if wrap == nil || p.method(wrap, "Print") == nil {
			r.Dunno("?", "datalog."+k.wrap+".Print", "printer", "not found")
			continue
		}
		pr := p.method(wrap, "Print")
		formats := map[string][]string{}
		for _, tb := range p.switchTables(pr) {
			for _, e := range tb.entries {
				for _, c := range e.consts {
					formats[c.Name()] = e.literals
				}
			}
		}
		var lits []string
		for l := range frozenOpLiterals {
			lits = append(lits, l)
		}
		sort.Strings(lits)
		for _, lit := range lits {
			op := frozenOpLiterals[lit]
			if !strings.HasPrefix(op, k.prefix) {
				continue
			}
			want := ""
			switch {
			case lit == "!":
				want = "!%s"
			case lit == "length":
				want = "%s.length()"
			case regexp.MustCompile(`^[a-z_]+$`).MatchString(lit):
				want = "%s." + lit + "(%s)"
			default:
				want = "%s " + lit + " %s"
			}
			got := formats[op]
			ok := len(got) == 1 && got[0] == want
			r.Check(ok, p.Pos(pr.Pos()), p.FuncName(pr), "print "+op, "printed as "+strconv.Quote(want)+", the form the parser reads as "+op, fmt.Sprintf("%s is printed with %q but the parser reads %q as %s: the printed block does not parse back to what is enforced", op, got, want, op))
		}
		// the operands are printed in the order the parser reads them: every fmt.Sprintf of the
		// printer receives exactly its string parameters, in declaration order (left, right / value)
		nSprintf := 0
		for _, b := range pr.Blocks {
			for _, in := range b.Instrs {
				c, isC := in.(*ssa.Call)
				if !isC || !isCallTo(&c.Call, "fmt.Sprintf") || len(c.Call.Args) != 2 {
					continue
				}
				nSprintf++
				var want []ssa.Value
				for _, prm := range pr.Params[1:] {
					want = append(want, prm)
				}
				elems, okE := variadicElems(c.Call.Args[1])
				same := okE && len(elems) == len(want)
				for i := 0; same && i < len(want); i++ {
					same = unwrap(elems[i]) == want[i]
				}
				r.Check(same, p.instrPos(c), p.FuncName(pr), "operand order", "the format receives the printer's operands in the order (left, right) / (value)", "a format of the operator printer does not receive exactly its operands in the order the parser reads them back (left before right): the printed expression parses to a different one")
			}
		}
		r.Check(nSprintf > 0, p.Pos(pr.Pos()), p.FuncName(pr), "formats applied", "the printer applies its formats with fmt.Sprintf", "no fmt.Sprintf in the operator printer: how the operands are placed into the text is outside the enumerated idioms")
		if k.prefix == "Unary" {
			got := formats["UnaryParens"]
			r.Check(len(got) == 1 && got[0] == "(%s)", p.Pos(pr.Pos()), p.FuncName(pr), "print UnaryParens", `printed as "(%s)"`, fmt.Sprintf("UnaryParens printed with %q", got))
		}
	}
}

func hasLit(lits []string, want string) bool {
	for _, l := range lits {
		if l == want {
			return true
		}
	}
	return false
}

func tagOfField(p *Prog, typ, field string) string {
	st := structOf(p, "parser", typ)
	if st == nil {
		return ""
	}
	i, _ := fieldByName(st, field)
	if i < 0 {
		return ""
	}
	return st.Tag(i)
}

func rulePRKeyword(p *Prog, r *Reporter) {
	globalP = p
	dbg := p.NamedType("datalog", "SymbolDebugger")
	if dbg == nil {
		r.Dunno("?", "datalog.SymbolDebugger", "printer", "not found")
		return
	}
	type req struct {
		method string
		lits   []string
		gtype  string
		gfield string
		gtoks  []string
	}
	for _, q := range []req{
		{"Check", []string{"check if %s", " or "}, "Check", "Queries", []string{`"check if"`, `"or"`}},
		{"Rule", []string{"%s <- %s%s%s", ", "}, "Rule", "Body", []string{`"<-"`, `","`}},
		{"CheckQuery", []string{", "}, "CheckQuery", "Body", []string{`","`}},
		{"Predicate", []string{"%s(%s)", ", ", "\"", "$"}, "Predicate", "IDs", []string{`"("`, `","`, `")"`}},
	} {
		fn := p.method(dbg, q.method)
		if fn == nil {
			r.Dunno("?", "datalog.SymbolDebugger."+q.method, "printer", "not found")
			continue
		}
		lits := literalsOf(p, fn)
		for _, l := range q.lits {
			r.Check(hasLit(lits, l), p.Pos(fn.Pos()), p.FuncName(fn), "prints "+strconv.Quote(l), "keyword/delimiter present", "the printer of "+q.method+" does not emit "+strconv.Quote(l)+" that the grammar requires")
		}
		tag := tagOfField(p, q.gtype, q.gfield)
		for _, t := range q.gtoks {
			r.Check(strings.Contains(tag, t), "parser/grammar.go", "parser."+q.gtype, "grammar token "+t, "grammar reads it", "the grammar of "+q.gtype+"."+q.gfield+" no longer reads "+t+", which the printer emits")
		}
	}
	// literal forms: bytes, bool, date, string
	for _, q := range []struct{ typ, lit string }{{"Bytes", "hex:%s"}, {"Bool", "%t"}, {"Integer", "%d"}} {
		t := p.NamedType("datalog", q.typ)
		if t == nil || p.method(t, "String") == nil {
			r.Dunno("?", "datalog."+q.typ+".String", "printer", "not found")
			continue
		}
		fn := p.method(t, "String")
		lits := literalsOf(p, fn)
		r.Check(hasLit(lits, q.lit) || (q.typ == "Bytes" && hasLit(lits, "hex:")), p.Pos(fn.Pos()), p.FuncName(fn), "prints "+q.lit, "literal form the lexer reads", "datalog."+q.typ+" is not printed as "+q.lit)
	}
	if t := p.NamedType("datalog", "Date"); t != nil && p.method(t, "String") != nil {
		fn := p.method(t, "String")
		ok := false
		for _, c := range callsIn(fn) {
			if isCallTo(c.Common(), "time.Time.Format") {
				if s, isS := constString(c.Common().Args[1]); isS && s == "2006-01-02T15:04:05Z07:00" {
					ok = true
				}
			}
		}
		r.Check(ok, p.Pos(fn.Pos()), p.FuncName(fn), "prints RFC3339", "dates printed in RFC 3339, the form the parser decodes", "dates are not printed with time.RFC3339")
	}
	if fn := p.Func("parser", "Term", "ToBiscuit"); fn != nil {
		ok := false
		for _, c := range callsIn(fn) {
			if isCallTo(c.Common(), "time.Parse") {
				if s, isS := constString(c.Common().Args[0]); isS && s == "2006-01-02T15:04:05Z07:00" {
					ok = true
				}
			}
		}
		r.Check(ok, p.Pos(fn.Pos()), p.FuncName(fn), "parses RFC3339", "dates parsed with time.RFC3339", "dates are not parsed with time.RFC3339")
	}
}

func rulePRParens(p *Prog, r *Reporter) {
	globalP = p
	fn := p.Func("parser", "ExprTerm", "ToExpr")
	if fn == nil {
		r.Dunno("?", "parser.ExprTerm.ToExpr", "method", "not found")
		return
	}
	name := p.FuncName(fn)
	recv := fn.Params[0].Name()
	parens := constByName(p, "biscuit", "UnaryParens")
	nParens := 0
	for _, c := range callsIn(fn) {
		cv, ok := c.(*ssa.Call)
		if !ok {
			continue
		}
		_, e, isOne := singleAppend(cv)
		if !isOne {
			continue
		}
		k, isC := constInt(e)
		if !isC || parens == nil || k != *parens {
			continue
		}
		nParens++
		// guarded by e.Expression != nil and after Expression.ToExpr
		okG := nilGuard(p, cv.Block(), recv+".Expression", false)
		okAfter := false
		for _, c2 := range callsIn(fn) {
			if f := c2.Common().StaticCallee(); f != nil && f.Name() == "ToExpr" && p.D(c2.Common().Args[0]) == recv+".Expression" && instrDominates(c2, cv) {
				okAfter = true
			}
		}
		r.Check(okG && okAfter, p.instrPos(cv), name, "UnaryParens emission", "emitted exactly after a parenthesised sub-expression", "UnaryParens is emitted on a path that is not 'parenthesised sub-expression just emitted'")
		// ... and on every such path: no other condition decides whether the marker is emitted
		extra := ""
		for _, g := range guardsOf(cv.Block()) {
			bo, isB := g.cond.(*ssa.BinOp)
			if isB && (isNilConst(bo.Y) || isNilConst(bo.X)) {
				x := bo.X
				if isNilConst(bo.X) {
					x = bo.Y
				}
				d := p.D(x)
				if d == recv+".Expression" || d == recv+".Term" || isErrorType(x.Type()) {
					continue
				}
			}
			extra = shortD(g.cond)
		}
		// disjunctive conditions do not show up as dominating guards: the emission must also be on
		// every way from "sub-expression converted" to a successful return
		for _, c2 := range callsIn(fn) {
			c2v, isV := c2.(*ssa.Call)
			if f := c2.Common().StaticCallee(); !isV || f == nil || f.Name() != "ToExpr" || p.D(c2.Common().Args[0]) != recv+".Expression" {
				continue
			}
			for _, nb := range nilTests(c2v) {
				if nb.isNil == nil || nb.isNil == cv.Block() {
					continue
				}
				for _, ret := range returnsOf(fn) {
					if isErrorReturn(ret) {
						continue
					}
					if reachAvoiding(nb.isNil, ret.Block(), blockSet{cv.Block(): true}) {
						extra = "a condition evaluated after the conversion (a way to the successful return bypasses the emission)"
					}
				}
			}
		}
		r.Check(extra == "", p.instrPos(cv), name, "UnaryParens unconditional", "every parenthesised sub-expression gets its marker", "whether the parentheses marker is emitted also depends on "+extra+": some parsed parentheses are dropped")
	}
	r.Check(nParens == 1, p.Pos(fn.Pos()), name, "UnaryParens sites", "one emission site", fmt.Sprintf("%d UnaryParens emission sites: parentheses are not preserved (or invented)", nParens))
	// no other ToExpr emits UnaryParens
	for _, f2 := range p.funcsIn("parser") {
		if f2 == fn {
			continue
		}
		for _, c := range callsIn(f2) {
			if cv, ok := c.(*ssa.Call); ok {
				if _, e, isOne := singleAppend(cv); isOne {
					if k, isC := constInt(e); isC && parens != nil && k == *parens && strings.HasSuffix(shortType(cv.Type()), "Expression") {
						r.Bad(p.instrPos(cv), p.FuncName(f2), "UnaryParens emission", "parentheses emitted outside ExprTerm")
					}
				}
			}
		}
	}
	// evaluation: Parens is the identity
	if t := p.NamedType("datalog", "Parens"); t != nil && p.method(t, "Eval") != nil {
		ev := p.method(t, "Eval")
		ok := true
		for _, ret := range returnsOf(ev) {
			if retVal(ret, 0) != ssa.Value(ev.Params[1]) || !isNilConst(retVal(ret, 1)) {
				ok = false
			}
		}
		r.Check(ok, p.Pos(ev.Pos()), p.FuncName(ev), "Parens.Eval", "identity", "Parens.Eval is not the identity")
	}
	_ = reflect.TypeOf
}

// frozen concrete lexical syntax of the documented Datalog grammar (name, pattern, in priority order)
var frozenLexer = [][2]string{
	{"Keyword", `check if|allow if|deny if`},
	{"Function", `prefix|suffix|matches|length|contains`},
	{"Hex", `hex:([0-9a-fA-F]{2})*`},
	{"Dot", `\.`},
	{"Arrow", `<-`},
	{"Or", `\|\|`},
	{"And", `&&`},
	{"Operator", `==|>=|<=|>|<|\+|-|\*`},
	{"Comment", `//[^\n]*`},
	{"String", `\"[^\"]*\"`},
	{"Variable", `\$[a-zA-Z0-9_:]+`},
	{"Parameter", `\{[a-zA-Z0-9_:]+\}`},
	{"DateTime", `\d\d\d\d-\d\d-\d\dT\d\d:\d\d:\d\d(\.\d+)?(Z|([-+]\d\d:\d\d))?`},
	{"Int", `[0-9]+`},
	{"Bool", `true|false`},
	{"Ident", `[a-z][a-zA-Z0-9_:]*`},
	{"Whitespace", `[ \t]+`},
	{"EOL", `[\n\r]+`},
	{"Punct", "[-[!@%^&#$*()+_={}\\|:;\"'<,>.?/]|]"},
}

func rulePGLexer(p *Prog, r *Reporter) {
	globalP = p
	pk := p.Pkgs["parser"]
	var rules [][2]string
	var options []string
	for _, f := range pk.Syntax {
		ast.Inspect(f, func(n ast.Node) bool {
			vs, ok := n.(*ast.ValueSpec)
			if !ok {
				return true
			}
			for i, nm := range vs.Names {
				if i >= len(vs.Values) {
					continue
				}
				cl, ok := vs.Values[i].(*ast.CompositeLit)
				if !ok {
					continue
				}
				switch nm.Name {
				case "BiscuitLexerRules":
					for _, e := range cl.Elts {
						rc, ok := e.(*ast.CompositeLit)
						if !ok {
							continue
						}
						var name, pat string
						for _, kv := range rc.Elts {
							if k, ok := kv.(*ast.KeyValueExpr); ok {
								if id, ok := k.Key.(*ast.Ident); ok {
									if bl, ok := k.Value.(*ast.BasicLit); ok {
										v, _ := strconv.Unquote(bl.Value)
										switch id.Name {
										case "Name":
											name = v
										case "Pattern":
											pat = v
										}
									}
								}
							}
						}
						rules = append(rules, [2]string{name, pat})
					}
				case "DefaultParserOptions":
					for _, e := range cl.Elts {
						if call, ok := e.(*ast.CallExpr); ok {
							s := types.ExprString(call.Fun)
							var args []string
							for _, a := range call.Args {
								if bl, ok := a.(*ast.BasicLit); ok {
									args = append(args, bl.Value)
								} else {
									args = append(args, types.ExprString(a))
								}
							}
							options = append(options, s+"("+strings.Join(args, ",")+")")
						}
					}
				}
			}
			return true
		})
	}
	if len(rules) != len(frozenLexer) {
		r.Bad("parser/parser.go", "parser.BiscuitLexerRules", "lexer rule count", fmt.Sprintf("%d lexer rules, the documented lexical syntax has %d", len(rules), len(frozenLexer)))
	}
	for i := 0; i < len(frozenLexer) && i < len(rules); i++ {
		r.Check(rules[i] == frozenLexer[i], "parser/parser.go", "parser.BiscuitLexerRules", "lexer rule "+frozenLexer[i][0], "name, pattern and priority as specified", fmt.Sprintf("lexer rule %d is %s = %q; the specified lexical syntax has %s = %q at this priority: some documented texts lex differently", i, rules[i][0], rules[i][1], frozenLexer[i][0], frozenLexer[i][1]))
	}
	wantOpts := []string{`participle.Lexer(lexer.MustSimple(BiscuitLexerRules))`, `participle.UseLookahead(1)`, `participle.Elide("Whitespace","EOL")`, `participle.Unquote("String")`}
	sort.Strings(options)
	sort.Strings(wantOpts)
	r.Check(strings.Join(options, ";") == strings.Join(wantOpts, ";"), "parser/parser.go", "parser.DefaultParserOptions", "parser options", "lexer, lookahead 1, elided whitespace/EOL, unquoted strings", fmt.Sprintf("parser options are %v, specified %v", options, wantOpts))
	// every parser of New() is built with these options
	if nw := p.Func("parser", "", "New"); nw != nil {
		n, ok := 0, true
		for _, c := range callsIn(nw) {
			if f := c.Common().StaticCallee(); f != nil && strings.Contains(f.Name(), "MustBuild") {
				n++
				if len(c.Common().Args) == 0 || !strings.Contains(p.D(c.Common().Args[len(c.Common().Args)-1]), "DefaultParserOptions") {
					ok = false
				}
			}
		}
		r.Check(ok && n >= 6, p.Pos(nw.Pos()), p.FuncName(nw), "parsers built with the options", fmt.Sprintf("%d grammar entry points built with DefaultParserOptions", n), "a grammar entry point is built without DefaultParserOptions")
	}
}

func rulePGPolicy(p *Prog, r *Reporter) {
	globalP = p
	allowK, denyK := p.policyKindConsts()
	for _, fn := range []*ssa.Function{p.Func("parser", "parser", "Policy"), p.Func("parser", "Policy", "ToBiscuit")} {
		if fn == nil {
			r.Dunno("?", "parser.Policy", "conversion", "function not found")
			continue
		}
		name := p.FuncName(fn)
		// the returned Policy literal: Kind and Queries
		var kind, queries ssa.Value
		for _, a := range allocsOf(fn, "biscuit", "Policy") {
			f := litFields(a)
			kind, queries = f["Kind"], f["Queries"]
		}
		if kind == nil {
			// the entry point may delegate to the grammar node's own conversion, which is checked below
			delegated := false
			if tb := p.Func("parser", "Policy", "ToBiscuit"); tb != nil && tb != fn {
				for _, c := range callsIn(fn) {
					if cv, isV := c.(*ssa.Call); isV && cv.Call.StaticCallee() == tb {
						for _, ret := range returnsOf(fn) {
							if !isErrorReturn(ret) && dependsOn(retVal(ret, 0), func(x ssa.Value) bool { return x == ssa.Value(cv) }) {
								delegated = true
							}
						}
					}
				}
			}
			if delegated {
				r.OK(p.Pos(fn.Pos()), name, "policy literal", "returns what Policy.ToBiscuit builds from the parsed tree")
				continue
			}
			r.Bad(p.Pos(fn.Pos()), name, "policy literal", "no biscuit.Policy literal with a Kind")
			continue
		}
		nA, nD := 0, 0
		for _, lf := range phiLeaves(kind) {
			k, isC := constInt(lf.val)
			if !isC {
				r.Bad(p.Pos(fn.Pos()), name, "policy kind", "non-constant kind "+shortD(lf.val))
				continue
			}
			gs := guardsOnEdge(lf.pred, lf.blk)
			which := ""
			nilA, nilD := false, false
			for _, g := range gs {
				if bo, ok := g.cond.(*ssa.BinOp); ok && isNilConst(bo.Y) {
					d := p.D(bo.X)
					nonNil := (bo.Op == token.NEQ) == g.val
					switch {
					case strings.HasSuffix(d, ".Allow") && nonNil:
						which = "Allow"
					case strings.HasSuffix(d, ".Deny") && nonNil && which == "":
						which = "Deny"
					case strings.HasSuffix(d, ".Allow"):
						nilA = true
					case strings.HasSuffix(d, ".Deny"):
						nilD = true
					}
				}
			}
			if which == "" && nilA && nilD {
				continue // neither alternative set: excluded by the grammar (exactly one of Allow | Deny is filled by a successful parse)
			}
			switch {
			case k == allowK:
				nA++
				r.Check(which == "Allow", p.Pos(fn.Pos()), name, "kind allow", "PolicyKindAllow exactly when the 'allow if' alternative was parsed", "PolicyKindAllow is produced on a path where the parsed alternative is not 'allow if'")
			case k == denyK:
				nD++
				r.Check(which == "Deny", p.Pos(fn.Pos()), name, "kind deny", "PolicyKindDeny exactly when the 'deny if' alternative was parsed", "PolicyKindDeny is produced on a path where the parsed alternative is not 'deny if'")
			default:
				// zero value when neither alternative is set (cannot happen after a successful parse)
			}
		}
		if _, isPhi := kind.(*ssa.Phi); !isPhi {
			r.Bad(p.Pos(fn.Pos()), name, "policy kind", "the policy kind does not depend on the parsed alternative")
		}
		if nA == 0 || nD == 0 {
			r.Bad(p.Pos(fn.Pos()), name, "policy kinds", "allow or deny alternative is never produced")
		}
		// the queries come from the same alternative: built by ranging over a phi of Allow.Queries / Deny.Queries
		okQ := queries != nil && dependsOn(queries, func(x ssa.Value) bool { return strings.HasSuffix(p.D(x), ".Allow.Queries") }) && dependsOn(queries, func(x ssa.Value) bool { return strings.HasSuffix(p.D(x), ".Deny.Queries") })
		r.Check(okQ, p.Pos(fn.Pos()), name, "policy queries", "queries converted from the parsed alternative's query list", "the policy's queries are not taken from the Allow/Deny query lists")
	}
}

func rulePGFreshExpr(p *Prog, r *Reporter) {
	globalP = p
	for _, fn := range p.funcsIn("parser") {
		if fn.Parent() != nil {
			continue
		}
		loops := naturalLoops(fn)
		for _, c := range callsIn(fn) {
			f := c.Common().StaticCallee()
			if f == nil || f.Name() != "ToExpr" || len(c.Common().Args) < 2 {
				continue
			}
			// only the top-level conversions (the callers that own the destination variable)
			if fn.Name() == "ToExpr" {
				continue // recursive conversion into the caller's destination
			}
			dst, isAlloc := c.Common().Args[1].(*ssa.Alloc)
			if !isAlloc {
				r.Dunno(p.instrPos(c), p.FuncName(fn), "expression destination", "the destination "+shortD(c.Common().Args[1])+" is not a local variable; its freshness is not decided")
				continue
			}
			var in *loop
			for _, l := range loops {
				if l.body[c.Block()] && (in == nil || len(l.body) < len(in.body)) {
					in = l
				}
			}
			if in == nil {
				r.OK(p.instrPos(c), p.FuncName(fn), "expression destination", "single conversion outside any loop")
				continue
			}
			fresh := in.body[dst.Block()]
			if !fresh {
				// declared outside but reset to nil before each conversion: append then allocates a new array
				for _, st := range storesInto(dst) {
					if k, isK := st.Val.(*ssa.Const); isK && k.IsNil() && st.Addr == ssa.Value(dst) && in.body[st.Block()] && instrDominates(st, c) {
						fresh = true
					}
				}
			}
			r.Check(fresh, p.instrPos(c), p.FuncName(fn), "expression destination", "the destination op list is a new variable in every iteration", "the op list that receives the converted expression is declared outside the loop and reused: expressions converted earlier share its backing array and are overwritten by later ones")
		}
	}
}

func rulePRSep(p *Prog, r *Reporter) {
	globalP = p
	dbg := p.NamedType("datalog", "SymbolDebugger")
	if dbg == nil {
		r.Dunno("?", "datalog.SymbolDebugger", "printer", "not found")
		return
	}
	for _, m := range []string{"Rule", "CheckQuery"} {
		fn := p.method(dbg, m)
		if fn == nil {
			r.Dunno("?", "datalog.SymbolDebugger."+m, "printer", "not found")
			continue
		}
		name := p.FuncName(fn)
		// the final Sprintf: ..., Join(preds, ", "), sep, Join(expressions, ", ")
		var sp *ssa.Call
		for _, c := range callsIn(fn) {
			if cv, ok := c.(*ssa.Call); ok && isCallTo(&cv.Call, "fmt.Sprintf") {
				for _, ret := range returnsOf(fn) {
					if retVal(ret, 0) == ssa.Value(cv) {
						sp = cv
					}
				}
			}
		}
		if sp == nil {
			r.Bad(p.Pos(fn.Pos()), name, "format", "the printed text is not the result of a single Sprintf")
			continue
		}
		format, _ := constString(sp.Call.Args[0])
		wantFmt := map[string]string{"Rule": "%s <- %s%s%s", "CheckQuery": "%s%s%s"}[m]
		// argument list
		var args []ssa.Value
		if sl, ok := sp.Call.Args[1].(*ssa.Slice); ok {
			if a, isA := sl.X.(*ssa.Alloc); isA {
				byIdx := map[int64]ssa.Value{}
				for _, st := range storesInto(a) {
					if ia, isIA := st.Addr.(*ssa.IndexAddr); isIA {
						if k, isC := constInt(ia.Index); isC {
							byIdx[k] = st.Val
						}
					}
				}
				for k := int64(0); k < int64(len(byIdx)); k++ {
					args = append(args, byIdx[k])
				}
			}
		}
		// idiom B: one join over the concatenation of both lists
		if altFmt := strings.TrimSuffix(wantFmt, "%s%s"); format == altFmt && len(args) >= 1 {
			okB := false
			if j, isJ := unwrap(args[len(args)-1]).(*ssa.Call); isJ && isCallTo(&j.Call, "strings.Join") {
				if sepB, _ := constString(j.Call.Args[1]); sepB == ", " {
					if ap, isAp := j.Call.Args[0].(*ssa.Call); isAp {
						if b, isB := ap.Call.Value.(*ssa.Builtin); isB && b.Name() == "append" && len(ap.Call.Args) == 2 && ap.Call.Args[0] != ap.Call.Args[1] {
							_, m0 := ap.Call.Args[0].(*ssa.MakeSlice)
							_, m1 := ap.Call.Args[1].(*ssa.MakeSlice)
							okB = m0 && m1
						}
					}
				}
			}
			r.Check(okB, p.instrPos(sp), name, "format", "one ', ' join over predicates followed by expressions", "the query text is not a ', ' join of the predicates followed by the expressions")
			if okB {
				r.OK(p.instrPos(sp), name, "separator", "a single join puts ', ' between elements only")
			}
			continue
		}
		okShape := format == wantFmt && len(args) >= 3
		var sep ssa.Value
		if okShape {
			n := len(args)
			j1, j2 := unwrap(args[n-3]), unwrap(args[n-1])
			sep = unwrap(args[n-2])
			c1, ok1 := j1.(*ssa.Call)
			c2, ok2 := j2.(*ssa.Call)
			okShape = ok1 && ok2 && isCallTo(&c1.Call, "strings.Join") && isCallTo(&c2.Call, "strings.Join")
			if okShape {
				s1, _ := constString(c1.Call.Args[1])
				s2, _ := constString(c2.Call.Args[1])
				okShape = s1 == ", " && s2 == ", "
			}
		}
		r.Check(okShape, p.instrPos(sp), name, "format", "predicates joined by ', ', then the separator, then expressions joined by ', '", "the query text is not 'predicates, separator, expressions' with ', ' joins")
		if !okShape {
			continue
		}
		// separator: "" unless both lists are non-empty
		okSep := false
		if ph, isPhi := sep.(*ssa.Phi); isPhi {
			okSep = true
			nComma := 0
			for _, lf := range phiLeaves(ph) {
				str, isS := constString(lf.val)
				if !isS {
					okSep = false
					continue
				}
				if str == "" {
					continue
				}
				if str != ", " {
					okSep = false
					continue
				}
				nComma++
				both := 0
				for _, g := range guardsOnEdge(lf.pred, lf.blk) {
					bo, ok := g.cond.(*ssa.BinOp)
					if !ok || !strings.HasPrefix(p.D(bo.X), "len(") {
						continue
					}
					k, isC := constInt(bo.Y)
					if isC && k == 0 && ((bo.Op == token.GTR && g.val) || (bo.Op == token.NEQ && g.val) || (bo.Op == token.EQL && !g.val)) {
						both++
					}
				}
				if both < 2 {
					okSep = false
				}
			}
			if nComma == 0 {
				okSep = false
			}
		}
		r.Check(okSep, p.instrPos(sp), name, "separator", "', ' only when there is at least one predicate and at least one expression", "the separator between predicates and expressions is not conditional on both being present: a query made only of expressions prints with a leading ', ' and does not parse back")
	}
}

func rulePRDate(p *Prog, r *Reporter) {
	globalP = p
	const rfc3339 = "2006-01-02T15:04:05Z07:00"
	dt := p.NamedType("datalog", "Date")
	var fn *ssa.Function
	if dt != nil {
		fn = p.method(dt, "String")
	}
	if fn == nil {
		r.Dunno("?", "datalog.Date.String", "printer", "not found")
		return
	}
	name := p.FuncName(fn)
	recv := fn.Params[0]
	// spilled receivers: loads of the receiver slot count as the receiver
	isRecv := func(v ssa.Value) bool { return v == ssa.Value(recv) || p.D(v) == recv.Name() }
	// (c) no arithmetic on the seconds anywhere on the way (own helpers of Date included)
	fns := []*ssa.Function{fn}
	for _, c := range callsIn(fn) {
		if f := c.Common().StaticCallee(); f != nil && p.isRepoFunc(f) && f.Signature.Recv() != nil && types.Identical(f.Signature.Recv().Type(), dt) {
			fns = append(fns, f)
		}
	}
	arith := ""
	var unix *ssa.Call
	var format *ssa.Call
	for _, f := range fns {
		for _, b := range f.Blocks {
			for _, in := range b.Instrs {
				switch x := in.(type) {
				case *ssa.BinOp:
					switch x.Op {
					case token.MUL, token.ADD, token.SUB, token.QUO, token.SHL:
						if dependsOn(x, func(v ssa.Value) bool { pr, ok := v.(*ssa.Parameter); return ok && types.Identical(pr.Type(), dt) }) {
							arith = p.instrPos(x) + " " + shortD(x)
						}
					}
				case *ssa.Call:
					if isCallTo(&x.Call, "time.Unix") && f == fn {
						unix = x
					}
					if isCallTo(&x.Call, "time.Time.Format") && f == fn {
						format = x
					}
				}
			}
		}
	}
	r.Check(arith == "", p.Pos(fn.Pos()), name, "no arithmetic on the seconds", "the stored seconds are used as they are", "the seconds of a date are scaled or shifted with machine arithmetic ("+arith+") before printing: large dates wrap (time.Duration holds only about 292 years of nanoseconds) and print as a different instant than the one that is evaluated")
	okUnix := false
	if unix != nil {
		sec := unix.Call.Args[0]
		if cv, isCv := sec.(*ssa.Convert); isCv {
			sec = cv.X
		}
		k, isK := constInt(unix.Call.Args[1])
		okUnix = isRecv(sec) && isK && k == 0
	}
	r.Check(okUnix, p.Pos(fn.Pos()), name, "time.Unix(seconds, 0)", "the instant is time.Unix(seconds of the date, 0)", "the printed instant is not time.Unix(seconds of the date, 0)")
	okFmt := false
	if format != nil && unix != nil {
		lay, _ := constString(format.Call.Args[1])
		// receiver of Format: the Unix value through UTC()/In() only
		v := format.Call.Args[0]
		for {
			if c, ok := v.(*ssa.Call); ok && (isCallTo(&c.Call, "time.Time.UTC") || isCallTo(&c.Call, "time.Time.In")) {
				v = c.Call.Args[0]
				continue
			}
			break
		}
		viaUTC := format.Call.Args[0] != ssa.Value(unix)
		okFmt = lay == rfc3339 && v == ssa.Value(unix) && viaUTC
		for _, ret := range returnsOf(fn) {
			if retVal(ret, 0) != ssa.Value(format) {
				okFmt = false
			}
		}
	}
	r.Check(okFmt, p.Pos(fn.Pos()), name, "RFC 3339 in UTC", "printed with the layout the parser reads, in UTC", "the date is not printed as the RFC 3339 text (UTC) of that instant")
	// parser side: RFC 3339 in, Unix seconds out
	nParse := 0
	for _, f := range p.funcsIn("parser") {
		for _, c := range callsIn(f) {
			if !isCallTo(c.Common(), "time.Parse") {
				continue
			}
			nParse++
			lay, _ := constString(c.Common().Args[0])
			r.Check(lay == rfc3339, p.instrPos(c), p.FuncName(f), "time.Parse layout", "RFC 3339", "date literals are parsed with layout "+lay+", not the one they are printed with")
		}
	}
	if nParse == 0 {
		r.Bad("?", "parser", "time.Parse", "no date parsing found in the parser")
	}
}

func rulePGPure(p *Prog, r *Reporter) {
	globalP = p
	pt := p.NamedType("parser", "parser")
	if pt == nil {
		r.Dunno("?", "parser.parser", "type", "not found")
		return
	}
	// no function of the package writes through a *parser it was given
	nFn := 0
	for _, fn := range p.funcsIn("parser") {
		if fn.Name() == "New" {
			continue
		}
		for _, prm := range fn.Params {
			if !types.Identical(deref(prm.Type()), pt) {
				continue
			}
			nFn++
			r.OK(p.Pos(fn.Pos()), p.FuncName(fn), "uses the parser object", "inspected for writes")
			for _, b := range fn.Blocks {
				for _, in := range b.Instrs {
					var addr ssa.Value
					switch x := in.(type) {
					case *ssa.Store:
						addr = x.Addr
					default:
						continue
					}
					root := addr
					for {
						switch x := root.(type) {
						case *ssa.FieldAddr:
							root = x.X
							continue
						case *ssa.IndexAddr:
							root = x.X
							continue
						}
						break
					}
					if root == ssa.Value(prm) {
						r.Bad(p.instrPos(in), p.FuncName(fn), "write to parser state", "a parse function writes the shared parser object ("+shortD(addr)+"): a parser used from several goroutines races, and state survives between parses")
					}
				}
			}
		}
	}
}

func rulePGParse(p *Prog, r *Reporter) {
	globalP = p
	pt := p.NamedType("parser", "parser")
	if pt == nil {
		r.Dunno("?", "parser.parser", "type", "not found")
		return
	}
	isParseString := func(c *ssa.Call) bool {
		f := c.Call.StaticCallee()
		return f != nil && strings.HasSuffix(calleeName(f), "Parser.ParseString")
	}
	directParses := func(fn *ssa.Function) []*ssa.Call {
		var out []*ssa.Call
		for _, c := range callsIn(fn) {
			if cv, ok := c.(*ssa.Call); ok && isParseString(cv) {
				out = append(out, cv)
			}
		}
		return out
	}
	// the syntax tree used is the one parsed from this call's text
	checkedHelper := map[*ssa.Function]bool{}
	n := 0
	for _, fn := range p.funcsIn("parser") {
		recvV := fn.Signature.Recv()
		if recvV == nil || !types.Identical(deref(recvV.Type()), pt) || fn.Parent() != nil {
			continue
		}
		name := p.FuncName(fn)
		var parse *ssa.Call
		var input ssa.Value
		nParse := 0
		for _, cv := range directParses(fn) {
			parse, nParse = cv, nParse+1
			if len(cv.Call.Args) >= 3 {
				input = cv.Call.Args[2]
			}
		}
		if nParse == 0 {
			// through a helper of the package that parses its own text parameter
			for _, c := range callsIn(fn) {
				cv, ok := c.(*ssa.Call)
				if !ok {
					continue
				}
				h := cv.Call.StaticCallee()
				if h == nil || p.pkgShort(h) != "parser" {
					continue
				}
				dp := directParses(h)
				if len(dp) == 0 {
					continue
				}
				parse, nParse = cv, nParse+1
				// which argument is the text
				hin, isP := dp[0].Call.Args[2].(*ssa.Parameter)
				okH := len(dp) == 1 && isP
				if okH {
					for i, hp := range h.Params {
						if hp == hin && i < len(cv.Call.Args) {
							input = cv.Call.Args[i]
						}
					}
				}
				if !checkedHelper[h] {
					checkedHelper[h] = true
					r.Check(okH, p.instrPos(dp[0]), p.FuncName(h), "parses its input", "one ParseString call on the helper's text parameter, unmodified", "the parse helper does not hand exactly its text parameter to the grammar")
					for _, ret := range returnsOf(h) {
						if isErrorReturn(ret) {
							continue
						}
						e, isE := retVal(ret, 0).(*ssa.Extract)
						r.Check(isE && e.Tuple == ssa.Value(dp[0]) && e.Index == 0, p.instrPos(ret), p.FuncName(h), "tree provenance", "returns the tree parsed in this call", "the parse helper can return a syntax tree that was not parsed from this call's text ("+shortD(retVal(ret, 0))+"): cached / memoised trees make the result depend on earlier inputs")
					}
				}
			}
		}
		if nParse == 0 {
			continue // Must() and helpers
		}
		n++
		pos := p.instrPos(parse)
		okIn := nParse == 1 && input != nil
		if okIn {
			in, isP := input.(*ssa.Parameter)
			okIn = isP && in.Parent() == fn
		}
		r.Check(okIn, pos, name, "parses its input", "one parse of the text parameter, unmodified", "the text handed to the grammar is not exactly this call's text parameter (normalised, cached or replaced)")
		if nParse != 1 {
			continue
		}
		var tree types.Type
		if tup, ok := parse.Type().(*types.Tuple); ok && tup.Len() > 0 {
			tree = tup.At(0).Type()
		}
		other := ""
		for _, b := range fn.Blocks {
			for _, in := range b.Instrs {
				v, ok := in.(ssa.Value)
				if !ok || tree == nil || !types.Identical(v.Type(), tree) {
					continue
				}
				if e, isE := v.(*ssa.Extract); isE && e.Tuple == ssa.Value(parse) {
					continue
				}
				other = p.instrPos(in) + " " + shortD(v)
			}
		}
		r.Check(other == "", pos, name, "tree provenance", "the syntax tree converted is the result of this call's parse", "a syntax tree from another source ("+other+") can be converted instead of the one parsed from this call's text (cache, memo): the result does not correspond to the input")
	}
	if n < 6 {
		r.Bad("?", "parser.parser", "parse methods", fmt.Sprintf("only %d parse methods found (six entry points expected)", n))
	}
}

func rulePGLists(p *Prog, r *Reporter) {
	globalP = p
	pk := p.Pkgs["parser"]
	if pk == nil {
		r.Dunno("?", "parser", "package", "not loaded")
		return
	}
	sc := pk.Types.Scope()
	n := 0
	// only grammar nodes reachable from the six entry point types
	reach := map[string]bool{}
	var visit func(t types.Type)
	visit = func(t types.Type) {
		for {
			switch u := t.(type) {
			case *types.Pointer:
				t = u.Elem()
				continue
			case *types.Slice:
				t = u.Elem()
				continue
			}
			break
		}
		nt, ok := t.(*types.Named)
		if !ok || nt.Obj().Pkg() != pk.Types || reach[nt.Obj().Name()] {
			return
		}
		reach[nt.Obj().Name()] = true
		if st, isS := nt.Underlying().(*types.Struct); isS {
			for i := 0; i < st.NumFields(); i++ {
				visit(st.Field(i).Type())
			}
		}
	}
	for _, root := range []string{"Predicate", "Rule", "Check", "Policy", "Block", "Authorizer"} {
		if o := sc.Lookup(root); o != nil {
			visit(o.Type())
		}
	}
	for _, nm := range sc.Names() {
		tn, ok := sc.Lookup(nm).(*types.TypeName)
		if !ok || !reach[nm] {
			continue
		}
		st, ok := tn.Type().Underlying().(*types.Struct)
		if !ok {
			continue
		}
		for i := 0; i < st.NumFields(); i++ {
			tag := st.Tag(i)
			// a separated list: ( X ("," X)* ) followed by a repetition operator
			idx := strings.Index(tag, `("," `)
			if idx < 0 {
				continue
			}
			n++
			// find the group that encloses the list and the operator that follows it
			depth := 0
			end := -1
			for j := idx; j < len(tag); j++ {
				switch tag[j] {
				case '(':
					depth++
				case ')':
					depth--
					if depth < 0 && end < 0 {
						end = j
					}
				}
			}
			op := byte(0)
			if end >= 0 && end+1 < len(tag) {
				op = tag[end+1]
			}
			construct := nm + "." + st.Field(i).Name() + " list"
			pos := p.Pos(st.Field(i).Pos())
			// op after the enclosing group: '?' (optional list), none (mandatory list), '+' is tolerated only when the
			// group cannot start right after itself without a separator - which a plain repetition allows
			r.Check(op != '*' && op != '+', pos, "parser."+nm, construct, "the list group is not itself repeated", "the separated list is wrapped in a repetition ("+string(op)+"): elements that merely follow each other without a comma are accepted, so a malformed literal (odd hex digits, a bad date suffix) is read as two terms instead of being reported")
		}
	}
	if n == 0 {
		r.Bad("?", "parser", "separated lists", "no comma separated list found in the grammar tags")
	}
}

// variadicElems: the elements, in index order, of a variadic argument slice that the compiler built
// as new [n]T with one constant-index store per element (t = new [n]T; t[i] = e_i; t[:]).
func variadicElems(v ssa.Value) ([]ssa.Value, bool) {
	sl, ok := v.(*ssa.Slice)
	if !ok || sl.Low != nil || sl.High != nil {
		return nil, false
	}
	al, ok := sl.X.(*ssa.Alloc)
	if !ok {
		return nil, false
	}
	arr, ok := deref(al.Type()).Underlying().(*types.Array)
	if !ok {
		return nil, false
	}
	out := make([]ssa.Value, arr.Len())
	for _, ref := range *al.Referrers() {
		ia, isIA := ref.(*ssa.IndexAddr)
		if !isIA {
			if ref == ssa.Instruction(sl) {
				continue
			}
			return nil, false
		}
		idx, isK := constInt(ia.Index)
		if !isK || idx < 0 || idx >= arr.Len() {
			return nil, false
		}
		for _, rr := range *ia.Referrers() {
			st, isSt := rr.(*ssa.Store)
			if !isSt || st.Addr != ssa.Value(ia) || out[idx] != nil {
				return nil, false
			}
			out[idx] = st.Val
		}
	}
	for _, e := range out {
		if e == nil {
			return nil, false
		}
	}
	return out, true
}

// rulePRTable: which table a token is printed with. The authorizer resolves every block against the
// token-wide table b.symbols (built by WR-SYMTAB's rules); the text shown for a block is what is
// enforced only if the printer resolves with that same table - a prefix, a per-block table or a copy
// made differently prints other names (or <invalid symbol>) for the same indexes.
func rulePRTable(p *Prog, r *Reporter) {
	globalP = p
	blk := p.NamedType("biscuit", "Block")
	if blk == nil {
		r.Dunno("?", "biscuit.Block", "type", "not found")
		return
	}
	isPrinter := func(f *ssa.Function) bool {
		return f != nil && f.Signature.Recv() != nil && isRepoNamed(f.Signature.Recv().Type(), "biscuit", "Block") && (f.Name() == "String" || f.Name() == "Code")
	}
	for _, fn := range p.funcsIn("biscuit") {
		name := p.FuncName(fn)
		if isPrinter(fn) {
			// the debugger literal of a block printer holds the table parameter itself
			n := 0
			for _, b := range fn.Blocks {
				for _, in := range b.Instrs {
					st, ok := in.(*ssa.Store)
					if !ok {
						continue
					}
					fa, isFA := st.Addr.(*ssa.FieldAddr)
					if !isFA || !isRepoNamed(fa.X.Type(), "datalog", "SymbolDebugger") {
						continue
					}
					n++
					okP := len(fn.Params) >= 2 && unwrap(st.Val) == ssa.Value(fn.Params[1])
					r.Check(okP, p.instrPos(st), name, "debugger table", "the block is printed with the table it was given", "the block printer resolves symbols with a table other than the one it was given")
				}
			}
			r.Check(n > 0, p.Pos(fn.Pos()), name, "debugger", "the block printer builds a SymbolDebugger", "no SymbolDebugger built in the block printer: how symbols are resolved for printing is outside the enumerated idioms")
			continue
		}
		for _, b := range fn.Blocks {
			for _, in := range b.Instrs {
				c, ok := in.(ssa.CallInstruction)
				if !ok || !isPrinter(c.Common().StaticCallee()) {
					continue
				}
				args := c.Common().Args
				okT := false
				if len(args) >= 2 && fn.Signature.Recv() != nil && isRepoNamed(fn.Signature.Recv().Type(), "biscuit", "Biscuit") && len(fn.Params) > 0 {
					if u, isU := unwrap(args[1]).(*ssa.UnOp); isU && u.Op == token.MUL {
						if fa, isFA := u.X.(*ssa.FieldAddr); isFA && fa.X == ssa.Value(fn.Params[0]) && fieldName(fa) == "symbols" {
							okT = true
						}
					}
				}
				r.Check(okT, p.instrPos(in), name, "table of "+c.Common().StaticCallee().Name(), "the block is printed with the token-wide table b.symbols", "a block of a token is printed with a table other than the token-wide table b.symbols that the authorizer resolves it with ("+p.D(args[len(args)-1])+"): the text shown for the block names other symbols than the ones enforced")
			}
		}
	}
}

// rulePGTerms: "terms of the right type and value". Term.ToBiscuit turns the alternative the grammar
// matched (one non-nil field of parser.Term) into a biscuit term. For every scalar biscuit term built in
// it, the value must be computed from the field of the same name and from no other field of the parsed
// term: a String built from the Variable capture, or a Bool built from the Integer, is a term of the
// wrong type or value that no unit test of the other alternatives notices.
func rulePGTerms(p *Prog, r *Reporter) {
	globalP = p
	term := p.NamedType("parser", "Term")
	var fn *ssa.Function
	if term != nil {
		fn = p.method(term, "ToBiscuit")
	}
	if fn == nil || len(fn.Params) == 0 {
		r.Dunno("?", "parser.Term", "ToBiscuit", "not found")
		return
	}
	name := p.FuncName(fn)
	recv := fn.Params[0]
	scalar := map[string]bool{"Integer": true, "String": true, "Variable": true, "Bool": true, "Date": true, "Bytes": true}
	fieldsOf := func(v ssa.Value) map[string]bool {
		out := map[string]bool{}
		dependsOn(v, func(x ssa.Value) bool {
			if fa, ok := x.(*ssa.FieldAddr); ok && fa.X == ssa.Value(recv) {
				out[fieldName(fa)] = true
			}
			return false
		})
		return out
	}
	seen := map[string]bool{}
	for _, b := range fn.Blocks {
		for _, in := range b.Instrs {
			mi, ok := in.(*ssa.MakeInterface)
			if !ok {
				continue
			}
			n, isN := mi.X.Type().(*types.Named)
			if !isN || n.Obj().Pkg() == nil || shortNames[n.Obj().Pkg().Path()] != "biscuit" || !scalar[n.Obj().Name()] {
				continue
			}
			t := n.Obj().Name()
			seen[t] = true
			deps := fieldsOf(mi.X)
			var names []string
			for f := range deps {
				names = append(names, f)
			}
			sort.Strings(names)
			okT := len(deps) == 1 && deps[t]
			r.Check(okT, p.instrPos(mi), name, "biscuit."+t+" term", "computed from the "+t+" alternative of the parsed term only", fmt.Sprintf("a biscuit.%s term is computed from the field(s) %v of the parsed term instead of from its %s alternative alone: the parser returns a term of the wrong type or value for some documented text", t, names, t))
		}
	}
	for t := range scalar {
		if !seen[t] {
			r.Bad(p.Pos(fn.Pos()), name, "biscuit."+t+" term", "Term.ToBiscuit builds no biscuit."+t+" term: the "+t+" alternative of the grammar is not converted (or is converted outside the enumerated idiom)")
		}
	}
}

// rulePRFormat: the text of a block contains strings chosen by whoever wrote the token. If printed
// content ever becomes the *format* argument of a fmt function, a '%' inside a string literal is read as
// a verb ("50% off" prints as "50%!o(MISSING)ff"): the printed block no longer parses back to what is
// enforced. Every format argument must be a constant, a phi of such, or an element of a package-level
// table (the idiom of a format table indexed by the operator).
func rulePRFormat(p *Prog, r *Reporter) {
	globalP = p
	formatArg := map[string]int{"fmt.Sprintf": 0, "fmt.Errorf": 0, "fmt.Printf": 0, "fmt.Fprintf": 1, "fmt.Sscanf": 1, "fmt.Fscanf": 1}
	var constant func(v ssa.Value, depth int) bool
	constant = func(v ssa.Value, depth int) bool {
		if depth > 6 {
			return false
		}
		switch x := v.(type) {
		case *ssa.Const:
			return true
		case *ssa.Phi:
			for _, e := range x.Edges {
				if !constant(e, depth+1) {
					return false
				}
			}
			return true
		case *ssa.Lookup: // table[key] on a package-level map
			if ld, ok := x.X.(*ssa.UnOp); ok && ld.Op == token.MUL {
				_, isG := ld.X.(*ssa.Global)
				return isG
			}
		case *ssa.Extract:
			if lk, ok := x.Tuple.(*ssa.Lookup); ok && x.Index == 0 {
				return constant(lk, depth+1)
			}
		case *ssa.UnOp: // table[i] on a package-level array / slice
			if x.Op == token.MUL {
				if ia, ok := x.X.(*ssa.IndexAddr); ok {
					switch base := ia.X.(type) {
					case *ssa.Global:
						return true
					case *ssa.UnOp:
						_, isG := base.X.(*ssa.Global)
						return base.Op == token.MUL && isG
					}
				}
			}
		}
		return false
	}
	for _, fn := range p.funcsIn("biscuit", "datalog", "parser") {
		for _, b := range fn.Blocks {
			for _, in := range b.Instrs {
				c, ok := in.(ssa.CallInstruction)
				if !ok {
					continue
				}
				f := c.Common().StaticCallee()
				if f == nil {
					continue
				}
				idx, isFmt := formatArg[calleeName(f)]
				if !isFmt || idx >= len(c.Common().Args) {
					continue
				}
				r.Check(constant(c.Common().Args[idx], 0), p.instrPos(in), p.FuncName(fn), "format of "+calleeName(f), "constant format string", "the format argument of "+calleeName(f)+" is computed ("+p.D(c.Common().Args[idx])+"): text that comes from a token or from the caller is interpreted as a format, so a '%' in a string literal garbles the printed block (and an error message)")
			}
		}
	}
}

// rulePRTermText: the predicate and expression printers fall back on Term.String for byte arrays,
// integers and booleans, so these String methods *are* Datalog syntax. Every return must be the one
// Sprintf of the grammar's literal applied to the whole receiver (a shortened or decorated text - an
// elided payload, a thousands separator - does not parse back, or parses to another value).
func rulePRTermText(p *Prog, r *Reporter) {
	globalP = p
	for _, k := range []struct{ typ, format string }{{"Bytes", "hex:%s"}, {"Integer", "%d"}, {"Bool", "%t"}} {
		t := p.NamedType("datalog", k.typ)
		var fn *ssa.Function
		if t != nil {
			fn = p.method(t, "String")
		}
		if fn == nil || len(fn.Params) == 0 {
			r.Dunno("?", "datalog."+k.typ, "String", "not found")
			continue
		}
		name := p.FuncName(fn)
		recv := ssa.Value(fn.Params[0])
		isRecv := func(v ssa.Value) bool {
			for i := 0; i < 4; i++ {
				switch x := v.(type) {
				case *ssa.MakeInterface:
					v = x.X
					continue
				case *ssa.ChangeType:
					v = x.X
					continue
				case *ssa.Convert:
					v = x.X
					continue
				}
				break
			}
			return v == recv
		}
		n := 0
		for _, b := range fn.Blocks {
			ret := blockReturn(b)
			if ret == nil || len(ret.Results) != 1 {
				continue
			}
			n++
			ok, why := false, "the returned text is not a fmt.Sprintf of the literal"
			if c, isC := retVal(ret, 0).(*ssa.Call); isC && isCallTo(&c.Call, "fmt.Sprintf") && len(c.Call.Args) == 2 {
				format, isK := constString(c.Call.Args[0])
				elems, okE := variadicElems(c.Call.Args[1])
				switch {
				case !isK || format != k.format:
					why = fmt.Sprintf("the format is %q, the grammar's literal is %q", format, k.format)
				case !okE || len(elems) != 1:
					why = "the format does not receive exactly one operand"
				case k.typ == "Bytes":
					if hc, isH := unwrap(elems[0]).(*ssa.Call); isH && isCallTo(&hc.Call, "encoding/hex.EncodeToString") && len(hc.Call.Args) == 1 && isRecv(hc.Call.Args[0]) {
						ok = true
					} else {
						why = "the operand is not hex.EncodeToString of the whole byte array"
					}
				default:
					if isRecv(elems[0]) {
						ok = true
					} else {
						why = "the operand is not the term's own value"
					}
				}
			}
			// the same text built by concatenation: "hex:" + hex.EncodeToString(b)
			if bo, isB := retVal(ret, 0).(*ssa.BinOp); !ok && isB && bo.Op == token.ADD && k.typ == "Bytes" {
				if pre, isK := constString(bo.X); isK && pre == "hex:" {
					if hc, isH := bo.Y.(*ssa.Call); isH && isCallTo(&hc.Call, "encoding/hex.EncodeToString") && len(hc.Call.Args) == 1 && isRecv(hc.Call.Args[0]) {
						ok = true
					}
				}
			}
			r.Check(ok, p.instrPos(ret), name, "text of a "+k.typ+" term", "the grammar's literal "+strconv.Quote(k.format)+" of the whole value", "datalog."+k.typ+".String, which the predicate and expression printers use as Datalog syntax: "+why+" - the printed block does not parse back to the term that is enforced")
		}
		r.Check(n > 0, p.Pos(fn.Pos()), name, "returns", "String has a return", "no return found")
	}
}
