package main

import (
	"encoding/json"
	"fmt"
	"os"
	"sort"
)

// notApplicable: properties not claimed, with the reason.
var notApplicable = map[string]string{}

type mCheck struct {
	PropertyID  string         `json:"property_id"`
	QuickCmd    string         `json:"quick_cmd"`
	ThoroughCmd string         `json:"thorough_cmd"`
	Evidence    string         `json:"evidence_file"`
	Replay      string         `json:"replay_cmd_template"`
	Engine      string         `json:"engine"`
	Level       map[string]any `json:"level_claimed"`
	LevelNote   string         `json:"level_note"`
	Technique   string         `json:"technique"`
}

func printManifest() {
	allIDs := []string{}
	for i := 1; i <= 20; i++ {
		allIDs = append(allIDs, fmt.Sprintf("C%02d", i))
	}
	var checks []mCheck
	na := []map[string]string{}
	var served []string
	for _, id := range allIDs {
		p := properties[id]
		if p == nil {
			reason := notApplicable[id]
			if reason == "" {
				reason = "no static rule set for this property is implemented yet in this round; not claimed (see DESIGN.md section 6 for the planned structural clauses)"
			}
			na = append(na, map[string]string{"property_id": id, "reason": reason})
			continue
		}
		served = append(served, id)
		tech := p.Technique
		if tech == "" {
			tech = "repository-specific static analysis over go/types + go/ssa (dominance, access paths, call graph)"
		}
		checks = append(checks, mCheck{
			PropertyID:  id,
			QuickCmd:    "./bin/bvcheck -property " + id + " -tier quick",
			ThoroughCmd: "./bin/bvcheck -property " + id + " -tier thorough",
			Evidence:    "/verif/evidence/" + id + ".json",
			Replay:      "./bin/bvcheck -replay {path}",
			Engine:      "bvcheck",
			Level: map[string]any{
				"category":   "other",
				"text":       "Sound static decision of structural clauses that are necessary conditions of the property, for every input/history/schedule because the rules quantify over all paths and all constructs of the source; the behavioural property itself is not proved. Decides: " + p.Decides + ". Does not decide: " + p.NotDecided + ".",
				"design_ref": "DESIGN.md section 6, " + id + " (rules in section 5)",
			},
			LevelNote: "Trusted: go/types and go/ssa (x/tools v0.29.0); contracts of crypto/ed25519, protobuf-go, fmt/bytes/strings/regexp/math/big and participle as listed in DESIGN.md section 2. No biscuit-go code is executed. Rules: " + fmt.Sprint(p.Rules),
			Technique: tech,
		})
	}
	sort.Strings(served)
	m := map[string]any{
		"version":   1,
		"setup_cmd": "cd /verif/checker && GOFLAGS=-mod=vendor GOPROXY=off GOSUMDB=off GOTOOLCHAIN=local GOWORK=off go build -o ../bin/bvcheck .",
		"hooks": map[string]any{
			"guard":            "verif",
			"enable":           "the checker loads /repo with -tags=verif; the analysis reads unmodified source, no hook or instrumentation commits exist",
			"baseline_off_cmd": "cd /repo && GOFLAGS=-mod=mod GOPROXY=off GOSUMDB=off go test -vet=off -count=1 -timeout 25m ./...",
			"source_commits":   []string{},
			"add_only":         true,
		},
		"engines": []map[string]any{{
			"name": "bvcheck", "path": "/verif/checker", "serves_properties": served,
			"kind_free_text": "custom static analyser (go/packages + go/types + go/ssa + own CFG/call-graph utilities); one rule set per property; analyses /repo's working tree on every run",
		}},
		"checks":         checks,
		"not_applicable": na,
		"notes":          "All claims are level 'other': static decision of named structural clauses (DESIGN.md). Genuine defects found on the pinned tree were repaired in /repo by 'fix:' commits and are listed as fixed in /verif/known-findings.json; the one recorded (unrepaired) finding is listed there as known.",
	}
	b, _ := json.MarshalIndent(m, "", " ")
	os.Stdout.Write(append(b, '\n'))
}
