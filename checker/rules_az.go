package main

import (
	"go/token"
	"go/types"
	"strings"

	"golang.org/x/tools/go/ssa"
)

func init() {
	register(
		&Rule{ID: "AZ-SCOPE", Doc: "data derived from a non-authority block reaches only that iteration's private World.Clone(); nothing block-derived is stored into the authorizer", Run: ruleAZScope, Min: 3},
		&Rule{ID: "AZ-RESETRULES", Doc: "authority-level rules are dropped (ResetRules) before any block world is cloned", Run: ruleAZResetRules, Min: 1},
		&Rule{ID: "AZ-WORLDSEL", Doc: "authorizer/authority checks and policies query the authority-level world; block checks query their block's clone; every query follows a Run of its world; Query() uses the authority-level world", Run: ruleAZWorldSel, Min: 5},
		&Rule{ID: "AZ-DISJ", Doc: "a check is recorded as failed exactly when none of its queries (full range) returned a fact", Run: ruleAZDisj, Min: 1},
		&Rule{ID: "AZ-PRECEDENCE", Doc: "every return that can be nil or a policy verdict is dominated by len(errs)==0 evaluated after all check loops", Run: ruleAZPrecedence, Min: 3},
		&Rule{ID: "AZ-POLICY", Doc: "policies are tried in order until the first one with a satisfied query; allow->nil, deny->ErrPolicyDenied, none->ErrNoMatchingPolicy", Run: ruleAZPolicy, Min: 5},
		&Rule{ID: "AZ-LOAD", Doc: "every Authorize loads all authority facts and rules into the authority-level world before running it, and all facts and rules of a block into its clone before running that", Run: ruleAZLoad, Min: 2},
		&Rule{ID: "AZ-REINTERN", Doc: "token facts/rules/checks enter a world only after fromDatalogX(token symbols) and convert(authorizer symbols)", Run: ruleAZReintern, Min: 3},
	)
}

type azCtx struct {
	p      *Prog
	fn     *ssa.Function
	recv   *ssa.Parameter
	V      string
	loops  []*rangeLoop
	blocks *rangeLoop // loop over v.biscuit.blocks
	// methods of the authorizer implementation
	methods []*ssa.Function
}

func (p *Prog) azContext(r *Reporter) *azCtx {
	_, ms := authorizerImpl(p)
	var fn *ssa.Function
	for _, m := range ms {
		if m.Name() == "Authorize" {
			fn = m
		}
	}
	if fn == nil {
		r.Dunno("?", "biscuit.authorizer", "Authorize", "method not found")
		return nil
	}
	c := &azCtx{p: p, fn: fn, recv: fn.Params[0], V: fn.Params[0].Name(), loops: rangeLoops(fn), methods: ms}
	for _, l := range c.loops {
		if p.D(l.seq) == c.V+".biscuit.blocks" {
			c.blocks = l
		}
	}
	return c
}

func (c *azCtx) isBlockElem(v ssa.Value) bool {
	return c.blocks != nil && c.blocks.isElem(v)
}

// blockClones: World.Clone calls executed inside the block loop.
func (c *azCtx) blockClones() []*ssa.Call {
	var out []*ssa.Call
	for _, cl := range callsIn(c.fn) {
		if cv, ok := cl.(*ssa.Call); ok && isCallTo(&cv.Call, "datalog.World.Clone") && c.blocks != nil && c.blocks.body[cv.Block()] {
			out = append(out, cv)
		}
	}
	return out
}

func (c *azCtx) tainted(v ssa.Value) bool {
	clones := c.blockClones()
	return dependsOn(v, func(x ssa.Value) bool {
		if c.isBlockElem(x) {
			return true
		}
		for _, cl := range clones {
			if x == ssa.Value(cl) {
				return true
			}
		}
		return false
	})
}

func isWorldMethod(cc *ssa.CallCommon) (string, bool) {
	f := cc.StaticCallee()
	if f == nil || f.Signature.Recv() == nil || !isRepoNamed(f.Signature.Recv().Type(), "datalog", "World") {
		return "", false
	}
	return f.Name(), true
}

func ruleAZScope(p *Prog, r *Reporter) {
	globalP = p
	c := p.azContext(r)
	if c == nil {
		return
	}
	name := p.FuncName(c.fn)
	if c.blocks == nil {
		r.Bad(p.Pos(c.fn.Pos()), name, "block loop", "Authorize has no full-range loop over "+c.V+".biscuit.blocks: the checks of attenuation blocks are not evaluated")
		return
	}
	clones := c.blockClones()
	for _, cl := range callsIn(c.fn) {
		cv, ok := cl.(*ssa.Call)
		if ok && isCallTo(&cv.Call, "datalog.World.Clone") {
			src := p.D(cv.Call.Args[0])
			r.Check(src == c.V+".world" && c.blocks.body[cv.Block()], p.instrPos(cv), name, "World.Clone",
				"block world cloned from the authority-level world inside the block loop (fresh per block)",
				"a world is cloned from "+src+" / outside the per-block iteration: facts of one block become visible to another block or to the authority level")
		}
	}
	if len(clones) == 0 {
		r.Bad(p.instrPos(c.blocks.header.Instrs[0]), name, "World.Clone", "the block loop does not create a private copy of the authority-level world")
	}
	isClone := func(v ssa.Value) bool {
		for _, cl := range clones {
			if v == ssa.Value(cl) {
				return true
			}
		}
		return false
	}
	for _, cl := range callsIn(c.fn) {
		cc := cl.Common()
		m, isW := isWorldMethod(cc)
		if !isW || m == "Clone" {
			continue
		}
		anyTaint := false
		for _, a := range cc.Args[1:] {
			if c.tainted(a) {
				anyTaint = true
			}
		}
		if !anyTaint {
			continue
		}
		okRecv := isClone(cc.Args[0]) && c.blocks.body[cl.Block()]
		r.Check(okRecv, p.instrPos(cl), name, "block data -> World."+m,
			"block-derived data flows into this iteration's private clone only",
			"data derived from a non-authority block is passed to World."+m+" on "+shortD(cc.Args[0])+", which is not the private per-block clone: the block can influence authority-level checks, policies, queries or other blocks")
	}
	// block-derived data handed to a callee that writes authorizer state (other than interning into the symbol table)
	own := p.own()
	for _, cl := range callsIn(c.fn) {
		cc := cl.Common()
		if _, isB := cc.Value.(*ssa.Builtin); isB {
			continue
		}
		if _, isW := isWorldMethod(cc); isW {
			continue
		}
		args := callArgs(cc)
		anyTaint := false
		for _, a := range args {
			if c.tainted(a) {
				anyTaint = true
			}
		}
		if !anyTaint {
			continue
		}
		for _, callee := range p.CG().Callees(cl) {
			for ai, a := range args {
				why, mut := own.mutates[callee][ai]
				if !mut {
					continue
				}
				ao := own.origin(a)
				if ao.root != ssa.Value(c.recv) || isRepoNamed(a.Type(), "datalog", "SymbolTable") {
					continue
				}
				r.Bad(p.instrPos(cl), name, "block data -> "+calleeName(callee), "data derived from a non-authority block is passed to "+calleeName(callee)+", which writes authorizer state ("+why+"): block content can persist beyond the block's private world")
			}
		}
	}
	// state carried from one block's evaluation to the next: a map that lives across iterations of the block loop
	// and is written inside it (a memo of check results, of converted facts, ...)
	for b := range c.blocks.body {
		for _, in := range b.Instrs {
			mu, ok := in.(*ssa.MapUpdate)
			if !ok {
				continue
			}
			mk, isI := unwrap(mu.Map).(ssa.Instruction)
			if isI && mk.Parent() == c.fn && c.blocks.body[mk.Block()] {
				if _, isMake := unwrap(mu.Map).(*ssa.MakeMap); isMake {
					continue // created in this iteration
				}
			}
			r.Bad(p.instrPos(mu), name, "map carried across blocks "+shortD(mu.Map), "a map that outlives one block's iteration is written while a block is evaluated: what one block's evaluation records (a check found to hold, a converted fact) is seen by the evaluation of later blocks")
		}
	}
	// stores into the authorizer
	for _, fs := range fieldStoresVia(c.fn, c.recv) {
		if !c.tainted(fs.st.Val) {
			r.OK(p.instrPos(fs.st), name, "store "+c.V+"."+fs.field, "value does not derive from a non-authority block")
			continue
		}
		// allowed: the write-only accumulator of block worlds
		okAcc := false
		if call, ok := fs.st.Val.(*ssa.Call); ok {
			if bi, isB := call.Call.Value.(*ssa.Builtin); isB && bi.Name() == "append" && p.D(call.Call.Args[0]) == c.V+"."+fs.field {
				okAcc = fieldIsWriteOnly(p, fs.field)
			}
		}
		r.Check(okAcc, p.instrPos(fs.st), name, "store "+c.V+"."+fs.field, "block world appended to a write-only accumulator",
			"a value derived from a non-authority block is stored into the authorizer field "+fs.field+", which later evaluation reads")
	}
}

// fieldIsWriteOnly: all loads of the authorizer field (in all methods) only feed an append stored back into it.
func fieldIsWriteOnly(p *Prog, field string) bool {
	_, ms := authorizerImpl(p)
	for _, m := range ms {
		for _, ld := range fieldLoadsVia(m, m.Params[0])[field] {
			for _, u := range *ld.Referrers() {
				call, ok := u.(*ssa.Call)
				if !ok {
					return false
				}
				bi, isB := call.Call.Value.(*ssa.Builtin)
				if !isB || bi.Name() != "append" || call.Call.Args[0] != ssa.Value(ld) {
					return false
				}
			}
		}
	}
	return true
}

func ruleAZResetRules(p *Prog, r *Reporter) {
	globalP = p
	c := p.azContext(r)
	if c == nil {
		return
	}
	name := p.FuncName(c.fn)
	if c.blocks == nil {
		r.Bad(p.Pos(c.fn.Pos()), name, "block loop", "no loop over the token's blocks")
		return
	}
	var reset ssa.CallInstruction
	for _, cl := range callsIn(c.fn) {
		if _, immediate := cl.(*ssa.Call); !immediate {
			continue // defer/go: does not execute here
		}
		if isCallTo(cl.Common(), "datalog.World.ResetRules") && p.D(cl.Common().Args[0]) == c.V+".world" {
			if cl.Block().Dominates(c.blocks.header) && !c.blocks.body[cl.Block()] {
				reset = cl
			}
		}
	}
	// the authorizer's own world must keep its rules: they belong to the authorizer (AddRule) and are needed by the
	// next Authorize / Query. Removing them there was defect D28; they are removed from each block's copy instead.
	for _, m := range c.methods {
		if m.Name() == "Reset" {
			continue
		}
		for _, cl := range callsIn(m) {
			if isCallTo(cl.Common(), "datalog.World.ResetRules") && p.D(cl.Common().Args[0]) == m.Params[0].Name()+".world" {
				r.Bad(p.instrPos(cl), p.FuncName(m), "ResetRules on the authorizer's world", "the rules of the authorizer's own world are deleted and never restored: the rules added through AddRule are missing from every later Authorize or Query (a deny policy on a derived fact stops matching)")
			}
		}
	}
	if reset == nil {
		// every copy of the authority-level world made for a block drops the rules before anything is added to or run on it
		nClone, okAll := 0, true
		for _, cl := range callsIn(c.fn) {
			cv, isV := cl.(*ssa.Call)
			if !isV || !isCallTo(&cv.Call, "datalog.World.Clone") || p.D(cv.Call.Args[0]) != c.V+".world" || !c.blocks.inside(cv.Block()) {
				continue
			}
			nClone++
			okClone := false
			for _, c2 := range callsIn(c.fn) {
				if _, imm := c2.(*ssa.Call); !imm || !isCallTo(c2.Common(), "datalog.World.ResetRules") || c2.Common().Args[0] != ssa.Value(cv) || !instrDominates(cv, c2) {
					continue
				}
				// this reset comes before every other use of the copy
				first := true
				for _, c3 := range callsIn(c.fn) {
					if c3 == c2 || len(c3.Common().Args) == 0 || c3.Common().Args[0] != ssa.Value(cv) {
						continue
					}
					if !instrDominates(c2, c3) {
						first = false
					}
				}
				if first {
					okClone = true
				}
			}
			if !okClone {
				okAll = false // the copy is used before its rules were dropped (or they never are)
			}
		}
		r.Check(nClone > 0 && okAll, p.instrPos(c.blocks.header.Instrs[0]), name, "ResetRules before block loop", "every block's copy of the world drops the authority-level rules before anything is added to or run on it", "the authority-level rules are still present in a block's world: a rule of the authority/authorizer fires on facts supplied by an attenuation block, so a block can derive rights")
		p.checkResetRulesBody(r)
		return
	}
	// no rule is added to the authority-level world afterwards
	ok := true
	for _, cl := range callsIn(c.fn) {
		if isCallTo(cl.Common(), "datalog.World.AddRule") && p.D(cl.Common().Args[0]) == c.V+".world" && instrDominates(reset, cl) {
			ok = false
		}
	}
	r.Check(ok, p.instrPos(reset), name, "ResetRules before block loop", "v.world.ResetRules() dominates the block loop and no authority-level rule is added after it", "a rule is added to the authority-level world after ResetRules")
	p.checkResetRulesBody(r)
}

func (p *Prog) checkResetRulesBody(r *Reporter) {
	// ResetRules really empties the rule list, unconditionally
	if rr := p.Func("datalog", "World", "ResetRules"); rr != nil {
		okBody := false
		for _, fs := range fieldStoresVia(rr, rr.Params[0]) {
			if fs.field == "rules" && isEmptyFresh(fs.st.Val) {
				all := true
				for _, ret := range returnsOf(rr) {
					if !(fs.st.Block() == ret.Block() || fs.st.Block().Dominates(ret.Block())) {
						all = false
					}
				}
				okBody = all
			}
		}
		r.Check(okBody, p.Pos(rr.Pos()), p.FuncName(rr), "ResetRules empties rules", "stores an empty rule list on every path", "World.ResetRules does not unconditionally replace the rule list by an empty one")
	} else {
		r.Dunno("?", "datalog.World.ResetRules", "method", "not found")
	}
}

func ruleAZWorldSel(p *Prog, r *Reporter) {
	globalP = p
	c := p.azContext(r)
	if c == nil {
		return
	}
	name := p.FuncName(c.fn)
	var runs []ssa.CallInstruction
	for _, cl := range callsIn(c.fn) {
		if isCallTo(cl.Common(), "datalog.World.Run") {
			runs = append(runs, cl)
		}
	}
	for _, cl := range callsIn(c.fn) {
		cc := cl.Common()
		if !isCallTo(cc, "datalog.World.QueryRule") {
			continue
		}
		w := cc.Args[0]
		q := cc.Args[1]
		pos := p.instrPos(cl)
		blockQuery := c.tainted(q)
		construct := "QueryRule(" + normaliseD(shortD(q)) + ")"
		if blockQuery {
			ok := false
			for _, k := range c.blockClones() {
				if w == ssa.Value(k) {
					ok = true
				}
			}
			r.Check(ok, pos, name, construct, "a block's check queries that block's private world", "a check of an attenuation block is evaluated against "+shortD(w)+" instead of the block's own world (its own facts and rules are not in scope)")
		} else {
			r.Check(p.D(w) == c.V+".world", pos, name, construct, "authority-level query runs on the authority-level world", "an authorizer/authority check or a policy is evaluated against "+shortD(w)+" instead of the authority-level world: block facts can satisfy it")
		}
		// preceded by a Run of the same world
		okRun := false
		for _, rn := range runs {
			rw := rn.Common().Args[0]
			if (rw == w || p.D(rw) == p.D(w)) && instrDominates(rn, cl) {
				okRun = true
			}
		}
		r.Check(okRun, pos, name, construct+" after Run", "the queried world was run to its fixpoint first", "the world is queried without a dominating Run: derived facts are missing")
		if !p.D2eq(cc.Args[2], c.V+".symbols") {
			r.Bad(pos, name, construct+" symbols", "query evaluated with symbol table "+shortD(cc.Args[2])+" instead of the authorizer's")
		}
	}
	// Query(): authority-level world only
	_, ms := authorizerImpl(p)
	for _, m := range ms {
		if m.Name() != "Query" {
			continue
		}
		n := 0
		for _, cl := range callsIn(m) {
			if isCallTo(cl.Common(), "datalog.World.QueryRule") || isCallTo(cl.Common(), "datalog.World.Run") {
				n++
				w := p.D(cl.Common().Args[0])
				r.Check(w == m.Params[0].Name()+".world", p.instrPos(cl), p.FuncName(m), calleeName(cl.Common().StaticCallee()), "authorizer queries use the authority-level world", "Query evaluates against "+w+": block-private facts leak into query results")
			}
		}
		if n == 0 {
			r.Bad(p.Pos(m.Pos()), p.FuncName(m), "Query", "Query does not query any world")
		}
		// every QueryRule is reached only through the success edge of a Run of the same world in this call
		for _, cl := range callsIn(m) {
			if !isCallTo(cl.Common(), "datalog.World.QueryRule") {
				continue
			}
			okRun := false
			for _, rc := range callsIn(m) {
				rv, isV := rc.(*ssa.Call)
				if !isV || !isCallTo(rc.Common(), "datalog.World.Run") || p.D(rc.Common().Args[0]) != p.D(cl.Common().Args[0]) {
					continue
				}
				for _, nb := range nilTests(rv) {
					if nb.isNil != nil && len(nb.isNil.Preds) == 1 && (nb.isNil == cl.Block() || nb.isNil.Dominates(cl.Block())) {
						okRun = true
					}
				}
			}
			r.Check(okRun, p.instrPos(cl), p.FuncName(m), "QueryRule after Run", "reached only after a successful Run of the queried world in the same call", "Query can answer without (successfully) running the world in this call: after an evaluation that stopped on a limit, or after content was added, it reports facts of a fixpoint that was not reached")
		}
	}
}

func (p *Prog) D2eq(v ssa.Value, want string) bool { return p.D(v) == want }

// ---- phi leaves

type phiLeaf struct {
	val  ssa.Value
	pred *ssa.BasicBlock
	blk  *ssa.BasicBlock
}

func phiLeaves(v ssa.Value) []phiLeaf {
	var out []phiLeaf
	seen := map[*ssa.Phi]bool{}
	var rec func(ph *ssa.Phi)
	rec = func(ph *ssa.Phi) {
		if seen[ph] {
			return
		}
		seen[ph] = true
		for i, e := range ph.Edges {
			if inner, ok := e.(*ssa.Phi); ok {
				if !seen[inner] {
					rec(inner)
				}
				continue
			}
			out = append(out, phiLeaf{e, ph.Block().Preds[i], ph.Block()})
		}
	}
	if ph, ok := v.(*ssa.Phi); ok {
		rec(ph)
	}
	return out
}

// phiChain lists the phi nodes reachable from v through phi operands (v included if it is a phi).
func phiChain(v ssa.Value) []*ssa.Phi {
	var out []*ssa.Phi
	seen := map[*ssa.Phi]bool{}
	var rec func(ph *ssa.Phi)
	rec = func(ph *ssa.Phi) {
		if seen[ph] {
			return
		}
		seen[ph] = true
		out = append(out, ph)
		for _, e := range ph.Edges {
			if inner, ok := e.(*ssa.Phi); ok {
				rec(inner)
			}
		}
	}
	if ph, ok := v.(*ssa.Phi); ok {
		rec(ph)
	}
	return out
}

// satGuard: the guards contain len(*QueryRule(...)) != 0 == want for a QueryRule call accepted by okCall.
func satGuard(p *Prog, gs []guard, want bool, okCall func(*ssa.Call) bool) bool {
	for _, g := range gs {
		bo, ok := g.cond.(*ssa.BinOp)
		if !ok {
			continue
		}
		k, isC := constInt(bo.Y)
		if !isC || k != 0 {
			continue
		}
		ln, isLen := bo.X.(*ssa.Call)
		if !isLen {
			continue
		}
		if bi, isB := ln.Call.Value.(*ssa.Builtin); !isB || bi.Name() != "len" {
			continue
		}
		ld, isLd := ln.Call.Args[0].(*ssa.UnOp)
		if !isLd || ld.Op != token.MUL {
			continue
		}
		q, isQ := ld.X.(*ssa.Call)
		if !isQ || !isCallTo(&q.Call, "datalog.World.QueryRule") || !okCall(q) {
			continue
		}
		nonEmpty := false
		switch bo.Op {
		case token.NEQ, token.GTR:
			nonEmpty = g.val
		case token.EQL:
			nonEmpty = !g.val
		default:
			continue
		}
		if nonEmpty == want {
			return true
		}
	}
	return false
}

func innermostLoop(loops []*rangeLoop, b *ssa.BasicBlock) *rangeLoop {
	var best *rangeLoop
	for _, l := range loops {
		if l.body[b] && (best == nil || len(l.body) < len(best.body)) {
			best = l
		}
	}
	return best
}

func enclosingLoop(loops []*rangeLoop, inner *rangeLoop) *rangeLoop {
	var best *rangeLoop
	for _, l := range loops {
		if l != inner && l.body[inner.header] && (best == nil || len(l.body) < len(best.body)) {
			best = l
		}
	}
	return best
}

// errsValue: the slice whose length decides "verification failed".
func (c *azCtx) errsGuard() (*ssa.BinOp, ssa.Value) {
	for _, b := range c.fn.Blocks {
		i := blockIf(b)
		if i == nil {
			continue
		}
		v, _, _ := condOf(i)
		bo, ok := v.(*ssa.BinOp)
		if !ok {
			continue
		}
		ln, isLen := bo.X.(*ssa.Call)
		if !isLen {
			continue
		}
		if bi, isB := ln.Call.Value.(*ssa.Builtin); !isB || bi.Name() != "len" {
			continue
		}
		arg := ln.Call.Args[0]
		if sl, isSl := arg.Type().Underlying().(interface{ Elem() interface{} }); isSl {
			_ = sl
		}
		if !strings.HasSuffix(shortType(arg.Type()), "[]error") {
			continue
		}
		if k, isC := constInt(bo.Y); isC && k == 0 {
			return bo, arg
		}
	}
	return nil, nil
}

func ruleAZDisj(p *Prog, r *Reporter) {
	globalP = p
	c := p.azContext(r)
	if c == nil {
		return
	}
	name := p.FuncName(c.fn)
	_, errsFinal := c.errsGuard()
	if errsFinal == nil {
		r.Bad(p.Pos(c.fn.Pos()), name, "errs test", "Authorize has no 'len(errs) > 0' decision over a []error accumulator: failed checks are not turned into a failure")
		return
	}
	cats := map[string]int{}
	for _, cl := range callsIn(c.fn) {
		q, ok := cl.(*ssa.Call)
		if !ok || !isCallTo(&q.Call, "datalog.World.QueryRule") {
			continue
		}
		inner := innermostLoop(c.loops, q.Block())
		if inner == nil || !inner.isElem(q.Call.Args[1]) || !strings.HasSuffix(p.D(inner.seq), ".Queries") {
			continue // policy queries: AZ-POLICY
		}
		outer := enclosingLoop(c.loops, inner)
		if outer == nil {
			r.Bad(p.instrPos(q), name, "check query", "query loop is not inside a loop over a check collection")
			continue
		}
		coll := normaliseD(p.D(outer.seq))
		cats[coll]++
		construct := "checks of " + coll
		pos := p.instrPos(q)
		sameLoop := func(k *ssa.Call) bool { return inner.body[k.Block()] && inner.isElem(k.Call.Args[1]) }
		// find the flag S: a bool phi outside the inner loop with a true leaf guarded by sat
		var S *ssa.Phi
		for b := range outer.body {
			for _, in := range b.Instrs {
				ph, isPhi := in.(*ssa.Phi)
				if !isPhi || inner.body[b] && b != inner.header {
					continue
				}
				if bt, isB := ph.Type().Underlying().(interface{ Kind() interface{} }); isB {
					_ = bt
				}
				if shortType(ph.Type()) != "bool" {
					continue
				}
				for _, lf := range phiLeaves(ph) {
					if k, isK := lf.val.(*ssa.Const); isK && k.Value != nil && k.Value.String() == "true" && satGuard(p, guardsOnEdge(lf.pred, lf.blk), true, sameLoop) {
						S = ph
					}
				}
			}
		}
		if S == nil {
			// idiom without a flag: a satisfied query continues with the next check; exhaustion records the failure
			ok, why := c.disjByContinue(p, inner, outer, sameLoop, errsFinal)
			r.Check(ok, pos, name, construct, "a satisfied query skips to the next check; exhausting the queries records the failure; all checks evaluated", why)
			continue
		}
		okLeaves := true
		why := ""
		// the flag must start false for every check: it may not be carried from one check to the next
		for _, ph := range phiChain(S) {
			if ph.Block() == outer.header {
				okLeaves, why = false, "the success flag is carried over from one check to the next (initialised outside the loop over the checks): once one check succeeds every later check counts as satisfied"
			}
		}
		for _, lf := range phiLeaves(S) {
			k, isK := lf.val.(*ssa.Const)
			if !isK || k.Value == nil {
				okLeaves, why = false, "the success flag takes the non-constant value "+shortD(lf.val)
				continue
			}
			gs := guardsOnEdge(lf.pred, lf.blk)
			if k.Value.String() == "true" {
				if !satGuard(p, gs, true, sameLoop) {
					okLeaves, why = false, "the success flag is set to true on a path where no query of this check returned a fact"
				}
			} else {
				// false: must not be assigned after a satisfied query
				if satGuard(p, gs, true, sameLoop) {
					okLeaves, why = false, "the success flag is cleared although a query returned a fact (and/or semantics instead of or)"
				}
				if inner.body[lf.pred] && lf.pred != inner.header {
					okLeaves, why = false, "the success flag is cleared inside the query loop: a later unsatisfied query cancels an earlier satisfied one (conjunction instead of disjunction)"
				}
			}
		}
		// the failure is recorded exactly under !S
		var app *ssa.Call
		for b := range outer.body {
			for _, in := range b.Instrs {
				call, isCall := in.(*ssa.Call)
				if !isCall {
					continue
				}
				if bi, isB := call.Call.Value.(*ssa.Builtin); !isB || bi.Name() != "append" {
					continue
				}
				if !strings.HasSuffix(shortType(call.Type()), "[]error") {
					continue
				}
				if hasGuard(b, S, false) {
					app = call
				} else if !inner.body[b] {
					okLeaves, why = false, "a check failure is recorded on a path that is not guarded by 'no query satisfied'"
				}
			}
		}
		if app == nil {
			okLeaves, why = false, "no failure is recorded when none of the check's queries is satisfied"
		} else if !dependsOn(errsFinal, func(x ssa.Value) bool { return x == ssa.Value(app) }) {
			okLeaves, why = false, "the recorded failure does not reach the errs slice whose length decides the outcome"
		}
		// AZ-ALLCHECKS: the collection loop is left early only through error returns
		for _, ex := range outer.exits() {
			if ex.from == outer.header && ex.to == outer.doneBB {
				continue
			}
			if !onlyErrorReturnsFrom(ex.to) {
				okLeaves, why = false, "the loop over the checks can be left early towards a non-error continuation: remaining checks are skipped"
			}
		}
		r.Check(okLeaves, pos, name, construct, "failure recorded iff no query of the check (full range) returned a fact; all checks of the collection evaluated", why)
	}
	for _, want := range []string{c.V + ".checks", c.V + ".biscuit.authority.checks", c.V + ".biscuit.blocks[(φ+1:int)].checks"} {
		if cats[want] == 0 {
			r.Bad(p.Pos(c.fn.Pos()), name, "checks of "+want, "no evaluation loop over this check collection: its checks are never enforced")
		}
	}
}

func ruleAZPrecedence(p *Prog, r *Reporter) {
	globalP = p
	c := p.azContext(r)
	if c == nil {
		return
	}
	name := p.FuncName(c.fn)
	guardOp, _ := c.errsGuard()
	if guardOp == nil {
		r.Bad(p.Pos(c.fn.Pos()), name, "errs test", "no 'len(errs) > 0' decision")
		return
	}
	// the decision is taken after every check loop (dominated by the exhaustion of the block loop)
	if c.blocks != nil {
		var ifBlk *ssa.BasicBlock
		for _, ref := range *guardOp.Referrers() {
			if i, ok := ref.(*ssa.If); ok {
				ifBlk = i.Block()
			}
		}
		ok := ifBlk != nil && (c.blocks.doneBB.Dominates(ifBlk) || c.blocks.doneBB == ifBlk)
		r.Check(ok, p.instrPos(guardOp), name, "errs decision point", "taken after the loop over all blocks completed", "the 'any check failed' decision is taken before all block checks were evaluated")
	}
	for _, ret := range returnsOf(c.fn) {
		v := retVal(ret, 0)
		pos := p.instrPos(ret)
		if definitelyNonNilError(v, ret.Block(), 0) && !isPolicyVerdict(p, v) {
			r.OK(pos, name, "return error", "definite non-policy error")
			continue
		}
		// may be nil or a policy verdict
		empty := false
		for _, g := range guardsOf(ret.Block()) {
			if g.cond == ssa.Value(guardOp) {
				isNonEmpty := false
				switch guardOp.Op {
				case token.GTR, token.NEQ:
					isNonEmpty = g.val
				case token.EQL:
					isNonEmpty = !g.val
				}
				if !isNonEmpty {
					empty = true
				}
			}
		}
		r.Check(empty, pos, name, "return verdict "+normaliseD(shortD(v)), "policy verdict / success returned only when no check failed", "a result that can be nil or a policy verdict is returned on a path where failed checks have not been excluded: check failure does not take precedence")
	}
}

func isPolicyVerdict(p *Prog, v ssa.Value) bool {
	if isLoadOfGlobal(v, "biscuit", "ErrPolicyDenied") || isLoadOfGlobal(v, "biscuit", "ErrNoMatchingPolicy") {
		return true
	}
	if ph, ok := v.(*ssa.Phi); ok {
		for _, lf := range phiLeaves(ph) {
			if isNilConst(lf.val) || isLoadOfGlobal(lf.val, "biscuit", "ErrPolicyDenied") || isLoadOfGlobal(lf.val, "biscuit", "ErrNoMatchingPolicy") {
				return true
			}
		}
	}
	return false
}

func ruleAZPolicy(p *Prog, r *Reporter) {
	globalP = p
	c := p.azContext(r)
	if c == nil {
		return
	}
	name := p.FuncName(c.fn)
	var pol *rangeLoop
	for _, l := range c.loops {
		if p.D(l.seq) == c.V+".policies" {
			pol = l
		}
	}
	if pol == nil {
		r.Bad(p.Pos(c.fn.Pos()), name, "policy loop", "no full-range, in-order loop over "+c.V+".policies")
		return
	}
	isPolQuery := func(k *ssa.Call) bool {
		return pol.body[k.Block()] && dependsOn(k.Call.Args[1], func(x ssa.Value) bool { return pol.isElem(x) })
	}
	// the returned verdict
	var verdict, matched ssa.Value
	var noMatchRet *ssa.Return
	for _, ret := range returnsOf(c.fn) {
		v := retVal(ret, 0)
		if ph, ok := v.(*ssa.Phi); ok && ph.Block() == pol.header {
			verdict = ph
			for _, g := range guardsOf(ret.Block()) {
				if gp, isPhi := g.cond.(*ssa.Phi); isPhi && gp.Block() == pol.header && g.val {
					matched = gp
				}
			}
		}
		if isLoadOfGlobal(v, "biscuit", "ErrNoMatchingPolicy") {
			noMatchRet = ret
		}
	}
	if verdict == nil || matched == nil {
		if p.azPolicyBreakIdiom(r, c, pol, isPolQuery) {
			return
		}
		r.Bad(p.instrPos(pol.header.Instrs[0]), name, "policy verdict", "the returned verdict is not the loop-carried policy result guarded by the loop-carried 'matched' flag")
		return
	}
	if noMatchRet == nil || !hasGuard(noMatchRet.Block(), matched, false) {
		r.Bad(p.Pos(c.fn.Pos()), name, "no matching policy", "ErrNoMatchingPolicy is not what is returned when no policy matched")
	} else {
		r.OK(p.instrPos(noMatchRet), name, "no matching policy", "ErrNoMatchingPolicy returned exactly when no policy matched")
	}
	// first match: every policy query is evaluated only while not matched
	for _, cl := range callsIn(c.fn) {
		q, ok := cl.(*ssa.Call)
		if !ok || !isCallTo(&q.Call, "datalog.World.QueryRule") || !isPolQuery(q) {
			continue
		}
		r.Check(hasGuard(q.Block(), matched, false), p.instrPos(q), name, "policy query", "evaluated only while no earlier policy matched (first match wins)", "a policy is evaluated although an earlier policy already matched: a later policy can override the first matching one")
		inner := innermostLoop(c.loops, q.Block())
		okFull := inner != nil && inner != pol && strings.HasSuffix(p.D(inner.seq), ".Queries") && pol.isElemRoot(p, inner.seq)
		r.Check(okFull, p.instrPos(q), name, "policy queries range", "all queries of the policy are tried in a full-range loop", "the queries of a policy are not tried in a full-range loop over policy.Queries")
	}
	// verdict leaves
	kindGuard := func(gs []guard, want int64) bool {
		for _, g := range gs {
			bo, ok := g.cond.(*ssa.BinOp)
			if !ok || bo.Op != token.EQL || !g.val {
				continue
			}
			k, isC := constInt(bo.Y)
			if !isC || k != want {
				continue
			}
			if strings.HasSuffix(p.D(bo.X), ".Kind") || strings.Contains(p.D(bo.X), ".Kind)") {
				return true
			}
		}
		return false
	}
	allowK, denyK := p.policyKindConsts()
	nAllow, nDeny := 0, 0
	for _, lf := range phiLeaves(verdict) {
		if pol.body[lf.pred] == false {
			continue // initial value
		}
		gs := guardsOnEdge(lf.pred, lf.blk)
		pos := p.instrPos(lf.pred.Instrs[len(lf.pred.Instrs)-1])
		sat := satGuard(p, gs, true, isPolQuery)
		notMatched := false
		for _, g := range gs {
			if g.cond == matched && !g.val {
				notMatched = true
			}
		}
		switch {
		case isNilConst(lf.val):
			nAllow++
			r.Check(sat && notMatched && kindGuard(gs, allowK), pos, name, "verdict nil (allow)", "nil only for the first matching policy of kind allow", "authorization success (nil) is produced without: an allow policy, one of its queries satisfied, and no earlier match")
		case isLoadOfGlobal(lf.val, "biscuit", "ErrPolicyDenied"):
			nDeny++
			r.Check(sat && notMatched && kindGuard(gs, denyK), pos, name, "verdict ErrPolicyDenied (deny)", "ErrPolicyDenied only for the first matching policy of kind deny", "ErrPolicyDenied is produced on a path that is not 'first matching policy is a deny policy'")
		default:
			r.Bad(pos, name, "verdict "+shortD(lf.val), "unexpected policy verdict value")
		}
	}
	if nAllow == 0 || nDeny == 0 {
		r.Bad(p.instrPos(pol.header.Instrs[0]), name, "verdict kinds", "the policy loop lacks the allow->nil or the deny->ErrPolicyDenied assignment")
	}
	// matched becomes true exactly on a satisfied query
	for _, lf := range phiLeaves(matched) {
		k, isK := lf.val.(*ssa.Const)
		if !isK || k.Value == nil {
			r.Bad(p.instrPos(pol.header.Instrs[0]), name, "matched flag", "non-constant value "+shortD(lf.val))
			continue
		}
		if k.Value.String() == "true" {
			ok := satGuard(p, guardsOnEdge(lf.pred, lf.blk), true, isPolQuery)
			r.Check(ok, p.instrPos(lf.pred.Instrs[len(lf.pred.Instrs)-1]), name, "matched = true", "set only after a query of the policy returned a fact", "a policy is treated as matching without a satisfied query")
		} else if pol.body[lf.pred] {
			r.Bad(p.instrPos(lf.pred.Instrs[len(lf.pred.Instrs)-1]), name, "matched = false", "the matched flag is cleared inside the policy loop")
		}
	}
}

// isElemRoot: seq (e.g. policy.Queries) is a field of this loop's element.
func (rl *rangeLoop) isElemRoot(p *Prog, seq ssa.Value) bool {
	return dependsOn(seq, func(x ssa.Value) bool { return rl.isElem(x) })
}

func (p *Prog) policyKindConsts() (allow, deny int64) {
	allow, deny = -1, -1
	sc := p.Pkgs["biscuit"].Types.Scope()
	if c, ok := sc.Lookup("PolicyKindAllow").(interface {
		Val() interface{ String() string }
	}); ok {
		_ = c
	}
	for _, n := range []string{"PolicyKindAllow", "PolicyKindDeny"} {
		if o := sc.Lookup(n); o != nil {
			if k, ok := o.(interface {
				Val() interface{ ExactString() string }
			}); ok {
				_ = k
			}
		}
	}
	if c := constByName(p, "biscuit", "PolicyKindAllow"); c != nil {
		allow = *c
	}
	if c := constByName(p, "biscuit", "PolicyKindDeny"); c != nil {
		deny = *c
	}
	return
}

func ruleAZReintern(p *Prog, r *Reporter) {
	globalP = p
	c := p.azContext(r)
	if c == nil {
		return
	}
	name := p.FuncName(c.fn)
	tokSyms := c.V + ".biscuit.symbols"
	azSyms := c.V + ".symbols"
	fromTok := func(v ssa.Value) (bool, bool) { // (derives from token content, went through fromDatalogX(token symbols))
		tokenData := dependsOn(v, func(x ssa.Value) bool {
			return strings.HasPrefix(p.D(x), c.V+".biscuit.") && !strings.HasPrefix(p.D(x), tokSyms)
		})
		viaFrom := dependsOn(v, func(x ssa.Value) bool {
			call, ok := x.(*ssa.Call)
			if !ok || call.Call.StaticCallee() == nil || !strings.HasPrefix(call.Call.StaticCallee().Name(), "fromDatalog") {
				return false
			}
			return p.D(call.Call.Args[0]) == tokSyms
		})
		return tokenData, viaFrom
	}
	for _, cl := range callsIn(c.fn) {
		cc := cl.Common()
		m, isW := isWorldMethod(cc)
		if !isW {
			continue
		}
		var arg ssa.Value
		switch m {
		case "AddFact", "AddRule", "QueryRule":
			arg = cc.Args[1]
		default:
			continue
		}
		pos := p.instrPos(cl)
		construct := "World." + m + " argument " + normaliseD(shortD(arg))
		if len(construct) > 150 {
			construct = construct[:150]
		}
		// outermost producer must be a convert(..., authorizer symbols)
		conv := false
		dependsOn(arg, func(x ssa.Value) bool {
			call, ok := x.(*ssa.Call)
			if ok && call.Call.StaticCallee() != nil && call.Call.StaticCallee().Name() == "convert" && len(call.Call.Args) == 2 && p.D(call.Call.Args[1]) == azSyms {
				conv = true
				return true
			}
			return false
		})
		tok, via := fromTok(arg)
		switch {
		case !conv:
			r.Bad(pos, name, construct, "the value is not produced by convert("+azSyms+"): symbol indexes of another table are used in the authorizer's world")
		case tok && !via:
			r.Bad(pos, name, construct, "token content reaches the world without fromDatalogX("+tokSyms+", ...): its symbol indexes are interpreted in the wrong table")
		default:
			r.OK(pos, name, construct, "re-interned: fromDatalogX(token symbols) then convert(authorizer symbols)")
		}
	}
}

// disjByContinue recognises the flag-less idiom:
//
//	for checks { for queries { if satisfied { continue checks } }; errs = append(errs, ...) }
func (c *azCtx) disjByContinue(p *Prog, inner, outer *rangeLoop, sameLoop func(*ssa.Call) bool, errsFinal ssa.Value) (bool, string) {
	// the failure record: an append to a []error inside the outer loop, outside the inner loop
	var app *ssa.Call
	for b := range outer.body {
		if inner.body[b] {
			continue
		}
		for _, in := range b.Instrs {
			if call, ok := in.(*ssa.Call); ok {
				if bi, isB := call.Call.Value.(*ssa.Builtin); isB && bi.Name() == "append" && strings.HasSuffix(shortType(call.Type()), "[]error") {
					app = call
				}
			}
		}
	}
	if app == nil {
		return false, "no success flag and no failure record: the disjunction over the check's queries is not computed"
	}
	if !dependsOn(errsFinal, func(x ssa.Value) bool { return x == ssa.Value(app) }) {
		return false, "the recorded failure does not reach the errs slice whose length decides the outcome"
	}
	// satisfied edges leave the inner loop and must not reach the failure record within the same check
	nSat := 0
	for _, ex := range inner.exits() {
		if ex.from == inner.header && ex.to == inner.doneBB {
			continue
		}
		if !satGuard(p, guardsOnEdge(ex.from, ex.to), true, sameLoop) {
			if onlyErrorReturnsFrom(ex.to) {
				continue
			}
			return false, "the query loop is left on a path that is neither 'query satisfied' nor exhaustion nor an error return"
		}
		nSat++
		if reachAvoiding(ex.to, app.Block(), blockSet{outer.header: true}) && ex.to != outer.header {
			return false, "after a satisfied query the failure of the check can still be recorded"
		}
		if ex.to == app.Block() {
			return false, "a satisfied query leads to the failure record"
		}
	}
	if nSat == 0 {
		return false, "no exit of the query loop is taken when a query returns a fact"
	}
	// exhaustion must record the failure before the next check
	for _, latch := range outer.latches {
		if reachAvoiding(inner.doneBB, latch, blockSet{app.Block(): true}) {
			return false, "the queries of a check can be exhausted without recording the failure"
		}
	}
	for _, ex := range outer.exits() {
		if ex.from == outer.header && ex.to == outer.doneBB {
			continue
		}
		if !onlyErrorReturnsFrom(ex.to) {
			return false, "the loop over the checks can be left early towards a non-error continuation: remaining checks are skipped"
		}
	}
	return true, ""
}

func ruleAZLoad(p *Prog, r *Reporter) {
	globalP = p
	c := p.azContext(r)
	if c == nil {
		return
	}
	name := p.FuncName(c.fn)
	type want struct {
		seqD   string // loop over this
		method string // AddFact / AddRule
		inBlk  bool
	}
	find := func(seqSuffix, method string, inBlock bool) (*rangeLoop, *ssa.Call) {
		for _, rl := range c.loops {
			d := p.D(rl.seq)
			if !strings.HasSuffix(d, seqSuffix) {
				continue
			}
			isBlk := c.blocks != nil && c.blocks.body[rl.header] && rl != c.blocks
			if isBlk != inBlock {
				continue
			}
			if !inBlock && !strings.HasPrefix(strings.TrimPrefix(d, "*"), c.V+".biscuit.authority.") {
				continue
			}
			for _, cl := range callsIn(c.fn) {
				cv, ok := cl.(*ssa.Call)
				if !ok || !rl.inside(cv.Block()) {
					continue
				}
				if m, isW := isWorldMethod(&cv.Call); isW && m == method && dependsOn(cv.Call.Args[1], func(x ssa.Value) bool { return rl.isElem(x) }) {
					return rl, cv
				}
			}
		}
		return nil, nil
	}
	check := func(what, seqSuffix, method string, inBlock bool) {
		rl, add := find(seqSuffix, method, inBlock)
		if rl == nil {
			r.Bad(p.Pos(c.fn.Pos()), name, "load "+what, "no full-range loop adds the "+what+" to the world that is then evaluated")
			return
		}
		// every continuing iteration adds its element (or returns an error)
		okEach := true
		for _, latch := range rl.latches {
			if reachAvoiding(rl.bodyBB, latch, blockSet{add.Block(): true}) && latch != add.Block() {
				okEach = false
			}
		}
		// the Run of the same world follows, on every path (the loop is not conditional)
		var run *ssa.Call
		for _, cl := range callsIn(c.fn) {
			if cv, ok := cl.(*ssa.Call); ok && isCallTo(&cv.Call, "datalog.World.Run") {
				same := cv.Call.Args[0] == add.Call.Args[0] || p.D(cv.Call.Args[0]) == p.D(add.Call.Args[0])
				if same && (rl.doneBB == cv.Block() || rl.doneBB.Dominates(cv.Block())) {
					run = cv
				}
			}
		}
		okUncond := run != nil
		if run != nil {
			// the loop header dominates the Run: it cannot be skipped
			okUncond = rl.header.Dominates(run.Block())
			if inBlock {
				okUncond = okUncond && c.blocks.bodyBB.Dominates(rl.header)
			} else {
				okUncond = okUncond && rl.header.Dominates(run.Block()) && dominatedUnconditionally(c.fn, rl.header)
			}
		}
		if !okUncond && !inBlock {
			for _, cl := range callsIn(c.fn) {
				cv, ok := cl.(*ssa.Call)
				if !ok || !isCallTo(&cv.Call, "datalog.World.Run") || p.D(cv.Call.Args[0]) != p.D(add.Call.Args[0]) {
					continue
				}
				if reachAvoiding(rl.doneBB, cv.Block(), nil) && !rl.body[cv.Block()] && p.loadedOnceIdiom(c.fn, rl, cv) {
					okUncond = true
				}
			}
		}
		r.Check(okEach && okUncond, p.instrPos(add), name, "load "+what, "loaded on every call, element by element, before the world is run", firstNonEmpty(cond(!okEach, "an element of the "+what+" can be skipped"), "loading the "+what+" is conditional or not followed by Run of that world: after some histories (Query, a second Authorize) the "+what+" are missing from the evaluation"))
	}
	check("authority facts", ".facts", "AddFact", false)
	check("authority rules", ".rules", "AddRule", false)
	if c.blocks != nil {
		check("block facts", ".facts", "AddFact", true)
		check("block rules", ".rules", "AddRule", true)
	}
}

// loadedOnceIdiom: the loading loop rl may be skipped before run only under a boolean field of the
// receiver that records "already loaded": the loop is on the flag's false side and cannot be skipped
// there; the flag becomes true only after the loop has finished; and every function that replaces
// the receiver's world clears the flag (so flag == true implies the content is in the current world).
func (p *Prog) loadedOnceIdiom(fn *ssa.Function, rl *rangeLoop, run *ssa.Call) bool {
	var flag *ssa.FieldAddr
	var at *ssa.If
	for _, g := range guardsOf(rl.header) {
		u, ok := g.cond.(*ssa.UnOp)
		if !ok || u.Op != token.MUL || g.val {
			continue
		}
		fa, ok := u.X.(*ssa.FieldAddr)
		if !ok || fa.X != ssa.Value(fn.Params[0]) {
			continue
		}
		flag, at = fa, g.at
	}
	if flag == nil || at == nil {
		return false
	}
	gb := at.Block()
	if !(gb.Dominates(run.Block())) || !dominatedUnconditionally(fn, gb) {
		return false
	}
	// on the not-yet-loaded side the loop cannot be skipped on the way to Run
	for _, s := range gb.Succs {
		if s == rl.header || s.Dominates(rl.header) {
			if reachAvoiding(s, run.Block(), blockSet{rl.header: true}) && s != rl.header {
				return false
			}
		}
	}
	fname := fieldName(flag)
	recvT := deref(fn.Params[0].Type())
	isFlagStore := func(st *ssa.Store) (isFlag bool, val string) {
		fa, ok := st.Addr.(*ssa.FieldAddr)
		if !ok || fieldName(fa) != fname || !types.Identical(deref(fa.X.Type()), recvT) {
			return false, ""
		}
		if k, isK := st.Val.(*ssa.Const); isK && k.Value != nil {
			return true, k.Value.String()
		}
		return true, "?"
	}
	for _, f := range p.Funcs {
		var worldStores, clears []*ssa.Store
		for _, b := range f.Blocks {
			for _, in := range b.Instrs {
				st, ok := in.(*ssa.Store)
				if !ok {
					continue
				}
				if isF, v := isFlagStore(st); isF {
					switch v {
					case "false":
						clears = append(clears, st)
					default:
						// set (or computed): only here, after the loop has run to completion
						if f != fn || !(rl.doneBB == b || rl.doneBB.Dominates(b)) {
							return false
						}
					}
				}
				if fa, isFA := st.Addr.(*ssa.FieldAddr); isFA && fieldName(fa) == "world" && types.Identical(deref(fa.X.Type()), recvT) {
					if _, fresh := fa.X.(*ssa.Alloc); !fresh {
						worldStores = append(worldStores, st)
					}
				}
			}
		}
		for _, ws := range worldStores {
			ok := p.replacedUnderCleanFlag(fn, f, ws, fname, recvT, rl)
			for _, cl := range clears {
				if cl.Block() == ws.Block() || cl.Block().Dominates(ws.Block()) {
					ok = true
					continue
				}
				// every exit after the replacement passes the clearing store
				all := true
				for _, ret := range returnsOf(f) {
					if reachAvoiding(ws.Block(), ret.Block(), blockSet{cl.Block(): true}) {
						all = false
					}
				}
				if all {
					ok = true
				}
			}
			if !ok {
				return false
			}
		}
	}
	return true
}

// replacedUnderCleanFlag: the world is replaced at ws (in function f) only where another boolean field D of the
// receiver is false, and D is implied by the loaded flag: in fn, D = true dominates the store that sets the flag,
// and every function that clears D also clears the flag. So where D is false the flag is false as well.
func (p *Prog) replacedUnderCleanFlag(fn, f *ssa.Function, ws *ssa.Store, flagName string, recvT types.Type, rl *rangeLoop) bool {
	for _, g := range guardsOf(ws.Block()) {
		u, ok := g.cond.(*ssa.UnOp)
		if !ok || u.Op != token.MUL || g.val {
			continue
		}
		fa, ok := u.X.(*ssa.FieldAddr)
		if !ok || fa.X != ssa.Value(f.Params[0]) || fieldName(fa) == flagName {
			continue
		}
		if b, isB := u.Type().Underlying().(*types.Basic); !isB || b.Kind() != types.Bool {
			continue
		}
		dName := fieldName(fa)
		storesOf := func(g2 *ssa.Function, name string) (sets, clears []*ssa.Store) {
			for _, b := range g2.Blocks {
				for _, in := range b.Instrs {
					st, ok := in.(*ssa.Store)
					if !ok {
						continue
					}
					fa2, ok := st.Addr.(*ssa.FieldAddr)
					if !ok || fieldName(fa2) != name || !types.Identical(deref(fa2.X.Type()), recvT) {
						continue
					}
					if k, isK := st.Val.(*ssa.Const); isK && k.Value != nil && k.Value.String() == "false" {
						clears = append(clears, st)
					} else {
						sets = append(sets, st)
					}
				}
			}
			return
		}
		// (b) in fn, D = true dominates every store that sets the flag
		dSets, _ := storesOf(fn, dName)
		fSets, _ := storesOf(fn, flagName)
		okB := len(fSets) > 0
		for _, fs := range fSets {
			dom := false
			for _, ds := range dSets {
				if k, isK := ds.Val.(*ssa.Const); isK && k.Value != nil && k.Value.String() == "true" && instrDominates(ds, fs) {
					dom = true
				}
			}
			if !dom {
				okB = false
			}
		}
		// (c) whoever clears D clears the flag too
		okC := true
		for _, g2 := range p.Funcs {
			_, dClears := storesOf(g2, dName)
			if len(dClears) == 0 {
				continue
			}
			_, fClears := storesOf(g2, flagName)
			for _, dc := range dClears {
				has := false
				for _, fc := range fClears {
					if fc.Block() == dc.Block() || fc.Block().Dominates(dc.Block()) || dc.Block().Dominates(fc.Block()) {
						has = true
					}
				}
				if !has {
					okC = false
				}
			}
		}
		if okB && okC {
			return true
		}
	}
	return false
}

// dominatedUnconditionally: blk is reached on every path from the entry that does not end in an error return,
// i.e. no branch around it leads to a non-error continuation.
func dominatedUnconditionally(fn *ssa.Function, blk *ssa.BasicBlock) bool {
	for _, ret := range returnsOf(fn) {
		if isErrorReturn(ret) {
			continue
		}
		if reachAvoiding(fn.Blocks[0], ret.Block(), blockSet{blk: true}) {
			return false
		}
	}
	return true
}

// azPolicyBreakIdiom: the policy loop written without a flag - the verdict variable keeps ErrNoMatchingPolicy
// while the loop runs and is assigned right before the loop is left on the first satisfied policy.
// Returns false when the function is not written in this idiom (nothing reported).
func (p *Prog) azPolicyBreakIdiom(r *Reporter, c *azCtx, pol *rangeLoop, isPolQuery func(*ssa.Call) bool) bool {
	name := p.FuncName(c.fn)
	// the return that follows the policy loop
	var ret *ssa.Return
	for _, rt := range returnsOf(c.fn) {
		if pol.body[rt.Block()] || isErrorReturnOnly(rt) {
			continue
		}
		if pol.doneBB == rt.Block() || pol.doneBB.Dominates(rt.Block()) || reachAvoiding(pol.header, rt.Block(), nil) {
			if _, isPhi := retVal(rt, 0).(*ssa.Phi); isPhi {
				ret = rt
			}
		}
	}
	if ret == nil {
		return false
	}
	v := retVal(ret, 0).(*ssa.Phi)
	allowK, denyK := p.policyKindConsts()
	kindGuard := func(gs []guard, want int64) bool {
		for _, g := range gs {
			bo, ok := g.cond.(*ssa.BinOp)
			if !ok || bo.Op != token.EQL || !g.val {
				continue
			}
			k, isC := constInt(bo.Y)
			if isC && k == want && (strings.HasSuffix(p.D(bo.X), ".Kind") || strings.Contains(p.D(bo.X), ".Kind)")) {
				return true
			}
		}
		return false
	}
	nAllow, nDeny, nNone := 0, 0, 0
	ok := true
	for _, lf := range phiLeaves(v) {
		gs := guardsOnEdge(lf.pred, lf.blk)
		pos := p.instrPos(lf.pred.Instrs[len(lf.pred.Instrs)-1])
		inLoop := pol.inside(lf.pred) && lf.pred != pol.header
		switch {
		case inLoop && isNilConst(lf.val):
			nAllow++
			r.Check(satGuard(p, gs, true, isPolQuery) && kindGuard(gs, allowK), pos, name, "verdict nil (allow)", "nil only when the loop is left on a satisfied query of an allow policy", "authorization success (nil) is produced without: an allow policy and one of its queries satisfied")
		case inLoop && isLoadOfGlobal(lf.val, "biscuit", "ErrPolicyDenied"):
			nDeny++
			r.Check(satGuard(p, gs, true, isPolQuery) && kindGuard(gs, denyK), pos, name, "verdict ErrPolicyDenied (deny)", "ErrPolicyDenied only when the loop is left on a satisfied query of a deny policy", "ErrPolicyDenied is produced on a path that is not 'first matching policy is a deny policy'")
		case isLoadOfGlobal(lf.val, "biscuit", "ErrNoMatchingPolicy"):
			nNone++
		default:
			ok = false
		}
	}
	if !ok || nAllow == 0 || nDeny == 0 || nNone == 0 {
		return false
	}
	// the verdict is never changed on a way back to the loop head (an assignment that does not leave the loop
	// would let a later policy override the first matching one)
	for _, ph := range phiChain(v) {
		if ph.Block() != pol.header {
			continue
		}
		for i, e := range ph.Edges {
			if pol.body[ph.Block().Preds[i]] && e != ssa.Value(ph) {
				if _, inner := e.(*ssa.Phi); !inner {
					r.Bad(p.instrPos(pol.header.Instrs[0]), name, "first match wins", "the verdict is assigned inside the policy loop on a path that goes on to the next policy: a later policy can override the first matching one")
					return true
				}
			}
		}
	}
	r.OK(p.instrPos(ret), name, "no matching policy", "ErrNoMatchingPolicy is what remains when the loop ends without leaving on a match")
	r.OK(p.instrPos(pol.header.Instrs[0]), name, "first match wins", "the loop is left as soon as a policy of kind allow or deny has a satisfied query")
	for _, cl := range callsIn(c.fn) {
		q, isQ := cl.(*ssa.Call)
		if !isQ || !isCallTo(&q.Call, "datalog.World.QueryRule") || !isPolQuery(q) {
			continue
		}
		inner := innermostLoop(c.loops, q.Block())
		okFull := inner != nil && inner != pol && strings.HasSuffix(p.D(inner.seq), ".Queries") && pol.isElemRoot(p, inner.seq)
		r.Check(okFull, p.instrPos(q), name, "policy queries range", "all queries of the policy are tried in a full-range loop", "the queries of a policy are not tried in a full-range loop over policy.Queries")
	}
	return true
}

func isErrorReturnOnly(rt *ssa.Return) bool { return false }
