package main

import (
	"go/token"
	"go/types"
	"sort"
	"strings"

	"golang.org/x/tools/go/ssa"
)

type blockSet map[*ssa.BasicBlock]bool

// reachAvoiding reports whether to is reachable from from without entering any
// block of avoid (from itself is allowed to be in avoid only if from==to is not required).
func reachAvoiding(from, to *ssa.BasicBlock, avoid blockSet) bool {
	if avoid[from] {
		return false
	}
	seen := blockSet{from: true}
	work := []*ssa.BasicBlock{from}
	for len(work) > 0 {
		b := work[len(work)-1]
		work = work[:len(work)-1]
		if b == to {
			return true
		}
		for _, s := range b.Succs {
			if !seen[s] && !avoid[s] {
				seen[s] = true
				work = append(work, s)
			}
		}
	}
	return false
}

type edge struct{ from, to *ssa.BasicBlock }

// reachAvoidingEdges: reachability from entry to target when the given edges are removed.
func reachAvoidingEdges(from, to *ssa.BasicBlock, cut map[edge]bool) bool {
	seen := blockSet{from: true}
	work := []*ssa.BasicBlock{from}
	for len(work) > 0 {
		b := work[len(work)-1]
		work = work[:len(work)-1]
		if b == to {
			return true
		}
		for _, s := range b.Succs {
			if cut[edge{b, s}] {
				continue
			}
			if !seen[s] {
				seen[s] = true
				work = append(work, s)
			}
		}
	}
	return false
}

// reachableFrom returns all blocks reachable from b (including b).
func reachableFrom(b *ssa.BasicBlock) blockSet {
	seen := blockSet{b: true}
	work := []*ssa.BasicBlock{b}
	for len(work) > 0 {
		x := work[len(work)-1]
		work = work[:len(work)-1]
		for _, s := range x.Succs {
			if !seen[s] {
				seen[s] = true
				work = append(work, s)
			}
		}
	}
	return seen
}

// condOf normalises the condition of an If: strips negations; returns the
// underlying value and the successor taken when that value is true / false.
func condOf(i *ssa.If) (v ssa.Value, onTrue, onFalse *ssa.BasicBlock) {
	v = i.Cond
	onTrue, onFalse = i.Block().Succs[0], i.Block().Succs[1]
	for {
		u, ok := v.(*ssa.UnOp)
		if !ok || u.Op != token.NOT {
			return
		}
		v = u.X
		onTrue, onFalse = onFalse, onTrue
	}
}

func blockIf(b *ssa.BasicBlock) *ssa.If {
	if len(b.Instrs) == 0 {
		return nil
	}
	i, _ := b.Instrs[len(b.Instrs)-1].(*ssa.If)
	return i
}

func blockReturn(b *ssa.BasicBlock) *ssa.Return {
	if len(b.Instrs) == 0 {
		return nil
	}
	r, _ := b.Instrs[len(b.Instrs)-1].(*ssa.Return)
	return r
}

// guard is a branch decision that holds on every path to some block.
type guard struct {
	cond ssa.Value // normalised (negations stripped)
	val  bool      // value of cond on the guarded side
	at   *ssa.If
}

// guardsOf returns the branch decisions that every path from the entry to blk
// has taken (edge dominance computed by edge removal, so join blocks and
// critical edges are handled).
func guardsOf(blk *ssa.BasicBlock) []guard {
	fn := blk.Parent()
	entry := fn.Blocks[0]
	var out []guard
	for _, b := range fn.Blocks {
		i := blockIf(b)
		if i == nil || !b.Dominates(blk) || b == blk {
			continue
		}
		v, t, f := condOf(i)
		if t == f {
			continue
		}
		// removing the true edge makes blk unreachable <=> every path to blk took "true".
		if !reachAvoidingEdges(entry, blk, map[edge]bool{{b, t}: true}) {
			out = append(out, guard{v, true, i})
		} else if !reachAvoidingEdges(entry, blk, map[edge]bool{{b, f}: true}) {
			out = append(out, guard{v, false, i})
		}
	}
	return out
}

// hasGuard: is blk guarded by cond==val (cond compared by identity after negation stripping)?
func hasGuard(blk *ssa.BasicBlock, cond ssa.Value, val bool) bool {
	for _, g := range guardsOf(blk) {
		if g.cond == cond && g.val == val {
			return true
		}
	}
	return false
}

// loop describes a natural loop.
type loop struct {
	header  *ssa.BasicBlock
	latches []*ssa.BasicBlock
	body    blockSet // includes header
}

func naturalLoops(fn *ssa.Function) []*loop {
	byHeader := map[*ssa.BasicBlock]*loop{}
	for _, b := range fn.Blocks {
		for _, s := range b.Succs {
			if s.Dominates(b) { // back edge b -> s
				l := byHeader[s]
				if l == nil {
					l = &loop{header: s, body: blockSet{s: true}}
					byHeader[s] = l
				}
				l.latches = append(l.latches, b)
				// body: nodes reaching b without passing header
				work := []*ssa.BasicBlock{b}
				for len(work) > 0 {
					x := work[len(work)-1]
					work = work[:len(work)-1]
					if l.body[x] {
						continue
					}
					l.body[x] = true
					for _, pr := range x.Preds {
						work = append(work, pr)
					}
				}
			}
		}
	}
	var out []*loop
	for _, l := range byHeader {
		out = append(out, l)
	}
	sort.Slice(out, func(i, j int) bool { return out[i].header.Index < out[j].header.Index })
	return out
}

// exits returns the edges leaving the loop.
func (l *loop) exits() []edge {
	var out []edge
	for b := range l.body {
		for _, s := range b.Succs {
			if !l.body[s] {
				out = append(out, edge{b, s})
			}
		}
	}
	sort.Slice(out, func(i, j int) bool {
		if out[i].from.Index != out[j].from.Index {
			return out[i].from.Index < out[j].from.Index
		}
		return out[i].to.Index < out[j].to.Index
	})
	return out
}

// rangeLoop is a `for i, x := range S` loop over a slice/array/string-free indexable S
// in go/ssa's rangeindex lowering: header has k=phi[-1, k+1]; incr=k+1; if incr<len(S).
type rangeLoop struct {
	*loop
	seq    ssa.Value // the ranged-over value (slice or *array)
	phi    *ssa.Phi
	incr   ssa.Value  // the index used in the body (k+1 of the range lowering; the counter of a counted loop)
	step   *ssa.BinOp // the increment instruction
	bodyBB *ssa.BasicBlock
	doneBB *ssa.BasicBlock
}

// rangeLoops finds the full-range indexed loops of fn.
func rangeLoops(fn *ssa.Function) []*rangeLoop {
	var out []*rangeLoop
	for _, l := range naturalLoops(fn) {
		h := l.header
		i := blockIf(h)
		if i == nil {
			continue
		}
		cmp, ok := i.Cond.(*ssa.BinOp)
		if !ok || cmp.Op != token.LSS {
			continue
		}
		incr, ok := cmp.X.(*ssa.BinOp)
		if !ok || incr.Op != token.ADD || incr.Block() != h {
			continue
		}
		phi, ok := incr.X.(*ssa.Phi)
		if !ok || phi.Block() != h {
			continue
		}
		if c, ok := constInt(incr.Y); !ok || c != 1 {
			continue
		}
		// phi edges: -1 from outside, incr from latches
		okPhi := true
		for j, e := range phi.Edges {
			pred := h.Preds[j]
			if l.body[pred] {
				if e != ssa.Value(incr) {
					okPhi = false
				}
			} else if c, ok := constInt(e); !ok || c != -1 {
				okPhi = false
			}
		}
		if !okPhi {
			continue
		}
		ln, ok := cmp.Y.(*ssa.Call)
		if !ok {
			continue
		}
		if b, ok := ln.Call.Value.(*ssa.Builtin); !ok || b.Name() != "len" {
			continue
		}
		if l.body[ln.Block()] {
			continue // len must be evaluated once, before the loop
		}
		out = append(out, &rangeLoop{loop: l, seq: ln.Call.Args[0], phi: phi, incr: incr, step: incr, bodyBB: h.Succs[0], doneBB: h.Succs[1]})
	}
	// counted loops `for i := 0; i < len(S); i++` visit the same full range
	for _, l := range naturalLoops(fn) {
		h := l.header
		i := blockIf(h)
		if i == nil {
			continue
		}
		cmp, ok := i.Cond.(*ssa.BinOp)
		if !ok || cmp.Op != token.LSS {
			continue
		}
		phi, ok := cmp.X.(*ssa.Phi)
		if !ok || phi.Block() != h {
			continue
		}
		ln, ok := cmp.Y.(*ssa.Call)
		if !ok {
			continue
		}
		if b, ok := ln.Call.Value.(*ssa.Builtin); !ok || b.Name() != "len" {
			continue
		}
		var step *ssa.BinOp
		okPhi := true
		for j, e := range phi.Edges {
			if l.body[h.Preds[j]] {
				inc, isInc := e.(*ssa.BinOp)
				if !isInc || inc.Op != token.ADD || inc.X != ssa.Value(phi) {
					okPhi = false
				} else if c, isC := constInt(inc.Y); !isC || c != 1 {
					okPhi = false
				} else {
					step = inc
				}
			} else if c, isC := constInt(e); !isC || c != 0 {
				okPhi = false
			}
		}
		if !okPhi || step == nil {
			continue
		}
		// the sequence must be the same value in every iteration: defined before the loop, or a plain load
		seq := ln.Call.Args[0]
		if in, isIn := seq.(ssa.Instruction); isIn && l.body[in.Block()] {
			if u, isU := seq.(*ssa.UnOp); !isU || u.Op != token.MUL {
				continue
			}
		}
		// the counter is only changed by its own increment
		out = append(out, &rangeLoop{loop: l, seq: seq, phi: phi, incr: phi, step: step, bodyBB: h.Succs[0], doneBB: h.Succs[1]})
	}
	return out
}

// elemOf reports whether v is (a load of) the element seq[incr] of range loop rl.
func (rl *rangeLoop) isElem(v ssa.Value) bool {
	v = unwrap(v)
	switch x := v.(type) {
	case *ssa.UnOp:
		if x.Op == token.MUL {
			if ia, ok := x.X.(*ssa.IndexAddr); ok {
				return ia.Index == ssa.Value(rl.incr) && sameSeq(ia.X, rl.seq)
			}
		}
	case *ssa.Index:
		return x.Index == ssa.Value(rl.incr) && sameSeq(x.X, rl.seq)
	}
	return false
}

func sameSeq(a, b ssa.Value) bool {
	if a == b {
		return true
	}
	// separate loads of the same variable / field (counted loops reload the sequence)
	if globalP != nil {
		da, db := globalP.D(a), globalP.D(b)
		return da == db && da != "" && !strings.Contains(da, "φ") && !strings.HasPrefix(da, "new#") && !strings.HasPrefix(da, "make#")
	}
	return false
}

// errorResultIndex returns the index of the last result of type error, or -1.
func errorResultIndex(fn *ssa.Function) int {
	res := fn.Signature.Results()
	for i := res.Len() - 1; i >= 0; i-- {
		if isErrorType(res.At(i).Type()) {
			return i
		}
	}
	return -1
}

func isErrorType(t types.Type) bool {
	return types.Identical(t, types.Universe.Lookup("error").Type())
}

// isErrorReturn: the return yields a definitely non-nil error (operand is not the nil
// constant and not a phi that may be nil) — conservative: any non-constant-nil
// operand that is a call result to errors.New/fmt.Errorf, a global error variable
// load, a MakeInterface of a concrete value, or a value proven non-nil by a guard.
func isErrorReturn(r *ssa.Return) bool {
	fn := r.Parent()
	ei := errorResultIndex(fn)
	if ei < 0 || ei >= len(r.Results) {
		return false
	}
	return definitelyNonNilError(retVal(r, ei), r.Block(), 0)
}

func definitelyNonNilError(v ssa.Value, at *ssa.BasicBlock, depth int) bool {
	if depth > 6 {
		return false
	}
	switch x := v.(type) {
	case *ssa.Const:
		return false
	case *ssa.MakeInterface:
		return true
	case *ssa.Call:
		if isCallTo(&x.Call, "errors.New", "fmt.Errorf") {
			return true
		}
	case *ssa.UnOp:
		if x.Op == token.MUL {
			if g, ok := x.X.(*ssa.Global); ok {
				// package-level error sentinel initialised with errors.New (checked by OWN-GLOBAL: never reassigned)
				_ = g
				return true
			}
		}
	case *ssa.Phi:
		for _, e := range x.Edges {
			if !definitelyNonNilError(e, at, depth+1) {
				return false
			}
		}
		return true
	}
	// guarded: v != nil holds at this block
	for _, g := range guardsOf(at) {
		if b, ok := g.cond.(*ssa.BinOp); ok {
			var other ssa.Value
			if b.X == v || (globalP != nil && sameValue(globalP, b.X, v)) {
				other = b.Y
			} else if b.Y == v || (globalP != nil && sameValue(globalP, b.Y, v)) {
				other = b.X
			} else {
				continue
			}
			if !isNilConst(other) {
				continue
			}
			if (b.Op == token.NEQ && g.val) || (b.Op == token.EQL && !g.val) {
				return true
			}
		}
	}
	return false
}

// onlyErrorReturnsFrom: every path starting at blk ends in a return with a non-nil
// error (and never reaches any block in forbid). Paths that panic are accepted.
func onlyErrorReturnsFrom(blk *ssa.BasicBlock) bool {
	for b := range reachableFrom(blk) {
		if r := blockReturn(b); r != nil {
			if !isErrorReturn(r) {
				return false
			}
		}
	}
	return true
}

// instrIndex returns the index of in within its block.
func instrIndex(in ssa.Instruction) int {
	for i, x := range in.Block().Instrs {
		if x == in {
			return i
		}
	}
	return -1
}

// instrDominates: a executes before b on every path reaching b.
func instrDominates(a, b ssa.Instruction) bool {
	if _, deferred := a.(*ssa.Defer); deferred {
		return false // a deferred call runs at function exit, after everything else
	}
	if _, spawned := a.(*ssa.Go); spawned {
		return false // a go statement gives no ordering
	}
	if a.Block() == b.Block() {
		return instrIndex(a) < instrIndex(b)
	}
	return a.Block().Dominates(b.Block())
}

// callsIn lists the call instructions (Call, Go, Defer) of fn in block order.
func callsIn(fn *ssa.Function) []ssa.CallInstruction {
	var out []ssa.CallInstruction
	for _, b := range fn.Blocks {
		for _, in := range b.Instrs {
			if c, ok := in.(ssa.CallInstruction); ok {
				out = append(out, c)
			}
		}
	}
	return out
}

// dependsOn: does v transitively (data-)depend on a value satisfying pred?
// Traverses operands of value-producing instructions, through phis and calls.
func dependsOn(v ssa.Value, pred func(ssa.Value) bool) bool {
	seen := map[ssa.Value]bool{}
	var rec func(v ssa.Value) bool
	rec = func(v ssa.Value) bool {
		if v == nil || seen[v] {
			return false
		}
		seen[v] = true
		if pred(v) {
			return true
		}
		in, ok := v.(ssa.Instruction)
		if !ok {
			return false
		}
		// a made slice: depends on what is stored into its elements
		if mk, ok := v.(*ssa.MakeSlice); ok {
			for _, ref := range *mk.Referrers() {
				if ia, ok := ref.(*ssa.IndexAddr); ok && ia.X == ssa.Value(mk) {
					for _, rr := range *ia.Referrers() {
						if st, ok := rr.(*ssa.Store); ok && st.Addr == ssa.Value(ia) && rec(st.Val) {
							return true
						}
					}
				}
			}
		}
		// a local used by address (array literal behind a slice, struct literal): depends on what is stored into it
		if a, ok := v.(*ssa.Alloc); ok {
			for _, st := range storesInto(a) {
				if rec(st.Val) {
					return true
				}
			}
			// elements written through a slice held in one of its fields: x.f[i] = v
			for _, ref := range *a.Referrers() {
				fa, ok := ref.(*ssa.FieldAddr)
				if !ok {
					continue
				}
				for _, r2 := range *fa.Referrers() {
					ld, ok := r2.(*ssa.UnOp)
					if !ok {
						continue
					}
					for _, r3 := range *ld.Referrers() {
						ia, ok := r3.(*ssa.IndexAddr)
						if !ok {
							continue
						}
						for _, r4 := range *ia.Referrers() {
							if st, ok := r4.(*ssa.Store); ok && st.Addr == ssa.Value(ia) && rec(st.Val) {
								return true
							}
						}
					}
				}
			}
		}
		// loads of locals (or of their fields/elements): depend on everything stored into the local
		if u, ok := v.(*ssa.UnOp); ok && u.Op == token.MUL {
			if a := rootAlloc(u.X); a != nil {
				for _, st := range storesInto(a) {
					if rec(st.Val) {
						return true
					}
				}
			}
		}
		for _, op := range in.Operands(nil) {
			if *op != nil && rec(*op) {
				return true
			}
		}
		return false
	}
	return rec(v)
}

// rootAlloc follows FieldAddr/IndexAddr chains from an address to the local it points into.
func rootAlloc(addr ssa.Value) *ssa.Alloc {
	for {
		switch x := addr.(type) {
		case *ssa.Alloc:
			return x
		case *ssa.FieldAddr:
			addr = x.X
		case *ssa.IndexAddr:
			addr = x.X
		default:
			return nil
		}
	}
}

// storesInto lists every store whose address lies inside local a.
func storesInto(a *ssa.Alloc) []*ssa.Store {
	var out []*ssa.Store
	seen := map[ssa.Value]bool{}
	var walk func(v ssa.Value)
	walk = func(v ssa.Value) {
		if seen[v] || v.Referrers() == nil {
			return
		}
		seen[v] = true
		for _, r := range *v.Referrers() {
			switch r := r.(type) {
			case *ssa.Store:
				if r.Addr == v {
					out = append(out, r)
				}
			case *ssa.FieldAddr:
				if r.X == v {
					walk(r)
				}
			case *ssa.IndexAddr:
				if r.X == v {
					walk(r)
				}
			}
		}
	}
	walk(a)
	return out
}

// retVal returns the value a return yields in result i, looking through the
// result spill go/ssa introduces in functions with defer (store to a local,
// rundefers, load, return).
func retVal(ret *ssa.Return, i int) ssa.Value {
	v := ret.Results[i]
	u, ok := v.(*ssa.UnOp)
	if !ok || u.Op != token.MUL {
		return v
	}
	a, ok := u.X.(*ssa.Alloc)
	if !ok {
		return v
	}
	blk := ret.Block()
	for j := instrIndex(u) - 1; j >= 0; j-- {
		if st, ok := blk.Instrs[j].(*ssa.Store); ok && st.Addr == ssa.Value(a) {
			return st.Val
		}
	}
	return v
}

// returnsOf lists the return instructions of fn (the synthetic recover block excluded).
func returnsOf(fn *ssa.Function) []*ssa.Return {
	var out []*ssa.Return
	for _, b := range fn.Blocks {
		if b == fn.Recover {
			continue
		}
		if r := blockReturn(b); r != nil && !deadBlock(b) {
			out = append(out, r)
		}
	}
	return out
}

// deadBlock: b is only entered through a branch whose condition is a comparison of two constants with the
// other outcome (`nil != nil` after a helper was inlined and its failure exits were threaded): it never runs.
func deadBlock(b *ssa.BasicBlock) bool {
	for _, g := range guardsOf(b) {
		bo, ok := g.cond.(*ssa.BinOp)
		if !ok || (bo.Op != token.EQL && bo.Op != token.NEQ) {
			continue
		}
		x, xok := bo.X.(*ssa.Const)
		y, yok := bo.Y.(*ssa.Const)
		if !xok || !yok {
			continue
		}
		var eq bool
		switch {
		case x.Value == nil && y.Value == nil:
			eq = true
		case x.Value == nil || y.Value == nil:
			continue
		default:
			eq = x.Value.ExactString() == y.Value.ExactString()
		}
		holds := eq == (bo.Op == token.EQL)
		if holds != g.val {
			return true
		}
	}
	return false
}

// guardsOnEdge: branch decisions that hold whenever control flows along from->to.
func guardsOnEdge(from, to *ssa.BasicBlock) []guard {
	gs := guardsOf(from)
	if i := blockIf(from); i != nil {
		v, t, f := condOf(i)
		if t != f {
			if to == t {
				gs = append(gs, guard{v, true, i})
			} else if to == f {
				gs = append(gs, guard{v, false, i})
			}
		}
	}
	return gs
}

// inside: b is lexically inside the loop body (including blocks that leave the loop, e.g. early returns).
func (rl *rangeLoop) inside(b *ssa.BasicBlock) bool {
	return rl.body[b] || rl.bodyBB.Dominates(b)
}
