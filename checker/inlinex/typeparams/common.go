// Copyright 2021 The Go Authors. All rights reserved.
// Use of this source code is governed by a BSD-style
// license that can be found in the LICENSE file.

// Package typeparams contains common utilities for writing tools that
// interact with generic Go code, as introduced with Go 1.18. It
// supplements the standard library APIs. Notably, the StructuralTerms
// API computes a minimal representation of the structural
// restrictions on a type parameter.
//
// An external version of these APIs is available in the
// golang.org/x/exp/typeparams module.
package typeparams

import (
	"go/ast"
	"go/token"
	"go/types"
)

// UnpackIndexExpr extracts data from AST nodes that represent index
// expressions.
//
// For an ast.IndexExpr, the resulting indices slice will contain exactly one
// index expression. For an ast.IndexListExpr (go1.18+), it may have a variable
// number of index expressions.
//
// For nodes that don't represent index expressions, the first return value of
// UnpackIndexExpr will be nil.
func UnpackIndexExpr(n ast.Node) (x ast.Expr, lbrack token.Pos, indices []ast.Expr, rbrack token.Pos) {
	switch e := n.(type) {
	case *ast.IndexExpr:
		return e.X, e.Lbrack, []ast.Expr{e.Index}, e.Rbrack
	case *ast.IndexListExpr:
		return e.X, e.Lbrack, e.Indices, e.Rbrack
	}
	return nil, token.NoPos, nil, token.NoPos
}

// PackIndexExpr returns an *ast.IndexExpr or *ast.IndexListExpr, depending on
// the cardinality of indices. Calling PackIndexExpr with len(indices) == 0
// will panic.
func PackIndexExpr(x ast.Expr, lbrack token.Pos, indices []ast.Expr, rbrack token.Pos) ast.Expr {
	switch len(indices) {
	case 0:
		panic("empty indices")
	case 1:
		return &ast.IndexExpr{
			X:      x,
			Lbrack: lbrack,
			Index:  indices[0],
			Rbrack: rbrack,
		}
	default:
		return &ast.IndexListExpr{
			X:       x,
			Lbrack:  lbrack,
			Indices: indices,
			Rbrack:  rbrack,
		}
	}
}

// IsTypeParam reports whether t is a type parameter (or an alias of one).
func IsTypeParam(t types.Type) bool {
	_, ok := types.Unalias(t).(*types.TypeParam)
	return ok
}
