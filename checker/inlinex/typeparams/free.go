// Copyright 2024 The Go Authors. All rights reserved.
// Use of this source code is governed by a BSD-style
// license that can be found in the LICENSE file.

package typeparams

import (
	"go/types"

	"verif/checker/inlinex/aliases"
)

// Free is a memoization of the set of free type parameters within a
// type. It makes a sequence of calls to [Free.Has] for overlapping
// types more efficient. The zero value is ready for use.
//
// NOTE: Adapted from go/types/infer.go. If it is later exported, factor.
type Free struct {
	seen map[types.Type]bool
}

// Has reports whether the specified type has a free type parameter.
func (w *Free) Has(typ types.Type) (res bool) {
	// detect cycles
	if x, ok := w.seen[typ]; ok {
		return x
	}
	if w.seen == nil {
		w.seen = make(map[types.Type]bool)
	}
	w.seen[typ] = false
	defer func() {
		w.seen[typ] = res
	}()

	switch t := typ.(type) {
	case nil, *types.Basic: // TODO(gri) should nil be handled here?
		break

	case *types.Alias:
		if aliases.TypeParams(t).Len() > aliases.TypeArgs(t).Len() {
			return true // This is an uninstantiated Alias.
		}
		// The expansion of an alias can have free type parameters,
		// whether or not the alias itself has type parameters:
		//
		//   func _[K comparable]() {
		//     type Set      = map[K]bool // free(Set)      = {K}
		//     type MapTo[V] = map[K]V    // free(Map[foo]) = {V}
		//   }
		//
		// So, we must Unalias.
		return w.Has(types.Unalias(t))

	case *types.Array:
		return w.Has(t.Elem())

	case *types.Slice:
		return w.Has(t.Elem())

	case *types.Struct:
		for i, n := 0, t.NumFields(); i < n; i++ {
			if w.Has(t.Field(i).Type()) {
				return true
			}
		}

	case *types.Pointer:
		return w.Has(t.Elem())

	case *types.Tuple:
		n := t.Len()
		for i := 0; i < n; i++ {
			if w.Has(t.At(i).Type()) {
				return true
			}
		}

	case *types.Signature:
		// t.tparams may not be nil if we are looking at a signature
		// of a generic function type (or an interface method) that is
		// part of the type we're testing. We don't care about these type
		// parameters.
		// Similarly, the receiver of a method may declare (rather than
		// use) type parameters, we don't care about those either.
		// Thus, we only need to look at the input and result parameters.
		return w.Has(t.Params()) || w.Has(t.Results())

	case *types.Interface:
		for i, n := 0, t.NumMethods(); i < n; i++ {
			if w.Has(t.Method(i).Type()) {
				return true
			}
		}
		terms, err := InterfaceTermSet(t)
		if err != nil {
			return false // ill typed
		}
		for _, term := range terms {
			if w.Has(term.Type()) {
				return true
			}
		}

	case *types.Map:
		return w.Has(t.Key()) || w.Has(t.Elem())

	case *types.Chan:
		return w.Has(t.Elem())

	case *types.Named:
		args := t.TypeArgs()
		if params := t.TypeParams(); params.Len() > args.Len() {
			return true // this is an uninstantiated named type.
		}
		for i, n := 0, args.Len(); i < n; i++ {
			if w.Has(args.At(i)) {
				return true
			}
		}
		return w.Has(t.Underlying()) // recurse for types local to parameterized functions

	case *types.TypeParam:
		return true

	default:
		panic(t) // unreachable
	}

	return false
}
