// Copyright 2022 The Go Authors. All rights reserved.
// Use of this source code is governed by a BSD-style
// license that can be found in the LICENSE file.

package typeparams

import (
	"fmt"
	"go/types"
)

// CoreType returns the core type of T or nil if T does not have a core type.
//
// See https://go.dev/ref/spec#Core_types for the definition of a core type.
func CoreType(T types.Type) types.Type {
	U := T.Underlying()
	if _, ok := U.(*types.Interface); !ok {
		return U // for non-interface types,
	}

	terms, err := NormalTerms(U)
	if len(terms) == 0 || err != nil {
		// len(terms) -> empty type set of interface.
		// err != nil => U is invalid, exceeds complexity bounds, or has an empty type set.
		return nil // no core type.
	}

	U = terms[0].Type().Underlying()
	var identical int // i in [0,identical) => Identical(U, terms[i].Type().Underlying())
	for identical = 1; identical < len(terms); identical++ {
		if !types.Identical(U, terms[identical].Type().Underlying()) {
			break
		}
	}

	if identical == len(terms) {
		// https://go.dev/ref/spec#Core_types
		// "There is a single type U which is the underlying type of all types in the type set of T"
		return U
	}
	ch, ok := U.(*types.Chan)
	if !ok {
		return nil // no core type as identical < len(terms) and U is not a channel.
	}
	// https://go.dev/ref/spec#Core_types
	// "the type chan E if T contains only bidirectional channels, or the type chan<- E or
	// <-chan E depending on the direction of the directional channels present."
	for chans := identical; chans < len(terms); chans++ {
		curr, ok := terms[chans].Type().Underlying().(*types.Chan)
		if !ok {
			return nil
		}
		if !types.Identical(ch.Elem(), curr.Elem()) {
			return nil // channel elements are not identical.
		}
		if ch.Dir() == types.SendRecv {
			// ch is bidirectional. We can safely always use curr's direction.
			ch = curr
		} else if curr.Dir() != types.SendRecv && ch.Dir() != curr.Dir() {
			// ch and curr are not bidirectional and not the same direction.
			return nil
		}
	}
	return ch
}

// NormalTerms returns a slice of terms representing the normalized structural
// type restrictions of a type, if any.
//
// For all types other than *types.TypeParam, *types.Interface, and
// *types.Union, this is just a single term with Tilde() == false and
// Type() == typ. For *types.TypeParam, *types.Interface, and *types.Union, see
// below.
//
// Structural type restrictions of a type parameter are created via
// non-interface types embedded in its constraint interface (directly, or via a
// chain of interface embeddings). For example, in the declaration type
// T[P interface{~int; m()}] int the structural restriction of the type
// parameter P is ~int.
//
// With interface embedding and unions, the specification of structural type
// restrictions may be arbitrarily complex. For example, consider the
// following:
//
//	type A interface{ ~string|~[]byte }
//
//	type B interface{ int|string }
//
//	type C interface { ~string|~int }
//
//	type T[P interface{ A|B; C }] int
//
// In this example, the structural type restriction of P is ~string|int: A|B
// expands to ~string|~[]byte|int|string, which reduces to ~string|~[]byte|int,
// which when intersected with C (~string|~int) yields ~string|int.
//
// NormalTerms computes these expansions and reductions, producing a
// "normalized" form of the embeddings. A structural restriction is normalized
// if it is a single union containing no interface terms, and is minimal in the
// sense that removing any term changes the set of types satisfying the
// constraint. It is left as a proof for the reader that, modulo sorting, there
// is exactly one such normalized form.
//
// Because the minimal representation always takes this form, NormalTerms
// returns a slice of tilde terms corresponding to the terms of the union in
// the normalized structural restriction. An error is returned if the type is
// invalid, exceeds complexity bounds, or has an empty type set. In the latter
// case, NormalTerms returns ErrEmptyTypeSet.
//
// NormalTerms makes no guarantees about the order of terms, except that it
// is deterministic.
func NormalTerms(typ types.Type) ([]*types.Term, error) {
	switch typ := typ.Underlying().(type) {
	case *types.TypeParam:
		return StructuralTerms(typ)
	case *types.Union:
		return UnionTermSet(typ)
	case *types.Interface:
		return InterfaceTermSet(typ)
	default:
		return []*types.Term{types.NewTerm(false, typ)}, nil
	}
}

// Deref returns the type of the variable pointed to by t,
// if t's core type is a pointer; otherwise it returns t.
//
// Do not assume that Deref(T)==T implies T is not a pointer:
// consider "type T *T", for example.
//
// TODO(adonovan): ideally this would live in typesinternal, but that
// creates an import cycle. Move there when we melt this package down.
func Deref(t types.Type) types.Type {
	if ptr, ok := CoreType(t).(*types.Pointer); ok {
		return ptr.Elem()
	}
	return t
}

// MustDeref returns the type of the variable pointed to by t.
// It panics if t's core type is not a pointer.
//
// TODO(adonovan): ideally this would live in typesinternal, but that
// creates an import cycle. Move there when we melt this package down.
func MustDeref(t types.Type) types.Type {
	if ptr, ok := CoreType(t).(*types.Pointer); ok {
		return ptr.Elem()
	}
	panic(fmt.Sprintf("%v is not a pointer", t))
}
