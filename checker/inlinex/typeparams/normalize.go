// Copyright 2021 The Go Authors. All rights reserved.
// Use of this source code is governed by a BSD-style
// license that can be found in the LICENSE file.

package typeparams

import (
	"errors"
	"fmt"
	"go/types"
	"os"
	"strings"
)

//go:generate go run copytermlist.go

const debug = false

var ErrEmptyTypeSet = errors.New("empty type set")

// StructuralTerms returns a slice of terms representing the normalized
// structural type restrictions of a type parameter, if any.
//
// Structural type restrictions of a type parameter are created via
// non-interface types embedded in its constraint interface (directly, or via a
// chain of interface embeddings). For example, in the declaration
//
//	type T[P interface{~int; m()}] int
//
// the structural restriction of the type parameter P is ~int.
//
// With interface embedding and unions, the specification of structural type
// restrictions may be arbitrarily complex. For example, consider the
// following:
//
//	type A interface{ ~string|~[]byte }
//
//	type B interface{ int|string }
//
//	type C interface { ~string|~int }
//
//	type T[P interface{ A|B; C }] int
//
// In this example, the structural type restriction of P is ~string|int: A|B
// expands to ~string|~[]byte|int|string, which reduces to ~string|~[]byte|int,
// which when intersected with C (~string|~int) yields ~string|int.
//
// StructuralTerms computes these expansions and reductions, producing a
// "normalized" form of the embeddings. A structural restriction is normalized
// if it is a single union containing no interface terms, and is minimal in the
// sense that removing any term changes the set of types satisfying the
// constraint. It is left as a proof for the reader that, modulo sorting, there
// is exactly one such normalized form.
//
// Because the minimal representation always takes this form, StructuralTerms
// returns a slice of tilde terms corresponding to the terms of the union in
// the normalized structural restriction. An error is returned if the
// constraint interface is invalid, exceeds complexity bounds, or has an empty
// type set. In the latter case, StructuralTerms returns ErrEmptyTypeSet.
//
// StructuralTerms makes no guarantees about the order of terms, except that it
// is deterministic.
func StructuralTerms(tparam *types.TypeParam) ([]*types.Term, error) {
	constraint := tparam.Constraint()
	if constraint == nil {
		return nil, fmt.Errorf("%s has nil constraint", tparam)
	}
	iface, _ := constraint.Underlying().(*types.Interface)
	if iface == nil {
		return nil, fmt.Errorf("constraint is %T, not *types.Interface", constraint.Underlying())
	}
	return InterfaceTermSet(iface)
}

// InterfaceTermSet computes the normalized terms for a constraint interface,
// returning an error if the term set cannot be computed or is empty. In the
// latter case, the error will be ErrEmptyTypeSet.
//
// See the documentation of StructuralTerms for more information on
// normalization.
func InterfaceTermSet(iface *types.Interface) ([]*types.Term, error) {
	return computeTermSet(iface)
}

// UnionTermSet computes the normalized terms for a union, returning an error
// if the term set cannot be computed or is empty. In the latter case, the
// error will be ErrEmptyTypeSet.
//
// See the documentation of StructuralTerms for more information on
// normalization.
func UnionTermSet(union *types.Union) ([]*types.Term, error) {
	return computeTermSet(union)
}

func computeTermSet(typ types.Type) ([]*types.Term, error) {
	tset, err := computeTermSetInternal(typ, make(map[types.Type]*termSet), 0)
	if err != nil {
		return nil, err
	}
	if tset.terms.isEmpty() {
		return nil, ErrEmptyTypeSet
	}
	if tset.terms.isAll() {
		return nil, nil
	}
	var terms []*types.Term
	for _, term := range tset.terms {
		terms = append(terms, types.NewTerm(term.tilde, term.typ))
	}
	return terms, nil
}

// A termSet holds the normalized set of terms for a given type.
//
// The name termSet is intentionally distinct from 'type set': a type set is
// all types that implement a type (and includes method restrictions), whereas
// a term set just represents the structural restrictions on a type.
type termSet struct {
	complete bool
	terms    termlist
}

func indentf(depth int, format string, args ...interface{}) {
	fmt.Fprintf(os.Stderr, strings.Repeat(".", depth)+format+"\n", args...)
}

func computeTermSetInternal(t types.Type, seen map[types.Type]*termSet, depth int) (res *termSet, err error) {
	if t == nil {
		panic("nil type")
	}

	if debug {
		indentf(depth, "%s", t.String())
		defer func() {
			if err != nil {
				indentf(depth, "=> %s", err)
			} else {
				indentf(depth, "=> %s", res.terms.String())
			}
		}()
	}

	const maxTermCount = 100
	if tset, ok := seen[t]; ok {
		if !tset.complete {
			return nil, fmt.Errorf("cycle detected in the declaration of %s", t)
		}
		return tset, nil
	}

	// Mark the current type as seen to avoid infinite recursion.
	tset := new(termSet)
	defer func() {
		tset.complete = true
	}()
	seen[t] = tset

	switch u := t.Underlying().(type) {
	case *types.Interface:
		// The term set of an interface is the intersection of the term sets of its
		// embedded types.
		tset.terms = allTermlist
		for i := 0; i < u.NumEmbeddeds(); i++ {
			embedded := u.EmbeddedType(i)
			if _, ok := embedded.Underlying().(*types.TypeParam); ok {
				return nil, fmt.Errorf("invalid embedded type %T", embedded)
			}
			tset2, err := computeTermSetInternal(embedded, seen, depth+1)
			if err != nil {
				return nil, err
			}
			tset.terms = tset.terms.intersect(tset2.terms)
		}
	case *types.Union:
		// The term set of a union is the union of term sets of its terms.
		tset.terms = nil
		for i := 0; i < u.Len(); i++ {
			t := u.Term(i)
			var terms termlist
			switch t.Type().Underlying().(type) {
			case *types.Interface:
				tset2, err := computeTermSetInternal(t.Type(), seen, depth+1)
				if err != nil {
					return nil, err
				}
				terms = tset2.terms
			case *types.TypeParam, *types.Union:
				// A stand-alone type parameter or union is not permitted as union
				// term.
				return nil, fmt.Errorf("invalid union term %T", t)
			default:
				if t.Type() == types.Typ[types.Invalid] {
					continue
				}
				terms = termlist{{t.Tilde(), t.Type()}}
			}
			tset.terms = tset.terms.union(terms)
			if len(tset.terms) > maxTermCount {
				return nil, fmt.Errorf("exceeded max term count %d", maxTermCount)
			}
		}
	case *types.TypeParam:
		panic("unreachable")
	default:
		// For all other types, the term set is just a single non-tilde term
		// holding the type itself.
		if u != types.Typ[types.Invalid] {
			tset.terms = termlist{{false, t}}
		}
	}
	return tset, nil
}

// under is a facade for the go/types internal function of the same name. It is
// used by typeterm.go.
func under(t types.Type) types.Type {
	return t.Underlying()
}
