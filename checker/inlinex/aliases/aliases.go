// Copyright 2024 The Go Authors. All rights reserved.
// Use of this source code is governed by a BSD-style
// license that can be found in the LICENSE file.

package aliases

import (
	"go/token"
	"go/types"
)

// Package aliases defines backward compatible shims
// for the types.Alias type representation added in 1.22.
// This defines placeholders for x/tools until 1.26.

// NewAlias creates a new TypeName in Package pkg that
// is an alias for the type rhs.
//
// The enabled parameter determines whether the resulting [TypeName]'s
// type is an [types.Alias]. Its value must be the result of a call to
// [Enabled], which computes the effective value of
// GODEBUG=gotypesalias=... by invoking the type checker. The Enabled
// function is expensive and should be called once per task (e.g.
// package import), not once per call to NewAlias.
//
// Precondition: enabled || len(tparams)==0.
// If materialized aliases are disabled, there must not be any type parameters.
func NewAlias(enabled bool, pos token.Pos, pkg *types.Package, name string, rhs types.Type, tparams []*types.TypeParam) *types.TypeName {
	if enabled {
		tname := types.NewTypeName(pos, pkg, name, nil)
		SetTypeParams(types.NewAlias(tname, rhs), tparams)
		return tname
	}
	if len(tparams) > 0 {
		panic("cannot create an alias with type parameters when gotypesalias is not enabled")
	}
	return types.NewTypeName(pos, pkg, name, rhs)
}
