// Copyright 2024 The Go Authors. All rights reserved.
// Use of this source code is governed by a BSD-style
// license that can be found in the LICENSE file.

package aliases

import (
	"go/ast"
	"go/parser"
	"go/token"
	"go/types"
)

// Rhs returns the type on the right-hand side of the alias declaration.
func Rhs(alias *types.Alias) types.Type {
	if alias, ok := any(alias).(interface{ Rhs() types.Type }); ok {
		return alias.Rhs() // go1.23+
	}

	// go1.22's Alias didn't have the Rhs method,
	// so Unalias is the best we can do.
	return types.Unalias(alias)
}

// TypeParams returns the type parameter list of the alias.
func TypeParams(alias *types.Alias) *types.TypeParamList {
	if alias, ok := any(alias).(interface{ TypeParams() *types.TypeParamList }); ok {
		return alias.TypeParams() // go1.23+
	}
	return nil
}

// SetTypeParams sets the type parameters of the alias type.
func SetTypeParams(alias *types.Alias, tparams []*types.TypeParam) {
	if alias, ok := any(alias).(interface {
		SetTypeParams(tparams []*types.TypeParam)
	}); ok {
		alias.SetTypeParams(tparams) // go1.23+
	} else if len(tparams) > 0 {
		panic("cannot set type parameters of an Alias type in go1.22")
	}
}

// TypeArgs returns the type arguments used to instantiate the Alias type.
func TypeArgs(alias *types.Alias) *types.TypeList {
	if alias, ok := any(alias).(interface{ TypeArgs() *types.TypeList }); ok {
		return alias.TypeArgs() // go1.23+
	}
	return nil // empty (go1.22)
}

// Origin returns the generic Alias type of which alias is an instance.
// If alias is not an instance of a generic alias, Origin returns alias.
func Origin(alias *types.Alias) *types.Alias {
	if alias, ok := any(alias).(interface{ Origin() *types.Alias }); ok {
		return alias.Origin() // go1.23+
	}
	return alias // not an instance of a generic alias (go1.22)
}

// Enabled reports whether [NewAlias] should create [types.Alias] types.
//
// This function is expensive! Call it sparingly.
func Enabled() bool {
	// The only reliable way to compute the answer is to invoke go/types.
	// We don't parse the GODEBUG environment variable, because
	// (a) it's tricky to do so in a manner that is consistent
	//     with the godebug package; in particular, a simple
	//     substring check is not good enough. The value is a
	//     rightmost-wins list of options. But more importantly:
	// (b) it is impossible to detect changes to the effective
	//     setting caused by os.Setenv("GODEBUG"), as happens in
	//     many tests. Therefore any attempt to cache the result
	//     is just incorrect.
	fset := token.NewFileSet()
	f, _ := parser.ParseFile(fset, "a.go", "package p; type A = int", parser.SkipObjectResolution)
	pkg, _ := new(types.Config).Check("p", fset, []*ast.File{f}, nil)
	_, enabled := pkg.Scope().Lookup("A").Type().(*types.Alias)
	return enabled
}
