// Copyright 2023 The Go Authors. All rights reserved.
// Use of this source code is governed by a BSD-style
// license that can be found in the LICENSE file.

package inlinex

// This file defines the analysis of callee effects.

import (
	"go/ast"
	"go/token"
	"go/types"
)

const (
	rinf = -1 //  R∞: arbitrary read from memory
	winf = -2 //  W∞: arbitrary write to memory (or unknown control)
)

// calleefx returns a list of parameter indices indicating the order
// in which parameters are first referenced during evaluation of the
// callee, relative both to each other and to other effects of the
// callee (if any), such as arbitrary reads (rinf) and arbitrary
// effects (winf), including unknown control flow. Each parameter
// that is referenced appears once in the list.
//
// For example, the effects list of this function:
//
//	func f(x, y, z int) int {
//	    return y + x + g() + z
//	}
//
// is [1 0 -2 2], indicating reads of y and x, followed by the unknown
// effects of the g() call. and finally the read of parameter z. This
// information is used during inlining to ascertain when it is safe
// for parameter references to be replaced by their corresponding
// argument expressions. Such substitutions are permitted only when
// they do not cause "write" operations (those with effects) to
// commute with "read" operations (those that have no effect but are
// not pure). Impure operations may be reordered with other impure
// operations, and pure operations may be reordered arbitrarily.
//
// The analysis ignores the effects of runtime panics, on the
// assumption that well-behaved programs shouldn't encounter them.
func calleefx(info *types.Info, body *ast.BlockStmt, paramInfos map[*types.Var]*paramInfo) []int {
	// This traversal analyzes the callee's statements (in syntax
	// form, though one could do better with SSA) to compute the
	// sequence of events of the following kinds:
	//
	// 1  read of a parameter variable.
	// 2. reads from other memory.
	// 3. writes to memory

	var effects []int // indices of parameters, or rinf/winf (-ve)
	seen := make(map[int]bool)
	effect := func(i int) {
		if !seen[i] {
			seen[i] = true
			effects = append(effects, i)
		}
	}

	// unknown is called for statements of unknown effects (or control).
	unknown := func() {
		effect(winf)

		// Ensure that all remaining parameters are "seen"
		// after we go into the unknown (unless they are
		// unreferenced by the function body). This lets us
		// not bother implementing the complete traversal into
		// control structures.
		//
		// TODO(adonovan): add them in a deterministic order.
		// (This is not a bug but determinism is good.)
		for _, pinfo := range paramInfos {
			if !pinfo.IsResult && len(pinfo.Refs) > 0 {
				effect(pinfo.Index)
			}
		}
	}

	var visitExpr func(n ast.Expr)
	var visitStmt func(n ast.Stmt) bool
	visitExpr = func(n ast.Expr) {
		switch n := n.(type) {
		case *ast.Ident:
			if v, ok := info.Uses[n].(*types.Var); ok && !v.IsField() {
				// Use of global?
				if v.Parent() == v.Pkg().Scope() {
					effect(rinf) // read global var
				}

				// Use of parameter?
				if pinfo, ok := paramInfos[v]; ok && !pinfo.IsResult {
					effect(pinfo.Index) // read parameter var
				}

				// Use of local variables is ok.
			}

		case *ast.BasicLit:
			// no effect

		case *ast.FuncLit:
			// A func literal has no read or write effect
			// until called, and (most) function calls are
			// considered to have arbitrary effects.
			// So, no effect.

		case *ast.CompositeLit:
			for _, elt := range n.Elts {
				visitExpr(elt) // note: visits KeyValueExpr
			}

		case *ast.ParenExpr:
			visitExpr(n.X)

		case *ast.SelectorExpr:
			if seln, ok := info.Selections[n]; ok {
				visitExpr(n.X)

				// See types.SelectionKind for background.
				switch seln.Kind() {
				case types.MethodExpr:
					// A method expression T.f acts like a
					// reference to a func decl,
					// so it doesn't read x until called.

				case types.MethodVal, types.FieldVal:
					// A field or method value selection x.f
					// reads x if the selection indirects a pointer.

					if indirectSelection(seln) {
						effect(rinf)
					}
				}
			} else {
				// qualified identifier: treat like unqualified
				visitExpr(n.Sel)
			}

		case *ast.IndexExpr:
			if tv := info.Types[n.Index]; tv.IsType() {
				// no effect (G[T] instantiation)
			} else {
				visitExpr(n.X)
				visitExpr(n.Index)
				switch tv.Type.Underlying().(type) {
				case *types.Slice, *types.Pointer: // []T, *[n]T (not string, [n]T)
					effect(rinf) // indirect read of slice/array element
				}
			}

		case *ast.IndexListExpr:
			// no effect (M[K,V] instantiation)

		case *ast.SliceExpr:
			visitExpr(n.X)
			visitExpr(n.Low)
			visitExpr(n.High)
			visitExpr(n.Max)

		case *ast.TypeAssertExpr:
			visitExpr(n.X)

		case *ast.CallExpr:
			if info.Types[n.Fun].IsType() {
				// conversion T(x)
				visitExpr(n.Args[0])
			} else {
				// call f(args)
				visitExpr(n.Fun)
				for i, arg := range n.Args {
					if i == 0 && info.Types[arg].IsType() {
						continue // new(T), make(T, n)
					}
					visitExpr(arg)
				}

				// The pure built-ins have no effects beyond
				// those of their operands (not even memory reads).
				// All other calls have unknown effects.
				if !callsPureBuiltin(info, n) {
					unknown() // arbitrary effects
				}
			}

		case *ast.StarExpr:
			visitExpr(n.X)
			effect(rinf) // *ptr load or store depends on state of heap

		case *ast.UnaryExpr: // + - ! ^ & ~ <-
			visitExpr(n.X)
			if n.Op == token.ARROW {
				unknown() // effect: channel receive
			}

		case *ast.BinaryExpr:
			visitExpr(n.X)
			visitExpr(n.Y)

		case *ast.KeyValueExpr:
			visitExpr(n.Key) // may be a struct field
			visitExpr(n.Value)

		case *ast.BadExpr:
			// no effect

		case nil:
			// optional subtree

		default:
			// type syntax: unreachable given traversal
			panic(n)
		}
	}

	// visitStmt's result indicates the continuation:
	// false for return, true for the next statement.
	//
	// We could treat return as an unknown, but this way
	// yields definite effects for simple sequences like
	// {S1; S2; return}, so unreferenced parameters are
	// not spuriously added to the effects list, and thus
	// not spuriously disqualified from elimination.
	visitStmt = func(n ast.Stmt) bool {
		switch n := n.(type) {
		case *ast.DeclStmt:
			decl := n.Decl.(*ast.GenDecl)
			for _, spec := range decl.Specs {
				switch spec := spec.(type) {
				case *ast.ValueSpec:
					for _, v := range spec.Values {
						visitExpr(v)
					}

				case *ast.TypeSpec:
					// no effect
				}
			}

		case *ast.LabeledStmt:
			return visitStmt(n.Stmt)

		case *ast.ExprStmt:
			visitExpr(n.X)

		case *ast.SendStmt:
			visitExpr(n.Chan)
			visitExpr(n.Value)
			unknown() // effect: channel send

		case *ast.IncDecStmt:
			visitExpr(n.X)
			unknown() // effect: variable increment

		case *ast.AssignStmt:
			for _, lhs := range n.Lhs {
				visitExpr(lhs)
			}
			for _, rhs := range n.Rhs {
				visitExpr(rhs)
			}
			for _, lhs := range n.Lhs {
				id, _ := lhs.(*ast.Ident)
				if id != nil && id.Name == "_" {
					continue // blank assign has no effect
				}
				if n.Tok == token.DEFINE && id != nil && info.Defs[id] != nil {
					continue // new var declared by := has no effect
				}
				unknown() // assignment to existing var
				break
			}

		case *ast.GoStmt:
			visitExpr(n.Call.Fun)
			for _, arg := range n.Call.Args {
				visitExpr(arg)
			}
			unknown() // effect: create goroutine

		case *ast.DeferStmt:
			visitExpr(n.Call.Fun)
			for _, arg := range n.Call.Args {
				visitExpr(arg)
			}
			unknown() // effect: push defer

		case *ast.ReturnStmt:
			for _, res := range n.Results {
				visitExpr(res)
			}
			return false

		case *ast.BlockStmt:
			for _, stmt := range n.List {
				if !visitStmt(stmt) {
					return false
				}
			}

		case *ast.BranchStmt:
			unknown() // control flow

		case *ast.IfStmt:
			visitStmt(n.Init)
			visitExpr(n.Cond)
			unknown() // control flow

		case *ast.SwitchStmt:
			visitStmt(n.Init)
			visitExpr(n.Tag)
			unknown() // control flow

		case *ast.TypeSwitchStmt:
			visitStmt(n.Init)
			visitStmt(n.Assign)
			unknown() // control flow

		case *ast.SelectStmt:
			unknown() // control flow

		case *ast.ForStmt:
			visitStmt(n.Init)
			visitExpr(n.Cond)
			unknown() // control flow

		case *ast.RangeStmt:
			visitExpr(n.X)
			unknown() // control flow

		case *ast.EmptyStmt, *ast.BadStmt:
			// no effect

		case nil:
			// optional subtree

		default:
			panic(n)
		}
		return true
	}
	visitStmt(body)

	return effects
}
