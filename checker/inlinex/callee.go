// Copyright 2023 The Go Authors. All rights reserved.
// Use of this source code is governed by a BSD-style
// license that can be found in the LICENSE file.

package inlinex

// This file defines the analysis of the callee function.

import (
	"bytes"
	"encoding/gob"
	"fmt"
	"go/ast"
	"go/parser"
	"go/token"
	"go/types"
	"strings"

	"golang.org/x/tools/go/types/typeutil"
	"verif/checker/inlinex/typeparams"
)

// A Callee holds information about an inlinable function. Gob-serializable.
type Callee struct {
	impl gobCallee
}

func (callee *Callee) String() string { return callee.impl.Name }

type gobCallee struct {
	Content []byte // file content, compacted to a single func decl

	// results of type analysis (does not reach go/types data structures)
	PkgPath          string                 // package path of declaring package
	Name             string                 // user-friendly name for error messages
	Unexported       []string               // names of free objects that are unexported
	FreeRefs         []freeRef              // locations of references to free objects
	FreeObjs         []object               // descriptions of free objects
	ValidForCallStmt bool                   // function body is "return expr" where expr is f() or <-ch
	NumResults       int                    // number of results (according to type, not ast.FieldList)
	Params           []*paramInfo           // information about parameters (incl. receiver)
	Results          []*paramInfo           // information about result variables
	Effects          []int                  // order in which parameters are evaluated (see calleefx)
	HasDefer         bool                   // uses defer
	HasBareReturn    bool                   // uses bare return in non-void function
	Returns          [][]returnOperandFlags // metadata about result expressions for each return
	Labels           []string               // names of all control labels
	Falcon           falconResult           // falcon constraint system
}

// returnOperandFlags records metadata about a single result expression in a return
// statement.
type returnOperandFlags int

const (
	nonTrivialResult returnOperandFlags = 1 << iota // return operand has non-trivial conversion to result type
	untypedNilResult                                // return operand is nil literal
)

// A freeRef records a reference to a free object. Gob-serializable.
// (This means free relative to the FuncDecl as a whole, i.e. excluding parameters.)
type freeRef struct {
	Offset int // byte offset of the reference relative to the FuncDecl
	Object int // index into Callee.freeObjs
}

// An object abstracts a free types.Object referenced by the callee. Gob-serializable.
type object struct {
	Name    string // Object.Name()
	Kind    string // one of {var,func,const,type,pkgname,nil,builtin}
	PkgPath string // path of object's package (or imported package if kind="pkgname")
	PkgName string // name of object's package (or imported package if kind="pkgname")
	// TODO(rfindley): should we also track LocalPkgName here? Do we want to
	// preserve the local package name?
	ValidPos bool      // Object.Pos().IsValid()
	Shadow   shadowMap // shadowing info for the object's refs
}

// AnalyzeCallee analyzes a function that is a candidate for inlining
// and returns a Callee that describes it. The Callee object, which is
// serializable, can be passed to one or more subsequent calls to
// Inline, each with a different Caller.
//
// This design allows separate analysis of callers and callees in the
// golang.org/x/tools/go/analysis framework: the inlining information
// about a callee can be recorded as a "fact".
//
// The content should be the actual input to the compiler, not the
// apparent source file according to any //line directives that
// may be present within it.
func AnalyzeCallee(logf func(string, ...any), fset *token.FileSet, pkg *types.Package, info *types.Info, decl *ast.FuncDecl, content []byte) (*Callee, error) {
	checkInfoFields(info)

	// The client is expected to have determined that the callee
	// is a function with a declaration (not a built-in or var).
	fn := info.Defs[decl.Name].(*types.Func)
	sig := fn.Type().(*types.Signature)

	logf("analyzeCallee %v @ %v", fn, fset.PositionFor(decl.Pos(), false))

	// Create user-friendly name ("pkg.Func" or "(pkg.T).Method")
	var name string
	if sig.Recv() == nil {
		name = fmt.Sprintf("%s.%s", fn.Pkg().Name(), fn.Name())
	} else {
		name = fmt.Sprintf("(%s).%s", types.TypeString(sig.Recv().Type(), (*types.Package).Name), fn.Name())
	}

	if decl.Body == nil {
		return nil, fmt.Errorf("cannot inline function %s as it has no body", name)
	}

	// TODO(adonovan): support inlining of instantiated generic
	// functions by replacing each occurrence of a type parameter
	// T by its instantiating type argument (e.g. int). We'll need
	// to wrap the instantiating type in parens when it's not an
	// ident or qualified ident to prevent "if x == struct{}"
	// parsing ambiguity, or "T(x)" where T = "*int" or "func()"
	// from misparsing.
	if funcHasTypeParams(decl) {
		return nil, fmt.Errorf("cannot inline generic function %s: type parameters are not yet supported", name)
	}

	// Record the location of all free references in the FuncDecl.
	// (Parameters are not free by this definition.)
	var (
		fieldObjs    = fieldObjs(sig)
		freeObjIndex = make(map[types.Object]int)
		freeObjs     []object
		freeRefs     []freeRef // free refs that may need renaming
		unexported   []string  // free refs to unexported objects, for later error checks
	)
	var f func(n ast.Node) bool
	visit := func(n ast.Node) { ast.Inspect(n, f) }
	var stack []ast.Node
	stack = append(stack, decl.Type) // for scope of function itself
	f = func(n ast.Node) bool {
		if n != nil {
			stack = append(stack, n) // push
		} else {
			stack = stack[:len(stack)-1] // pop
		}
		switch n := n.(type) {
		case *ast.SelectorExpr:
			// Check selections of free fields/methods.
			if sel, ok := info.Selections[n]; ok &&
				!within(sel.Obj().Pos(), decl) &&
				!n.Sel.IsExported() {
				sym := fmt.Sprintf("(%s).%s", info.TypeOf(n.X), n.Sel.Name)
				unexported = append(unexported, sym)
			}

			// Don't recur into SelectorExpr.Sel.
			visit(n.X)
			return false

		case *ast.CompositeLit:
			// Check for struct literals that refer to unexported fields,
			// whether keyed or unkeyed. (Logic assumes well-typedness.)
			litType := typeparams.Deref(info.TypeOf(n))
			if s, ok := typeparams.CoreType(litType).(*types.Struct); ok {
				if n.Type != nil {
					visit(n.Type)
				}
				for i, elt := range n.Elts {
					var field *types.Var
					var value ast.Expr
					if kv, ok := elt.(*ast.KeyValueExpr); ok {
						field = info.Uses[kv.Key.(*ast.Ident)].(*types.Var)
						value = kv.Value
					} else {
						field = s.Field(i)
						value = elt
					}
					if !within(field.Pos(), decl) && !field.Exported() {
						sym := fmt.Sprintf("(%s).%s", litType, field.Name())
						unexported = append(unexported, sym)
					}

					// Don't recur into KeyValueExpr.Key.
					visit(value)
				}
				return false
			}

		case *ast.Ident:
			if obj, ok := info.Uses[n]; ok {
				// Methods and fields are handled by SelectorExpr and CompositeLit.
				if isField(obj) || isMethod(obj) {
					panic(obj)
				}
				// Inv: id is a lexical reference.

				// A reference to an unexported package-level declaration
				// cannot be inlined into another package.
				if !n.IsExported() &&
					obj.Pkg() != nil && obj.Parent() == obj.Pkg().Scope() {
					unexported = append(unexported, n.Name)
				}

				// Record free reference (incl. self-reference).
				if obj == fn || !within(obj.Pos(), decl) {
					objidx, ok := freeObjIndex[obj]
					if !ok {
						objidx = len(freeObjIndex)
						var pkgPath, pkgName string
						if pn, ok := obj.(*types.PkgName); ok {
							pkgPath = pn.Imported().Path()
							pkgName = pn.Imported().Name()
						} else if obj.Pkg() != nil {
							pkgPath = obj.Pkg().Path()
							pkgName = obj.Pkg().Name()
						}
						freeObjs = append(freeObjs, object{
							Name:     obj.Name(),
							Kind:     objectKind(obj),
							PkgName:  pkgName,
							PkgPath:  pkgPath,
							ValidPos: obj.Pos().IsValid(),
						})
						freeObjIndex[obj] = objidx
					}

					freeObjs[objidx].Shadow = freeObjs[objidx].Shadow.add(info, fieldObjs, obj.Name(), stack)

					freeRefs = append(freeRefs, freeRef{
						Offset: int(n.Pos() - decl.Pos()),
						Object: objidx,
					})
				}
			}
		}
		return true
	}
	visit(decl)

	// Analyze callee body for "return expr" form,
	// where expr is f() or <-ch. These forms are
	// safe to inline as a standalone statement.
	validForCallStmt := false
	if len(decl.Body.List) != 1 {
		// not just a return statement
	} else if ret, ok := decl.Body.List[0].(*ast.ReturnStmt); ok && len(ret.Results) == 1 {
		validForCallStmt = func() bool {
			switch expr := ast.Unparen(ret.Results[0]).(type) {
			case *ast.CallExpr: // f(x)
				callee := typeutil.Callee(info, expr)
				if callee == nil {
					return false // conversion T(x)
				}

				// The only non-void built-in functions that may be
				// called as a statement are copy and recover
				// (though arguably a call to recover should never
				// be inlined as that changes its behavior).
				if builtin, ok := callee.(*types.Builtin); ok {
					return builtin.Name() == "copy" ||
						builtin.Name() == "recover"
				}

				return true // ordinary call f()

			case *ast.UnaryExpr: // <-x
				return expr.Op == token.ARROW // channel receive <-ch
			}

			// No other expressions are valid statements.
			return false
		}()
	}

	// Record information about control flow in the callee
	// (but not any nested functions).
	var (
		hasDefer      = false
		hasBareReturn = false
		returnInfo    [][]returnOperandFlags
		labels        []string
	)
	ast.Inspect(decl.Body, func(n ast.Node) bool {
		switch n := n.(type) {
		case *ast.FuncLit:
			return false // prune traversal
		case *ast.DeferStmt:
			hasDefer = true
		case *ast.LabeledStmt:
			labels = append(labels, n.Label.Name)
		case *ast.ReturnStmt:

			// Are implicit assignment conversions
			// to result variables all trivial?
			var resultInfo []returnOperandFlags
			if len(n.Results) > 0 {
				argInfo := func(i int) (ast.Expr, types.Type) {
					expr := n.Results[i]
					return expr, info.TypeOf(expr)
				}
				if len(n.Results) == 1 && sig.Results().Len() > 1 {
					// Spread return: return f() where f.Results > 1.
					tuple := info.TypeOf(n.Results[0]).(*types.Tuple)
					argInfo = func(i int) (ast.Expr, types.Type) {
						return nil, tuple.At(i).Type()
					}
				}
				for i := 0; i < sig.Results().Len(); i++ {
					expr, typ := argInfo(i)
					var flags returnOperandFlags
					if typ == types.Typ[types.UntypedNil] { // untyped nil is preserved by go/types
						flags |= untypedNilResult
					}
					if !trivialConversion(info.Types[expr].Value, typ, sig.Results().At(i).Type()) {
						flags |= nonTrivialResult
					}
					resultInfo = append(resultInfo, flags)
				}
			} else if sig.Results().Len() > 0 {
				hasBareReturn = true
			}
			returnInfo = append(returnInfo, resultInfo)
		}
		return true
	})

	// Reject attempts to inline cgo-generated functions.
	for _, obj := range freeObjs {
		// There are others (iconst fconst sconst fpvar macro)
		// but this is probably sufficient.
		if strings.HasPrefix(obj.Name, "_Cfunc_") ||
			strings.HasPrefix(obj.Name, "_Ctype_") ||
			strings.HasPrefix(obj.Name, "_Cvar_") {
			return nil, fmt.Errorf("cannot inline cgo-generated functions")
		}
	}

	// Compact content to just the FuncDecl.
	//
	// As a space optimization, we don't retain the complete
	// callee file content; all we need is "package _; func f() { ... }".
	// This reduces the size of analysis facts.
	//
	// Offsets in the callee information are "relocatable"
	// since they are all relative to the FuncDecl.

	content = append([]byte("package _\n"),
		content[offsetOf(fset, decl.Pos()):offsetOf(fset, decl.End())]...)
	// Sanity check: re-parse the compacted content.
	if _, _, err := parseCompact(content); err != nil {
		return nil, err
	}

	params, results, effects, falcon := analyzeParams(logf, fset, info, decl)
	return &Callee{gobCallee{
		Content:          content,
		PkgPath:          pkg.Path(),
		Name:             name,
		Unexported:       unexported,
		FreeObjs:         freeObjs,
		FreeRefs:         freeRefs,
		ValidForCallStmt: validForCallStmt,
		NumResults:       sig.Results().Len(),
		Params:           params,
		Results:          results,
		Effects:          effects,
		HasDefer:         hasDefer,
		HasBareReturn:    hasBareReturn,
		Returns:          returnInfo,
		Labels:           labels,
		Falcon:           falcon,
	}}, nil
}

// parseCompact parses a Go source file of the form "package _\n func f() { ... }"
// and returns the sole function declaration.
func parseCompact(content []byte) (*token.FileSet, *ast.FuncDecl, error) {
	fset := token.NewFileSet()
	const mode = parser.ParseComments | parser.SkipObjectResolution | parser.AllErrors
	f, err := parser.ParseFile(fset, "callee.go", content, mode)
	if err != nil {
		return nil, nil, fmt.Errorf("internal error: cannot compact file: %v", err)
	}
	return fset, f.Decls[0].(*ast.FuncDecl), nil
}

// A paramInfo records information about a callee receiver, parameter, or result variable.
type paramInfo struct {
	Name        string    // parameter name (may be blank, or even "")
	Index       int       // index within signature
	IsResult    bool      // false for receiver or parameter, true for result variable
	IsInterface bool      // parameter has a (non-type parameter) interface type
	Assigned    bool      // parameter appears on left side of an assignment statement
	Escapes     bool      // parameter has its address taken
	Refs        []refInfo // information about references to parameter within body
	Shadow      shadowMap // shadowing info for the above refs; see [shadowMap]
	FalconType  string    // name of this parameter's type (if basic) in the falcon system
}

type refInfo struct {
	Offset           int  // FuncDecl-relative byte offset of parameter ref within body
	Assignable       bool // ref appears in context of assignment to known type
	IfaceAssignment  bool // ref is being assigned to an interface
	AffectsInference bool // ref type may affect type inference
	// IsSelectionOperand indicates whether the parameter reference is the
	// operand of a selection (param.f). If so, and param's argument is itself
	// a receiver parameter (a common case), we don't need to desugar (&v or *ptr)
	// the selection: if param.Method is a valid selection, then so is param.fieldOrMethod.
	IsSelectionOperand bool
}

// analyzeParams computes information about parameters of function fn,
// including a simple "address taken" escape analysis.
//
// It returns two new arrays, one of the receiver and parameters, and
// the other of the result variables of function fn.
//
// The input must be well-typed.
func analyzeParams(logf func(string, ...any), fset *token.FileSet, info *types.Info, decl *ast.FuncDecl) (params, results []*paramInfo, effects []int, _ falconResult) {
	fnobj, ok := info.Defs[decl.Name]
	if !ok {
		panic(fmt.Sprintf("%s: no func object for %q",
			fset.PositionFor(decl.Name.Pos(), false), decl.Name)) // ill-typed?
	}
	sig := fnobj.Type().(*types.Signature)

	paramInfos := make(map[*types.Var]*paramInfo)
	{
		newParamInfo := func(param *types.Var, isResult bool) *paramInfo {
			info := &paramInfo{
				Name:        param.Name(),
				IsResult:    isResult,
				Index:       len(paramInfos),
				IsInterface: isNonTypeParamInterface(param.Type()),
			}
			paramInfos[param] = info
			return info
		}
		if sig.Recv() != nil {
			params = append(params, newParamInfo(sig.Recv(), false))
		}
		for i := 0; i < sig.Params().Len(); i++ {
			params = append(params, newParamInfo(sig.Params().At(i), false))
		}
		for i := 0; i < sig.Results().Len(); i++ {
			results = append(results, newParamInfo(sig.Results().At(i), true))
		}
	}

	// Search function body for operations &x, x.f(), and x = y
	// where x is a parameter, and record it.
	escape(info, decl, func(v *types.Var, escapes bool) {
		if info := paramInfos[v]; info != nil {
			if escapes {
				info.Escapes = true
			} else {
				info.Assigned = true
			}
		}
	})

	// Record locations of all references to parameters.
	// And record the set of intervening definitions for each parameter.
	//
	// TODO(adonovan): combine this traversal with the one that computes
	// FreeRefs. The tricky part is that calleefx needs this one first.
	fieldObjs := fieldObjs(sig)
	var stack []ast.Node
	stack = append(stack, decl.Type) // for scope of function itself
	ast.Inspect(decl.Body, func(n ast.Node) bool {
		if n != nil {
			stack = append(stack, n) // push
		} else {
			stack = stack[:len(stack)-1] // pop
		}

		if id, ok := n.(*ast.Ident); ok {
			if v, ok := info.Uses[id].(*types.Var); ok {
				if pinfo, ok := paramInfos[v]; ok {
					// Record ref information, and any intervening (shadowing) names.
					//
					// If the parameter v has an interface type, and the reference id
					// appears in a context where assignability rules apply, there may be
					// an implicit interface-to-interface widening. In that case it is
					// not necessary to insert an explicit conversion from the argument
					// to the parameter's type.
					//
					// Contrapositively, if param is not an interface type, then the
					// assignment may lose type information, for example in the case that
					// the substituted expression is an untyped constant or unnamed type.
					assignable, ifaceAssign, affectsInference := analyzeAssignment(info, stack)
					ref := refInfo{
						Offset:             int(n.Pos() - decl.Pos()),
						Assignable:         assignable,
						IfaceAssignment:    ifaceAssign,
						AffectsInference:   affectsInference,
						IsSelectionOperand: isSelectionOperand(stack),
					}
					pinfo.Refs = append(pinfo.Refs, ref)
					pinfo.Shadow = pinfo.Shadow.add(info, fieldObjs, pinfo.Name, stack)
				}
			}
		}
		return true
	})

	// Compute subset and order of parameters that are strictly evaluated.
	// (Depends on Refs computed above.)
	effects = calleefx(info, decl.Body, paramInfos)
	logf("effects list = %v", effects)

	falcon := falcon(logf, fset, paramInfos, info, decl)

	return params, results, effects, falcon
}

// -- callee helpers --

// analyzeAssignment looks at the the given stack, and analyzes certain
// attributes of the innermost expression.
//
// In all cases we 'fail closed' when we cannot detect (or for simplicity
// choose not to detect) the condition in question, meaning we err on the side
// of the more restrictive rule. This is noted for each result below.
//
//   - assignable reports whether the expression is used in a position where
//     assignability rules apply, such as in an actual assignment, as call
//     argument, or in a send to a channel. Defaults to 'false'. If assignable
//     is false, the other two results are irrelevant.
//   - ifaceAssign reports whether that assignment is to an interface type.
//     This is important as we want to preserve the concrete type in that
//     assignment. Defaults to 'true'. Notably, if the assigned type is a type
//     parameter, we assume that it could have interface type.
//   - affectsInference is (somewhat vaguely) defined as whether or not the
//     type of the operand may affect the type of the surrounding syntax,
//     through type inference. It is infeasible to completely reverse engineer
//     type inference, so we over approximate: if the expression is an argument
//     to a call to a generic function (but not method!) that uses type
//     parameters, assume that unification of that argument may affect the
//     inferred types.
func analyzeAssignment(info *types.Info, stack []ast.Node) (assignable, ifaceAssign, affectsInference bool) {
	remaining, parent, expr := exprContext(stack)
	if parent == nil {
		return false, false, false
	}

	// TODO(golang/go#70638): simplify when types.Info records implicit conversions.

	// Types do not need to match for assignment to a variable.
	if assign, ok := parent.(*ast.AssignStmt); ok {
		for i, v := range assign.Rhs {
			if v == expr {
				if i >= len(assign.Lhs) {
					return false, false, false // ill typed
				}
				// Check to see if the assignment is to an interface type.
				if i < len(assign.Lhs) {
					// TODO: We could handle spread calls here, but in current usage expr
					// is an ident.
					if id, _ := assign.Lhs[i].(*ast.Ident); id != nil && info.Defs[id] != nil {
						// Types must match for a defining identifier in a short variable
						// declaration.
						return false, false, false
					}
					// In all other cases, types should be known.
					typ := info.TypeOf(assign.Lhs[i])
					return true, typ == nil || types.IsInterface(typ), false
				}
				// Default:
				return assign.Tok == token.ASSIGN, true, false
			}
		}
	}

	// Types do not need to match for an initializer with known type.
	if spec, ok := parent.(*ast.ValueSpec); ok && spec.Type != nil {
		for _, v := range spec.Values {
			if v == expr {
				typ := info.TypeOf(spec.Type)
				return true, typ == nil || types.IsInterface(typ), false
			}
		}
	}

	// Types do not need to match for index expresions.
	if ix, ok := parent.(*ast.IndexExpr); ok {
		if ix.Index == expr {
			typ := info.TypeOf(ix.X)
			if typ == nil {
				return true, true, false
			}
			m, _ := typeparams.CoreType(typ).(*types.Map)
			return true, m == nil || types.IsInterface(m.Key()), false
		}
	}

	// Types do not need to match for composite literal keys, values, or
	// fields.
	if kv, ok := parent.(*ast.KeyValueExpr); ok {
		var under types.Type
		if len(remaining) > 0 {
			if complit, ok := remaining[len(remaining)-1].(*ast.CompositeLit); ok {
				if typ := info.TypeOf(complit); typ != nil {
					// Unpointer to allow for pointers to slices or arrays, which are
					// permitted as the types of nested composite literals without a type
					// name.
					under = unpointer(typeparams.CoreType(typ))
				}
			}
		}
		if kv.Key == expr { // M{expr: ...}: assign to map key
			m, _ := under.(*types.Map)
			return true, m == nil || types.IsInterface(m.Key()), false
		}
		if kv.Value == expr {
			switch under := under.(type) {
			case interface{ Elem() types.Type }: // T{...: expr}: assign to map/array/slice element
				return true, types.IsInterface(under.Elem()), false
			case *types.Struct: // Struct{k: expr}
				if id, _ := kv.Key.(*ast.Ident); id != nil {
					for fi := 0; fi < under.NumFields(); fi++ {
						field := under.Field(fi)
						if info.Uses[id] == field {
							return true, types.IsInterface(field.Type()), false
						}
					}
				}
			default:
				return true, true, false
			}
		}
	}
	if lit, ok := parent.(*ast.CompositeLit); ok {
		for i, v := range lit.Elts {
			if v == expr {
				typ := info.TypeOf(lit)
				if typ == nil {
					return true, true, false
				}
				// As in the KeyValueExpr case above, unpointer to handle pointers to
				// array/slice literals.
				under := unpointer(typeparams.CoreType(typ))
				switch under := under.(type) {
				case interface{ Elem() types.Type }: // T{expr}: assign to map/array/slice element
					return true, types.IsInterface(under.Elem()), false
				case *types.Struct: // Struct{expr}: assign to unkeyed struct field
					if i < under.NumFields() {
						return true, types.IsInterface(under.Field(i).Type()), false
					}
				}
				return true, true, false
			}
		}
	}

	// Types do not need to match for values sent to a channel.
	if send, ok := parent.(*ast.SendStmt); ok {
		if send.Value == expr {
			typ := info.TypeOf(send.Chan)
			if typ == nil {
				return true, true, false
			}
			ch, _ := typeparams.CoreType(typ).(*types.Chan)
			return true, ch == nil || types.IsInterface(ch.Elem()), false
		}
	}

	// Types do not need to match for an argument to a call, unless the
	// corresponding parameter has type parameters, as in that case the
	// argument type may affect inference.
	if call, ok := parent.(*ast.CallExpr); ok {
		if _, ok := isConversion(info, call); ok {
			return false, false, false // redundant conversions are handled at the call site
		}
		// Ordinary call. Could be a call of a func, builtin, or function value.
		for i, arg := range call.Args {
			if arg == expr {
				typ := info.TypeOf(call.Fun)
				if typ == nil {
					return true, true, false
				}
				sig, _ := typeparams.CoreType(typ).(*types.Signature)
				if sig != nil {
					// Find the relevant parameter type, accounting for variadics.
					paramType := paramTypeAtIndex(sig, call, i)
					ifaceAssign := paramType == nil || types.IsInterface(paramType)
					affectsInference := false
					if fn := typeutil.StaticCallee(info, call); fn != nil {
						if sig2 := fn.Type().(*types.Signature); sig2.Recv() == nil {
							originParamType := paramTypeAtIndex(sig2, call, i)
							affectsInference = originParamType == nil || new(typeparams.Free).Has(originParamType)
						}
					}
					return true, ifaceAssign, affectsInference
				}
			}
		}
	}

	return false, false, false
}

// paramTypeAtIndex returns the effective parameter type at the given argument
// index in call, if valid.
func paramTypeAtIndex(sig *types.Signature, call *ast.CallExpr, index int) types.Type {
	if plen := sig.Params().Len(); sig.Variadic() && index >= plen-1 && !call.Ellipsis.IsValid() {
		if s, ok := sig.Params().At(plen - 1).Type().(*types.Slice); ok {
			return s.Elem()
		}
	} else if index < plen {
		return sig.Params().At(index).Type()
	}
	return nil // ill typed
}

// exprContext returns the innermost parent->child expression nodes for the
// given outer-to-inner stack, after stripping parentheses, along with the
// remaining stack up to the parent node.
//
// If no such context exists, returns (nil, nil).
func exprContext(stack []ast.Node) (remaining []ast.Node, parent ast.Node, expr ast.Expr) {
	expr, _ = stack[len(stack)-1].(ast.Expr)
	if expr == nil {
		return nil, nil, nil
	}
	i := len(stack) - 2
	for ; i >= 0; i-- {
		if pexpr, ok := stack[i].(*ast.ParenExpr); ok {
			expr = pexpr
		} else {
			parent = stack[i]
			break
		}
	}
	if parent == nil {
		return nil, nil, nil
	}
	// inv: i is the index of parent in the stack.
	return stack[:i], parent, expr
}

// isSelectionOperand reports whether the innermost node of stack is operand
// (x) of a selection x.f.
func isSelectionOperand(stack []ast.Node) bool {
	_, parent, expr := exprContext(stack)
	if parent == nil {
		return false
	}
	sel, ok := parent.(*ast.SelectorExpr)
	return ok && sel.X == expr
}

// A shadowMap records information about shadowing at any of the parameter's
// references within the callee decl.
//
// For each name shadowed at a reference to the parameter within the callee
// body, shadow map records the 1-based index of the callee decl parameter
// causing the shadowing, or -1, if the shadowing is not due to a callee decl.
// A value of zero (or missing) indicates no shadowing. By convention,
// self-shadowing is excluded from the map.
//
// For example, in the following callee
//
//	func f(a, b int) int {
//		c := 2 + b
//		return a + c
//	}
//
// the shadow map of a is {b: 2, c: -1}, because b is shadowed by the 2nd
// parameter. The shadow map of b is {a: 1}, because c is not shadowed at the
// use of b.
type shadowMap map[string]int

// add returns the [shadowMap] augmented by the set of names
// locally shadowed at the location of the reference in the callee
// (identified by the stack). The name of the reference itself is
// excluded.
//
// These shadowed names may not be used in a replacement expression
// for the reference.
func (s shadowMap) add(info *types.Info, paramIndexes map[types.Object]int, exclude string, stack []ast.Node) shadowMap {
	for _, n := range stack {
		if scope := scopeFor(info, n); scope != nil {
			for _, name := range scope.Names() {
				if name != exclude {
					if s == nil {
						s = make(shadowMap)
					}
					obj := scope.Lookup(name)
					if idx, ok := paramIndexes[obj]; ok {
						s[name] = idx + 1
					} else {
						s[name] = -1
					}
				}
			}
		}
	}
	return s
}

// fieldObjs returns a map of each types.Object defined by the given signature
// to its index in the parameter list. Parameters with missing or blank name
// are skipped.
func fieldObjs(sig *types.Signature) map[types.Object]int {
	m := make(map[types.Object]int)
	for i := range sig.Params().Len() {
		if p := sig.Params().At(i); p.Name() != "" && p.Name() != "_" {
			m[p] = i
		}
	}
	return m
}

func isField(obj types.Object) bool {
	if v, ok := obj.(*types.Var); ok && v.IsField() {
		return true
	}
	return false
}

func isMethod(obj types.Object) bool {
	if f, ok := obj.(*types.Func); ok && f.Type().(*types.Signature).Recv() != nil {
		return true
	}
	return false
}

// -- serialization --

var (
	_ gob.GobEncoder = (*Callee)(nil)
	_ gob.GobDecoder = (*Callee)(nil)
)

func (callee *Callee) GobEncode() ([]byte, error) {
	var out bytes.Buffer
	if err := gob.NewEncoder(&out).Encode(callee.impl); err != nil {
		return nil, err
	}
	return out.Bytes(), nil
}

func (callee *Callee) GobDecode(data []byte) error {
	return gob.NewDecoder(bytes.NewReader(data)).Decode(&callee.impl)
}

// unpointer returns T given *T or an alias thereof (copy of typesinternal.Unpointer).
func unpointer(t types.Type) types.Type {
	if ptr, ok := types.Unalias(t).(*types.Pointer); ok {
		return ptr.Elem()
	}
	return t
}
