// Copyright 2023 The Go Authors. All rights reserved.
// Use of this source code is governed by a BSD-style
// license that can be found in the LICENSE file.

package astutil

import (
	"go/ast"
	"reflect"
)

// CloneNode returns a deep copy of a Node.
// It omits pointers to ast.{Scope,Object} variables.
func CloneNode[T ast.Node](n T) T {
	return cloneNode(n).(T)
}

func cloneNode(n ast.Node) ast.Node {
	var clone func(x reflect.Value) reflect.Value
	set := func(dst, src reflect.Value) {
		src = clone(src)
		if src.IsValid() {
			dst.Set(src)
		}
	}
	clone = func(x reflect.Value) reflect.Value {
		switch x.Kind() {
		case reflect.Ptr:
			if x.IsNil() {
				return x
			}
			// Skip fields of types potentially involved in cycles.
			switch x.Interface().(type) {
			case *ast.Object, *ast.Scope:
				return reflect.Zero(x.Type())
			}
			y := reflect.New(x.Type().Elem())
			set(y.Elem(), x.Elem())
			return y

		case reflect.Struct:
			y := reflect.New(x.Type()).Elem()
			for i := 0; i < x.Type().NumField(); i++ {
				set(y.Field(i), x.Field(i))
			}
			return y

		case reflect.Slice:
			if x.IsNil() {
				return x
			}
			y := reflect.MakeSlice(x.Type(), x.Len(), x.Cap())
			for i := 0; i < x.Len(); i++ {
				set(y.Index(i), x.Index(i))
			}
			return y

		case reflect.Interface:
			y := reflect.New(x.Type()).Elem()
			set(y, x.Elem())
			return y

		case reflect.Array, reflect.Chan, reflect.Func, reflect.Map, reflect.UnsafePointer:
			panic(x) // unreachable in AST

		default:
			return x // bool, string, number
		}
	}
	return clone(reflect.ValueOf(n)).Interface().(ast.Node)
}
