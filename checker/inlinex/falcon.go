// Copyright 2023 The Go Authors. All rights reserved.
// Use of this source code is governed by a BSD-style
// license that can be found in the LICENSE file.

package inlinex

// This file defines the callee side of the "fallible constant" analysis.

import (
	"fmt"
	"go/ast"
	"go/constant"
	"go/format"
	"go/token"
	"go/types"
	"strconv"
	"strings"

	"golang.org/x/tools/go/types/typeutil"
	"verif/checker/inlinex/typeparams"
)

// falconResult is the result of the analysis of the callee.
type falconResult struct {
	Types       []falconType // types for falcon constraint environment
	Constraints []string     // constraints (Go expressions) on values of fallible constants
}

// A falconType specifies the name and underlying type of a synthetic
// defined type for use in falcon constraints.
//
// Unique types from callee code are bijectively mapped onto falcon
// types so that constraints are independent of callee type
// information but preserve type equivalence classes.
//
// Fresh names are deliberately obscure to avoid shadowing even if a
// callee parameter has a nanme like "int" or "any".
type falconType struct {
	Name string
	Kind types.BasicKind // string/number/bool
}

// falcon identifies "fallible constant" expressions, which are
// expressions that may fail to compile if one or more of their
// operands is changed from non-constant to constant.
//
// Consider:
//
//	func sub(s string, i, j int) string { return s[i:j] }
//
// If parameters are replaced by constants, the compiler is
// required to perform these additional checks:
//
//   - if i is constant, 0 <= i.
//   - if s and i are constant, i <= len(s).
//   - ditto for j.
//   - if i and j are constant, i <= j.
//
// s[i:j] is thus a "fallible constant" expression dependent on {s, i,
// j}. Each falcon creates a set of conditional constraints across one
// or more parameter variables.
//
//   - When inlining a call such as sub("abc", -1, 2), the parameter i
//     cannot be eliminated by substitution as its argument value is
//     negative.
//
//   - When inlining sub("", 2, 1), all three parameters cannot be
//     simultaneously eliminated by substitution without violating i
//     <= len(s) and j <= len(s), but the parameters i and j could be
//     safely eliminated without s.
//
// Parameters that cannot be eliminated must remain non-constant,
// either in the form of a binding declaration:
//
//	{ var i int = -1; return "abc"[i:2] }
//
// or a parameter of a literalization:
//
//	func (i int) string { return "abc"[i:2] }(-1)
//
// These example expressions are obviously doomed to fail at run
// time, but in realistic cases such expressions are dominated by
// appropriate conditions that make them reachable only when safe:
//
//	if 0 <= i && i <= j && j <= len(s) { _ = s[i:j] }
//
// (In principle a more sophisticated inliner could entirely eliminate
// such unreachable blocks based on the condition being always-false
// for the given parameter substitution, but this is tricky to do safely
// because the type-checker considers only a single configuration.
// Consider: if runtime.GOOS == "linux" { ... }.)
//
// We believe this is an exhaustive list of "fallible constant" operations:
//
//   - switch z { case x: case y } 	// duplicate case values
//   - s[i], s[i:j], s[i:j:k]		// index out of bounds (0 <= i <= j <= k <= len(s))
//   - T{x: 0}				// index out of bounds, duplicate index
//   - x/y, x%y, x/=y, x%=y		// integer division by zero; minint/-1 overflow
//   - x+y, x-y, x*y			// arithmetic overflow
//   - x<<y				// shift out of range
//   - -x				// negation of minint
//   - T(x)				// value out of range
//
// The fundamental reason for this elaborate algorithm is that the
// "separate analysis" of callee and caller, as required when running
// in an environment such as unitchecker, means that there is no way
// for us to simply invoke the type checker on the combination of
// caller and callee code, as by the time we analyze the caller, we no
// longer have access to type information for the callee (and, in
// particular, any of its direct dependencies that are not direct
// dependencies of the caller). So, in effect, we are forced to map
// the problem in a neutral (callee-type-independent) constraint
// system that can be verified later.
func falcon(logf func(string, ...any), fset *token.FileSet, params map[*types.Var]*paramInfo, info *types.Info, decl *ast.FuncDecl) falconResult {

	st := &falconState{
		logf:   logf,
		fset:   fset,
		params: params,
		info:   info,
		decl:   decl,
	}

	// type mapping
	st.int = st.typename(types.Typ[types.Int])
	st.any = "interface{}" // don't use "any" as it may be shadowed
	for obj, info := range st.params {
		if isBasic(obj.Type(), types.IsConstType) {
			info.FalconType = st.typename(obj.Type())
		}
	}

	st.stmt(st.decl.Body)

	return st.result
}

type falconState struct {
	// inputs
	logf   func(string, ...any)
	fset   *token.FileSet
	params map[*types.Var]*paramInfo
	info   *types.Info
	decl   *ast.FuncDecl

	// working state
	int       string
	any       string
	typenames typeutil.Map

	result falconResult
}

// typename returns the name in the falcon constraint system
// of a given string/number/bool type t. Falcon types are
// specified directly in go/types data structures rather than
// by name, avoiding potential shadowing conflicts with
// confusing parameter names such as "int".
//
// Also, each distinct type (as determined by types.Identical)
// is mapped to a fresh type in the falcon system so that we
// can map the types in the callee code into a neutral form
// that does not depend on imports, allowing us to detect
// potential conflicts such as
//
//	map[any]{T1(1): 0, T2(1): 0}
//
// where T1=T2.
func (st *falconState) typename(t types.Type) string {
	name, ok := st.typenames.At(t).(string)
	if !ok {
		basic := t.Underlying().(*types.Basic)

		// That dot ۰ is an Arabic zero numeral U+06F0.
		// It is very unlikely to appear in a real program.
		// TODO(adonovan): use a non-heuristic solution.
		name = fmt.Sprintf("%s۰%d", basic, st.typenames.Len())
		st.typenames.Set(t, name)
		st.logf("falcon: emit type %s %s // %q", name, basic, t)
		st.result.Types = append(st.result.Types, falconType{
			Name: name,
			Kind: basic.Kind(),
		})
	}
	return name
}

// -- constraint emission --

// emit emits a Go expression that must have a legal type.
// In effect, we let the go/types constant folding algorithm
// do most of the heavy lifting (though it may be hard to
// believe from the complexity of this algorithm!).
func (st *falconState) emit(constraint ast.Expr) {
	var out strings.Builder
	if err := format.Node(&out, st.fset, constraint); err != nil {
		panic(err) // can't happen
	}
	syntax := out.String()
	st.logf("falcon: emit constraint %s", syntax)
	st.result.Constraints = append(st.result.Constraints, syntax)
}

// emitNonNegative emits an []T{}[index] constraint,
// which ensures index is non-negative if constant.
func (st *falconState) emitNonNegative(index ast.Expr) {
	st.emit(&ast.IndexExpr{
		X: &ast.CompositeLit{
			Type: &ast.ArrayType{
				Elt: makeIdent(st.int),
			},
		},
		Index: index,
	})
}

// emitMonotonic emits an []T{}[i:j] constraint,
// which ensures i <= j if both are constant.
func (st *falconState) emitMonotonic(i, j ast.Expr) {
	st.emit(&ast.SliceExpr{
		X: &ast.CompositeLit{
			Type: &ast.ArrayType{
				Elt: makeIdent(st.int),
			},
		},
		Low:  i,
		High: j,
	})
}

// emitUnique emits a T{elem1: 0, ... elemN: 0} constraint,
// which ensures that all constant elems are unique.
// T may be a map, slice, or array depending
// on the desired check semantics.
func (st *falconState) emitUnique(typ ast.Expr, elems []ast.Expr) {
	if len(elems) > 1 {
		var elts []ast.Expr
		for _, elem := range elems {
			elts = append(elts, &ast.KeyValueExpr{
				Key:   elem,
				Value: makeIntLit(0),
			})
		}
		st.emit(&ast.CompositeLit{
			Type: typ,
			Elts: elts,
		})
	}
}

// -- traversal --

// The traversal functions scan the callee body for expressions that
// are not constant but would become constant if the parameter vars
// were redeclared as constants, and emits for each one a constraint
// (a Go expression) with the property that it will not type-check
// (using types.CheckExpr) if the particular argument values are
// unsuitable.
//
// These constraints are checked by Inline with the actual
// constant argument values. Violations cause it to reject
// parameters as candidates for substitution.

func (st *falconState) stmt(s ast.Stmt) {
	ast.Inspect(s, func(n ast.Node) bool {
		switch n := n.(type) {
		case ast.Expr:
			_ = st.expr(n)
			return false // skip usual traversal

		case *ast.AssignStmt:
			switch n.Tok {
			case token.QUO_ASSIGN, token.REM_ASSIGN:
				// x /= y
				// Possible "integer division by zero"
				// Emit constraint: 1/y.
				_ = st.expr(n.Lhs[0])
				kY := st.expr(n.Rhs[0])
				if kY, ok := kY.(ast.Expr); ok {
					op := token.QUO
					if n.Tok == token.REM_ASSIGN {
						op = token.REM
					}
					st.emit(&ast.BinaryExpr{
						Op: op,
						X:  makeIntLit(1),
						Y:  kY,
					})
				}
				return false // skip usual traversal
			}

		case *ast.SwitchStmt:
			if n.Init != nil {
				st.stmt(n.Init)
			}
			tBool := types.Type(types.Typ[types.Bool])
			tagType := tBool // default: true
			if n.Tag != nil {
				st.expr(n.Tag)
				tagType = st.info.TypeOf(n.Tag)
			}

			// Possible "duplicate case value".
			// Emit constraint map[T]int{v1: 0, ..., vN:0}
			// to ensure all maybe-constant case values are unique
			// (unless switch tag is boolean, which is relaxed).
			var unique []ast.Expr
			for _, clause := range n.Body.List {
				clause := clause.(*ast.CaseClause)
				for _, caseval := range clause.List {
					if k := st.expr(caseval); k != nil {
						unique = append(unique, st.toExpr(k))
					}
				}
				for _, stmt := range clause.Body {
					st.stmt(stmt)
				}
			}
			if unique != nil && !types.Identical(tagType.Underlying(), tBool) {
				tname := st.any
				if !types.IsInterface(tagType) {
					tname = st.typename(tagType)
				}
				t := &ast.MapType{
					Key:   makeIdent(tname),
					Value: makeIdent(st.int),
				}
				st.emitUnique(t, unique)
			}
		}
		return true
	})
}

// fieldTypes visits the .Type of each field in the list.
func (st *falconState) fieldTypes(fields *ast.FieldList) {
	if fields != nil {
		for _, field := range fields.List {
			_ = st.expr(field.Type)
		}
	}
}

// expr visits the expression (or type) and returns a
// non-nil result if the expression is constant or would
// become constant if all suitable function parameters were
// redeclared as constants.
//
// If the expression is constant, st.expr returns its type
// and value (types.TypeAndValue). If the expression would
// become constant, st.expr returns an ast.Expr tree whose
// leaves are literals and parameter references, and whose
// interior nodes are operations that may become constant,
// such as -x, x+y, f(x), and T(x). We call these would-be
// constant expressions "fallible constants", since they may
// fail to type-check for some values of x, i, and j. (We
// refer to the non-nil cases collectively as "maybe
// constant", and the nil case as "definitely non-constant".)
//
// As a side effect, st.expr emits constraints for each
// fallible constant expression; this is its main purpose.
//
// Consequently, st.expr must visit the entire subtree so
// that all necessary constraints are emitted. It may not
// short-circuit the traversal when it encounters a constant
// subexpression as constants may contain arbitrary other
// syntax that may impose constraints. Consider (as always)
// this contrived but legal example of a type parameter (!)
// that contains statement syntax:
//
//	func f[T [unsafe.Sizeof(func() { stmts })]int]()
//
// There is no need to emit constraints for (e.g.) s[i] when s
// and i are already constants, because we know the expression
// is sound, but it is sometimes easier to emit these
// redundant constraints than to avoid them.
func (st *falconState) expr(e ast.Expr) (res any) { // = types.TypeAndValue | ast.Expr
	tv := st.info.Types[e]
	if tv.Value != nil {
		// A constant value overrides any other result.
		defer func() { res = tv }()
	}

	switch e := e.(type) {
	case *ast.Ident:
		if v, ok := st.info.Uses[e].(*types.Var); ok {
			if _, ok := st.params[v]; ok && isBasic(v.Type(), types.IsConstType) {
				return e // reference to constable parameter
			}
		}
		// (References to *types.Const are handled by the defer.)

	case *ast.BasicLit:
		// constant

	case *ast.ParenExpr:
		return st.expr(e.X)

	case *ast.FuncLit:
		_ = st.expr(e.Type)
		st.stmt(e.Body)
		// definitely non-constant

	case *ast.CompositeLit:
		// T{k: v, ...}, where T ∈ {array,*array,slice,map},
		// imposes a constraint that all constant k are
		// distinct and, for arrays [n]T, within range 0-n.
		//
		// Types matter, not just values. For example,
		// an interface-keyed map may contain keys
		// that are numerically equal so long as they
		// are of distinct types. For example:
		//
		//   type myint int
		//   map[any]bool{1: true, 1:        true} // error: duplicate key
		//   map[any]bool{1: true, int16(1): true} // ok
		//   map[any]bool{1: true, myint(1): true} // ok
		//
		// This can be asserted by emitting a
		// constraint of the form T{k1: 0, ..., kN: 0}.
		if e.Type != nil {
			_ = st.expr(e.Type)
		}
		t := types.Unalias(typeparams.Deref(tv.Type))
		var uniques []ast.Expr
		for _, elt := range e.Elts {
			if kv, ok := elt.(*ast.KeyValueExpr); ok {
				if !is[*types.Struct](t) {
					if k := st.expr(kv.Key); k != nil {
						uniques = append(uniques, st.toExpr(k))
					}
				}
				_ = st.expr(kv.Value)
			} else {
				_ = st.expr(elt)
			}
		}
		if uniques != nil {
			// Inv: not a struct.

			// The type T in constraint T{...} depends on the CompLit:
			// - for a basic-keyed map, use map[K]int;
			// - for an interface-keyed map, use map[any]int;
			// - for a slice, use []int;
			// - for an array or *array, use [n]int.
			// The last two entail progressively stronger index checks.
			var ct ast.Expr // type syntax for constraint
			switch t := typeparams.CoreType(t).(type) {
			case *types.Map:
				if types.IsInterface(t.Key()) {
					ct = &ast.MapType{
						Key:   makeIdent(st.any),
						Value: makeIdent(st.int),
					}
				} else {
					ct = &ast.MapType{
						Key:   makeIdent(st.typename(t.Key())),
						Value: makeIdent(st.int),
					}
				}
			case *types.Array: // or *array
				ct = &ast.ArrayType{
					Len: makeIntLit(t.Len()),
					Elt: makeIdent(st.int),
				}
			default:
				panic(fmt.Sprintf("%T: %v", t, t))
			}
			st.emitUnique(ct, uniques)
		}
		// definitely non-constant

	case *ast.SelectorExpr:
		_ = st.expr(e.X)
		_ = st.expr(e.Sel)
		// The defer is sufficient to handle
		// qualified identifiers (pkg.Const).
		// All other cases are definitely non-constant.

	case *ast.IndexExpr:
		if tv.IsType() {
			// type C[T]
			_ = st.expr(e.X)
			_ = st.expr(e.Index)
		} else {
			// term x[i]
			//
			// Constraints (if x is slice/string/array/*array, not map):
			// - i >= 0
			//     if i is a fallible constant
			// - i < len(x)
			//     if x is array/*array and
			//     i is a fallible constant;
			//  or if s is a string and both i,
			//     s are maybe-constants,
			//     but not both are constants.
			kX := st.expr(e.X)
			kI := st.expr(e.Index)
			if kI != nil && !is[*types.Map](st.info.TypeOf(e.X).Underlying()) {
				if kI, ok := kI.(ast.Expr); ok {
					st.emitNonNegative(kI)
				}
				// Emit constraint to check indices against known length.
				// TODO(adonovan): factor with SliceExpr logic.
				var x ast.Expr
				if kX != nil {
					// string
					x = st.toExpr(kX)
				} else if arr, ok := typeparams.CoreType(typeparams.Deref(st.info.TypeOf(e.X))).(*types.Array); ok {
					// array, *array
					x = &ast.CompositeLit{
						Type: &ast.ArrayType{
							Len: makeIntLit(arr.Len()),
							Elt: makeIdent(st.int),
						},
					}
				}
				if x != nil {
					st.emit(&ast.IndexExpr{
						X:     x,
						Index: st.toExpr(kI),
					})
				}
			}
		}
		// definitely non-constant

	case *ast.SliceExpr:
		// x[low:high:max]
		//
		// Emit non-negative constraints for each index,
		// plus low <= high <= max <= len(x)
		// for each pair that are maybe-constant
		// but not definitely constant.

		kX := st.expr(e.X)
		var kLow, kHigh, kMax any
		if e.Low != nil {
			kLow = st.expr(e.Low)
			if kLow != nil {
				if kLow, ok := kLow.(ast.Expr); ok {
					st.emitNonNegative(kLow)
				}
			}
		}
		if e.High != nil {
			kHigh = st.expr(e.High)
			if kHigh != nil {
				if kHigh, ok := kHigh.(ast.Expr); ok {
					st.emitNonNegative(kHigh)
				}
				if kLow != nil {
					st.emitMonotonic(st.toExpr(kLow), st.toExpr(kHigh))
				}
			}
		}
		if e.Max != nil {
			kMax = st.expr(e.Max)
			if kMax != nil {
				if kMax, ok := kMax.(ast.Expr); ok {
					st.emitNonNegative(kMax)
				}
				if kHigh != nil {
					st.emitMonotonic(st.toExpr(kHigh), st.toExpr(kMax))
				}
			}
		}

		// Emit constraint to check indices against known length.
		var x ast.Expr
		if kX != nil {
			// string
			x = st.toExpr(kX)
		} else if arr, ok := typeparams.CoreType(typeparams.Deref(st.info.TypeOf(e.X))).(*types.Array); ok {
			// array, *array
			x = &ast.CompositeLit{
				Type: &ast.ArrayType{
					Len: makeIntLit(arr.Len()),
					Elt: makeIdent(st.int),
				},
			}
		}
		if x != nil {
			// Avoid slice[::max] if kHigh is nonconstant (nil).
			high, max := st.toExpr(kHigh), st.toExpr(kMax)
			if high == nil {
				high = max // => slice[:max:max]
			}
			st.emit(&ast.SliceExpr{
				X:    x,
				Low:  st.toExpr(kLow),
				High: high,
				Max:  max,
			})
		}
		// definitely non-constant

	case *ast.TypeAssertExpr:
		_ = st.expr(e.X)
		if e.Type != nil {
			_ = st.expr(e.Type)
		}

	case *ast.CallExpr:
		_ = st.expr(e.Fun)
		if tv, ok := st.info.Types[e.Fun]; ok && tv.IsType() {
			// conversion T(x)
			//
			// Possible "value out of range".
			kX := st.expr(e.Args[0])
			if kX != nil && isBasic(tv.Type, types.IsConstType) {
				conv := convert(makeIdent(st.typename(tv.Type)), st.toExpr(kX))
				if is[ast.Expr](kX) {
					st.emit(conv)
				}
				return conv
			}
			return nil // definitely non-constant
		}

		// call f(x)

		all := true // all args are possibly-constant
		kArgs := make([]ast.Expr, len(e.Args))
		for i, arg := range e.Args {
			if kArg := st.expr(arg); kArg != nil {
				kArgs[i] = st.toExpr(kArg)
			} else {
				all = false
			}
		}

		// Calls to built-ins with fallibly constant arguments
		// may become constant. All other calls are either
		// constant or non-constant
		if id, ok := e.Fun.(*ast.Ident); ok && all && tv.Value == nil {
			if builtin, ok := st.info.Uses[id].(*types.Builtin); ok {
				switch builtin.Name() {
				case "len", "imag", "real", "complex", "min", "max":
					return &ast.CallExpr{
						Fun:      id,
						Args:     kArgs,
						Ellipsis: e.Ellipsis,
					}
				}
			}
		}

	case *ast.StarExpr: // *T, *ptr
		_ = st.expr(e.X)

	case *ast.UnaryExpr:
		// + - ! ^ & <- ~
		//
		// Possible "negation of minint".
		// Emit constraint: -x
		kX := st.expr(e.X)
		if kX != nil && !is[types.TypeAndValue](kX) {
			if e.Op == token.SUB {
				st.emit(&ast.UnaryExpr{
					Op: e.Op,
					X:  st.toExpr(kX),
				})
			}

			return &ast.UnaryExpr{
				Op: e.Op,
				X:  st.toExpr(kX),
			}
		}

	case *ast.BinaryExpr:
		kX := st.expr(e.X)
		kY := st.expr(e.Y)
		switch e.Op {
		case token.QUO, token.REM:
			// x/y, x%y
			//
			// Possible "integer division by zero" or
			// "minint / -1" overflow.
			// Emit constraint: x/y or 1/y
			if kY != nil {
				if kX == nil {
					kX = makeIntLit(1)
				}
				st.emit(&ast.BinaryExpr{
					Op: e.Op,
					X:  st.toExpr(kX),
					Y:  st.toExpr(kY),
				})
			}

		case token.ADD, token.SUB, token.MUL:
			// x+y, x-y, x*y
			//
			// Possible "arithmetic overflow".
			// Emit constraint: x+y
			if kX != nil && kY != nil {
				st.emit(&ast.BinaryExpr{
					Op: e.Op,
					X:  st.toExpr(kX),
					Y:  st.toExpr(kY),
				})
			}

		case token.SHL, token.SHR:
			// x << y, x >> y
			//
			// Possible "constant shift too large".
			// Either operand may be too large individually,
			// and they may be too large together.
			// Emit constraint:
			//    x << y (if both maybe-constant)
			//    x << 0 (if y is non-constant)
			//    1 << y (if x is non-constant)
			if kX != nil || kY != nil {
				x := st.toExpr(kX)
				if x == nil {
					x = makeIntLit(1)
				}
				y := st.toExpr(kY)
				if y == nil {
					y = makeIntLit(0)
				}
				st.emit(&ast.BinaryExpr{
					Op: e.Op,
					X:  x,
					Y:  y,
				})
			}

		case token.LSS, token.GTR, token.EQL, token.NEQ, token.LEQ, token.GEQ:
			// < > == != <= <=
			//
			// A "x cmp y" expression with constant operands x, y is
			// itself constant, but I can't see how a constant bool
			// could be fallible: the compiler doesn't reject duplicate
			// boolean cases in a switch, presumably because boolean
			// switches are less like n-way branches and more like
			// sequential if-else chains with possibly overlapping
			// conditions; and there is (sadly) no way to convert a
			// boolean constant to an int constant.
		}
		if kX != nil && kY != nil {
			return &ast.BinaryExpr{
				Op: e.Op,
				X:  st.toExpr(kX),
				Y:  st.toExpr(kY),
			}
		}

	// types
	//
	// We need to visit types (and even type parameters)
	// in order to reach all the places where things could go wrong:
	//
	// 	const (
	// 		s = ""
	// 		i = 0
	// 	)
	// 	type C[T [unsafe.Sizeof(func() { _ = s[i] })]int] bool

	case *ast.IndexListExpr:
		_ = st.expr(e.X)
		for _, expr := range e.Indices {
			_ = st.expr(expr)
		}

	case *ast.Ellipsis:
		if e.Elt != nil {
			_ = st.expr(e.Elt)
		}

	case *ast.ArrayType:
		if e.Len != nil {
			_ = st.expr(e.Len)
		}
		_ = st.expr(e.Elt)

	case *ast.StructType:
		st.fieldTypes(e.Fields)

	case *ast.FuncType:
		st.fieldTypes(e.TypeParams)
		st.fieldTypes(e.Params)
		st.fieldTypes(e.Results)

	case *ast.InterfaceType:
		st.fieldTypes(e.Methods)

	case *ast.MapType:
		_ = st.expr(e.Key)
		_ = st.expr(e.Value)

	case *ast.ChanType:
		_ = st.expr(e.Value)
	}
	return
}

// toExpr converts the result of visitExpr to a falcon expression.
// (We don't do this in visitExpr as we first need to discriminate
// constants from maybe-constants.)
func (st *falconState) toExpr(x any) ast.Expr {
	switch x := x.(type) {
	case nil:
		return nil

	case types.TypeAndValue:
		lit := makeLiteral(x.Value)
		if !isBasic(x.Type, types.IsUntyped) {
			// convert to "typed" type
			lit = &ast.CallExpr{
				Fun:  makeIdent(st.typename(x.Type)),
				Args: []ast.Expr{lit},
			}
		}
		return lit

	case ast.Expr:
		return x

	default:
		panic(x)
	}
}

func makeLiteral(v constant.Value) ast.Expr {
	switch v.Kind() {
	case constant.Bool:
		// Rather than refer to the true or false built-ins,
		// which could be shadowed by poorly chosen parameter
		// names, we use 0 == 0 for true and 0 != 0 for false.
		op := token.EQL
		if !constant.BoolVal(v) {
			op = token.NEQ
		}
		return &ast.BinaryExpr{
			Op: op,
			X:  makeIntLit(0),
			Y:  makeIntLit(0),
		}

	case constant.String:
		return &ast.BasicLit{
			Kind:  token.STRING,
			Value: v.ExactString(),
		}

	case constant.Int:
		return &ast.BasicLit{
			Kind:  token.INT,
			Value: v.ExactString(),
		}

	case constant.Float:
		return &ast.BasicLit{
			Kind:  token.FLOAT,
			Value: v.ExactString(),
		}

	case constant.Complex:
		// The components could be float or int.
		y := makeLiteral(constant.Imag(v))
		y.(*ast.BasicLit).Value += "i" // ugh
		if re := constant.Real(v); !consteq(re, kZeroInt) {
			// complex: x + yi
			y = &ast.BinaryExpr{
				Op: token.ADD,
				X:  makeLiteral(re),
				Y:  y,
			}
		}
		return y

	default:
		panic(v.Kind())
	}
}

func makeIntLit(x int64) *ast.BasicLit {
	return &ast.BasicLit{
		Kind:  token.INT,
		Value: strconv.FormatInt(x, 10),
	}
}

func isBasic(t types.Type, info types.BasicInfo) bool {
	basic, ok := t.Underlying().(*types.Basic)
	return ok && basic.Info()&info != 0
}
