// Copyright 2023 The Go Authors. All rights reserved.
// Use of this source code is governed by a BSD-style
// license that can be found in the LICENSE file.

/*
Package inline implements inlining of Go function calls.

The client provides information about the caller and callee,
including the source text, syntax tree, and type information, and
the inliner returns the modified source file for the caller, or an
error if the inlining operation is invalid (for example because the
function body refers to names that are inaccessible to the caller).

Although this interface demands more information from the client
than might seem necessary, it enables smoother integration with
existing batch and interactive tools that have their own ways of
managing the processes of reading, parsing, and type-checking
packages. In particular, this package does not assume that the
caller and callee belong to the same token.FileSet or
types.Importer realms.

There are many aspects to a function call. It is the only construct
that can simultaneously bind multiple variables of different
explicit types, with implicit assignment conversions. (Neither var
nor := declarations can do that.) It defines the scope of control
labels, of return statements, and of defer statements. Arguments
and results of function calls may be tuples even though tuples are
not first-class values in Go, and a tuple-valued call expression
may be "spread" across the argument list of a call or the operands
of a return statement. All these unique features mean that in the
general case, not everything that can be expressed by a function
call can be expressed without one.

So, in general, inlining consists of modifying a function or method
call expression f(a1, ..., an) so that the name of the function f
is replaced ("literalized") by a literal copy of the function
declaration, with free identifiers suitably modified to use the
locally appropriate identifiers or perhaps constant argument
values.

Inlining must not change the semantics of the call. Semantics
preservation is crucial for clients such as codebase maintenance
tools that automatically inline all calls to designated functions
on a large scale. Such tools must not introduce subtle behavior
changes. (Fully inlining a call is dynamically observable using
reflection over the call stack, but this exception to the rule is
explicitly allowed.)

In many cases it is possible to entirely replace ("reduce") the
call by a copy of the function's body in which parameters have been
replaced by arguments. The inliner supports a number of reduction
strategies, and we expect this set to grow. Nonetheless, sound
reduction is surprisingly tricky.

The inliner is in some ways like an optimizing compiler. A compiler
is considered correct if it doesn't change the meaning of the
program in translation from source language to target language. An
optimizing compiler exploits the particulars of the input to
generate better code, where "better" usually means more efficient.
When a case is found in which it emits suboptimal code, the
compiler is improved to recognize more cases, or more rules, and
more exceptions to rules; this process has no end. Inlining is
similar except that "better" code means tidier code. The baseline
translation (literalization) is correct, but there are endless
rules--and exceptions to rules--by which the output can be
improved.

The following section lists some of the challenges, and ways in
which they can be addressed.

  - All effects of the call argument expressions must be preserved,
    both in their number (they must not be eliminated or repeated),
    and in their order (both with respect to other arguments, and any
    effects in the callee function).

    This must be the case even if the corresponding parameters are
    never referenced, are referenced multiple times, referenced in
    a different order from the arguments, or referenced within a
    nested function that may be executed an arbitrary number of
    times.

    Currently, parameter replacement is not applied to arguments
    with effects, but with further analysis of the sequence of
    strict effects within the callee we could relax this constraint.

  - When not all parameters can be substituted by their arguments
    (e.g. due to possible effects), if the call appears in a
    statement context, the inliner may introduce a var declaration
    that declares the parameter variables (with the correct types)
    and assigns them to their corresponding argument values.
    The rest of the function body may then follow.
    For example, the call

    f(1, 2)

    to the function

    func f(x, y int32) { stmts }

    may be reduced to

    { var x, y int32 = 1, 2; stmts }.

    There are many reasons why this is not always possible. For
    example, true parameters are statically resolved in the same
    scope, and are dynamically assigned their arguments in
    parallel; but each spec in a var declaration is statically
    resolved in sequence and dynamically executed in sequence, so
    earlier parameters may shadow references in later ones.

  - Even an argument expression as simple as ptr.x may not be
    referentially transparent, because another argument may have the
    effect of changing the value of ptr.

    This constraint could be relaxed by some kind of alias or
    escape analysis that proves that ptr cannot be mutated during
    the call.

  - Although constants are referentially transparent, as a matter of
    style we do not wish to duplicate literals that are referenced
    multiple times in the body because this undoes proper factoring.
    Also, string literals may be arbitrarily large.

  - If the function body consists of statements other than just
    "return expr", in some contexts it may be syntactically
    impossible to reduce the call. Consider:

    if x := f(); cond { ... }

    Go has no equivalent to Lisp's progn or Rust's blocks,
    nor ML's let expressions (let param = arg in body);
    its closest equivalent is func(param){body}(arg).
    Reduction strategies must therefore consider the syntactic
    context of the call.

    In such situations we could work harder to extract a statement
    context for the call, by transforming it to:

    { x := f(); if cond { ... } }

  - Similarly, without the equivalent of Rust-style blocks and
    first-class tuples, there is no general way to reduce a call
    to a function such as

    func(params)(args)(results) { stmts; return expr }

    to an expression such as

    { var params = args; stmts; expr }

    or even a statement such as

    results = { var params = args; stmts; expr }

    Consequently the declaration and scope of the result variables,
    and the assignment and control-flow implications of the return
    statement, must be dealt with by cases.

  - A standalone call statement that calls a function whose body is
    "return expr" cannot be simply replaced by the body expression
    if it is not itself a call or channel receive expression; it is
    necessary to explicitly discard the result using "_ = expr".

    Similarly, if the body is a call expression, only calls to some
    built-in functions with no result (such as copy or panic) are
    permitted as statements, whereas others (such as append) return
    a result that must be used, even if just by discarding.

  - If a parameter or result variable is updated by an assignment
    within the function body, it cannot always be safely replaced
    by a variable in the caller. For example, given

    func f(a int) int { a++; return a }

    The call y = f(x) cannot be replaced by { x++; y = x } because
    this would change the value of the caller's variable x.
    Only if the caller is finished with x is this safe.

    A similar argument applies to parameter or result variables
    that escape: by eliminating a variable, inlining would change
    the identity of the variable that escapes.

  - If the function body uses 'defer' and the inlined call is not a
    tail-call, inlining may delay the deferred effects.

  - Because the scope of a control label is the entire function, a
    call cannot be reduced if the caller and callee have intersecting
    sets of control labels. (It is possible to α-rename any
    conflicting ones, but our colleagues building C++ refactoring
    tools report that, when tools must choose new identifiers, they
    generally do a poor job.)

  - Given

    func f() uint8 { return 0 }

    var x any = f()

    reducing the call to var x any = 0 is unsound because it
    discards the implicit conversion to uint8. We may need to make
    each argument-to-parameter conversion explicit if the types
    differ. Assignments to variadic parameters may need to
    explicitly construct a slice.

    An analogous problem applies to the implicit assignments in
    return statements:

    func g() any { return f() }

    Replacing the call f() with 0 would silently lose a
    conversion to uint8 and change the behavior of the program.

  - When inlining a call f(1, x, g()) where those parameters are
    unreferenced, we should be able to avoid evaluating 1 and x
    since they are pure and thus have no effect. But x may be the
    last reference to a local variable in the caller, so removing
    it would cause a compilation error. Parameter substitution must
    avoid making the caller's local variables unreferenced (or must
    be prepared to eliminate the declaration too---this is where an
    iterative framework for simplification would really help).

  - An expression such as s[i] may be valid if s and i are
    variables but invalid if either or both of them are constants.
    For example, a negative constant index s[-1] is always out of
    bounds, and even a non-negative constant index may be out of
    bounds depending on the particular string constant (e.g.
    "abc"[4]).

    So, if a parameter participates in any expression that is
    subject to additional compile-time checks when its operands are
    constant, it may be unsafe to substitute that parameter by a
    constant argument value (#62664).

More complex callee functions are inlinable with more elaborate and
invasive changes to the statements surrounding the call expression.

TODO(adonovan): future work:

  - Handle more of the above special cases by careful analysis,
    thoughtful factoring of the large design space, and thorough
    test coverage.

  - Compute precisely (not conservatively) when parameter
    substitution would remove the last reference to a caller local
    variable, and blank out the local instead of retreating from
    the substitution.

  - Afford the client more control such as a limit on the total
    increase in line count, or a refusal to inline using the
    general approach (replacing name by function literal). This
    could be achieved by returning metadata alongside the result
    and having the client conditionally discard the change.

  - Support inlining of generic functions, replacing type parameters
    by their instantiations.

  - Support inlining of calls to function literals ("closures").
    But note that the existing algorithm makes widespread assumptions
    that the callee is a package-level function or method.

  - Eliminate explicit conversions of "untyped" literals inserted
    conservatively when they are redundant. For example, the
    conversion int32(1) is redundant when this value is used only as a
    slice index; but it may be crucial if it is used in x := int32(1)
    as it changes the type of x, which may have further implications.
    The conversions may also be important to the falcon analysis.

  - Allow non-'go' build systems such as Bazel/Blaze a chance to
    decide whether an import is accessible using logic other than
    "/internal/" path segments. This could be achieved by returning
    the list of added import paths instead of a text diff.

  - Inlining a function from another module may change the
    effective version of the Go language spec that governs it. We
    should probably make the client responsible for rejecting
    attempts to inline from newer callees to older callers, since
    there's no way for this package to access module versions.

  - Use an alternative implementation of the import-organizing
    operation that doesn't require operating on a complete file
    (and reformatting). Then return the results in a higher-level
    form as a set of import additions and deletions plus a single
    diff that encloses the call expression. This interface could
    perhaps be implemented atop imports.Process by post-processing
    its result to obtain the abstract import changes and discarding
    its formatted output.
*/
package inlinex
