// Copyright 2023 The Go Authors. All rights reserved.
// Use of this source code is governed by a BSD-style
// license that can be found in the LICENSE file.

package inlinex

// This file defines various common helpers.

import (
	"go/ast"
	"go/constant"
	"go/token"
	"go/types"
	"reflect"
	"strings"

	"verif/checker/inlinex/typeparams"
)

func is[T any](x any) bool {
	_, ok := x.(T)
	return ok
}

// TODO(adonovan): use go1.21's slices.Index.
func index[T comparable](slice []T, x T) int {
	for i, elem := range slice {
		if elem == x {
			return i
		}
	}
	return -1
}

func btoi(b bool) int {
	if b {
		return 1
	} else {
		return 0
	}
}

func offsetOf(fset *token.FileSet, pos token.Pos) int {
	return fset.PositionFor(pos, false).Offset
}

// objectKind returns an object's kind (e.g. var, func, const, typename).
func objectKind(obj types.Object) string {
	return strings.TrimPrefix(strings.ToLower(reflect.TypeOf(obj).String()), "*types.")
}

// within reports whether pos is within the half-open interval [n.Pos, n.End).
func within(pos token.Pos, n ast.Node) bool {
	return n.Pos() <= pos && pos < n.End()
}

// trivialConversion reports whether it is safe to omit the implicit
// value-to-variable conversion that occurs in argument passing or
// result return. The only case currently allowed is converting from
// untyped constant to its default type (e.g. 0 to int).
//
// The reason for this check is that converting from A to B to C may
// yield a different result than converting A directly to C: consider
// 0 to int32 to any.
//
// trivialConversion under-approximates trivial conversions, as unfortunately
// go/types does not record the type of an expression *before* it is implicitly
// converted, and therefore it cannot distinguish typed constant
// expressions from untyped constant expressions. For example, in the
// expression `c + 2`, where c is a uint32 constant, trivialConversion does not
// detect that the default type of this expression is actually uint32, not untyped
// int.
//
// We could, of course, do better here by reverse engineering some of go/types'
// constant handling. That may or may not be worthwhile.
//
// Example: in func f() int32 { return 0 },
// the type recorded for 0 is int32, not untyped int;
// although it is Identical to the result var,
// the conversion is non-trivial.
func trivialConversion(fromValue constant.Value, from, to types.Type) bool {
	if fromValue != nil {
		var defaultType types.Type
		switch fromValue.Kind() {
		case constant.Bool:
			defaultType = types.Typ[types.Bool]
		case constant.String:
			defaultType = types.Typ[types.String]
		case constant.Int:
			defaultType = types.Typ[types.Int]
		case constant.Float:
			defaultType = types.Typ[types.Float64]
		case constant.Complex:
			defaultType = types.Typ[types.Complex128]
		default:
			return false
		}
		return types.Identical(defaultType, to)
	}
	return types.Identical(from, to)
}

func checkInfoFields(info *types.Info) {
	assert(info.Defs != nil, "types.Info.Defs is nil")
	assert(info.Implicits != nil, "types.Info.Implicits is nil")
	assert(info.Scopes != nil, "types.Info.Scopes is nil")
	assert(info.Selections != nil, "types.Info.Selections is nil")
	assert(info.Types != nil, "types.Info.Types is nil")
	assert(info.Uses != nil, "types.Info.Uses is nil")
}

func funcHasTypeParams(decl *ast.FuncDecl) bool {
	// generic function?
	if decl.Type.TypeParams != nil {
		return true
	}
	// method on generic type?
	if decl.Recv != nil {
		t := decl.Recv.List[0].Type
		if u, ok := t.(*ast.StarExpr); ok {
			t = u.X
		}
		return is[*ast.IndexExpr](t) || is[*ast.IndexListExpr](t)
	}
	return false
}

// intersects reports whether the maps' key sets intersect.
func intersects[K comparable, T1, T2 any](x map[K]T1, y map[K]T2) bool {
	if len(x) > len(y) {
		return intersects(y, x)
	}
	for k := range x {
		if _, ok := y[k]; ok {
			return true
		}
	}
	return false
}

// convert returns syntax for the conversion T(x).
func convert(T, x ast.Expr) *ast.CallExpr {
	// The formatter generally adds parens as needed,
	// but before go1.22 it had a bug (#63362) for
	// channel types that requires this workaround.
	if ch, ok := T.(*ast.ChanType); ok && ch.Dir == ast.RECV {
		T = &ast.ParenExpr{X: T}
	}
	return &ast.CallExpr{
		Fun:  T,
		Args: []ast.Expr{x},
	}
}

// isPointer reports whether t's core type is a pointer.
func isPointer(t types.Type) bool {
	return is[*types.Pointer](typeparams.CoreType(t))
}

// indirectSelection is like seln.Indirect() without bug #8353.
func indirectSelection(seln *types.Selection) bool {
	// Work around bug #8353 in Selection.Indirect when Kind=MethodVal.
	if seln.Kind() == types.MethodVal {
		tArg, indirect := effectiveReceiver(seln)
		if indirect {
			return true
		}

		tParam := seln.Obj().Type().Underlying().(*types.Signature).Recv().Type()
		return isPointer(tArg) && !isPointer(tParam) // implicit *
	}

	return seln.Indirect()
}

// effectiveReceiver returns the effective type of the method
// receiver after all implicit field selections (but not implicit * or
// & operations) have been applied.
//
// The boolean indicates whether any implicit field selection was indirect.
func effectiveReceiver(seln *types.Selection) (types.Type, bool) {
	assert(seln.Kind() == types.MethodVal, "not MethodVal")
	t := seln.Recv()
	indices := seln.Index()
	indirect := false
	for _, index := range indices[:len(indices)-1] {
		if isPointer(t) {
			indirect = true
			t = typeparams.MustDeref(t)
		}
		t = typeparams.CoreType(t).(*types.Struct).Field(index).Type()
	}
	return t, indirect
}
