// Copyright 2023 The Go Authors. All rights reserved.
// Use of this source code is governed by a BSD-style
// license that can be found in the LICENSE file.

package inlinex

import (
	"fmt"
	"go/ast"
	"go/token"
	"go/types"
)

// escape implements a simple "address-taken" escape analysis. It
// calls f for each local variable that appears on the left side of an
// assignment (escapes=false) or has its address taken (escapes=true).
// The initialization of a variable by its declaration does not count
// as an assignment.
func escape(info *types.Info, root ast.Node, f func(v *types.Var, escapes bool)) {

	// lvalue is called for each address-taken expression or LHS of assignment.
	// Supported forms are: x, (x), x[i], x.f, *x, T{}.
	var lvalue func(e ast.Expr, escapes bool)
	lvalue = func(e ast.Expr, escapes bool) {
		switch e := e.(type) {
		case *ast.Ident:
			if v, ok := info.Uses[e].(*types.Var); ok {
				if !isPkgLevel(v) {
					f(v, escapes)
				}
			}
		case *ast.ParenExpr:
			lvalue(e.X, escapes)
		case *ast.IndexExpr:
			// TODO(adonovan): support generics without assuming e.X has a core type.
			// Consider:
			//
			// func Index[T interface{ [3]int | []int }](t T, i int) *int {
			//     return &t[i]
			// }
			//
			// We must traverse the normal terms and check
			// whether any of them is an array.
			//
			// We assume TypeOf returns non-nil.
			if _, ok := info.TypeOf(e.X).Underlying().(*types.Array); ok {
				lvalue(e.X, escapes) // &a[i] on array
			}
		case *ast.SelectorExpr:
			// We assume TypeOf returns non-nil.
			if _, ok := info.TypeOf(e.X).Underlying().(*types.Struct); ok {
				lvalue(e.X, escapes) // &s.f on struct
			}
		case *ast.StarExpr:
			// *ptr indirects an existing pointer
		case *ast.CompositeLit:
			// &T{...} creates a new variable
		default:
			panic(fmt.Sprintf("&x on %T", e)) // unreachable in well-typed code
		}
	}

	// Search function body for operations &x, x.f(), x++, and x = y
	// where x is a parameter. Each of these treats x as an address.
	ast.Inspect(root, func(n ast.Node) bool {
		switch n := n.(type) {
		case *ast.UnaryExpr:
			if n.Op == token.AND {
				lvalue(n.X, true) // &x
			}

		case *ast.CallExpr:
			// implicit &x in method call x.f(),
			// where x has type T and method is (*T).f
			if sel, ok := n.Fun.(*ast.SelectorExpr); ok {
				if seln, ok := info.Selections[sel]; ok &&
					seln.Kind() == types.MethodVal &&
					isPointer(seln.Obj().Type().Underlying().(*types.Signature).Recv().Type()) {
					tArg, indirect := effectiveReceiver(seln)
					if !indirect && !isPointer(tArg) {
						lvalue(sel.X, true) // &x.f
					}
				}
			}

		case *ast.AssignStmt:
			for _, lhs := range n.Lhs {
				if id, ok := lhs.(*ast.Ident); ok &&
					info.Defs[id] != nil &&
					n.Tok == token.DEFINE {
					// declaration: doesn't count
				} else {
					lvalue(lhs, false)
				}
			}

		case *ast.IncDecStmt:
			lvalue(n.X, false)
		}
		return true
	})
}
