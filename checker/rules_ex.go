package main

import (
	"fmt"
	"go/constant"
	"go/token"
	"go/types"
	"sort"
	"strings"

	"golang.org/x/tools/go/ssa"
)

func init() {
	register(
		&Rule{ID: "EX-ARITH", Doc: "integer + - * go through math/big with an IsInt64 guard; / is guarded against zero and MinInt64/-1; no native wrapping arithmetic on datalog.Integer", Run: ruleEXArith, Min: 4},
		&Rule{ID: "EX-ORDER", Doc: "comparison and boolean operators return the specified truth table over all orderings / truth assignments", Run: ruleEXOrder, Min: 11},
		&Rule{ID: "EX-DISPATCH", Doc: "operator and term-kind registries (datalog, biscuit, printer) are total, injective and name-consistent over the frozen operator list", Run: ruleEXDispatch, Min: 60},
		&Rule{ID: "EX-STRINGS", Doc: "string, regex, length and set operators call the library function of their own meaning with (left, right) in the specified order", Run: ruleEXStrings, Min: 12},
		&Rule{ID: "EX-PURE", Doc: "operators do not write through their operands (terms are shared by reference between worlds)", Run: ruleEXPure, Min: 20},
		&Rule{ID: "EX-SETINCL", Doc: "set inclusion (Contains with a set argument) is 'every right element, examined afresh, has an Equal left element'", Run: ruleEXSetIncl, Min: 3},
		&Rule{ID: "EX-SETALG", Doc: "set equality is inclusion in both directions, union and intersection add an element only if the result does not hold it yet, and the length of a set is not the length of its representation: no result depends on a repeated element", Run: ruleEXSetAlg, Min: 5},
		&Rule{ID: "FX-BIND", Doc: "a rule variable is bound only by MatchedVariables.Insert (first binding under 'unbound', otherwise the verdict is Equal with the existing binding); nothing else writes a binding map except Clone and the nil initialisation", Run: ruleFXBind, Min: 3},
		&Rule{ID: "PR-ARITY", Doc: "per op kind, every way through one step of Expression.Print pops the operator's operands (value 0, unary 1, binary 2: right first, then left), prints that very op on them as (left, right) and pushes the text", Run: rulePRArity, Min: 3},
		&Rule{ID: "EX-ARITY", Doc: "per op kind, every way through one step of Evaluate pops the operator's operands (value 0, unary 1, binary 2: right first, then left), evaluates that very op on them and pushes its result", Run: ruleEXArity, Min: 3},
		&Rule{ID: "EX-STACK", Doc: "Evaluate tests every Push/Pop error and succeeds only with exactly one value left", Run: ruleEXStack, Min: 4},
		&Rule{ID: "FX-EQUAL", Doc: "every Term.Equal is type-strict: the comma-ok of the assertion to the receiver's own type gates any true result", Run: ruleFXEqual, Min: 7},
		&Rule{ID: "FX-UNIFY", Doc: "the bool result of every MatchedVariables.Insert controls a branch", Run: ruleFXUnify, Min: 1},
	)
}

var frozenBinary = []string{"LessThan", "GreaterThan", "LessOrEqual", "GreaterOrEqual", "Equal", "Contains", "Prefix", "Suffix", "Regex", "Add", "Sub", "Mul", "Div", "And", "Or", "Intersection", "Union"}
var frozenUnary = []string{"Negate", "Parens", "Length"}
var frozenTermKinds = []string{"Variable", "Integer", "String", "Date", "Bytes", "Bool", "Set"}

// evalMethods returns the Eval methods of the implementors of datalog.<iface>.
func (p *Prog) opImplementors(ifaceName string) []*types.Named {
	in := p.NamedType("datalog", ifaceName)
	if in == nil {
		return nil
	}
	it := in.Underlying().(*types.Interface)
	var out []*types.Named
	for _, t := range p.repoImplementors(it) {
		if n, ok := t.(*types.Named); ok && n.Obj().Pkg().Path() == pkgPathOf("datalog") {
			if _, isStruct := n.Underlying().(*types.Struct); isStruct && n.Underlying().(*types.Struct).NumFields() > 0 {
				continue // wrappers embedding the interface (UnaryOp/BinaryOp)
			}
			out = append(out, n)
		}
	}
	sort.Slice(out, func(i, j int) bool { return out[i].Obj().Name() < out[j].Obj().Name() })
	return out
}

func (p *Prog) method(t *types.Named, name string) *ssa.Function {
	for _, tt := range []types.Type{t, types.NewPointer(t)} {
		ms := p.SSA.MethodSets.MethodSet(tt)
		if sel := ms.Lookup(t.Obj().Pkg(), name); sel != nil {
			if fn := p.SSA.MethodValue(sel); fn != nil && fn.Synthetic == "" {
				return fn
			}
		}
	}
	return nil
}

func isIntegerTyped(v ssa.Value) bool {
	return isRepoNamed(v.Type(), "datalog", "Integer")
}

// fromIntegerParam: v derives (through conversions / assertions) from the named parameter asserted to datalog.Integer.
func derivesFromParam(v ssa.Value, param *ssa.Parameter) bool {
	return dependsOn(v, func(x ssa.Value) bool { return x == ssa.Value(param) })
}

func ruleEXArith(p *Prog, r *Reporter) {
	globalP = p
	minInt64 := constant.MakeInt64(-1 << 63)
	for _, fn := range p.funcsIn("datalog") {
		name := p.FuncName(fn)
		for _, b := range fn.Blocks {
			for _, in := range b.Instrs {
				switch x := in.(type) {
				case *ssa.BinOp:
					switch x.Op {
					case token.ADD, token.SUB, token.MUL, token.SHL:
						if isIntegerTyped(x.X) || isIntegerTyped(x.Y) || (isInt64Basic(x.Type()) && (fromInteger(x.X) || fromInteger(x.Y))) {
							r.Bad(p.instrPos(x), name, "native "+x.Op.String()+" on datalog.Integer", "native 64-bit arithmetic wraps silently on overflow; the property requires an error (use math/big + IsInt64)")
						}
					case token.QUO, token.REM:
						if !(isIntegerTyped(x.X) || (isInt64Basic(x.Type()) && fromInteger(x.X))) {
							continue
						}
						construct := "native " + x.Op.String() + " on datalog.Integer"
						// cut every edge that establishes divisor != 0
						if c, isC := constInt(x.Y); isC && c != 0 && c != -1 {
							r.OK(p.instrPos(x), name, construct, "constant divisor other than 0 and -1")
							continue
						}
						zeroSafe := p.cutProves(fn, b, func(c *ssa.BinOp, val bool) bool {
							return sameOperand(p, c.X, x.Y) && isConstVal(c.Y, constant.MakeInt64(0)) && ((c.Op == token.EQL && !val) || (c.Op == token.NEQ && val))
						})
						ovfSafe := p.cutProves(fn, b, func(c *ssa.BinOp, val bool) bool {
							ne := (c.Op == token.EQL && !val) || (c.Op == token.NEQ && val)
							if !ne {
								return false
							}
							return (sameOperand(p, c.X, x.Y) && isConstVal(c.Y, constant.MakeInt64(-1))) || (sameOperand(p, c.X, x.X) && isConstVal(c.Y, minInt64))
						})
						switch {
						case !zeroSafe:
							r.Bad(p.instrPos(x), name, construct, "division reachable with a zero divisor (run-time panic)")
						case !ovfSafe:
							r.Bad(p.instrPos(x), name, construct, "division reachable with dividend MinInt64 and divisor -1: the quotient 2^63 wraps to MinInt64 instead of producing an overflow error")
						default:
							r.OK(p.instrPos(x), name, construct, "every path to the division excludes divisor 0 and the pair (MinInt64, -1)")
						}
					}
				case *ssa.UnOp:
					if x.Op == token.SUB && isIntegerTyped(x.X) {
						r.Bad(p.instrPos(x), name, "native negation of datalog.Integer", "-MinInt64 wraps")
					}
				case *ssa.Call:
					// Integer(res.Int64()) must be guarded by res.IsInt64()
					if isCallTo(&x.Call, "math/big.Int.Int64") {
						recv := x.Call.Args[0]
						ok := false
						for _, g := range guardsOf(b) {
							if c, isC := g.cond.(*ssa.Call); isC && g.val && isCallTo(&c.Call, "math/big.Int.IsInt64") && c.Call.Args[0] == recv {
								ok = true
							}
						}
						r.Check(ok, p.instrPos(x), name, "big.Int.Int64()", "conversion back to int64 guarded by IsInt64() on the same value", "big-integer result converted with Int64() without a dominating IsInt64() test: an out-of-range result is truncated silently")
					}
				}
			}
		}
	}
	// sibling agreement: Add/Sub/Mul use the big.Int method of the same name on (left, right) in order
	for _, opn := range []string{"Add", "Sub", "Mul"} {
		t := p.NamedType("datalog", opn)
		if t == nil {
			r.Dunno("?", "datalog."+opn, "Eval", "type not found")
			continue
		}
		ev := p.method(t, "Eval")
		if ev == nil {
			r.Dunno("?", "datalog."+opn, "Eval", "Eval not found")
			continue
		}
		found := false
		okOrder := false
		var pos string = p.Pos(ev.Pos())
		for _, c := range callsIn(ev) {
			cc := c.Common()
			if f := cc.StaticCallee(); f != nil && strings.HasPrefix(calleeName(f), "math/big.Int.") {
				m := f.Name()
				switch m {
				case "Add", "Sub", "Mul", "Quo", "Div", "Rem", "Mod", "Exp", "Lsh", "Rsh", "And", "Or", "Xor", "Neg":
					pos = p.instrPos(c)
					if m == opn && len(cc.Args) == 3 {
						found = true
						okOrder = derivesFromParam(cc.Args[1], ev.Params[1]) && !derivesFromParam(cc.Args[1], ev.Params[2]) &&
							derivesFromParam(cc.Args[2], ev.Params[2]) && !derivesFromParam(cc.Args[2], ev.Params[1])
					} else {
						r.Bad(pos, p.FuncName(ev), "big.Int."+m, "operator "+opn+" computes with big.Int."+m)
					}
				}
			}
		}
		if !found {
			// through a helper that receives the big.Int method as a method expression: helper(left, right, (*big.Int).Op)
			for _, c := range callsIn(ev) {
				cc := c.Common()
				h := cc.StaticCallee()
				if h == nil || !p.isRepoFunc(h) || h.Blocks == nil {
					continue
				}
				for ai, a := range cc.Args {
					mf, isF := unwrap(a).(*ssa.Function)
					if !isF || mf.Object() == nil || mf.Object().Pkg() == nil || mf.Object().Pkg().Path() != "math/big" || ai >= len(h.Params) {
						continue
					}
					pos = p.instrPos(c)
					if mf.Object().Name() != opn {
						r.Bad(pos, p.FuncName(ev), "big.Int."+mf.Object().Name(), "operator "+opn+" computes with big.Int."+mf.Object().Name())
						continue
					}
					// which arguments of the helper are left and right, and how the helper applies the method
					li, ri := -1, -1
					for k, x := range cc.Args {
						if derivesFromParam(x, ev.Params[1]) && !derivesFromParam(x, ev.Params[2]) {
							li = k
						}
						if derivesFromParam(x, ev.Params[2]) && !derivesFromParam(x, ev.Params[1]) {
							ri = k
						}
					}
					for _, hc := range callsIn(h) {
						hcc := hc.Common()
						if hcc.Value != ssa.Value(h.Params[ai]) || len(hcc.Args) != 3 || li < 0 || ri < 0 {
							continue
						}
						found = true
						okOrder = derivesFromParam(hcc.Args[1], h.Params[li]) && !derivesFromParam(hcc.Args[1], h.Params[ri]) &&
							derivesFromParam(hcc.Args[2], h.Params[ri]) && !derivesFromParam(hcc.Args[2], h.Params[li])
					}
				}
			}
		}
		r.Check(found && okOrder, pos, p.FuncName(ev), "big.Int."+opn+"(left, right)", "exact big-integer "+opn+" of (left, right)", "operator "+opn+" does not compute big.Int."+opn+"(left, right)")
	}
}

func isInt64Basic(t types.Type) bool {
	b, ok := t.Underlying().(*types.Basic)
	return ok && b.Kind() == types.Int64
}

func fromInteger(v ssa.Value) bool {
	return dependsOn(v, func(x ssa.Value) bool { return isIntegerTyped(x) })
}

func isConstVal(v ssa.Value, want constant.Value) bool {
	c, ok := unwrap(v).(*ssa.Const)
	if !ok {
		if cv, isCv := v.(*ssa.Convert); isCv {
			return isConstVal(cv.X, want)
		}
		return false
	}
	return c.Value != nil && c.Value.Kind() == constant.Int && constant.Compare(c.Value, token.EQL, want)
}

func sameOperand(p *Prog, a, b ssa.Value) bool {
	return a == b || unwrap(a) == unwrap(b) || p.D(a) == p.D(b)
}

// cutProves: removing every branch edge on which pred(cond, polarity) holds makes blk unreachable,
// i.e. every path to blk has taken at least one such decision.
func (p *Prog) cutProves(fn *ssa.Function, blk *ssa.BasicBlock, pred func(c *ssa.BinOp, val bool) bool) bool {
	cut := map[edge]bool{}
	for _, b := range fn.Blocks {
		i := blockIf(b)
		if i == nil {
			continue
		}
		v, t, f := condOf(i)
		if t == f {
			continue
		}
		if decided(boolAlternatives(v, true, 0), pred) {
			cut[edge{b, t}] = true
		}
		if decided(boolAlternatives(v, false, 0), pred) {
			cut[edge{b, f}] = true
		}
	}
	return !reachAvoidingEdges(fn.Blocks[0], blk, cut)
}

// decision is one comparison with the truth value it is known to have.
type decision struct {
	c   *ssa.BinOp
	val bool
}

// boolAlternatives describes what is known when the boolean v has the value val, as a disjunction
// of conjunctions of comparisons: a comparison is itself; !x swaps the value; the phi that go/ssa
// builds for a && b / a || b used as a value (e.g. as the case expression of a tagless switch) is
// true/false through one of its incoming edges - a constant edge stands for the branch decision
// that selected it, a computed edge for the value computed there. An empty conjunction (nothing
// known) is returned for anything else, and then no predicate is satisfied by that alternative.
func boolAlternatives(v ssa.Value, val bool, depth int) [][]decision {
	unknown := [][]decision{{}}
	if depth > 6 {
		return unknown
	}
	switch x := v.(type) {
	case *ssa.BinOp:
		cc := *x
		if _, isC := unwrap(x.X).(*ssa.Const); isC {
			// normalise constant on the right (only for symmetric operators, which is what callers test)
			if x.Op == token.EQL || x.Op == token.NEQ {
				cc.X, cc.Y = x.Y, x.X
			}
		}
		return [][]decision{{{&cc, val}}}
	case *ssa.UnOp:
		if x.Op == token.NOT {
			return boolAlternatives(x.X, !val, depth+1)
		}
	case *ssa.Phi:
		var out [][]decision
		for k, e := range x.Edges {
			pred := x.Block().Preds[k]
			if c, isC := e.(*ssa.Const); isC {
				if c.Value == nil || c.Value.Kind() != constant.Bool {
					return unknown
				}
				if constant.BoolVal(c.Value) != val {
					continue // this edge cannot give the phi the value val
				}
				pi := blockIf(pred)
				if pi == nil || pred.Succs[0] == pred.Succs[1] {
					return unknown
				}
				out = append(out, boolAlternatives(pi.Cond, pred.Succs[0] == x.Block(), depth+1)...)
				continue
			}
			out = append(out, boolAlternatives(e, val, depth+1)...)
		}
		return out
	}
	return unknown
}

// decided: in every alternative some comparison satisfies pred (an impossible value - no
// alternative at all - is decided trivially: the edge is never taken).
func decided(alts [][]decision, pred func(c *ssa.BinOp, val bool) bool) bool {
	for _, conj := range alts {
		hit := false
		for _, d := range conj {
			if pred(d.c, d.val) {
				hit = true
				break
			}
		}
		if !hit {
			return false
		}
	}
	return true
}

// ---- EX-ORDER: abstract evaluation over the finite domain of orderings / truth values

type absEnv struct {
	left, right *ssa.Parameter
	ord         int  // -1, 0, +1 : left ? right
	lb, rb      bool // truth values for boolean operands
	unary       bool
}

func (p *Prog) operandSide(v ssa.Value, env *absEnv) int { // 1=left 2=right 0=unknown
	v = unwrap(v)
	for {
		switch x := v.(type) {
		case *ssa.TypeAssert:
			v = unwrap(x.X)
			continue
		case *ssa.Extract:
			if ta, ok := x.Tuple.(*ssa.TypeAssert); ok && x.Index == 0 {
				v = unwrap(ta.X)
				continue
			}
		case *ssa.Convert:
			v = unwrap(x.X)
			continue
		}
		break
	}
	if v == ssa.Value(env.left) {
		return 1
	}
	if env.right != nil && v == ssa.Value(env.right) {
		return 2
	}
	return 0
}

func cmpHolds(op token.Token, ord int) (bool, bool) {
	switch op {
	case token.LSS:
		return ord < 0, true
	case token.LEQ:
		return ord <= 0, true
	case token.GTR:
		return ord > 0, true
	case token.GEQ:
		return ord >= 0, true
	case token.EQL:
		return ord == 0, true
	case token.NEQ:
		return ord != 0, true
	}
	return false, false
}

// evalBool abstractly evaluates a boolean SSA expression; ok=false when outside the supported shapes.
func (p *Prog) evalBool(v ssa.Value, env *absEnv, boolMode bool, depth int) (val bool, ok bool) {
	if depth > 12 {
		return false, false
	}
	switch x := v.(type) {
	case *ssa.Const:
		if x.Value != nil && x.Value.Kind() == constant.Bool {
			return constant.BoolVal(x.Value), true
		}
	case *ssa.MakeInterface:
		return p.evalBool(x.X, env, boolMode, depth+1)
	case *ssa.ChangeType:
		return p.evalBool(x.X, env, boolMode, depth+1)
	case *ssa.Convert:
		return p.evalBool(x.X, env, boolMode, depth+1)
	case *ssa.UnOp:
		if x.Op == token.NOT {
			b, ok := p.evalBool(x.X, env, boolMode, depth+1)
			return !b, ok
		}
	case *ssa.TypeAssert, *ssa.Extract:
		if boolMode {
			switch p.operandSide(v, env) {
			case 1:
				return env.lb, true
			case 2:
				return env.rb, true
			}
		}
	case *ssa.BinOp:
		if boolMode {
			a, ok1 := p.evalBool(x.X, env, boolMode, depth+1)
			b, ok2 := p.evalBool(x.Y, env, boolMode, depth+1)
			if ok1 && ok2 {
				switch x.Op {
				case token.EQL:
					return a == b, true
				case token.NEQ:
					return a != b, true
				case token.AND:
					return a && b, true
				case token.OR:
					return a || b, true
				}
			}
			return false, false
		}
		sx, sy := p.operandSide(x.X, env), p.operandSide(x.Y, env)
		if sx == 1 && sy == 2 {
			return cmpHolds(x.Op, env.ord)
		}
		if sx == 2 && sy == 1 {
			return cmpHolds(x.Op, -env.ord)
		}
	case *ssa.Phi:
		// short-circuit && / || lowering
		if len(x.Edges) == 2 {
			for i := 0; i < 2; i++ {
				k, isK := x.Edges[i].(*ssa.Const)
				if !isK || k.Value == nil || k.Value.Kind() != constant.Bool {
					continue
				}
				pred := x.Block().Preds[i]
				iff := blockIf(pred)
				if iff == nil {
					continue
				}
				cv, t, _ := condOf(iff)
				a, ok := p.evalBool(cv, env, boolMode, depth+1)
				if !ok {
					return false, false
				}
				takenWhen := t == x.Block() // edge pred->join taken when cond is true?
				if a == takenWhen {
					return constant.BoolVal(k.Value), true
				}
				return p.evalBool(x.Edges[1-i], env, boolMode, depth+1)
			}
		}
	}
	return false, false
}

// resultLeaves collects the boolean expressions a function may return on success
// (through the `out` phi that merges the clauses of a type switch).
func resultLeaves(fn *ssa.Function) []ssa.Value {
	var leaves []ssa.Value
	seen := map[ssa.Value]bool{}
	var walk func(v ssa.Value)
	walk = func(v ssa.Value) {
		if seen[v] {
			return
		}
		seen[v] = true
		if ph, ok := v.(*ssa.Phi); ok {
			allIface := true
			for _, e := range ph.Edges {
				if _, isMI := e.(*ssa.MakeInterface); !isMI {
					if _, isPh := e.(*ssa.Phi); !isPh {
						allIface = false
					}
				}
			}
			if allIface {
				for _, e := range ph.Edges {
					walk(e)
				}
				return
			}
		}
		leaves = append(leaves, v)
	}
	ei := errorResultIndex(fn)
	for _, ret := range returnsOf(fn) {
		if ei >= 0 && !isNilConst(retVal(ret, ei)) {
			continue
		}
		walk(retVal(ret, 0))
	}
	return leaves
}

func ruleEXOrder(p *Prog, r *Reporter) {
	globalP = p
	specs := map[string]func(ord int) bool{
		"LessThan":       func(o int) bool { return o < 0 },
		"LessOrEqual":    func(o int) bool { return o <= 0 },
		"GreaterThan":    func(o int) bool { return o > 0 },
		"GreaterOrEqual": func(o int) bool { return o >= 0 },
	}
	names := []string{"LessThan", "LessOrEqual", "GreaterThan", "GreaterOrEqual"}
	for _, n := range names {
		t := p.NamedType("datalog", n)
		var ev *ssa.Function
		if t != nil {
			ev = p.method(t, "Eval")
		}
		if ev == nil {
			r.Dunno("?", "datalog."+n, "Eval", "operator or its Eval not found")
			continue
		}
		leaves := resultLeaves(ev)
		if len(leaves) < 2 {
			r.Bad(p.Pos(ev.Pos()), p.FuncName(ev), "result clauses", fmt.Sprintf("expected an Integer and a Date clause, found %d result expression(s)", len(leaves)))
		}
		for _, lf := range leaves {
			env := &absEnv{left: ev.Params[1], right: ev.Params[2]}
			okAll, decided := true, true
			got := ""
			for _, ord := range []int{-1, 0, 1} {
				env.ord = ord
				v, ok := p.evalBool(lf, env, false, 0)
				if !ok {
					decided = false
					break
				}
				got += fmt.Sprintf("%v ", v)
				if v != specs[n](ord) {
					okAll = false
				}
			}
			construct := "clause " + operandTypeOf(p, lf, env)
			pos := p.Pos(ev.Pos())
			if in, ok := lf.(ssa.Instruction); ok {
				pos = p.instrPos(in)
			}
			if !decided {
				r.Dunno(pos, p.FuncName(ev), construct, "result expression "+shortD(lf)+" is outside the shapes the abstract evaluator understands")
			} else {
				r.Check(okAll, pos, p.FuncName(ev), construct, "truth table over {<,=,>} equals the specification of "+n, "truth table over {left<right, left=right, left>right} is ["+strings.TrimSpace(got)+"], which is not "+n)
			}
		}
	}
	// boolean connectives
	bspecs := map[string]func(a, b bool) bool{
		"And": func(a, b bool) bool { return a && b },
		"Or":  func(a, b bool) bool { return a || b },
	}
	for _, n := range []string{"And", "Or"} {
		t := p.NamedType("datalog", n)
		var ev *ssa.Function
		if t != nil {
			ev = p.method(t, "Eval")
		}
		if ev == nil {
			r.Dunno("?", "datalog."+n, "Eval", "operator or its Eval not found")
			continue
		}
		for _, lf := range resultLeaves(ev) {
			env := &absEnv{left: ev.Params[1], right: ev.Params[2]}
			okAll, decided := true, true
			for _, a := range []bool{false, true} {
				for _, b := range []bool{false, true} {
					env.lb, env.rb = a, b
					v, ok := p.evalBool(lf, env, true, 0)
					if !ok {
						decided = false
					} else if v != bspecs[n](a, b) {
						okAll = false
					}
				}
			}
			pos := p.Pos(ev.Pos())
			if in, ok := lf.(ssa.Instruction); ok {
				pos = p.instrPos(in)
			}
			if !decided {
				r.Dunno(pos, p.FuncName(ev), "result", "result expression "+shortD(lf)+" is outside the shapes the abstract evaluator understands")
			} else {
				r.Check(okAll, pos, p.FuncName(ev), "result", "truth table over all four assignments equals "+n, "truth table differs from strict boolean "+n)
			}
		}
	}
	// Negate
	if t := p.NamedType("datalog", "Negate"); t != nil && p.method(t, "Eval") != nil {
		ev := p.method(t, "Eval")
		for _, lf := range resultLeaves(ev) {
			env := &absEnv{left: ev.Params[1], unary: true}
			okAll, decided := true, true
			for _, a := range []bool{false, true} {
				env.lb = a
				v, ok := p.evalBool(lf, env, true, 0)
				if !ok {
					decided = false
				} else if v != !a {
					okAll = false
				}
			}
			if !decided {
				r.Dunno(p.Pos(ev.Pos()), p.FuncName(ev), "result", "result expression "+shortD(lf)+" not understood")
			} else {
				r.Check(okAll, p.Pos(ev.Pos()), p.FuncName(ev), "result", "negation of the operand", "result is not the negation of the operand")
			}
		}
	} else {
		r.Dunno("?", "datalog.Negate", "Eval", "not found")
	}
}

func operandTypeOf(p *Prog, v ssa.Value, env *absEnv) string {
	out := "?"
	dependsOn(v, func(x ssa.Value) bool {
		if ta, ok := x.(*ssa.TypeAssert); ok {
			out = typeName(ta.AssertedType)
			return true
		}
		return false
	})
	return out
}

// ---- EX-DISPATCH

func (p *Prog) constsOfType(pkg, typ string) map[string]*types.Const {
	out := map[string]*types.Const{}
	pk := p.Pkgs[pkg]
	if pk == nil {
		return out
	}
	sc := pk.Types.Scope()
	for _, n := range sc.Names() {
		if c, ok := sc.Lookup(n).(*types.Const); ok {
			if nt, ok := c.Type().(*types.Named); ok && nt.Obj().Name() == typ {
				out[n] = c
			}
		}
	}
	return out
}

func ruleEXDispatch(p *Prog, r *Reporter) {
	globalP = p
	type kind struct {
		prefix, constType, iface string
		frozen                   []string
	}
	kinds := []kind{
		{"Binary", "BinaryOpType", "BinaryOpFunc", frozenBinary},
		{"Unary", "UnaryOpType", "UnaryOpFunc", frozenUnary},
	}
	for _, k := range kinds {
		consts := p.constsOfType("datalog", k.constType)
		impls := p.opImplementors(k.iface)
		implByName := map[string]*types.Named{}
		for _, t := range impls {
			implByName[t.Obj().Name()] = t
		}
		// (1) constant <-> implementor Type(), over the frozen list, and nothing beyond it
		for _, n := range k.frozen {
			c := consts[k.prefix+n]
			t := implByName[n]
			construct := "datalog." + k.prefix + n
			if c == nil || t == nil {
				r.Bad("?", "datalog", construct, "operator "+n+" of the specification has no constant "+k.prefix+n+" or no implementing type "+n)
				continue
			}
			tag, _ := p.typeTag(t)
			ok := tag != nil && constant.Compare(tag, token.EQL, c.Val())
			pos := p.Pos(t.Obj().Pos())
			r.Check(ok, pos, "datalog."+n+".Type", construct, "Type() returns "+k.prefix+n, "Type() of datalog."+n+" does not return "+k.prefix+n+": the operator is dispatched/serialised as another one")
			if ev := p.method(t, "Eval"); ev == nil {
				r.Bad(pos, "datalog."+n, construct+" Eval", "no Eval method")
			}
		}
		if len(consts) != len(k.frozen) || len(impls) != len(k.frozen) {
			r.Bad("?", "datalog", k.constType+" registry size", fmt.Sprintf("%d constants and %d implementors for %d specified operators: an operator outside the published schema cannot be serialised by other implementations", len(consts), len(impls), len(k.frozen)))
		} else {
			r.OK("-", "datalog", k.constType+" registry size", fmt.Sprintf("%d constants, %d implementors, %d specified", len(consts), len(impls), len(k.frozen)))
		}
		// distinct values
		vals := map[string]string{}
		for n, c := range consts {
			if o, dup := vals[c.Val().ExactString()]; dup {
				r.Bad(p.Pos(c.Pos()), "datalog", "constant "+n, "same value as "+o)
			}
			vals[c.Val().ExactString()] = n
		}
		// (2) printer switch
		wrap := p.NamedType("datalog", k.prefix+"Op")
		if wrap == nil || p.method(wrap, "Print") == nil {
			r.Dunno("?", "datalog."+k.prefix+"Op.Print", "printer", "not found")
		} else {
			pr := p.method(wrap, "Print")
			covered := map[string]bool{}
			for _, tb := range p.switchTables(pr) {
				for _, e := range tb.entries {
					for _, c := range e.consts {
						covered[c.Name()] = true
					}
				}
			}
			for _, n := range k.frozen {
				r.Check(covered[k.prefix+n], p.Pos(pr.Pos()), p.FuncName(pr), "print case "+k.prefix+n, "printer has a clause", "printer has no clause for "+k.prefix+n+" (prints as unknown(...))")
			}
		}
		// (3) biscuit constants <-> datalog implementors (convert / fromDatalog)
		bconsts := p.constsOfType("biscuit", k.prefix+"Op")
		conv := p.Func("biscuit", k.prefix+"Op", "convert")
		from := p.Func("biscuit", "", "fromDatalog"+k.prefix+"Op")
		if conv == nil || from == nil {
			r.Dunno("?", "biscuit."+k.prefix+"Op", "convert/fromDatalog", "not found")
			continue
		}
		info := p.Pkgs["biscuit"].TypesInfo
		convMap := map[string]string{} // biscuit const name -> datalog type name
		for _, tb := range p.switchTables(conv) {
			for _, e := range tb.entries {
				ts := resultLitTypes(info, e)
				for _, c := range e.consts {
					if len(ts) == 1 {
						convMap[c.Name()] = typeName(ts[0])
					} else {
						convMap[c.Name()] = "?"
					}
				}
			}
		}
		fromMap := map[string]string{} // datalog const name -> biscuit const name
		for _, tb := range p.switchTables(from) {
			for _, e := range tb.entries {
				rs := resultConsts(info, e)
				for _, c := range e.consts {
					if len(rs) == 1 {
						fromMap[c.Name()] = rs[0].Name()
					} else {
						fromMap[c.Name()] = "?"
					}
				}
			}
		}
		for _, n := range k.frozen {
			bn := k.prefix + n
			if bconsts[bn] == nil {
				r.Bad("?", "biscuit", "biscuit."+bn, "no builder-level constant for operator "+n)
				continue
			}
			r.Check(convMap[bn] == n, p.Pos(conv.Pos()), p.FuncName(conv), "convert "+bn, "maps to datalog."+n+"{}", "biscuit."+bn+" converts to datalog."+convMap[bn]+" instead of datalog."+n)
			r.Check(fromMap[bn] == bn, p.Pos(from.Pos()), p.FuncName(from), "fromDatalog "+bn, "datalog."+bn+" maps back to biscuit."+bn, "datalog."+bn+" maps back to biscuit."+fromMap[bn])
		}
	}
	// term kinds: constant <-> implementor
	tconsts := p.constsOfType("datalog", "TermType")
	ti := p.NamedType("datalog", "Term")
	if ti == nil {
		r.Dunno("?", "datalog.Term", "term kinds", "interface not found")
		return
	}
	timpls := map[string]types.Type{}
	for _, t := range p.repoImplementors(ti.Underlying().(*types.Interface)) {
		timpls[typeName(t)] = t
	}
	for _, n := range frozenTermKinds {
		c, t := tconsts["TermType"+n], timpls[n]
		if c == nil || t == nil {
			r.Bad("?", "datalog", "TermType"+n, "term kind "+n+" lacks its constant or implementing type")
			continue
		}
		tag, _ := p.typeTag(t)
		r.Check(tag != nil && constant.Compare(tag, token.EQL, c.Val()), "-", "datalog."+n+".Type", "TermType"+n, "Type() returns TermType"+n, "Type() of datalog."+n+" does not return TermType"+n)
	}
	if len(tconsts) != len(frozenTermKinds) || len(timpls) != len(frozenTermKinds) {
		r.Bad("?", "datalog", "TermType registry size", fmt.Sprintf("%d constants / %d implementors for %d specified term kinds", len(tconsts), len(timpls), len(frozenTermKinds)))
	}
	// OpType: Value / Unary / Binary
	for _, n := range []string{"Value", "UnaryOp", "BinaryOp"} {
		t := p.NamedType("datalog", n)
		cn := map[string]string{"Value": "OpTypeValue", "UnaryOp": "OpTypeUnary", "BinaryOp": "OpTypeBinary"}[n]
		c := p.constsOfType("datalog", "OpType")[cn]
		if t == nil || c == nil {
			r.Bad("?", "datalog", cn, "op kind missing")
			continue
		}
		tag, _ := p.typeTag(t)
		r.Check(tag != nil && constant.Compare(tag, token.EQL, c.Val()), "-", "datalog."+n+".Type", cn, "Type() returns "+cn, "Type() of datalog."+n+" does not return "+cn)
	}
}

// ---- EX-STACK

func ruleEXStack(p *Prog, r *Reporter) {
	globalP = p
	expr := p.NamedType("datalog", "Expression")
	if expr == nil {
		r.Dunno("?", "datalog.Expression", "Evaluate", "not found")
		return
	}
	ev := p.method(expr, "Evaluate")
	if ev == nil {
		r.Dunno("?", "datalog.Expression", "Evaluate", "not found")
		return
	}
	name := p.FuncName(ev)
	for _, c := range callsIn(ev) {
		cc := c.Common()
		f := cc.StaticCallee()
		if f == nil || p.pkgShort(f) != "datalog" {
			continue
		}
		if f.Name() != "Push" && f.Name() != "Pop" {
			continue
		}
		cv := c.(*ssa.Call)
		// the final `return s.Pop()` forwards both results
		forwarded := false
		for _, ret := range returnsOf(ev) {
			for i := range ret.Results {
				if e, ok := retVal(ret, i).(*ssa.Extract); ok && e.Tuple == ssa.Value(cv) && isErrorType(e.Type()) {
					forwarded = true
				}
			}
		}
		var errV ssa.Value = cv
		if f.Name() == "Pop" {
			es := extractOf(cv, 1)
			if len(es) == 0 {
				r.Bad(p.instrPos(c), name, "stack."+f.Name(), "error result discarded")
				continue
			}
			errV = es[0]
		}
		if forwarded {
			r.OK(p.instrPos(c), name, "stack."+f.Name(), "error forwarded as the function's result")
			continue
		}
		tests := nilTests(errV)
		ok := false
		if len(tests) > 0 {
			ok = onlyErrorReturnsFrom(tests[0].nonNil)
		}
		r.Check(ok, p.instrPos(c), name, "stack."+f.Name(), "error tested; failure branch returns an error", "the error of stack."+f.Name()+" is not tested (stack underflow/overflow goes unnoticed)")
	}
	// success return dominated by len(stack)==1
	for _, ret := range returnsOf(ev) {
		ei := errorResultIndex(ev)
		ev1 := retVal(ret, ei)
		if definitelyNonNilError(ev1, ret.Block(), 0) {
			continue
		}
		ok := false
		for _, g := range guardsOf(ret.Block()) {
			if bo, isB := g.cond.(*ssa.BinOp); isB {
				if c, isC := constInt(bo.Y); isC && c == 1 && strings.HasPrefix(p.D(bo.X), "len(") {
					if (bo.Op == token.EQL && g.val) || (bo.Op == token.NEQ && !g.val) {
						ok = true
					}
				}
			}
		}
		r.Check(ok, p.instrPos(ret), name, "success return", "reached only when exactly one value is left on the stack", "a result can be returned with more or fewer than one value left on the stack (malformed operator sequence accepted)")
	}
}

// ---- FX

func ruleFXEqual(p *Prog, r *Reporter) {
	globalP = p
	ti := p.NamedType("datalog", "Term")
	if ti == nil {
		r.Dunno("?", "datalog.Term", "Equal", "interface not found")
		return
	}
	for _, t := range p.repoImplementors(ti.Underlying().(*types.Interface)) {
		n, _ := t.(*types.Named)
		if n == nil {
			continue
		}
		eq := p.method(n, "Equal")
		if eq == nil {
			r.Bad("?", "datalog."+typeName(t), "Equal", "no Equal method")
			continue
		}
		name := p.FuncName(eq)
		// the comma-ok assertion of the parameter to the receiver's own type
		var okV ssa.Value
		var asserted ssa.Value
		for _, b := range eq.Blocks {
			for _, in := range b.Instrs {
				if ta, isTA := in.(*ssa.TypeAssert); isTA && ta.CommaOk && unwrap(ta.X) == ssa.Value(eq.Params[1]) && types.Identical(ta.AssertedType, t) {
					for _, e := range extractOf(ta, 1) {
						okV = e
					}
					for _, e := range extractOf(ta, 0) {
						asserted = e
					}
				}
			}
		}
		if okV == nil {
			r.Bad(p.Pos(eq.Pos()), name, "type test", "Equal does not test that its argument has the receiver's own type: terms of different kinds can compare equal")
			continue
		}
		allGated := true
		why := ""
		for _, ret := range returnsOf(eq) {
			if !p.gatedByOk(retVal(ret, 0), ret.Block(), okV, 0) {
				allGated = false
				why = "return at " + p.instrPos(ret) + " can yield true without the type test having succeeded"
			}
		}
		r.Check(allGated, p.Pos(eq.Pos()), name, "type-strict result", "every result that can be true is gated by the comma-ok of the assertion to "+typeName(t), why)
		// comparison shape for scalar kinds
		if _, isSlice := t.Underlying().(*types.Slice); !isSlice {
			found := false
			for _, b := range eq.Blocks {
				for _, in := range b.Instrs {
					if bo, isB := in.(*ssa.BinOp); isB && bo.Op == token.EQL {
						if (bo.X == ssa.Value(eq.Params[0]) && bo.Y == asserted) || (bo.Y == ssa.Value(eq.Params[0]) && bo.X == asserted) {
							found = true
						}
					}
				}
			}
			r.Check(found, p.Pos(eq.Pos()), name, "value comparison", "compares receiver == asserted argument", "Equal does not compare the receiver with the asserted argument")
		}
	}
}

// gatedByOk: v is false unless okV is true.
func (p *Prog) gatedByOk(v ssa.Value, at *ssa.BasicBlock, okV ssa.Value, depth int) bool {
	if depth > 6 {
		return false
	}
	if c, ok := v.(*ssa.Const); ok && c.Value != nil && c.Value.Kind() == constant.Bool && !constant.BoolVal(c.Value) {
		return true
	}
	if hasGuard(at, okV, true) {
		return true
	}
	if ph, ok := v.(*ssa.Phi); ok {
		for i, e := range ph.Edges {
			pred := ph.Block().Preds[i]
			gated := false
			for _, g := range guardsOnEdge(pred, ph.Block()) {
				if g.cond == okV && g.val {
					gated = true
				}
			}
			if !gated && !p.gatedByOk(e, pred, okV, depth+1) {
				return false
			}
		}
		return true
	}
	return false
}

func ruleFXUnify(p *Prog, r *Reporter) {
	globalP = p
	for _, cs := range p.callsTo("datalog.MatchedVariables.Insert", "datalog", "biscuit") {
		cv, ok := cs.call.(*ssa.Call)
		name := p.FuncName(cs.fn)
		if !ok {
			r.Bad(p.instrPos(cs.call), name, "MatchedVariables.Insert", "result discarded")
			continue
		}
		used := false
		for _, ref := range *cv.Referrers() {
			if _, isIf := ref.(*ssa.If); isIf {
				used = true
			}
			if u, isU := ref.(*ssa.UnOp); isU && u.Op == token.NOT {
				for _, rr := range *u.Referrers() {
					if _, isIf := rr.(*ssa.If); isIf {
						used = true
					}
				}
			}
		}
		r.Check(used, p.instrPos(cv), name, "MatchedVariables.Insert", "the consistency verdict of a repeated variable controls a branch", "the bool result of Insert is ignored: a variable bound to two different values is accepted")
	}
}

// ---- EX-STRINGS: operator <-> library function agreement (sibling consistency, operand order)

func successValues(p *Prog, fn *ssa.Function) []string {
	var out []string
	ei := errorResultIndex(fn)
	seen := map[string]bool{}
	var add func(v ssa.Value)
	add = func(v ssa.Value) {
		if ph, ok := v.(*ssa.Phi); ok {
			for _, e := range ph.Edges {
				add(e)
			}
			return
		}
		// strip boxing and the conversion to the result term type
		for {
			switch x := v.(type) {
			case *ssa.MakeInterface:
				v = x.X
				continue
			case *ssa.ChangeType:
				v = x.X
				continue
			case *ssa.Convert:
				if isRepoNamed(x.Type(), "datalog", "Bool") || isRepoNamed(x.Type(), "datalog", "Integer") {
					v = x.X
					continue
				}
			}
			break
		}
		d := p.D(v)
		d = strings.ReplaceAll(d, "?#0", "")
		if !seen[d] {
			seen[d] = true
			out = append(out, d)
		}
	}
	for _, ret := range returnsOf(fn) {
		if ei >= 0 && !isNilConst(retVal(ret, ei)) {
			continue
		}
		add(retVal(ret, 0))
	}
	sort.Strings(out)
	return out
}

func ruleEXStrings(p *Prog, r *Reporter) {
	globalP = p
	type spec struct {
		op   string
		want func(l, rt, sy string) []string // accepted success values (any order); constants true/false are ignored
	}
	str := func(sy, v string) string { return "datalog.SymbolTable.Str(" + sy + ", " + v + ".(datalog.String))" }
	specs := []spec{
		{"Prefix", func(l, rt, sy string) []string {
			return []string{"strings.HasPrefix(" + str(sy, l) + ", " + str(sy, rt) + ")"}
		}},
		{"Suffix", func(l, rt, sy string) []string {
			return []string{"strings.HasSuffix(" + str(sy, l) + ", " + str(sy, rt) + ")"}
		}},
		{"Regex", func(l, rt, sy string) []string {
			return []string{"regexp.Regexp.Match(regexp.Compile(" + str(sy, rt) + ")#0, []byte(" + str(sy, l) + "))"}
		}},
		{"Contains", func(l, rt, sy string) []string {
			return []string{"strings.Contains(" + str(sy, l) + ", " + str(sy, rt) + ")"}
		}},
		{"Add", func(l, rt, sy string) []string {
			return []string{"datalog.SymbolTable.Insert(" + sy + ", (" + str(sy, l) + "+" + str(sy, rt) + "))"}
		}},
		{"Intersection", func(l, rt, sy string) []string {
			return []string{"datalog.Set.Intersect(" + l + ".(datalog.Set), " + rt + ".(datalog.Set))"}
		}},
		{"Union", func(l, rt, sy string) []string {
			return []string{"datalog.Set.Union(" + l + ".(datalog.Set), " + rt + ".(datalog.Set))"}
		}},
		{"Equal", func(l, rt, sy string) []string { return []string{l + ".Equal(" + rt + ")"} }},
	}
	for _, sp := range specs {
		t := p.NamedType("datalog", sp.op)
		var ev *ssa.Function
		if t != nil {
			ev = p.method(t, "Eval")
		}
		if ev == nil || len(ev.Params) < 4 {
			r.Dunno("?", "datalog."+sp.op, "Eval", "operator or its Eval(left, right, symbols) not found")
			continue
		}
		l, rt, sy := ev.Params[1].Name(), ev.Params[2].Name(), ev.Params[3].Name()
		got := successValues(p, ev)
		for _, w := range sp.want(l, rt, sy) {
			found := false
			for _, g := range got {
				if g == w {
					found = true
				}
			}
			r.Check(found, p.Pos(ev.Pos()), p.FuncName(ev), "result "+strings.ReplaceAll(strings.ReplaceAll(w, l, "L"), rt, "R"), "the operator returns the library function of its own meaning applied to (left, right)",
				fmt.Sprintf("operator %s does not return %s; its success values are %v (wrong library function or swapped operands)", sp.op, w, got))
		}
		// nothing else except boolean constants / the integer big-int path / set membership results
		for _, g := range got {
			okExtra := false
			for _, w := range sp.want(l, rt, sy) {
				if g == w {
					okExtra = true
				}
			}
			if g == "true:bool" || g == "false:bool" || g == "true:datalog.Bool" || g == "false:datalog.Bool" {
				okExtra = sp.op == "Contains"
			}
			if sp.op == "Add" && strings.HasPrefix(g, "math/big.Int.Int64(") {
				okExtra = true
			}
			if !okExtra {
				r.Bad(p.Pos(ev.Pos()), p.FuncName(ev), "extra result "+g, "operator "+sp.op+" can also return "+g+", which is not part of its specification")
			}
		}
	}
	// Length: one clause per measurable kind
	if t := p.NamedType("datalog", "Length"); t != nil && p.method(t, "Eval") != nil {
		ev := p.method(t, "Eval")
		v, sy := ev.Params[1].Name(), ev.Params[2].Name()
		want := []string{"len(datalog.SymbolTable.Str(" + sy + ", " + v + ".(datalog.String)))", "len(" + v + ".(datalog.Bytes))", "len(" + v + ".(datalog.Set))"}
		got := successValues(p, ev)
		for i, g := range got {
			// the number of distinct elements, computed by a method of the set
			if g == "datalog.Set.Len("+v+".(datalog.Set))" {
				got[i] = "len(" + v + ".(datalog.Set))"
			}
		}
		sort.Strings(got)
		sort.Strings(want)
		r.Check(strings.Join(got, "|") == strings.Join(want, "|"), p.Pos(ev.Pos()), p.FuncName(ev), "length clauses", "length of the string / byte array / set itself", fmt.Sprintf("Length returns %v, expected %v", got, want))
	} else {
		r.Dunno("?", "datalog.Length", "Eval", "not found")
	}
	// set algebra helpers
	if st := p.NamedType("datalog", "Set"); st != nil {
		p.checkSetAlgebra(r, st)
	}
}

// checkSetAlgebra: has = exists Equal over the full range; Intersect keeps the elements of s that t has;
// Union keeps all of s and the elements of t that s does not have.
func (p *Prog) checkSetAlgebra(r *Reporter, st *types.Named) {
	has := p.method(st, "has")
	hasName := "has"
	if has == nil {
		r.Dunno("?", "datalog.Set", "membership helper", "Set.has not found")
		return
	}
	// has: returns true only under Equal(...) true inside a full-range loop over the receiver; false after exhaustion
	okHas := false
	for _, rl := range rangeLoops(has) {
		if rl.seq != ssa.Value(has.Params[0]) {
			continue
		}
		t, f := false, false
		for _, ret := range returnsOf(has) {
			k, isC := retVal(ret, 0).(*ssa.Const)
			if !isC || k.Value == nil {
				continue
			}
			if k.Value.String() == "true" {
				for _, g := range guardsOf(ret.Block()) {
					if c, ok := g.cond.(*ssa.Call); ok && g.val && c.Call.IsInvoke() && c.Call.Method.Name() == "Equal" && rl.inside(ret.Block()) {
						t = true
					}
				}
			} else if rl.doneBB == ret.Block() || rl.doneBB.Dominates(ret.Block()) {
				f = true
			}
		}
		okHas = t && f && len(returnsOf(has)) == 2
	}
	r.Check(okHas, p.Pos(has.Pos()), p.FuncName(has), "membership", "true iff some element (full range) is Equal to the argument", "Set."+hasName+" is not 'exists an element Equal to the argument over the full range'")
	// Intersect: exactly the elements of the receiver that the argument holds
	if fn := p.method(st, "Intersect"); fn != nil {
		ok := false
		why := "no full-range loop over the receiver that keeps the elements the argument holds"
		for _, rl := range rangeLoops(fn) {
			if rl.seq != ssa.Value(fn.Params[0]) {
				continue
			}
			for b := range rl.body {
				for _, in := range b.Instrs {
					call, isC := in.(*ssa.Call)
					if !isC {
						continue
					}
					_, elem, one := singleAppend(call)
					if !one || !rl.isElem(elem) {
						continue
					}
					inOther := false
					bad := false
					for _, g := range guardsOf(b) {
						c, isCall := g.cond.(*ssa.Call)
						if !isCall {
							continue
						}
						mt, isM := p.memberTestOf(c)
						if !isM || !rl.isElem(mt.elem) {
							continue
						}
						switch {
						case mt.coll == ssa.Value(fn.Params[1]) && g.val:
							inOther = true
						case mt.coll == ssa.Value(fn.Params[1]) && !g.val:
							bad = true
						}
					}
					if inOther && !bad {
						ok = true
					} else {
						why = "elements are kept under the wrong membership test"
					}
				}
			}
		}
		r.Check(ok, p.Pos(fn.Pos()), p.FuncName(fn), "set intersect", "elements selected by the specified membership test over the full range", "Set.Intersect: "+why)
	} else {
		r.Dunno("?", "datalog.Set.Intersect", "method", "not found")
	}
	// Union: every element of both operands; the only reason not to add one is that it is already there
	if fn := p.method(st, "Union"); fn != nil {
		covered := map[int]bool{}
		why := ""
		for _, c := range callsIn(fn) {
			if cv, isC := c.(*ssa.Call); isC {
				if bi, isB := cv.Call.Value.(*ssa.Builtin); isB && bi.Name() == "append" && len(cv.Call.Args) == 2 {
					for pi := 0; pi < 2; pi++ {
						if unwrap(cv.Call.Args[1]) == ssa.Value(fn.Params[pi]) {
							covered[pi] = true // whole operand appended
						}
					}
				}
			}
		}
		for _, rl := range rangeLoops(fn) {
			for pi := 0; pi < 2; pi++ {
				if rl.seq != ssa.Value(fn.Params[pi]) {
					continue
				}
				for b := range rl.body {
					for _, in := range b.Instrs {
						call, isC := in.(*ssa.Call)
						if !isC {
							continue
						}
						acc, elem, one := singleAppend(call)
						if !one || !rl.isElem(elem) {
							continue
						}
						okGuards := true
						for _, g := range guardsOf(b) {
							isLoopCond := false
							for _, l2 := range rangeLoops(fn) {
								if hi := blockIf(l2.header); hi != nil && g.cond == hi.Cond {
									isLoopCond = true // "still elements left" / "previous loop finished"
								}
							}
							if isLoopCond {
								continue
							}
							if c, isCall := g.cond.(*ssa.Call); isCall && !g.val {
								if mt, isM := p.memberTestOf(c); isM && rl.isElem(mt.elem) && (mt.coll == acc || mt.coll == ssa.Value(fn.Params[0]) || (mt.acc != nil && p.accMirrors(fn, mt.acc))) {
									continue // skipped only because the result (or the receiver it starts from) already holds it
								}
							}
							okGuards = false
						}
						if okGuards {
							covered[pi] = true
						} else {
							why = "an element of an operand can be left out for a reason other than being in the result already"
						}
					}
				}
			}
		}
		if why == "" && !(covered[0] && covered[1]) {
			why = "not every element of both operands is added to the result"
		}
		r.Check(covered[0] && covered[1] && why == "", p.Pos(fn.Pos()), p.FuncName(fn), "set union", "every element of both operands, each added unless the result already holds it", "Set.Union: "+why)
	} else {
		r.Dunno("?", "datalog.Set.Union", "method", "not found")
	}
}

func ruleEXPure(p *Prog, r *Reporter) {
	globalP = p
	o := p.own()
	for _, ifn := range []string{"BinaryOpFunc", "UnaryOpFunc"} {
		for _, t := range p.opImplementors(ifn) {
			ev := p.method(t, "Eval")
			if ev == nil {
				continue
			}
			last := len(ev.Params) - 1 // symbols
			bad := ""
			for i := 1; i < last; i++ {
				if why, mut := o.mutates[ev][i]; mut {
					bad = "operand " + ev.Params[i].Name() + ": " + why
				}
			}
			r.Check(bad == "", p.Pos(ev.Pos()), p.FuncName(ev), "operands read-only", "Eval (and the helpers it calls) never writes through its operand terms", "an operator writes through one of its operands ("+bad+"): term values are shared by reference between the authority-level world, block worlds and tokens, so evaluating an expression rewrites a fact somewhere else")
		}
	}
}

func ruleEXSetIncl(p *Prog, r *Reporter) {
	globalP = p
	t := p.NamedType("datalog", "Contains")
	var ev *ssa.Function
	if t != nil {
		ev = p.method(t, "Eval")
	}
	if ev == nil {
		r.Dunno("?", "datalog.Contains", "Eval", "not found")
		return
	}
	name := p.FuncName(ev)
	L, R := ev.Params[1].Name(), ev.Params[2].Name()
	var outer, inner *rangeLoop
	for _, rl := range rangeLoops(ev) {
		d := p.D(rl.seq)
		switch {
		case strings.HasPrefix(d, R+".(datalog.Set)"):
			outer = rl
		case strings.HasPrefix(d, L+".(datalog.Set)"):
			if outer != nil || true {
				// the inner loop is the one nested in a loop over the right set
				inner = rl
			}
		}
	}
	// choose inner as the left-set loop nested inside outer
	if outer != nil {
		inner = nil
		for _, rl := range rangeLoops(ev) {
			if rl != outer && outer.body[rl.header] && strings.HasPrefix(p.D(rl.seq), L+".(datalog.Set)") {
				inner = rl
			}
		}
	}
	if outer != nil && inner == nil {
		// the left set is consulted through a membership test (scan helper or index) per right element
		var mtc *ssa.Call
		for b := range outer.body {
			for _, in := range b.Instrs {
				if c, ok := in.(*ssa.Call); ok {
					if mt, isM := p.memberTestOf(c); isM && mt.coll != nil && strings.HasPrefix(p.D(mt.coll), L+".(datalog.Set)") && outer.isElem(mt.elem) {
						mtc = c
					}
				}
			}
		}
		if mtc != nil {
			r.OK(p.instrPos(mtc), name, "flag per right element", "membership in the left set is computed afresh for every right element")
			okFalse, okTrue := false, false
			for _, ret := range returnsOf(ev) {
				if !isNilConst(retVal(ret, 1)) {
					continue
				}
				d := p.D(retVal(ret, 0))
				if d == "false:datalog.Bool" && outer.inside(ret.Block()) && hasGuard(ret.Block(), mtc, false) {
					okFalse = true
				}
				if d == "true:datalog.Bool" && outer.inside(ret.Block()) {
					okTrue = false
					r.Bad(p.instrPos(ret), name, "all elements found", "true is returned from inside the loop over the right set")
					return
				}
				if d == "true:datalog.Bool" && (outer.doneBB == ret.Block() || outer.doneBB.Dominates(ret.Block())) {
					okTrue = true
				}
			}
			r.Check(okFalse, p.instrPos(mtc), name, "missing element", "false as soon as a right element is not in the left set", "no 'return false' guarded by the failed membership test inside the loop over the right set")
			r.Check(okTrue, p.instrPos(mtc), name, "all elements found", "true only after every right element was examined", "true is not returned exactly after the loop over all right elements")
			return
		}
	}
	if outer == nil || inner == nil {
		r.Bad(p.Pos(ev.Pos()), name, "inclusion loops", "no full-range loop over the right set that looks every element up in the left set (nested full-range loop or membership test)")
		return
	}
	// the found flag
	var S *ssa.Phi
	var eq *ssa.Call
	for b := range outer.body {
		for _, in := range b.Instrs {
			if c, ok := in.(*ssa.Call); ok && c.Call.IsInvoke() && c.Call.Method.Name() == "Equal" && inner.body[b] {
				if inner.isElem(c.Call.Value) && outer.isElem(c.Call.Args[0]) || outer.isElem(c.Call.Value) && inner.isElem(c.Call.Args[0]) {
					eq = c
				}
			}
		}
	}
	if eq == nil {
		r.Bad(p.instrPos(inner.header.Instrs[0]), name, "element comparison", "the nested loops do not compare a left element with the current right element using Equal")
		return
	}
	for b := range outer.body {
		for _, in := range b.Instrs {
			ph, ok := in.(*ssa.Phi)
			if !ok || shortType(ph.Type()) != "bool" {
				continue
			}
			for _, lf := range phiLeaves(ph) {
				if k, isK := lf.val.(*ssa.Const); isK && k.Value != nil && k.Value.String() == "true" {
					for _, g := range guardsOnEdge(lf.pred, lf.blk) {
						if g.cond == ssa.Value(eq) && g.val {
							if S == nil || !inner.body[ph.Block()] || ph.Block() == inner.header {
								S = ph
							}
						}
					}
				}
			}
		}
	}
	if S == nil {
		r.Bad(p.instrPos(eq), name, "found flag", "no per-element flag that becomes true when an Equal left element is found")
		return
	}
	fresh := true
	for _, ph := range phiChain(S) {
		if ph.Block() == outer.header {
			fresh = false
		}
	}
	r.Check(fresh, p.instrPos(eq), name, "flag per right element", "the found flag starts false for every right element", "the found flag is carried from one right element to the next: once one element was found, later missing elements go unnoticed ([1,2].contains([1,0]) is true)")
	// false is returned when an element was not found; true only after the whole right set
	okFalse, okTrue := false, false
	for _, ret := range returnsOf(ev) {
		if !isNilConst(retVal(ret, 1)) {
			continue
		}
		v := retVal(ret, 0)
		d := p.D(v)
		if d == "false:datalog.Bool" && outer.inside(ret.Block()) && hasGuard(ret.Block(), S, false) {
			okFalse = true
		}
		if d == "true:datalog.Bool" && (outer.doneBB == ret.Block() || outer.doneBB.Dominates(ret.Block())) {
			okTrue = true
		}
	}
	r.Check(okFalse, p.instrPos(eq), name, "missing element", "false as soon as a right element has no Equal left element", "no 'return false' guarded by the element-not-found flag inside the loop over the right set")
	r.Check(okTrue, p.instrPos(eq), name, "all elements found", "true only after every right element was examined", "true is not returned exactly after the loop over all right elements")
}

// ---- EX-ARITY: path enumeration through one iteration of Evaluate

func ruleEXArity(p *Prog, r *Reporter) { arityCheck(p, r, "Evaluate") }

// rulePRArity: the printer of expressions is the same stack machine as Evaluate, over strings.
func rulePRArity(p *Prog, r *Reporter) { arityCheck(p, r, "Print") }

// arityCheck enumerates every way through one step of the expression stack machine `method`
// (Evaluate: operators applied with Eval; Print: operators applied with UnaryOp.Print / BinaryOp.Print).
func arityCheck(p *Prog, r *Reporter, method string) {
	globalP = p
	printMode := method == "Print"
	expr := p.NamedType("datalog", "Expression")
	var ev *ssa.Function
	if expr != nil {
		ev = p.method(expr, method)
	}
	if ev == nil {
		r.Dunno("?", "datalog.Expression", method, "not found")
		return
	}
	name := p.FuncName(ev)
	var rl *rangeLoop
	for _, l := range rangeLoops(ev) {
		if strings.HasPrefix(p.D(l.seq), "*e") || p.D(l.seq) == "e" {
			rl = l
		}
	}
	if rl == nil {
		r.Bad(p.Pos(ev.Pos()), name, "op loop", "no full-range loop over the expression's ops")
		return
	}
	kinds := map[int64]string{}
	for _, k := range []string{"OpTypeValue", "OpTypeUnary", "OpTypeBinary"} {
		if c := constByName(p, "datalog", k); c != nil {
			kinds[*c] = k
		}
	}
	want := map[string][2]int{"OpTypeValue": {0, 1}, "OpTypeUnary": {1, 1}, "OpTypeBinary": {2, 1}}
	type step struct {
		call *ssa.Call
		name string
	}
	seenKind := map[string]bool{}
	nPaths := 0
	var walk func(b *ssa.BasicBlock, kind string, steps []step, onPath map[*ssa.BasicBlock]bool)
	var path []*ssa.BasicBlock
	// resolve: a phi seen along the current path stands for the operand of the edge the path took
	resolve := func(v ssa.Value) ssa.Value {
		for i := 0; i < 6; i++ {
			ph, ok := v.(*ssa.Phi)
			if !ok {
				return v
			}
			idx := -1
			for k, b := range path {
				if b == ph.Block() {
					idx = k
				}
			}
			if idx <= 0 {
				return v
			}
			prev := path[idx-1]
			found := false
			for k, pr := range ph.Block().Preds {
				if pr == prev {
					v = ph.Edges[k]
					found = true
				}
			}
			if !found {
				return v
			}
		}
		return v
	}
	finish := func(kind string, steps []step, at *ssa.BasicBlock) {
		nPaths++
		pos := p.Pos(ev.Pos())
		if len(steps) > 0 {
			pos = p.instrPos(steps[len(steps)-1].call)
		}
		if kind == "" {
			r.Bad(pos, name, "step of unknown kind", "an op whose kind is none of value/unary/binary is skipped instead of rejected")
			return
		}
		seenKind[kind] = true
		var pops, pushes, evals []*ssa.Call
		for _, st := range steps {
			switch st.name {
			case "Pop":
				pops = append(pops, st.call)
			case "Push":
				pushes = append(pushes, st.call)
			case "Eval":
				evals = append(evals, st.call)
			}
		}
		w := want[kind]
		if len(pops) != w[0] || len(pushes) != w[1] {
			r.Bad(pos, name, "step "+kind, fmt.Sprintf("a way through the %s step pops %d and pushes %d values (must pop %d, push %d): malformed operator sequences are accepted or well-formed ones rejected", kind, len(pops), len(pushes), w[0], w[1]))
			return
		}
		okFlow := true
		why := ""
		popVal := func(c *ssa.Call) ssa.Value {
			if es := extractOf(c, 0); len(es) > 0 {
				return es[0]
			}
			return nil
		}
		if kind != "OpTypeValue" {
			if len(evals) != 1 {
				okFlow, why = false, "the operator is not evaluated exactly once"
			} else {
				e := evals[0]
				args := callArgs(&e.Call)
				// receiver: the loop's op asserted to the kind's interface
				if !dependsOn(args[0], func(x ssa.Value) bool { return rl.isElem(x) }) {
					okFlow, why = false, "the evaluated operator is not the current op"
				}
				if kind == "OpTypeUnary" && (len(args) < 2 || unwrap(args[1]) != popVal(pops[0])) {
					okFlow, why = false, "the unary operand is not the popped value"
				}
				if kind == "OpTypeBinary" && (len(args) < 3 || unwrap(args[1]) != popVal(pops[1]) || unwrap(args[2]) != popVal(pops[0])) {
					okFlow, why = false, "the binary operands are not (second popped, first popped) = (left, right)"
				}
				if okFlow {
					var res []ssa.Value
					for _, x := range extractOf(e, 0) {
						res = append(res, x)
					}
					if printMode {
						res = []ssa.Value{e} // Print returns the text itself, not a (value, error) pair
					}
					if len(res) == 0 || unwrap(resolve(unwrap(pushes[0].Call.Args[len(pushes[0].Call.Args)-1]))) != res[0] {
						okFlow, why = false, "the pushed value is not the operator's result"
					}
				}
			}
		}
		r.Check(okFlow, pos, name, "step "+kind, fmt.Sprintf("pops %d, evaluates the current op on them, pushes the result", w[0]), "in the "+kind+" step "+why)
	}
	walk = func(b *ssa.BasicBlock, kind string, steps []step, onPath map[*ssa.BasicBlock]bool) {
		if b == rl.header {
			finish(kind, steps, b)
			return
		}
		if !rl.body[b] || onPath[b] {
			return // leaves the loop (return) or inner cycle: not a completed step
		}
		onPath[b] = true
		defer delete(onPath, b)
		path = append(path, b)
		defer func() { path = path[:len(path)-1] }()
		for _, in := range b.Instrs {
			if c, ok := in.(*ssa.Call); ok {
				if f := c.Call.StaticCallee(); f != nil && p.pkgShort(f) == "datalog" && (f.Name() == "Pop" || f.Name() == "Push") {
					steps = append(steps[:len(steps):len(steps)], step{c, f.Name()})
				} else if !printMode && c.Call.IsInvoke() && c.Call.Method.Name() == "Eval" {
					steps = append(steps[:len(steps):len(steps)], step{c, "Eval"})
				} else if f := c.Call.StaticCallee(); printMode && f != nil && f.Name() == "Print" && f.Signature.Recv() != nil &&
					(isRepoNamed(f.Signature.Recv().Type(), "datalog", "UnaryOp") || isRepoNamed(f.Signature.Recv().Type(), "datalog", "BinaryOp")) {
					steps = append(steps[:len(steps):len(steps)], step{c, "Eval"})
				}
			}
		}
		if i := blockIf(b); i != nil {
			cond, onT, onF := condOf(i)
			kT, kF := kind, kind
			if bo, ok := cond.(*ssa.BinOp); ok && bo.Op == token.EQL && strings.HasSuffix(p.D(bo.X), ".Type()") && dependsOn(bo.X, func(x ssa.Value) bool { return rl.isElem(x) }) {
				if k, isC := constInt(bo.Y); isC && kinds[k] != "" && isNamed(bo.X.Type(), pkgPathOf("datalog"), "OpType") {
					kT = kinds[k]
				}
			}
			walk(onT, kT, steps, onPath)
			walk(onF, kF, steps, onPath)
			return
		}
		for _, s := range b.Succs {
			walk(s, kind, steps, onPath)
		}
	}
	walk(rl.bodyBB, "", nil, map[*ssa.BasicBlock]bool{})
	for _, k := range []string{"OpTypeValue", "OpTypeUnary", "OpTypeBinary"} {
		if !seenKind[k] {
			r.Bad(p.Pos(ev.Pos()), name, "step "+k, "no way through the loop handles ops of kind "+k)
		}
	}
	if nPaths > 200 {
		r.Dunno(p.Pos(ev.Pos()), name, "steps", "too many ways through one step to enumerate")
	}
}

func ruleFXBind(p *Prog, r *Reporter) {
	globalP = p
	mv := p.NamedType("datalog", "MatchedVariables")
	if mv == nil {
		r.Dunno("?", "datalog.MatchedVariables", "type", "not found")
		return
	}
	isMV := func(t types.Type) bool { return types.Identical(t, mv) }
	for _, fn := range p.funcsIn("datalog", "biscuit") {
		name := p.FuncName(fn)
		for _, b := range fn.Blocks {
			for _, in := range b.Instrs {
				mu, ok := in.(*ssa.MapUpdate)
				if !ok || !isMV(mu.Map.Type()) {
					continue
				}
				pos := p.instrPos(mu)
				recv := fn.Signature.Recv() != nil && isMV(fn.Signature.Recv().Type())
				switch {
				case recv && fn.Name() == "Insert":
					// m[k] = &v only when nothing is bound yet
					okG := false
					for _, g := range guardsOf(b) {
						if bo, isB := g.cond.(*ssa.BinOp); isB {
							if k, isK := bo.Y.(*ssa.Const); isK && k.IsNil() && ((bo.Op == token.EQL && g.val) || (bo.Op == token.NEQ && !g.val)) {
								if lk, isL := unwrap(bo.X).(*ssa.Lookup); isL && lk.X == mu.Map && lk.Index == mu.Key {
									okG = true
								}
							}
						}
					}
					r.Check(okG, pos, name, "first binding", "stored only when the variable is still unbound", "Insert overwrites a binding without testing that the variable is unbound")
				case recv && fn.Name() == "Clone":
					_, fresh := mu.Map.(*ssa.MakeMap)
					r.Check(fresh, pos, name, "copy", "fills a freshly made map", "Clone writes into a map that is not fresh")
				default:
					k, isK := mu.Value.(*ssa.Const)
					r.Check(isK && k.IsNil(), pos, name, "direct write of a binding", "declares the variable as unbound (nil)", "a variable binding is written directly, bypassing MatchedVariables.Insert: a variable that occurs twice is overwritten instead of unified, so facts that do not satisfy the rule body match")
				}
			}
		}
	}
	// Insert: every result is `true` after the first binding or Equal(existing)
	ins := p.method(mv, "Insert")
	if ins == nil {
		r.Dunno("?", "datalog.MatchedVariables.Insert", "verdict", "not found")
		return
	}
	for _, ret := range returnsOf(ins) {
		v := retVal(ret, 0)
		ok := false
		why := "the verdict for an already bound variable is not Equal(existing binding)"
		if k, isK := v.(*ssa.Const); isK {
			// constant true only on the path that has just stored the first binding
			if k.Value != nil && k.Value.String() == "true" {
				for _, in := range ret.Block().Instrs {
					if _, isMU := in.(*ssa.MapUpdate); isMU {
						ok = true
					}
				}
				why = "Insert answers true without binding or comparing"
			} else {
				ok = true // constant false is always safe
			}
		} else if c, isC := v.(*ssa.Call); isC && c.Call.IsInvoke() && c.Call.Method.Name() == "Equal" {
			// v.Equal(*existing) or (*existing).Equal(v)
			a, b2 := p.D(c.Call.Value), p.D(c.Call.Args[0])
			prm := ins.Params[2].Name()
			ex := func(d string) bool { return strings.Contains(d, ins.Params[0].Name()+"["+ins.Params[1].Name()+"]") }
			ok = (a == prm && ex(b2)) || (b2 == prm && ex(a))
		}
		r.Check(ok, p.instrPos(ret), p.FuncName(ins), "verdict", "true after the first binding, otherwise Equal with the existing binding", why)
	}
}

// ---- EX-SETALG: representation independence of the set operations

func ruleEXSetAlg(p *Prog, r *Reporter) {
	globalP = p
	st := p.NamedType("datalog", "Set")
	if st == nil {
		r.Dunno("?", "datalog.Set", "type", "not found")
		return
	}
	if mi := p.memberIdx(); mi != nil {
		r.Check(mi.sound, p.Pos(mi.has.Pos()), "datalog."+mi.typ.Obj().Name(), "membership index", "the index answers exactly Set.has of the elements added to it (hashed kinds: "+strings.Join(mi.kinds, ", ")+"; the rest scanned)", "the membership index used by the set operations is not equivalent to a scan with Equal: "+mi.why)
	}
	// membership loops of fn: full-range loop over `seq` whose body tests has(other, element)
	type incl struct {
		rl    *rangeLoop
		other ssa.Value
		call  *ssa.Call
	}
	inclusions := func(fn *ssa.Function) []incl {
		var out []incl
		for _, rl := range rangeLoops(fn) {
			for b := range rl.body {
				for _, in := range b.Instrs {
					if c, ok := in.(*ssa.Call); ok {
						if mt, isM := p.memberTestOf(c); isM && mt.coll != nil && rl.isElem(mt.elem) {
							out = append(out, incl{rl, mt.coll, c})
						}
					}
				}
			}
		}
		return out
	}
	// Equal
	if eq := p.method(st, "Equal"); eq != nil {
		name := p.FuncName(eq)
		recv := eq.Params[0]
		incs := inclusions(eq)
		var fwd, back *incl
		for i := range incs {
			in := &incs[i]
			// leaving the loop body with has()==false must return false
			okExit := false
			if iff := blockIf(in.call.Block()); iff != nil {
				cond, _, onF := condOf(iff)
				if cond == ssa.Value(in.call) && onlyFalseReturn(onF) {
					okExit = true
				}
			}
			if !okExit {
				continue
			}
			if in.rl.seq == ssa.Value(recv) && in.other != ssa.Value(recv) {
				fwd = in
			}
			if in.other == ssa.Value(recv) && in.rl.seq != ssa.Value(recv) {
				back = in
			}
		}
		for _, ret := range returnsOf(eq) {
			k, isK := retVal(ret, 0).(*ssa.Const)
			if !isK || k.Value == nil || k.Value.String() != "true" {
				if !isK {
					r.Bad(p.instrPos(ret), name, "verdict", "set equality returns a computed value that is not one of the two inclusion tests")
				}
				continue
			}
			okBoth := fwd != nil && back != nil && (fwd.rl.doneBB == ret.Block() || fwd.rl.doneBB.Dominates(ret.Block())) && (back.rl.doneBB == ret.Block() || back.rl.doneBB.Dominates(ret.Block()))
			r.Check(okBoth, p.instrPos(ret), name, "equal only after both inclusions", "true is returned after every element of each operand was found in the other", "set equality answers true after testing inclusion in one direction only (plus a length comparison): with a repeated element [1,1]==[1,2] holds while [1,2]==[1,1] does not, so fact de-duplication, matching and unification depend on the order of operands")
		}
	} else {
		r.Dunno("?", "datalog.Set.Equal", "method", "not found")
	}
	// Union / Intersect: an element is appended only if the result does not hold it yet
	for _, mn := range []string{"Union", "Intersect"} {
		fn := p.method(st, mn)
		if fn == nil {
			r.Dunno("?", "datalog.Set."+mn, "method", "not found")
			continue
		}
		name := p.FuncName(fn)
		n := 0
		for _, c := range callsIn(fn) {
			cv, ok := c.(*ssa.Call)
			if !ok {
				continue
			}
			bi, isB := cv.Call.Value.(*ssa.Builtin)
			if !isB || bi.Name() != "append" {
				continue
			}
			n++
			acc := cv.Call.Args[0]
			_, elem, one := singleAppend(cv)
			if !one {
				r.Bad(p.instrPos(cv), name, "bulk append", "a whole operand is appended to the result without looking for repeated elements")
				continue
			}
			okG := false
			for _, g := range guardsOf(cv.Block()) {
				hc, isC := g.cond.(*ssa.Call)
				if !isC || g.val {
					continue
				}
				mt, isM := p.memberTestOf(hc)
				if !isM || !sameValue(p, mt.elem, elem) {
					continue
				}
				if mt.coll == acc || (mt.acc != nil && p.accMirrors(fn, mt.acc)) {
					okG = true
				}
			}
			r.Check(okG, p.instrPos(cv), name, "append only new elements", "appended under !result.has(element)", "an element is added to the result without testing that the result does not hold it yet: the result of "+mn+" carries repeated elements (its length and later comparisons are wrong)")
		}
		if n == 0 {
			r.Bad(p.Pos(fn.Pos()), name, "result construction", "no append found")
		}
	}
	// Len: the number of distinct elements
	if fn := p.method(st, "Len"); fn != nil {
		name := p.FuncName(fn)
		recv := fn.Params[0]
		ok, why := false, "the result is not the size of a duplicate-free copy of the receiver"
		for _, ret := range returnsOf(fn) {
			v := unwrap(retVal(ret, 0))
			ok = false
			if c, isC := v.(*ssa.Call); isC {
				if bi, isB := c.Call.Value.(*ssa.Builtin); isB && bi.Name() == "len" {
					if u, isU := unwrap(c.Call.Args[0]).(*ssa.Call); isU && len(u.Call.Args) == 2 {
						switch {
						case isCallTo(&u.Call, "datalog.Set.Union") && (u.Call.Args[0] == ssa.Value(recv) || u.Call.Args[1] == ssa.Value(recv)) && (isNilConst(u.Call.Args[0]) || isNilConst(u.Call.Args[1]) || u.Call.Args[0] == u.Call.Args[1]):
							ok = true
						case isCallTo(&u.Call, "datalog.Set.Intersect") && u.Call.Args[0] == ssa.Value(recv) && u.Call.Args[1] == ssa.Value(recv):
							ok = true
						}
					}
				}
			}
			if !ok {
				// a counting loop: +1 exactly for the elements not met before (self-filled index)
				if ph, isPhi := v.(*ssa.Phi); isPhi {
					ok, why = p.countsDistinct(fn, recv, ph)
				}
			}
			if !ok {
				break
			}
		}
		r.Check(ok, p.Pos(fn.Pos()), name, "distinct count", "the number of distinct elements (size of the duplicate-free union, or a count of first occurrences)", "Set.Len: "+why+": a set with a repeated element is longer than the set it denotes, or the count depends on the order of the representation")
	}
	// Length: not len() of the operand's representation
	if ln := p.NamedType("datalog", "Length"); ln != nil {
		if ev := p.method(ln, "Eval"); ev != nil {
			bad := ""
			for _, c := range callsIn(ev) {
				cv, ok := c.(*ssa.Call)
				if !ok {
					continue
				}
				if bi, isB := cv.Call.Value.(*ssa.Builtin); isB && bi.Name() == "len" && types.Identical(cv.Call.Args[0].Type(), st) {
					if _, isAssert := unwrap(cv.Call.Args[0]).(*ssa.TypeAssert); isAssert {
						bad = p.instrPos(cv)
					}
				}
			}
			r.Check(bad == "", p.Pos(ev.Pos()), p.FuncName(ev), "length of a set", "counts distinct elements (not the length of the slice that represents the set)", "the length of a set is the length of its representation ("+bad+"): a set with a repeated element is longer than the set it denotes")
		}
	}
}

// onlyFalseReturn: block b returns the constant false.
func onlyFalseReturn(b *ssa.BasicBlock) bool {
	ret := blockReturn(b)
	if ret == nil || len(ret.Results) == 0 {
		return false
	}
	k, ok := ret.Results[0].(*ssa.Const)
	return ok && k.Value != nil && k.Value.String() == "false"
}

// countsDistinct: the returned counter starts at 0 and is incremented by one, in a full-range loop over recv,
// exactly in the blocks that add the current element to a self-filled membership index under !index.has(element).
func (p *Prog) countsDistinct(fn *ssa.Function, recv ssa.Value, res *ssa.Phi) (bool, string) {
	mi := p.memberIdx()
	if mi == nil || !mi.sound {
		return false, "no checked membership index"
	}
	for _, rl := range rangeLoops(fn) {
		if rl.seq != recv {
			continue
		}
		nInc := 0
		for b := range rl.body {
			for _, in := range b.Instrs {
				bo, ok := in.(*ssa.BinOp)
				if !ok || bo.Op != token.ADD || shortType(bo.Type()) != "int" || bo == rl.step {
					continue
				}
				if c, isC := constInt(bo.Y); !isC || c != 1 {
					continue
				}
				if _, isPhi := bo.X.(*ssa.Phi); !isPhi {
					continue
				}
				// the increment is paired with add(acc, elem) in its block and guarded by !has(acc, elem)
				var add *ssa.Call
				for _, in2 := range b.Instrs {
					if c, isC := in2.(*ssa.Call); isC && c.Call.StaticCallee() == mi.add && rl.isElem(c.Call.Args[1]) {
						add = c
					}
				}
				if add == nil {
					return false, "the counter is incremented without recording the element as met"
				}
				guarded := false
				for _, g := range guardsOf(b) {
					if hc, isC := g.cond.(*ssa.Call); isC && !g.val {
						if mt, isM := p.memberTestOf(hc); isM && mt.acc != nil && mt.acc == unwrap(add.Call.Args[0]) && rl.isElem(mt.elem) {
							guarded = true
						}
					}
				}
				if !guarded {
					return false, "the counter is incremented for an element without testing that it was not met before"
				}
				nInc++
			}
		}
		if nInc == 1 {
			return true, ""
		}
	}
	return false, "no full-range counting loop over the receiver"
}
