package main

import (
	"fmt"
	"go/token"
	"go/types"

	"golang.org/x/tools/go/ssa"
)

// Membership indexes.
//
// The set operations of package datalog may answer "does collection C hold an element Equal
// to e" either by scanning (Set.has) or through an index built from C. The rules about set
// algebra (EX-STRINGS, EX-SETALG, EX-SETINCL) are stated over membership tests, so both forms
// are mapped onto one description, memberTest. An index is accepted only after its four parts
// were checked structurally (indexSound): the key function yields, for the term kinds it
// hashes, a key that is equal exactly when the terms are Equal; add files a term under its key
// or in the scanned remainder; has looks the key up or scans the remainder; the constructor adds
// every element of its argument. Nothing is resolved by name: the index type is the struct with
// an interface-keyed map and a Set, its methods are told apart by signature.

type memberIndex struct {
	typ    *types.Named
	ctor   *ssa.Function // func(Set) *T
	add    *ssa.Function // func(*T, Term)
	has    *ssa.Function // func(*T, Term) bool
	key    *ssa.Function // func(Term) (interface{}, bool)
	sound  bool
	why    string
	kinds  []string // term kinds hashed by key
	mapFld string
	setFld string
}

func (p *Prog) memberIdx() *memberIndex {
	if p.memberIdxDone {
		return p.memberIdxCache
	}
	p.memberIdxDone = true
	set := p.NamedType("datalog", "Set")
	pk := p.Pkgs["datalog"]
	if set == nil || pk == nil {
		return nil
	}
	scope := pk.Types.Scope()
	for _, n := range scope.Names() {
		tn, ok := scope.Lookup(n).(*types.TypeName)
		if !ok {
			continue
		}
		named, ok := tn.Type().(*types.Named)
		if !ok {
			continue
		}
		st, ok := named.Underlying().(*types.Struct)
		if !ok || st.NumFields() != 2 {
			continue
		}
		mi := &memberIndex{typ: named}
		for i := 0; i < 2; i++ {
			f := st.Field(i)
			if m, isM := f.Type().Underlying().(*types.Map); isM {
				if _, isI := m.Key().Underlying().(*types.Interface); isI {
					mi.mapFld = f.Name()
				}
			}
			if types.Identical(f.Type(), set) {
				mi.setFld = f.Name()
			}
		}
		if mi.mapFld == "" || mi.setFld == "" {
			continue
		}
		ptr := types.NewPointer(named)
		for _, f := range p.Funcs {
			sig := f.Signature
			if f.Pkg == nil || f.Pkg.Pkg != pk.Types || f.Parent() != nil {
				continue
			}
			if sig.Recv() != nil && types.Identical(sig.Recv().Type(), ptr) && sig.Params().Len() == 1 && isRepoNamed(sig.Params().At(0).Type(), "datalog", "Term") {
				switch {
				case sig.Results().Len() == 0:
					mi.add = f
				case sig.Results().Len() == 1 && shortType(sig.Results().At(0).Type()) == "bool":
					mi.has = f
				}
			}
			if sig.Recv() == nil && sig.Params().Len() == 1 && sig.Results().Len() == 1 && types.Identical(sig.Params().At(0).Type(), set) && types.Identical(sig.Results().At(0).Type(), ptr) {
				mi.ctor = f
			}
		}
		mi.check(p)
		p.memberIdxCache = mi
		return mi
	}
	return nil
}

// keyCallIn finds the single call whose two results are (key, ok) in fn, applied to fn's term parameter.
func keyCallIn(fn *ssa.Function) *ssa.Call {
	var out *ssa.Call
	for _, c := range callsIn(fn) {
		cv, ok := c.(*ssa.Call)
		if !ok || cv.Call.StaticCallee() == nil {
			continue
		}
		tup, ok := cv.Type().(*types.Tuple)
		if !ok || tup.Len() != 2 || shortType(tup.At(1).Type()) != "bool" {
			continue
		}
		if _, isI := tup.At(0).Type().Underlying().(*types.Interface); !isI {
			continue
		}
		if len(cv.Call.Args) != 1 || cv.Call.Args[0] != ssa.Value(fn.Params[len(fn.Params)-1]) {
			continue
		}
		if out != nil {
			return nil
		}
		out = cv
	}
	return out
}

func (mi *memberIndex) check(p *Prog) {
	fail := func(f string, a ...interface{}) { mi.sound = false; mi.why = fmt.Sprintf(f, a...) }
	if mi.ctor == nil || mi.add == nil || mi.has == nil {
		fail("the index type %s lacks a constructor from a Set, an add(Term) or a has(Term) bool method", mi.typ.Obj().Name())
		return
	}
	// --- has: key ok -> the comma-ok of map[key]; otherwise -> Set.has(rest, t)
	kc := keyCallIn(mi.has)
	if kc == nil {
		fail("%s does not derive a (key, ok) pair from its argument", p.FuncName(mi.has))
		return
	}
	mi.key = kc.Call.StaticCallee()
	okV := firstExtract(kc, 1)
	keyV := firstExtract(kc, 0)
	if okV == nil || keyV == nil {
		fail("%s ignores the key or the ok result of the key function", p.FuncName(mi.has))
		return
	}
	recvD := mi.has.Params[0].Name()
	term := mi.has.Params[1]
	nHashed, nScan := 0, 0
	for _, ret := range returnsOf(mi.has) {
		v := unwrap(retVal(ret, 0))
		switch x := v.(type) {
		case *ssa.Extract:
			lk, isL := x.Tuple.(*ssa.Lookup)
			if !isL || x.Index != 1 || !lk.CommaOk || p.D(lk.X) != recvD+"."+mi.mapFld || lk.Index != ssa.Value(keyV) || !hasGuard(ret.Block(), okV, true) {
				fail("%s: a result is not the presence of the argument's key in %s under ok == true", p.FuncName(mi.has), mi.mapFld)
				return
			}
			nHashed++
		case *ssa.Call:
			if !isCallTo(&x.Call, "datalog.Set.has") || p.D(x.Call.Args[0]) != recvD+"."+mi.setFld || x.Call.Args[1] != ssa.Value(term) || !hasGuard(ret.Block(), okV, false) {
				fail("%s: a result is not Set.has(%s, argument) under ok == false", p.FuncName(mi.has), mi.setFld)
				return
			}
			nScan++
		default:
			fail("%s returns %s, which is neither a key lookup nor a scan of the unhashed remainder", p.FuncName(mi.has), shortD(v))
			return
		}
	}
	if nHashed == 0 || nScan == 0 {
		fail("%s does not cover both the hashed and the unhashed terms", p.FuncName(mi.has))
		return
	}
	// --- add: key ok -> map[key] = {}; otherwise rest = append(rest, t); both on every such path
	ka := keyCallIn(mi.add)
	if ka == nil || ka.Call.StaticCallee() != mi.key {
		fail("%s does not use the key function of %s", p.FuncName(mi.add), p.FuncName(mi.has))
		return
	}
	aok, akey := firstExtract(ka, 1), firstExtract(ka, 0)
	if aok == nil || akey == nil {
		fail("%s ignores the key or the ok result of the key function", p.FuncName(mi.add))
		return
	}
	arecv := mi.add.Params[0].Name()
	var upd *ssa.MapUpdate
	var app *ssa.Store
	for _, b := range mi.add.Blocks {
		for _, in := range b.Instrs {
			switch x := in.(type) {
			case *ssa.MapUpdate:
				if p.D(x.Map) == arecv+"."+mi.mapFld && x.Key == ssa.Value(akey) && hasGuard(b, aok, true) {
					upd = x
				} else {
					fail("%s writes the map with something else than the argument's key under ok == true", p.FuncName(mi.add))
					return
				}
			case *ssa.Store:
				fa, isF := x.Addr.(*ssa.FieldAddr)
				if !isF {
					continue
				}
				if p.D(fa.X) == arecv && fieldName(fa) == mi.setFld {
					base, elem, one := singleAppend(x.Val)
					if one && p.D(base) == arecv+"."+mi.setFld && unwrap(elem) == ssa.Value(mi.add.Params[1]) && hasGuard(b, aok, false) {
						app = x
					} else {
						fail("%s stores into %s something else than append(%s, argument) under ok == false", p.FuncName(mi.add), mi.setFld, mi.setFld)
						return
					}
				}
			}
		}
	}
	if upd == nil || app == nil {
		fail("%s does not file a hashed term under its key and an unhashed one in %s", p.FuncName(mi.add), mi.setFld)
		return
	}
	// every exit of add has done one of the two
	for _, ret := range returnsOf(mi.add) {
		rb := ret.Block()
		if !(upd.Block() == rb || upd.Block().Dominates(rb) || app.Block() == rb || app.Block().Dominates(rb)) {
			fail("%s can return without recording the term", p.FuncName(mi.add))
			return
		}
	}
	// --- constructor: fresh index, fresh map, add(x, e) for every element of the argument
	var al *ssa.Alloc
	for _, ret := range returnsOf(mi.ctor) {
		a, isA := unwrap(retVal(ret, 0)).(*ssa.Alloc)
		if !isA || (al != nil && a != al) {
			fail("%s does not return one freshly allocated index", p.FuncName(mi.ctor))
			return
		}
		al = a
	}
	if al == nil {
		fail("%s does not return", p.FuncName(mi.ctor))
		return
	}
	lf := litFields(al)
	if _, isMk := unwrap(lf[mi.mapFld]).(*ssa.MakeMap); !isMk {
		fail("%s does not give the index a new map", p.FuncName(mi.ctor))
		return
	}
	if v, has := lf[mi.setFld]; has && !isNilConst(v) {
		fail("%s pre-loads the unhashed remainder", p.FuncName(mi.ctor))
		return
	}
	full := false
	for _, rl := range rangeLoops(mi.ctor) {
		if rl.seq != ssa.Value(mi.ctor.Params[0]) {
			continue
		}
		for b := range rl.body {
			for _, in := range b.Instrs {
				if c, isC := in.(*ssa.Call); isC && c.Call.StaticCallee() == mi.add && c.Call.Args[0] == ssa.Value(al) && rl.isElem(c.Call.Args[1]) && rl.onEveryIteration(b) {
					full = true
				}
			}
		}
		// returns only after the loop
		for _, ret := range returnsOf(mi.ctor) {
			if !(rl.doneBB == ret.Block() || rl.doneBB.Dominates(ret.Block())) {
				full = false
			}
		}
	}
	if !full {
		fail("%s does not add every element of its argument (full-range loop, add on every iteration, return after the loop)", p.FuncName(mi.ctor))
		return
	}
	// --- key function: ok only with a key that identifies the term up to Equal
	kf := mi.key
	if kf == nil || kf.Blocks == nil || len(kf.Params) != 1 {
		fail("key function not resolved")
		return
	}
	for _, ret := range returnsOf(kf) {
		okR := retVal(ret, 1)
		if k, isK := okR.(*ssa.Const); isK && k.Value != nil && k.Value.String() == "false" {
			continue
		}
		if k, isK := okR.(*ssa.Const); !isK || k.Value == nil || k.Value.String() != "true" {
			fail("%s: the ok result is computed; cannot tell which keys are trusted", p.FuncName(kf))
			return
		}
		mk, isMk := retVal(ret, 0).(*ssa.MakeInterface)
		if !isMk {
			fail("%s returns ok with key %s, which is not a concrete value boxed into the key interface", p.FuncName(kf), shortD(retVal(ret, 0)))
			return
		}
		src := mk.X
		viaString := false
		if cv, isCv := src.(*ssa.Convert); isCv {
			if b, isB := cv.Type().Underlying().(*types.Basic); !isB || b.Kind() != types.String {
				fail("%s: key converted to %s", p.FuncName(kf), shortType(cv.Type()))
				return
			}
			viaString = true
			src = cv.X
		}
		ex, isEx := src.(*ssa.Extract)
		var ta *ssa.TypeAssert
		if isEx && ex.Index == 0 {
			ta, _ = ex.Tuple.(*ssa.TypeAssert)
		}
		if ta == nil || ta.X != ssa.Value(kf.Params[0]) {
			fail("%s returns ok with key %s, which is not the argument asserted to one of its concrete kinds", p.FuncName(kf), shortD(mk))
			return
		}
		okEx := firstExtractTA(ta, 1)
		if okEx == nil || !hasGuard(ret.Block(), okEx, true) {
			fail("%s: key %s is returned on a path where the assertion did not succeed", p.FuncName(kf), shortD(mk))
			return
		}
		T := ta.AssertedType
		nt, _ := T.(*types.Named)
		if nt == nil {
			fail("%s: asserted type %s is not a named term kind", p.FuncName(kf), shortType(T))
			return
		}
		eqKind := p.equalKind(nt)
		switch {
		case !viaString && types.Comparable(T) && eqKind == "identity":
		case viaString && isByteSlice(T) && eqKind == "bytes":
		default:
			fail("%s: key for %s (%s%s) is not equal exactly when %s.Equal holds (Equal is %s)", p.FuncName(kf), shortType(T), map[bool]string{true: "string conversion", false: "the value itself"}[viaString], map[bool]string{true: "", false: ", comparable=" + fmt.Sprint(types.Comparable(T))}[viaString], shortType(T), eqKind)
			return
		}
		mi.kinds = append(mi.kinds, nt.Obj().Name())
	}
	if len(mi.kinds) == 0 {
		fail("%s never returns ok", p.FuncName(kf))
		return
	}
	mi.sound = true
}

func isByteSlice(t types.Type) bool {
	s, ok := t.Underlying().(*types.Slice)
	if !ok {
		return false
	}
	b, ok := s.Elem().Underlying().(*types.Basic)
	return ok && b.Kind() == types.Uint8
}

func firstExtract(c *ssa.Call, idx int) *ssa.Extract {
	es := extractOf(c, idx)
	if len(es) == 0 {
		return nil
	}
	return es[0]
}

func firstExtractTA(ta *ssa.TypeAssert, idx int) *ssa.Extract {
	if ta.Referrers() == nil {
		return nil
	}
	for _, r := range *ta.Referrers() {
		if e, ok := r.(*ssa.Extract); ok && e.Index == idx {
			return e
		}
	}
	return nil
}

// equalKind classifies T.Equal: "identity" when a true answer is the comparison recv == t.(T) under a
// successful assertion, "bytes" when it is bytes.Equal(recv, t.(T)), otherwise "other".
func (p *Prog) equalKind(t *types.Named) string {
	eq := p.method(t, "Equal")
	if eq == nil || eq.Blocks == nil || len(eq.Params) != 2 {
		return "other"
	}
	recv, arg := eq.Params[0], eq.Params[1]
	kind := ""
	isOther := func(v ssa.Value) bool {
		ex, ok := unwrap(v).(*ssa.Extract)
		if !ok || ex.Index != 0 {
			return false
		}
		ta, ok := ex.Tuple.(*ssa.TypeAssert)
		return ok && ta.X == ssa.Value(arg) && types.Identical(ta.AssertedType, t)
	}
	for _, ret := range returnsOf(eq) {
		v := retVal(ret, 0)
		leaves := []ssa.Value{v}
		if _, isPhi := v.(*ssa.Phi); isPhi {
			leaves = nil
			for _, l := range phiLeaves(v) {
				leaves = append(leaves, l.val)
			}
		}
		for _, l := range leaves {
			if k, isK := l.(*ssa.Const); isK && k.Value != nil && k.Value.String() == "false" {
				continue
			}
			k := "other"
			switch x := l.(type) {
			case *ssa.BinOp:
				if x.Op == token.EQL && ((x.X == ssa.Value(recv) && isOther(x.Y)) || (x.Y == ssa.Value(recv) && isOther(x.X))) {
					k = "identity"
				}
			case *ssa.Call:
				if isCallTo(&x.Call, "bytes.Equal") && len(x.Call.Args) == 2 {
					a, b := unwrap(x.Call.Args[0]), x.Call.Args[1]
					if (a == ssa.Value(recv) && isOther(b)) || (unwrap(b) == ssa.Value(recv) && isOther(x.Call.Args[0])) {
						k = "bytes"
					}
				}
			}
			if kind != "" && kind != k {
				return "other"
			}
			kind = k
		}
	}
	if kind == "" {
		return "other"
	}
	return kind
}

// memberTest: call answers "coll holds an element Equal to elem". For an index that the function
// fills itself (constructor applied to nil, then add calls) coll is nil and acc is the index.
type memberTest struct {
	call *ssa.Call
	coll ssa.Value
	acc  ssa.Value
	elem ssa.Value
}

func (p *Prog) memberTestOf(c *ssa.Call) (memberTest, bool) {
	if isCallTo(&c.Call, "datalog.Set.has") && len(c.Call.Args) == 2 {
		return memberTest{call: c, coll: c.Call.Args[0], elem: c.Call.Args[1]}, true
	}
	mi := p.memberIdx()
	if mi == nil || !mi.sound || c.Call.StaticCallee() != mi.has || len(c.Call.Args) != 2 {
		return memberTest{}, false
	}
	idx, ok := unwrap(c.Call.Args[0]).(*ssa.Call)
	if !ok || idx.Call.StaticCallee() != mi.ctor {
		return memberTest{}, false
	}
	// uses of the index: membership tests and adds only (it does not escape)
	adds := 0
	for _, ref := range *idx.Referrers() {
		rc, isC := ref.(*ssa.Call)
		if !isC {
			if _, dbg := ref.(*ssa.DebugRef); dbg {
				continue
			}
			return memberTest{}, false
		}
		switch rc.Call.StaticCallee() {
		case mi.has:
		case mi.add:
			adds++
		default:
			return memberTest{}, false
		}
	}
	src := idx.Call.Args[0]
	if isNilConst(src) {
		return memberTest{call: c, acc: idx, elem: c.Call.Args[1]}, true
	}
	if adds > 0 {
		return memberTest{}, false
	}
	return memberTest{call: c, coll: src, elem: c.Call.Args[1]}, true
}

// accMirrors: the self-filled index acc holds exactly the elements appended to the result slice of fn:
// every add(acc, e) shares its block with an append of the same e, and every append of a single
// element shares its block with an add of it.
func (p *Prog) accMirrors(fn *ssa.Function, acc ssa.Value) bool {
	mi := p.memberIdx()
	if mi == nil || !mi.sound {
		return false
	}
	type site struct {
		b *ssa.BasicBlock
		e ssa.Value
	}
	var adds, apps []site
	for _, c := range callsIn(fn) {
		cv, ok := c.(*ssa.Call)
		if !ok {
			continue
		}
		if cv.Call.StaticCallee() == mi.add && unwrap(cv.Call.Args[0]) == acc {
			adds = append(adds, site{cv.Block(), cv.Call.Args[1]})
		}
		if bi, isB := cv.Call.Value.(*ssa.Builtin); isB && bi.Name() == "append" {
			_, elem, one := singleAppend(cv)
			if !one {
				return false
			}
			apps = append(apps, site{cv.Block(), elem})
		}
	}
	match := func(a site, in []site) bool {
		for _, b := range in {
			if a.b == b.b && sameValue(p, a.e, b.e) {
				return true
			}
		}
		return false
	}
	if len(adds) == 0 {
		return false
	}
	for _, a := range adds {
		if !match(a, apps) {
			return false
		}
	}
	for _, a := range apps {
		if !match(a, adds) {
			return false
		}
	}
	return true
}

// onEveryIteration: block b is executed on every trip through the loop body.
func (l *loop) onEveryIteration(b *ssa.BasicBlock) bool {
	for _, la := range l.latches {
		if !(b == la || b.Dominates(la)) {
			return false
		}
	}
	return len(l.latches) > 0
}
