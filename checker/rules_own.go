package main

import (
	"fmt"
	"go/token"
	"go/types"
	"sort"
	"strings"

	"golang.org/x/tools/go/ssa"
)

func init() {
	register(
		&Rule{ID: "OWN-WRITE", Doc: "no store, append, copy or map update targets memory reached through a Biscuit/Block value or a package-level variable (outside init)", Run: ruleOwnWrite, Min: 20},
		&Rule{ID: "OWN-MUT", Doc: "no reference into a token (or package variable) is handed to a parameter that its callee mutates or retains in a mutable holder", Run: ruleOwnMut, Min: 20},
		&Rule{ID: "OWN-CLONE", Doc: "copy constructors (Clone, SplitOff, block builder Build) return storage that does not alias their source", Run: ruleOwnClone, Min: 5},
		&Rule{ID: "OWN-SUMMARY", Doc: "debug: list mutator / capture / accessor summaries", Run: ruleOwnSummary},
	)
}

func (p *Prog) isInitFunc(fn *ssa.Function) bool {
	for fn.Parent() != nil {
		fn = fn.Parent()
	}
	return fn.Name() == "init" || strings.HasPrefix(fn.Name(), "init#")
}

func rootName(p *Prog, r ssa.Value) string {
	switch x := r.(type) {
	case *ssa.Parameter:
		return "parameter " + x.Name() + " of " + p.FuncName(x.Parent())
	case *ssa.Global:
		return "package variable " + x.Name()
	}
	return "?"
}

func ruleOwnWrite(p *Prog, r *Reporter) {
	globalP = p
	o := p.own()
	for _, fn := range p.funcsIn("biscuit", "datalog", "parser") {
		if p.isInitFunc(fn) {
			continue
		}
		name := p.FuncName(fn)
		// every write instruction is an obligation
		for _, b := range fn.Blocks {
			for _, in := range b.Instrs {
				var target ssa.Value
				kind := ""
				// a value with references parked in a package-level channel (a free list / pool of buffers):
				// package-level mutable state like a map or a slice, written by a send
				chanSend := func(ch, val ssa.Value, at ssa.Instruction) {
					if ld, isLd := ch.(*ssa.UnOp); isLd && ld.Op == token.MUL {
						if g, isG := ld.X.(*ssa.Global); isG && g.Pkg != nil && shortNames[g.Pkg.Pkg.Path()] != "" && hasRefs(val.Type(), 0) {
							r.Bad(p.instrPos(at), name, "send on package variable "+g.Name(), "a value holding references is parked in the package-level channel "+g.Name()+" (a free list shared by every token, authorizer and goroutine): whoever receives it next writes storage that an earlier user may still hold")
						}
					}
				}
				switch x := in.(type) {
				case *ssa.Send:
					chanSend(x.Chan, x.X, x)
				case *ssa.Select:
					for _, st := range x.States {
						if st.Dir == types.SendOnly && st.Send != nil {
							chanSend(st.Chan, st.Send, x)
						}
					}
				}
				switch x := in.(type) {
				case *ssa.Store:
					target, kind = x.Addr, "store"
				case *ssa.MapUpdate:
					target, kind = x.Map, "map update"
				case ssa.CallInstruction:
					if bi, ok := x.Common().Value.(*ssa.Builtin); ok {
						switch bi.Name() {
						case "append", "copy", "delete", "clear":
							target, kind = x.Common().Args[0], bi.Name()
						}
					}
				}
				if target == nil {
					continue
				}
				// plain stores to locals are not interesting
				if _, isAlloc := target.(*ssa.Alloc); isAlloc && kind == "store" {
					continue
				}
				og := o.origin(target)
				construct := kind + " " + normaliseD(shortD(target))
				pos := p.instrPos(in)
				// a reference into a token (other than the token/block itself) stored into a holder that has mutating methods
				if st, isSt := in.(*ssa.Store); isSt {
					vo := o.origin(st.Val)
					if fa, isFA := st.Addr.(*ssa.FieldAddr); isFA && vo.kind == oRef && vo.viaToken && !isTokenType(st.Val.Type()) && !isImmutableHolder(fa.X.Type()) && o.holderMutates(fa.X.Type()) {
						r.Bad(pos, name, "alias "+normaliseD(shortD(st.Val))+" into "+typeName(deref(fa.X.Type()))+"."+fieldName(fa), "a reference into a token is stored in a field of "+typeName(deref(fa.X.Type()))+", whose methods write through it: later use of that holder (interning symbols, adding facts) changes the token")
						continue
					}
					// tokens and blocks must not capture memory owned by the caller (mutable after the call)
					if fa, isFA := st.Addr.(*ssa.FieldAddr); isFA && isTokenType(fa.X.Type()) && vo.kind == oRef {
						if pa, isPa := vo.root.(*ssa.Parameter); isPa && !vo.viaToken && !isImmutableHolder(pa.Type()) && !isTokenType(pa.Type()) && pa.Parent() == fn {
							if _, isSlice := pa.Type().Underlying().(*types.Slice); isSlice && fn.Object() != nil && fn.Object().Exported() {
								r.Bad(pos, name, "capture "+pa.Name()+" into "+typeName(deref(fa.X.Type()))+"."+fieldName(fa), "an exported function stores the caller's slice "+pa.Name()+" into a token: the caller can change the token afterwards by reusing its buffer")
								continue
							}
						}
					}
				}
				_, isGlobal := og.root.(*ssa.Global)
				switch {
				case og.kind == oRef && og.viaToken:
					r.Bad(pos, name, construct, "writes memory reached through a Biscuit/Block value ("+rootName(p, og.root)+"): tokens and blocks must not change after construction, and concurrent users of the token race on this write")
				case og.kind == oRef && isGlobal:
					r.Bad(pos, name, construct, "writes a package-level variable outside init ("+rootName(p, og.root)+"): shared by every token and goroutine")
				default:
					why := "target is fresh storage allocated by this function"
					if og.kind == oRef {
						why = "target belongs to " + rootName(p, og.root) + " (the function is a mutator of that parameter; callers are checked by OWN-MUT)"
					}
					r.OK(pos, name, construct, why)
				}
			}
		}
	}
}

// normaliseD removes phi/alloc numbering so obligation keys stay stable under unrelated edits.
func normaliseD(s string) string {
	var b strings.Builder
	for i := 0; i < len(s); i++ {
		c := s[i]
		if c == '#' || (c == 0xcf && i+1 < len(s) && s[i+1] == 0x86) { // '#' or 'φ'
			if c == '#' {
				b.WriteByte('#')
				i++
			} else {
				b.WriteString("φ")
				i += 2
			}
			for i < len(s) && (s[i] >= '0' && s[i] <= '9' || s[i] == '.') {
				i++
			}
			i--
			continue
		}
		b.WriteByte(c)
	}
	return b.String()
}

func ruleOwnMut(p *Prog, r *Reporter) {
	globalP = p
	o := p.own()
	for _, fn := range p.funcsIn("biscuit", "datalog", "parser") {
		if p.isInitFunc(fn) {
			continue
		}
		name := p.FuncName(fn)
		for _, c := range callsIn(fn) {
			cc := c.Common()
			if _, isB := cc.Value.(*ssa.Builtin); isB {
				continue
			}
			args := callArgs(cc)
			callees := p.CG().Callees(c)
			for ai, a := range args {
				ao := o.origin(a)
				// a value that is, on some path, the content of a repository package variable (x := param; if x == nil { x = pkgVar })
				if g := o.repoGlobalLeaf(a, 0); g != nil && !ao.viaToken {
					if _, already := ao.root.(*ssa.Global); !already {
						ao = origin{root: g, kind: oVal}
					}
				}
				if ao.kind == oNone || ao.kind == oLocal {
					continue
				}
				_, isGlobal := ao.root.(*ssa.Global)
				if !ao.viaToken && !isGlobal {
					continue
				}
				if isTokenType(a.Type()) {
					continue // the token/block itself: its callee is analysed as a token-facing function
				}
				cname := "dynamic callee"
				if len(callees) > 0 {
					cname = calleeName(callees[0])
					if cc.IsInvoke() {
						cname = "interface method " + cc.Method.Name()
					}
				}
				construct := fmt.Sprintf("arg %d of %s: %s", ai, cname, normaliseD(shortD(a)))
				pos := p.instrPos(c)
				bad := ""
				for _, callee := range callees {
					if why, ok := o.mutates[callee][ai]; ok {
						bad = calleeName(callee) + " mutates this argument: " + why
					}
					if why, ok := o.capture[callee][ai]; ok && ao.kind == oRef {
						bad = calleeName(callee) + " retains this argument in a mutable holder: " + why
					}
				}
				what := "a token"
				if isGlobal {
					what = "a package-level variable"
				}
				// code outside the repository receiving a reference into a token: only contract-listed read-only callees
				if bad == "" && ao.viaToken && ao.kind == oRef {
					for _, callee := range callees {
						if callee.Blocks != nil && p.isRepoFunc(callee) {
							continue
						}
						if !readOnlyExternal(calleeName(callee)) {
							bad = "it is passed to " + calleeName(callee) + " outside the repository, which is not in the table of callees known to neither write through nor retain their arguments (e.g. bytes.NewBuffer keeps the slice and later writes append into its spare capacity)"
						}
					}
				}
				// code outside the repository receiving the address of package-level state (caches, pools, shared buffers)
				if bad == "" && isGlobal && ao.kind == oRef {
					if _, isPtr := a.Type().Underlying().(*types.Pointer); isPtr {
						for _, callee := range callees {
							if callee.Blocks == nil || !p.isRepoFunc(callee) {
								bad = "its address is passed to " + calleeName(callee) + " outside the repository, which may write it: package-level mutable state shared by all tokens, authorizers and goroutines"
							}
						}
					}
				}
				// a stateful object kept in a package variable of the repository (buffered reader, pool of readers, hash)
				// and handed, as an interface, to code outside the repository that calls its methods
				if g, isG := ao.root.(*ssa.Global); bad == "" && isG && g.Pkg != nil && shortNames[g.Pkg.Pkg.Path()] != "" && !o.aliasOfExternalGlobal(g) {
					if _, isI := a.Type().Underlying().(*types.Interface); isI && !isErrorType(a.Type()) {
						for _, callee := range callees {
							if (callee.Blocks == nil || !p.isRepoFunc(callee)) && !readOnlyExternal(calleeName(callee)) {
								bad = "the object held in this package variable is passed to " + calleeName(callee) + " outside the repository, which calls its methods: one stateful object (a buffered reader, a hash, an encoder) is then used by every goroutine that works with a token at the same time"
							}
						}
					}
				}
				if bad != "" {
					r.Bad(pos, name, construct, "reference into "+what+" ("+rootName(p, ao.root)+") handed to a mutator: "+bad)
				} else {
					r.OK(pos, name, construct, "callee neither writes through nor retains this reference into "+what)
				}
			}
		}
	}
}

// freshRef: v is storage newly allocated by the current function (not aliasing rooted memory).
func (o *ownAnalysis) freshRef(v ssa.Value, depth int) (bool, string) {
	if depth > 6 {
		return false, "too deep"
	}
	v0 := v
	v = unwrap(v)
	switch x := v.(type) {
	case *ssa.Const:
		return true, "nil/constant"
	case *ssa.MakeSlice, *ssa.MakeMap, *ssa.MakeChan:
		return true, "make"
	case *ssa.Alloc:
		// a new cell holding a slice / map / pointer is only as fresh as what is stored into it
		// (newFacts := new(FactSet); *newFacts = *w.facts copies the header and shares the array)
		if hasRefs(deref(x.Type()), 0) {
			if _, isStruct := deref(x.Type()).Underlying().(*types.Struct); !isStruct {
				for _, st := range storesDirect(x) {
					if ok, why := o.freshRef(st.Val, depth+1); !ok {
						return false, "new cell filled with a value that is not fresh: " + why
					}
				}
			}
		}
		return true, "new allocation"
	case *ssa.Slice:
		if a, ok := x.X.(*ssa.Alloc); ok {
			_ = a
			return true, "slice of a new array"
		}
		// x[:0:0]-style zero-capacity reslice
		if x.Max != nil && x.High != nil {
			if hi, ok1 := constInt(x.High); ok1 {
				if mx, ok2 := constInt(x.Max); ok2 && hi == mx {
					return true, "zero-capacity reslice"
				}
			}
		}
		return false, "reslice of " + shortD(x.X)
	case *ssa.Call:
		if bi, ok := x.Call.Value.(*ssa.Builtin); ok && bi.Name() == "append" {
			return o.freshRef(x.Call.Args[0], depth+1)
		}
		if f := x.Call.StaticCallee(); f != nil {
			switch f.Name() {
			case "Clone", "SplitOff":
				return true, "result of " + calleeName(f)
			}
			if calleeName(f) == "google.golang.org/protobuf/proto.Marshal" {
				return true, "result of proto.Marshal"
			}
		}
		if og := o.origin(v0); og.kind == oNone {
			return true, "call result not aliasing any parameter"
		}
	case *ssa.Phi:
		for _, e := range x.Edges {
			if ok, why := o.freshRef(e, depth+1); !ok {
				return false, why
			}
		}
		return true, "all incoming values fresh"
	}
	if og := o.origin(v0); og.kind != oNone {
		return false, "aliases " + rootName(o.p, og.root) + " (" + shortD(v0) + ")"
	}
	return false, "not provably fresh: " + shortD(v0)
}

func ruleOwnClone(p *Prog, r *Reporter) {
	globalP = p
	o := p.own()
	// anchors: every method named Clone in package datalog, SymbolTable.SplitOff, and the block builder's Build
	var targets []*ssa.Function
	for _, fn := range p.funcsIn("datalog", "biscuit") {
		if fn.Parent() != nil || fn.Signature.Recv() == nil {
			continue
		}
		switch {
		case fn.Name() == "Clone", fn.Name() == "SplitOff":
			targets = append(targets, fn)
		case fn.Name() == "Build" && isRepoNamed(fn.Signature.Recv().Type(), "biscuit", "blockBuilder"):
			targets = append(targets, fn)
		}
	}
	sort.Slice(targets, func(i, j int) bool { return p.FuncName(targets[i]) < p.FuncName(targets[j]) })
	for _, fn := range targets {
		name := p.FuncName(fn)
		for _, ret := range returnsOf(fn) {
			rv := retVal(ret, 0)
			pos := p.instrPos(ret)
			p.checkFreshResult(r, o, fn, rv, pos, name)
		}
	}
	// every Block literal assembled by a method of a mutable holder (the builders): the block's
	// reference fields must not alias the holder, which stays usable after the block was built
	for _, fn := range p.funcsIn("biscuit") {
		if fn.Parent() != nil || fn.Signature.Recv() == nil || !o.holderMutates(fn.Signature.Recv().Type()) {
			continue
		}
		for _, a := range allocsOf(fn, "biscuit", "Block") {
			st := deref(a.Type()).Underlying().(*types.Struct)
			fields := litFields(a)
			for i := 0; i < st.NumFields(); i++ {
				f := st.Field(i)
				v, set := fields[f.Name()]
				if !set || !hasRefs(f.Type(), 0) {
					continue
				}
				ok, why := o.freshRef(v, 0)
				r.Check(ok, p.instrPos(a), p.FuncName(fn), "Block literal field "+f.Name(), "fresh: "+why,
					"the built block shares storage with its builder ("+why+"): adding to the builder afterwards changes a block/token that was already built")
			}
		}
	}
}

// checkFreshResult verifies the returned value and (one level down) its reference-typed components.
func (p *Prog) checkFreshResult(r *Reporter, o *ownAnalysis, fn *ssa.Function, rv ssa.Value, pos, name string) {
	rvU := unwrap(rv)
	// value results (struct returned by value): look at the local it was loaded from
	var alloc *ssa.Alloc
	switch x := rvU.(type) {
	case *ssa.Alloc:
		alloc = x
	case *ssa.UnOp:
		if a, ok := x.X.(*ssa.Alloc); ok {
			alloc = a
		}
	case *ssa.MakeMap:
		r.OK(pos, name, "result", "new map")
		return
	}
	if alloc == nil {
		ok, why := o.freshRef(rv, 0)
		r.Check(ok, pos, name, "result", "result is fresh: "+why, "result "+why)
		return
	}
	elem := deref(alloc.Type())
	switch u := elem.Underlying().(type) {
	case *types.Struct:
		fields := litFields(alloc)
		// whole-struct copy `*new = *old` would alias every reference field
		for _, st := range storesDirect(alloc) {
			if og := o.origin(st.Val); og.kind != oNone {
				r.Bad(p.instrPos(st), name, "result struct copy", "the result is a shallow copy of "+shortD(st.Val)+": its reference fields alias the source")
			}
		}
		for i := 0; i < u.NumFields(); i++ {
			f := u.Field(i)
			if !hasRefs(f.Type(), 0) {
				continue
			}
			v, set := fields[f.Name()]
			construct := "result field " + f.Name()
			if !set {
				r.OK(pos, name, construct, "left zero")
				continue
			}
			ok, why := o.freshRef(v, 0)
			r.Check(ok, pos, name, construct, "fresh: "+why, "the copy shares storage with its source: field "+f.Name()+" "+why)
		}
	case *types.Slice, *types.Map:
		sts := storesDirect(alloc)
		if len(sts) == 0 {
			r.Bad(pos, name, "result", "nothing stored into the result")
		}
		for _, st := range sts {
			ok, why := o.freshRef(st.Val, 0)
			r.Check(ok, p.instrPos(st), name, "result backing store", "fresh: "+why, "the copy shares its backing array with the source ("+why+"): holders that append independently overwrite each other's elements")
		}
	default:
		r.OK(pos, name, "result", "scalar result")
	}
}

func ruleOwnSummary(p *Prog, r *Reporter) {
	o := p.own()
	var lines []string
	for f, m := range o.mutates {
		for i, why := range m {
			lines = append(lines, fmt.Sprintf("MUT  %s #%d: %s", p.FuncName(f), i, why))
		}
	}
	for f, m := range o.capture {
		for i, why := range m {
			lines = append(lines, fmt.Sprintf("CAP  %s #%d: %s", p.FuncName(f), i, why))
		}
	}
	for f, m := range o.retRef {
		for i := range m {
			lines = append(lines, fmt.Sprintf("RET  %s #%d", p.FuncName(f), i))
		}
	}
	sort.Strings(lines)
	for _, l := range lines {
		fmt.Println(l)
	}
	r.OK("-", "-", "summary", "printed")
}

// readOnlyExternal: contract table of functions outside the repository that neither write through
// nor retain the slices / pointers they are given (one line of reason each).
func readOnlyExternal(name string) bool {
	for _, pfx := range []string{
		"crypto/ed25519.Verify", "crypto/ed25519.Sign", "crypto/ed25519.NewKeyFromSeed", // read key/message/seed bytes, return fresh values
		"bytes.Equal", "bytes.Compare", "bytes.Contains", "bytes.HasPrefix", "bytes.HasSuffix", // pure comparisons
		"google.golang.org/protobuf/proto.Marshal", "google.golang.org/protobuf/proto.Unmarshal", "google.golang.org/protobuf/proto.Size", "google.golang.org/protobuf/proto.Equal", // Marshal reads the message; Unmarshal reads the input bytes (copies bytes fields) and writes only its destination message
		"fmt.", "strings.", "strconv.", "encoding/hex.EncodeToString", "encoding/hex.DecodeString", // formatting / pure string functions
		"errors.", "time.", "math/big.", "regexp.", "reflect.TypeOf",
	} {
		if strings.HasPrefix(name, pfx) {
			return true
		}
	}
	return false
}

// repoGlobalLeaf: v is, on some path, the value loaded from a package-level variable of the repository
// (followed through phis and interface conversions).
func (o *ownAnalysis) repoGlobalLeaf(v ssa.Value, depth int) *ssa.Global {
	if depth > 6 || v == nil {
		return nil
	}
	switch x := v.(type) {
	case *ssa.Phi:
		for _, e := range x.Edges {
			if g := o.repoGlobalLeaf(e, depth+1); g != nil {
				return g
			}
		}
	case *ssa.MakeInterface:
		return o.repoGlobalLeaf(x.X, depth+1)
	case *ssa.ChangeInterface:
		return o.repoGlobalLeaf(x.X, depth+1)
	case *ssa.ChangeType:
		return o.repoGlobalLeaf(x.X, depth+1)
	case *ssa.UnOp:
		if g, ok := x.X.(*ssa.Global); ok && x.Op == token.MUL && g.Pkg != nil && shortNames[g.Pkg.Pkg.Path()] != "" {
			if o.aliasOfExternalGlobal(g) {
				return nil // var defaultRNG = rand.Reader: another name for the standard library's own (concurrency-safe) object
			}
			return g
		}
	}
	return nil
}

// aliasOfExternalGlobal: every store to the repository package variable g (its initialiser included)
// stores the value of a package variable of another module (e.g. crypto/rand.Reader).
func (o *ownAnalysis) aliasOfExternalGlobal(g *ssa.Global) bool {
	n := 0
	fns := append([]*ssa.Function{}, o.p.Funcs...)
	if ini := g.Pkg.Func("init"); ini != nil {
		fns = append(fns, ini)
	}
	for _, fn := range fns {
		for _, b := range fn.Blocks {
			for _, in := range b.Instrs {
				st, ok := in.(*ssa.Store)
				if !ok || st.Addr != ssa.Value(g) {
					continue
				}
				n++
				v := st.Val
				for {
					switch y := v.(type) {
					case *ssa.MakeInterface:
						v = y.X
						continue
					case *ssa.ChangeInterface:
						v = y.X
						continue
					}
					break
				}
				u, isU := v.(*ssa.UnOp)
				if !isU || u.Op != token.MUL {
					return false
				}
				eg, isG := u.X.(*ssa.Global)
				if !isG || eg.Pkg == nil || shortNames[eg.Pkg.Pkg.Path()] != "" {
					return false
				}
			}
		}
	}
	return n > 0
}
