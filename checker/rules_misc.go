package main

import (
	"fmt"
	"go/token"
	"go/types"
	"strings"

	"golang.org/x/tools/go/ssa"
)

func init() {
	register(
		&Rule{ID: "KI-WRITERS", Doc: "the builder's / token's configuration (root key id, random source, root key) is written only by constructors and option appliers; Build does not reset it", Run: ruleKIWriters, Min: 4},
		&Rule{ID: "OWN-CLOSURE", Doc: "option closures store only values they create themselves or scalars, never a captured mutable object (which every configured instance would share)", Run: ruleOwnClosure, Min: 2},
		&Rule{ID: "LM-JOIN", Doc: "evaluation really ends when it is over: the join producer polls its stop channel at every step, Apply returns only after the producer has exited, the worker never commits after the deadline and always reports, and Run waits for it", Run: ruleLMJoin, Min: 5},
		&Rule{ID: "LM-QUERY", Doc: "every application of a rule on behalf of the authorizer is bounded by the world's limits and its error reaches the caller", Run: ruleLMQuery, Min: 2},
		&Rule{ID: "BLD-PURE", Doc: "building a token or a block does not modify the builder it is built from", Run: ruleBldPure, Min: 1},
		&Rule{ID: "PN-STDOUT", Doc: "library code does not write to standard output / standard error", Run: rulePNStdout, Min: 1},
		&Rule{ID: "EX-DATECONV", Doc: "signed seconds (time.Time.Unix) become an unsigned date only after a range test, and the encoder refuses wrapped dates", Run: ruleEXDateConv, Min: 2},
		&Rule{ID: "SN-FRESH", Doc: "a snapshot replaces the authorizer's symbol table only when the authorizer holds no content yet (the snapshot's indexes would reinterpret existing facts and rules)", Run: ruleSNFresh, Min: 1},
		&Rule{ID: "SN-ALL", Doc: "saving and loading a snapshot treat every fact, rule, check, policy and query: no element is skipped by a continue or a conditional add", Run: ruleSNAll, Min: 4},
		&Rule{ID: "SN-FIELDS", Doc: "the authorizer snapshot writes every field of pb.AuthorizerPolicies and the loader reads every field; written version = accepted version", Run: ruleSNFields, Min: 12},
		&Rule{ID: "SN-KIND", Doc: "policy kinds are mapped totally, inversely and name-consistently when saving and loading", Run: ruleSNKind, Min: 4},
		&Rule{ID: "SN-KEEP", Doc: "saving a snapshot leaves the authorizer as it was: SerializePolicies stores into no field of the authorizer and applies no shrinking operation (one that re-slices its receiver, like SymbolTable.SplitOff) to its state", Run: ruleSNKeep, Min: 1},
		&Rule{ID: "SN-DIRTY", Doc: "saving is refused once the world has been run; every successful Run marks the authorizer dirty", Run: ruleSNDirty, Min: 3},
		&Rule{ID: "SN-SYMS", Doc: "the snapshot's symbol table is the one its content was converted with; the loader extends its table before converting", Run: ruleSNSyms, Min: 4},
		&Rule{ID: "DT-MAPRANGE", Doc: "every range over a map has an order-insensitive body", Run: ruleDTMapRange, Min: 1},
		&Rule{ID: "DT-SOURCES", Doc: "code reachable from Authorize/Query contains no randomness, wall-clock read or multi-way select other than the documented timeout", Run: ruleDTSources, Min: 2},
		&Rule{ID: "FS-DEDUP", Doc: "facts enter a fact set only through Insert, which appends only after a full-range structural-equality scan found no equal fact", Run: ruleFSDedup, Min: 2},
		&Rule{ID: "EN-APPLYALL", Doc: "each iteration applies every rule (full range) to the current facts and merges all new facts before the fixpoint test", Run: ruleENApplyAll, Min: 3},
		&Rule{ID: "EN-CONSUME", Doc: "Rule.Apply inserts a head instance for every received combination; it leaves its receive loop early only with an error", Run: ruleENConsume, Min: 3},
		&Rule{ID: "EN-UNIFY", Doc: "the join binds variables by visiting every term position of every body predicate and pairing position j of the predicate with position j of the matched fact", Run: ruleENUnify, Min: 3},
		&Rule{ID: "EN-EXITS", Doc: "the enumeration goroutine of combine ends only for one of the enumerated reasons", Run: ruleENExits, Min: 5},
		&Rule{ID: "EN-HEAD", Doc: "the derived fact is the rule head with every variable position (full range) replaced by its matched value; a missing binding is an error; QueryRule applies the rule to the world's facts", Run: ruleENHead, Min: 3},
		&Rule{ID: "EN-EXPR", Doc: "a combination is sent only if every expression of the rule (full range) evaluated to exactly the boolean true", Run: ruleENExpr, Min: 3},
		&Rule{ID: "EN-ODOMETER", Doc: "the join's index odometer: a position is incremented only below the last fact, every wrapped position moves the cursor back by exactly one, exhaustion is reported only at position 0", Run: ruleENOdometer, Min: 4},
		&Rule{ID: "EN-MATCH", Doc: "Predicate.Match accepts only equal name and arity and, position by position, a variable or an Equal constant", Run: ruleENMatch, Min: 3},
	)
}

func authorizerMethod(p *Prog, name string) *ssa.Function {
	_, ms := authorizerImpl(p)
	for _, m := range ms {
		if m.Name() == name {
			return m
		}
	}
	return nil
}

func ruleSNFields(p *Prog, r *Reporter) {
	globalP = p
	ser := authorizerMethod(p, "SerializePolicies")
	if ser == nil {
		r.Dunno("?", "biscuit.authorizer.SerializePolicies", "method", "not found")
		return
	}
	ap := p.NamedType("pb", "AuthorizerPolicies")
	if ap == nil {
		r.Dunno("?", "pb.AuthorizerPolicies", "type", "not found")
		return
	}
	st := ap.Underlying().(*types.Struct)
	var lit *ssa.Alloc
	for _, a := range allocsOf(ser, "pb", "AuthorizerPolicies") {
		lit = a
	}
	if lit == nil {
		r.Bad(p.Pos(ser.Pos()), p.FuncName(ser), "snapshot literal", "no pb.AuthorizerPolicies literal")
		return
	}
	set := litFields(lit)
	// readers: all functions reachable from LoadPolicies
	load := authorizerMethod(p, "LoadPolicies")
	if load == nil {
		r.Dunno("?", "biscuit.authorizer.LoadPolicies", "method", "not found")
		return
	}
	read := map[string]bool{}
	for fn := range p.CG().Reach(load) {
		if fn.Blocks == nil || p.pkgShort(fn) != "biscuit" {
			continue
		}
		for _, b := range fn.Blocks {
			for _, in := range b.Instrs {
				switch x := in.(type) {
				case *ssa.FieldAddr:
					if types.Identical(deref(x.X.Type()), ap) {
						read[fieldName(x)] = true
					}
				case ssa.CallInstruction:
					if f := x.Common().StaticCallee(); f != nil && f.Signature.Recv() != nil && types.Identical(deref(f.Signature.Recv().Type()), ap) && strings.HasPrefix(f.Name(), "Get") {
						read[strings.TrimPrefix(f.Name(), "Get")] = true
					}
				}
			}
		}
	}
	for i := 0; i < st.NumFields(); i++ {
		if !isPayloadField(ap, st, i) {
			continue
		}
		f := st.Field(i).Name()
		_, ok := set[f]
		r.Check(ok, p.instrPos(lit), p.FuncName(ser), "snapshot writes "+f, "field written", "the snapshot omits AuthorizerPolicies."+f+": that part of the authorizer is lost on restore")
		r.Check(read[f], p.Pos(load.Pos()), p.FuncName(load), "loader reads "+f, "field read", "the loader never reads AuthorizerPolicies."+f)
	}
	// version written == version accepted
	wv, isC := int64(-1), false
	if c, ok := set["Version"].(*ssa.Call); ok && len(c.Call.Args) == 1 {
		wv, isC = constInt(c.Call.Args[0])
	}
	accepted := map[string]bool{}
	for _, tb := range p.switchTables(load) {
		for _, e := range tb.entries {
			for _, s := range e.body {
				_ = s
			}
		}
	}
	for _, b := range load.Blocks {
		for _, in := range b.Instrs {
			if bo, ok := in.(*ssa.BinOp); ok && bo.Op == token.EQL && strings.Contains(p.D(bo.X), "GetVersion(") {
				if k, ok := constInt(bo.Y); ok {
					accepted[fmt.Sprint(k)] = true
				}
			}
		}
	}
	r.Check(isC && accepted[fmt.Sprint(wv)] && len(accepted) == 1, p.Pos(ser.Pos()), p.FuncName(ser), "snapshot version", fmt.Sprintf("version %d written and exactly that version accepted", wv), fmt.Sprintf("snapshot version written (%d) is not the single version the loader accepts (%v)", wv, accepted))
}

func ruleSNKind(p *Prog, r *Reporter) {
	globalP = p
	ser := authorizerMethod(p, "SerializePolicies")
	ld := authorizerMethod(p, "loadPoliciesV2")
	if ld == nil {
		// any function reachable from LoadPolicies that switches on pb policy kinds
		if l := authorizerMethod(p, "LoadPolicies"); l != nil {
			for fn := range p.CG().Reach(l) {
				if fn.Blocks != nil && p.pkgShort(fn) == "biscuit" && len(p.switchMapConstToConst(fn)) > 0 && fn != l {
					if _, ok := p.switchMapConstToConst(fn)["Policy_Allow"]; ok {
						ld = fn
					}
				}
			}
		}
	}
	if ser == nil || ld == nil {
		r.Dunno("?", "biscuit.authorizer", "policy kind converters", "SerializePolicies / policy loader not found")
		return
	}
	sm := p.switchMapConstToConst(ser)
	lm := p.switchMapConstToConst(ld)
	for _, bad := range loopSharedAddresses(p, ser) {
		r.Bad(bad.pos, p.FuncName(ser), "shared address "+bad.what, "the address of a variable declared outside the loop is stored into an object built on every iteration: all "+bad.what+" values end up equal to the last one (every saved policy gets the kind of the last policy)")
	}
	for _, k := range []string{"Allow", "Deny"} {
		r.Check(sm["PolicyKind"+k] == "Policy_"+k, p.Pos(ser.Pos()), p.FuncName(ser), "save PolicyKind"+k, "-> pb.Policy_"+k, "PolicyKind"+k+" is saved as pb."+sm["PolicyKind"+k])
		r.Check(lm["Policy_"+k] == "PolicyKind"+k, p.Pos(ld.Pos()), p.FuncName(ld), "load Policy_"+k, "-> PolicyKind"+k, "pb.Policy_"+k+" is loaded as "+lm["Policy_"+k]+": allow and deny policies change meaning across a save/load")
	}
}

func ruleSNDirty(p *Prog, r *Reporter) {
	globalP = p
	ser := authorizerMethod(p, "SerializePolicies")
	if ser == nil {
		r.Dunno("?", "biscuit.authorizer.SerializePolicies", "method", "not found")
		return
	}
	V := ser.Params[0].Name()
	for _, ret := range returnsOf(ser) {
		if isErrorReturn(ret) {
			continue
		}
		ok := false
		for _, g := range guardsOf(ret.Block()) {
			if p.D(g.cond) == V+".dirty" && !g.val {
				ok = true
			}
		}
		r.Check(ok, p.instrPos(ret), p.FuncName(ser), "save only when clean", "a snapshot is produced only while the world has not been run", "a snapshot can be produced after the world was run (derived facts would be saved as if they were authorizer facts)")
	}
	// what is returned is exactly the freshly marshalled snapshot (no cached bytes)
	for _, ret := range returnsOf(ser) {
		if isErrorReturn(ret) {
			continue
		}
		e0, is0 := retVal(ret, 0).(*ssa.Extract)
		okM := false
		if is0 {
			if c, isC := e0.Tuple.(*ssa.Call); isC && isCallTo(&c.Call, "google.golang.org/protobuf/proto.Marshal") {
				if a, isA := unwrap(c.Call.Args[0]).(*ssa.Alloc); isA && isNamed(deref(a.Type()), pkgPathOf("pb"), "AuthorizerPolicies") {
					okM = true
				}
			}
		}
		r.Check(okM, p.instrPos(ret), p.FuncName(ser), "returns the new snapshot", "the result is the marshalled literal built in this call", "SerializePolicies can return bytes that are not the snapshot built in this call (cached / stale)")
	}
	// only Reset (and the constructor) may clear the evaluated flag
	_, ms := authorizerImpl(p)
	for _, m := range ms {
		for _, fs := range fieldStoresVia(m, m.Params[0]) {
			if fs.field != "dirty" {
				continue
			}
			if k, isC := fs.st.Val.(*ssa.Const); isC && k.Value != nil && k.Value.String() == "false" {
				r.Check(m.Name() == "Reset", p.instrPos(fs.st), p.FuncName(m), "clear dirty", "the evaluated flag is cleared only by Reset, together with the world", "the evaluated flag is cleared outside Reset while the evaluated world is kept: saving is allowed again and stores derived / token facts")
			}
		}
	}
	for _, m := range ms {
		for _, c := range callsIn(m) {
			cv, ok := c.(*ssa.Call)
			if !ok || !isCallTo(&cv.Call, "datalog.World.Run") || p.D(cv.Call.Args[0]) != m.Params[0].Name()+".world" {
				continue
			}
			// dirty = true before the world is touched by this evaluation: the store dominates the Run call
			// and, in the same method, every AddFact / AddRule on the authority-level world (token content)
			okD := false
			why := "the authority-level world is run without the authorizer having been marked as evaluated first: when the run fails (limit, invalid rule, expression error) the world already holds token content and derived facts, and a later snapshot saves them"
			W := m.Params[0].Name() + ".world"
			for _, fs := range fieldStoresVia(m, m.Params[0]) {
				if fs.field != "dirty" {
					continue
				}
				k, isC := fs.st.Val.(*ssa.Const)
				if !isC || k.Value == nil || k.Value.String() != "true" || !instrDominates(fs.st, cv) {
					continue
				}
				okD = true
				for _, c2 := range callsIn(m) {
					if (isCallTo(c2.Common(), "datalog.World.AddFact") || isCallTo(c2.Common(), "datalog.World.AddRule")) && p.D(c2.Common().Args[0]) == W {
						if !instrDominates(fs.st, c2) {
							okD = false
							why = "token content is loaded into the authority-level world before the authorizer is marked as evaluated: an error while loading or running leaves it savable with that content"
						}
					}
				}
			}
			r.Check(okD, p.instrPos(cv), p.FuncName(m), "dirty before Run", "the authorizer is marked as evaluated before this call loads or derives anything into its world", why)
		}
	}
}

func ruleSNSyms(p *Prog, r *Reporter) {
	globalP = p
	ser := authorizerMethod(p, "SerializePolicies")
	if ser == nil {
		r.Dunno("?", "biscuit.authorizer.SerializePolicies", "method", "not found")
		return
	}
	V := ser.Params[0].Name()
	for _, a := range allocsOf(ser, "pb", "AuthorizerPolicies") {
		s := p.D(litFields(a)["Symbols"])
		r.Check(strings.Contains(s, V+".symbols"), p.instrPos(a), p.FuncName(ser), "snapshot symbols", "the authorizer's symbol table is saved", "the snapshot saves "+s+" as symbol table, not the authorizer's table its content was interned in")
	}
	symD := func(v ssa.Value) bool {
		d := p.D(v)
		return d == V+".symbols" || d == "^"+V+".symbols"
	}
	for _, f2 := range withClosures(ser) {
		for _, c := range callsIn(f2) {
			if f := c.Common().StaticCallee(); f != nil && f.Name() == "convert" && len(c.Common().Args) == 2 {
				r.Check(symD(c.Common().Args[1]), p.instrPos(c), p.FuncName(ser), "convert with authorizer symbols", "checks/policies interned into the saved table", "a check or policy is interned into "+shortD(c.Common().Args[1])+" but the snapshot saves the authorizer's table")
			}
		}
	}
	// a function literal that interns with the authorizer's table (handed to an element-wise helper)
	internClosure := func(x ssa.Value) bool {
		mc, ok := x.(*ssa.MakeClosure)
		if !ok {
			return false
		}
		cl, _ := mc.Fn.(*ssa.Function)
		if cl == nil {
			return false
		}
		for _, c := range callsIn(cl) {
			if f := c.Common().StaticCallee(); f != nil && f.Name() == "convert" && len(c.Common().Args) == 2 && symD(c.Common().Args[1]) {
				return true
			}
		}
		return false
	}
	// the saved checks and policies must visibly be the result of convert(..., v.symbols) in this function
	for _, a := range allocsOf(ser, "pb", "AuthorizerPolicies") {
		for _, fld := range []string{"Checks", "Policies"} {
			v := litFields(a)[fld]
			ok := v != nil && dependsOn(v, func(x ssa.Value) bool {
				if internClosure(x) {
					return true
				}
				c, isC := x.(*ssa.Call)
				return isC && c.Call.StaticCallee() != nil && c.Call.StaticCallee().Name() == "convert" && len(c.Call.Args) == 2 && p.D(c.Call.Args[1]) == V+".symbols"
			})
			r.Check(ok, p.instrPos(a), p.FuncName(ser), "saved "+fld+" interned", "the saved "+fld+" are produced by convert(..., "+V+".symbols)", "cannot show that the saved "+fld+" were interned into the authorizer's symbol table that is saved with them (conversion into a copy of the table loses their symbols)")
		}
	}
	// symbols are read for saving only after everything was interned: the Symbols value is computed after the conversions
	for _, a := range allocsOf(ser, "pb", "AuthorizerPolicies") {
		sv, _ := litFields(a)["Symbols"].(ssa.Instruction)
		okOrder := sv != nil
		for _, c := range callsIn(ser) {
			f := c.Common().StaticCallee()
			interns := f != nil && f.Name() == "convert"
			for _, a := range c.Common().Args {
				if internClosure(a) {
					interns = true
				}
			}
			if interns && sv != nil && !instrDominates(c, sv) && reachAvoiding(sv.Block(), c.Block(), nil) && sv.Block() != c.Block() {
				okOrder = false
			}
		}
		r.Check(okOrder, p.instrPos(a), p.FuncName(ser), "symbols read last", "the symbol table is captured after all checks and policies were interned", "the symbol table is captured before some check or policy is interned into it")
	}
	ld := authorizerMethod(p, "loadPoliciesV2")
	if ld == nil {
		r.Dunno("?", "biscuit.authorizer.loadPoliciesV2", "method", "not found")
		return
	}
	LV := ld.Params[0].Name()
	// the table the loader works on: the authorizer's own, or a local one installed as the authorizer's
	// table on every successful return (content built aside, then committed)
	var installed ssa.Value
	for _, b := range ld.Blocks {
		for _, in := range b.Instrs {
			st, ok := in.(*ssa.Store)
			if !ok {
				continue
			}
			fa, isFA := st.Addr.(*ssa.FieldAddr)
			if !isFA || fa.X != ssa.Value(ld.Params[0]) || fieldName(fa) != "symbols" {
				continue
			}
			all := true
			for _, ret := range returnsOf(ld) {
				if isErrorReturn(ret) {
					continue
				}
				if !(b == ret.Block() || b.Dominates(ret.Block())) {
					all = false
				}
			}
			if all {
				if _, isCall := st.Val.(*ssa.Call); isCall {
					installed = st.Val
				}
			}
		}
	}
	isTable := func(v ssa.Value) bool {
		return p.D(v) == LV+".symbols" || (installed != nil && (v == installed || p.D(v) == p.D(installed)))
	}
	var ext ssa.CallInstruction
	for _, c := range callsIn(ld) {
		if isCallTo(c.Common(), "datalog.SymbolTable.Extend") && isTable(c.Common().Args[0]) && dependsOn(c.Common().Args[1], func(x ssa.Value) bool { return strings.HasSuffix(p.D(x), ".Symbols") }) {
			ext = c
		}
	}
	if ext == nil {
		r.Bad(p.Pos(ld.Pos()), p.FuncName(ld), "extend symbols", "the loader does not extend the authorizer's symbol table with the snapshot's symbols")
		return
	}
	r.OK(p.instrPos(ext), p.FuncName(ld), "extend symbols", "authorizer table extended with the snapshot's symbols")
	for _, c := range callsIn(ld) {
		f := c.Common().StaticCallee()
		if f == nil {
			continue
		}
		isConv := strings.HasPrefix(f.Name(), "fromDatalog") || f.Name() == "AddFact" || f.Name() == "AddRule"
		if !isConv {
			continue
		}
		r.Check(instrDominates(ext, c), p.instrPos(c), p.FuncName(ld), f.Name()+" after Extend", "content is interpreted only after the table was extended", f.Name()+" runs before the symbol table is extended: symbol indexes of the snapshot resolve to the wrong strings")
		if strings.HasPrefix(f.Name(), "fromDatalog") {
			r.Check(isTable(c.Common().Args[0]), p.instrPos(c), p.FuncName(ld), f.Name()+" table", "resolved against the extended authorizer table", "resolved against "+shortD(c.Common().Args[0]))
		}
	}
}

// ---- determinism

func ruleDTMapRange(p *Prog, r *Reporter) {
	globalP = p
	n := 0
	for _, fn := range p.funcsIn("biscuit", "datalog") {
		name := p.FuncName(fn)
		for _, b := range fn.Blocks {
			for _, in := range b.Instrs {
				rg, ok := in.(*ssa.Range)
				if !ok {
					continue
				}
				if _, isMap := rg.X.Type().Underlying().(*types.Map); !isMap {
					continue
				}
				n++
				// the loop: natural loop whose header contains the Next of this iterator
				var lp *loop
				for _, l := range naturalLoops(fn) {
					for _, hin := range l.header.Instrs {
						if nx, isN := hin.(*ssa.Next); isN && nx.Iter == ssa.Value(rg) {
							lp = l
						}
					}
				}
				if lp == nil {
					r.Dunno(p.instrPos(rg), name, "range over map", "loop not recognised")
					continue
				}
				bad := ""
				// blocks lexically in the loop: body + blocks dominated by the body entry that leave it
				for _, bb := range fn.Blocks {
					inLoop := lp.body[bb]
					if !inLoop && len(lp.header.Succs) > 0 && lp.header.Succs[0].Dominates(bb) {
						inLoop = true
					}
					if !inLoop {
						continue
					}
					for _, x := range bb.Instrs {
						switch y := x.(type) {
						case *ssa.Store:
							if _, local := y.Addr.(*ssa.Alloc); !local {
								bad = "stores to memory in iteration order"
							}
						case *ssa.Send:
							bad = "sends in iteration order"
						case *ssa.Return:
							for i := range y.Results {
								if _, isC := retVal(y, i).(*ssa.Const); !isC {
									bad = "returns an iteration-dependent value"
								}
							}
						case ssa.CallInstruction:
							if bi, isB := y.Common().Value.(*ssa.Builtin); isB {
								if bi.Name() == "append" {
									bad = "appends in iteration order"
								}
								continue
							}
							bad = "calls " + shortD(y.Common().Value) + " in iteration order"
						}
					}
				}
				r.Check(bad == "", p.instrPos(rg), name, "range over "+shortType(rg.X.Type()), "body is order-insensitive (map inserts / constant-result existence tests only)", "the body of a range over a map "+bad+": the result depends on Go's randomised map iteration order")
			}
		}
	}
	if n == 0 {
		r.OK("-", "biscuit,datalog", "no range over a map", "nothing to check")
	}
}

func ruleDTSources(p *Prog, r *Reporter) {
	globalP = p
	_, ms := authorizerImpl(p)
	reach := p.CG().Reach(ms...)
	for _, fn := range sortedFuncs(p, reach) {
		if p.pkgShort(fn) == "pb" {
			continue
		}
		name := p.FuncName(fn)
		for _, b := range fn.Blocks {
			for _, in := range b.Instrs {
				switch x := in.(type) {
				case ssa.CallInstruction:
					f := x.Common().StaticCallee()
					if f == nil {
						continue
					}
					cn := calleeName(f)
					switch {
					case strings.HasPrefix(cn, "math/rand"), strings.HasPrefix(cn, "crypto/rand"), cn == "time.Now", cn == "time.Since", cn == "time.Until":
						r.Bad(p.instrPos(x), name, "call "+cn, "authorization reads a source of nondeterminism (randomness / wall clock)")
					case cn == "context.WithTimeout", cn == "context.WithDeadline", cn == "time.After", cn == "time.NewTimer":
						r.OK(p.instrPos(x), name, "call "+cn, "the documented evaluation deadline")
					}
				case *ssa.Select:
					recvs, sends := 0, 0
					for _, s := range x.States {
						if s.Dir == types.RecvOnly {
							recvs++
						} else {
							sends++
						}
					}
					switch {
					case !x.Blocking && recvs == 1 && sends == 0:
						r.OK(p.instrPos(x), name, "select poll", "non-blocking cancellation poll")
					case x.Blocking && recvs == 2 && sends == 0 && selectHasErrorOnlyCase(x):
						r.OK(p.instrPos(x), name, "select deadline|result", "race between cancellation / the deadline and a result: the cancellation case only ever ends in the limit error")
					case x.Blocking && recvs == 1 && sends == 1:
						r.OK(p.instrPos(x), name, "select send|stop", "producer send with stop alternative: the choice only matters after the consumer has returned")
					default:
						r.Bad(p.instrPos(x), name, "select", fmt.Sprintf("select with %d receive and %d send cases: the outcome may depend on scheduling", recvs, sends))
					}
				}
			}
		}
	}
}

func ruleFSDedup(p *Prog, r *Reporter) {
	globalP = p
	fsT := p.NamedType("datalog", "FactSet")
	ins := p.Func("datalog", "FactSet", "Insert")
	if fsT == nil || ins == nil {
		r.Dunno("?", "datalog.FactSet.Insert", "method", "not found")
		return
	}
	// (1) Insert: append only after a full-range scan with Equal found nothing
	recv := ins.Params[0]
	var rl *rangeLoop
	for _, l := range rangeLoops(ins) {
		if p.D(l.seq) == "*"+recv.Name() {
			rl = l
		}
	}
	okIns := false
	why := "no full-range scan of the set before appending"
	if rl != nil {
		// early exit: returns false under Equal(...) true
		eq := false
		for _, ex := range rl.exits() {
			if ex.from == rl.header {
				continue
			}
			for bb := range reachableFrom(ex.to) {
				if ret := blockReturn(bb); ret != nil {
					if k, isC := retVal(ret, 0).(*ssa.Const); isC && k.Value != nil && k.Value.String() == "false" {
						for _, g := range guardsOnEdge(ex.from, ex.to) {
							if c, isCall := g.cond.(*ssa.Call); isCall && g.val && c.Call.StaticCallee() != nil && c.Call.StaticCallee().Name() == "Equal" {
								eq = true
							}
						}
					}
				}
			}
		}
		app := false
		for _, c := range callsIn(ins) {
			if bi, isB := c.Common().Value.(*ssa.Builtin); isB && bi.Name() == "append" {
				if rl.doneBB == c.Block() || rl.doneBB.Dominates(c.Block()) {
					app = true
				} else {
					why = "Insert appends on a path that has not completed the duplicate scan"
				}
			}
		}
		okIns = eq && app
		if !eq {
			why = "the scan does not stop with 'false' on a structurally equal fact (Predicate.Equal)"
		}
	}
	r.Check(okIns, p.Pos(ins.Pos()), p.FuncName(ins), "dedup insert", "append happens only after every existing fact was compared with Equal and none matched", why)
	// (2) no other function appends to / stores a FactSet value that belongs to someone else
	for _, fn := range p.funcsIn("biscuit", "datalog") {
		if fn == ins {
			continue
		}
		for _, c := range callsIn(fn) {
			cv, ok := c.(*ssa.Call)
			if !ok {
				continue
			}
			if bi, isB := cv.Call.Value.(*ssa.Builtin); isB && bi.Name() == "append" && types.Identical(cv.Type(), fsT) {
				// copying a whole fact set into an empty slice keeps it a set
				if len(cv.Call.Args) == 2 && types.Identical(unwrap(cv.Call.Args[1]).Type(), fsT) {
					if k, isK := unwrap(cv.Call.Args[0]).(*ssa.Const); isK && k.IsNil() {
						r.OK(p.instrPos(cv), p.FuncName(fn), "copy of a FactSet", "a whole fact set appended to nil: a copy")
						continue
					}
				}
				r.Bad(p.instrPos(cv), p.FuncName(fn), "append to FactSet", "facts are appended to a fact set outside FactSet.Insert: duplicates are not eliminated")
			}
		}
	}
	r.OK("-", "biscuit,datalog", "single writer", "no append to a FactSet outside Insert")
}

// ---- engine skeleton

func ruleENApplyAll(p *Prog, r *Reporter) {
	globalP = p
	run := p.Func("datalog", "World", "Run")
	if run == nil {
		r.Dunno("?", "datalog.World.Run", "method", "not found")
		return
	}
	for _, body := range withClosures(run)[1:] {
		name := p.FuncName(body)
		var rules *rangeLoop
		for _, l := range rangeLoops(body) {
			if strings.HasSuffix(p.D(l.seq), ".rules") {
				rules = l
			}
		}
		if rules == nil {
			r.Bad(p.Pos(body.Pos()), name, "rule loop", "no full-range loop over the world's rules in the evaluation worker: some rules are never applied")
			continue
		}
		var apply *ssa.Call
		var aRule, aFacts, aOut ssa.Value
		ai := p.applyImpl()
		for _, c := range callsIn(body) {
			if cv, ok := c.(*ssa.Call); ok && ai != nil && rules.inside(cv.Block()) {
				if ru, fa, ou, isA := ai.applyCall(cv); isA {
					apply, aRule, aFacts, aOut = cv, ru, fa, ou
				}
			}
		}
		if apply == nil {
			r.Bad(p.instrPos(rules.header.Instrs[0]), name, "Apply", "the rule loop does not apply the rule")
			continue
		}
		// no rule is skipped: every way to the next rule has called Apply on the current one
		okEvery := true
		for _, latch := range rules.latches {
			if reachAvoiding(rules.bodyBB, latch, blockSet{apply.Block(): true}) && latch != apply.Block() {
				okEvery = false
			}
		}
		r.Check(okEvery, p.instrPos(apply), name, "no rule skipped", "every iteration of the rule loop applies its rule before moving on", "a rule can be skipped in an iteration (continue / conditional Apply): facts it derives from newly added facts are never produced")
		okArgs := aRule != nil && aFacts != nil && rules.isElem(aRule) && strings.HasSuffix(p.D(aFacts), ".facts")
		r.Check(okArgs, p.instrPos(apply), name, "Apply(rule, facts)", "each rule is applied to the world's current facts", "Apply is not called with the current range element and the world's facts")
		// exits of the rule loop other than exhaustion must end the worker (send error / cancelled)
		okExit := true
		for _, ex := range rules.exits() {
			if ex.from == rules.header && ex.to == rules.doneBB {
				continue
			}
			for bb := range reachableFrom(ex.to) {
				if reachAvoiding(bb, rules.doneBB, nil) && bb != ex.to {
					continue
				}
			}
			if reachAvoiding(ex.to, rules.doneBB, nil) {
				okExit = false
			}
		}
		r.Check(okExit, p.instrPos(rules.header.Instrs[0]), name, "all rules applied", "the rule loop is left early only by ending the evaluation", "an early exit from the rule loop continues the iteration: remaining rules are skipped in that iteration")
		// InsertAll of the new facts dominates the fixpoint comparison
		var insAll *ssa.Call
		for _, c := range callsIn(body) {
			if cv, ok := c.(*ssa.Call); ok && isCallTo(&cv.Call, "datalog.FactSet.InsertAll") && strings.HasSuffix(p.D(cv.Call.Args[0]), ".facts") {
				insAll = cv
			}
		}
		okMerge := insAll != nil && (rules.doneBB == insAll.Block() || rules.doneBB.Dominates(insAll.Block()))
		if okMerge {
			// the inserted slice is what Apply wrote into
			okMerge = aOut != nil && dependsOn(insAll.Call.Args[1], func(x ssa.Value) bool { return x == unwrap(aOut) || x == aOut })
		}
		r.Check(okMerge, p.Pos(body.Pos()), name, "merge new facts", "all facts derived in the iteration are inserted into the world after every rule ran", "the facts derived by Apply are not (all) merged into the world's facts after the rule loop")
	}
}

func ruleENConsume(p *Prog, r *Reporter) {
	globalP = p
	ai := p.applyImpl()
	if ai == nil {
		r.Dunno("?", "datalog.Rule.Apply", "method", "not found")
		return
	}
	apply := ai.fn
	name := p.FuncName(apply)
	R := ai.rule.Name()
	// the receive loop over the combinations channel (range over the channel, or a select with a receive case)
	rl := p.receiveLoop(apply)
	if rl == nil {
		r.Bad(p.Pos(apply.Pos()), name, "receive loop", "Apply does not consume the channel of matched combinations in a loop")
		return
	}
	lp := rl.lp
	args := rl.comb.Call.Args
	okArgs := p.D(args[1]) == R+".Body" && p.D(args[2]) == R+".Expressions" && args[3] == ssa.Value(ai.facts)
	r.Check(okArgs, p.instrPos(rl.comb), name, "combine(body, expressions, facts)", "joins the rule's whole body and all its expressions over the given facts", "combine is not called with the rule's Body, Expressions and the facts parameter")
	// every back edge passes an Insert into newFacts
	var ins *ssa.Call
	for _, c := range callsIn(apply) {
		if cv, ok := c.(*ssa.Call); ok && isCallTo(&cv.Call, "datalog.FactSet.Insert") && cv.Call.Args[0] == ssa.Value(ai.newFacts) {
			ins = cv
		}
	}
	okIns := ins != nil
	if okIns {
		for _, latch := range lp.latches {
			if !(ins.Block() == latch || ins.Block().Dominates(latch)) {
				okIns = false
			}
		}
	}
	r.Check(okIns, p.instrPos(rl.recv), name, "insert per combination", "every received combination that does not end Apply with an error inserts a head instance into newFacts", "a received combination can be skipped without inserting the derived fact (continue / conditional insert)")
	// the loop ends with success only when the channel is closed; every other exit is an error
	closed := blockSet{}
	for _, b := range rl.closed {
		closed[b] = true
	}
	okExit := len(rl.closed) > 0
	for _, ex := range lp.exits() {
		if closed[ex.to] {
			continue
		}
		if !onlyErrorReturnsFrom(ex.to) {
			okExit = false
		}
	}
	r.Check(okExit, p.instrPos(rl.recv), name, "no silent early exit", "the receive loop ends with success only when the producer has closed the channel; every other exit returns an error", "Apply can stop consuming combinations and return success (break / return nil): derivable facts are lost")
	// the inserted predicate is the rule head's clone with matched values
	if ins != nil {
		okHead := dependsOn(ins.Call.Args[1], func(x ssa.Value) bool {
			c, ok := x.(*ssa.Call)
			return ok && isCallTo(&c.Call, "datalog.Predicate.Clone") && p.D(c.Call.Args[0]) == R+".Head"
		})
		r.Check(okHead, p.instrPos(ins), name, "head instance", "the inserted fact is built from a clone of the rule's head", "the inserted fact is not an instance of the rule's head")
	}
}

func ruleENMatch(p *Prog, r *Reporter) {
	globalP = p
	m := p.Func("datalog", "Predicate", "Match")
	if m == nil {
		r.Dunno("?", "datalog.Predicate.Match", "method", "not found")
		return
	}
	name := p.FuncName(m)
	P, Q := m.Params[0].Name(), m.Params[1].Name()
	var rl *rangeLoop
	for _, l := range rangeLoops(m) {
		if p.D(l.seq) == P+".Terms" || p.D(l.seq) == Q+".Terms" {
			rl = l
		}
	}
	if rl == nil {
		r.Bad(p.Pos(m.Pos()), name, "term loop", "Match does not compare the terms position by position over the full range")
		return
	}
	for _, ret := range returnsOf(m) {
		k, isC := retVal(ret, 0).(*ssa.Const)
		if !isC || k.Value == nil {
			r.Bad(p.instrPos(ret), name, "result", "non-constant result")
			continue
		}
		if k.Value.String() != "true" {
			continue
		}
		// true only after exhaustion, with equal name and arity
		okDone := rl.doneBB == ret.Block() || rl.doneBB.Dominates(ret.Block())
		nameEq, lenEq := false, false
		for _, g := range guardsOf(ret.Block()) {
			bo, ok := g.cond.(*ssa.BinOp)
			if !ok {
				continue
			}
			eq := (bo.Op == token.EQL && g.val) || (bo.Op == token.NEQ && !g.val)
			if !eq {
				continue
			}
			dx, dy := p.D(bo.X), p.D(bo.Y)
			if (dx == P+".Name" && dy == Q+".Name") || (dx == Q+".Name" && dy == P+".Name") {
				nameEq = true
			}
			if (dx == "len("+P+".Terms)" && dy == "len("+Q+".Terms)") || (dy == "len("+P+".Terms)" && dx == "len("+Q+".Terms)") {
				lenEq = true
			}
		}
		r.Check(okDone && nameEq && lenEq, p.instrPos(ret), name, "match result", "true only after all positions were examined, with equal name and arity", "Match can return true without equal predicate name, equal arity or a complete scan of the terms")
	}
	// every way to the next position: a variable on either side, or Equal
	okStep := true
	for _, latch := range rl.latches {
		pass := false
		for _, g := range guardsOnEdge(latch, rl.header) {
			if !g.val {
				continue
			}
			if ex, ok := g.cond.(*ssa.Extract); ok && ex.Index == 1 {
				if ta, isTA := ex.Tuple.(*ssa.TypeAssert); isTA && typeName(ta.AssertedType) == "Variable" {
					pass = true
				}
			}
			if c, ok := g.cond.(*ssa.Call); ok && c.Call.IsInvoke() && c.Call.Method.Name() == "Equal" {
				pass = true
			}
			if c, ok := g.cond.(*ssa.Call); ok && c.Call.StaticCallee() != nil && c.Call.StaticCallee().Name() == "Equal" {
				pass = true
			}
		}
		if !pass {
			okStep = false
		}
	}
	r.Check(okStep, p.instrPos(rl.header.Instrs[0]), name, "position step", "a position is passed only if one side is a variable or the constants are Equal", "a term position can be passed without a variable on either side and without the constants being Equal: constants in rule bodies no longer filter facts")
	okExit := true
	for _, ex := range rl.exits() {
		if ex.from == rl.header {
			continue
		}
		for bb := range reachableFrom(ex.to) {
			if ret := blockReturn(bb); ret != nil {
				if k, isC := retVal(ret, 0).(*ssa.Const); !isC || k.Value == nil || k.Value.String() != "false" {
					okExit = false
				}
			}
		}
	}
	r.Check(okExit, p.instrPos(rl.header.Instrs[0]), name, "mismatch result", "leaving the scan early yields false", "the scan can be left early with a result other than false")
}

type sharedAddr struct{ pos, what string }

// loopSharedAddresses: stores of the address of a local declared OUTSIDE a loop into a field of an
// object allocated INSIDE that loop (classic aliasing of one variable by every element).
func loopSharedAddresses(p *Prog, fn *ssa.Function) []sharedAddr {
	var out []sharedAddr
	for _, l := range naturalLoops(fn) {
		for b := range l.body {
			for _, in := range b.Instrs {
				st, ok := in.(*ssa.Store)
				if !ok {
					continue
				}
				al, isAl := st.Val.(*ssa.Alloc)
				if !isAl || l.body[al.Block()] {
					continue
				}
				fa, isFA := st.Addr.(*ssa.FieldAddr)
				if !isFA {
					continue
				}
				if holder, isH := fa.X.(*ssa.Alloc); isH && l.body[holder.Block()] {
					out = append(out, sharedAddr{p.instrPos(st), typeName(deref(holder.Type())) + "." + fieldName(fa)})
				}
			}
		}
	}
	return out
}

// countedLoop: for j := 0; j < len(X); j++
type countedLoop struct {
	*loop
	phi   *ssa.Phi
	bound ssa.Value // X
}

func countedLoops(fn *ssa.Function) []*countedLoop {
	var out []*countedLoop
	for _, l := range naturalLoops(fn) {
		i := blockIf(l.header)
		if i == nil {
			continue
		}
		cmp, ok := i.Cond.(*ssa.BinOp)
		if !ok || cmp.Op != token.LSS {
			continue
		}
		ph, ok := cmp.X.(*ssa.Phi)
		if !ok || ph.Block() != l.header {
			continue
		}
		ln, ok := cmp.Y.(*ssa.Call)
		if !ok {
			continue
		}
		if bi, isB := ln.Call.Value.(*ssa.Builtin); !isB || bi.Name() != "len" {
			continue
		}
		okPhi := true
		for k, e := range ph.Edges {
			if l.body[l.header.Preds[k]] {
				inc, isInc := e.(*ssa.BinOp)
				if !isInc || inc.Op != token.ADD || inc.X != ssa.Value(ph) {
					okPhi = false
				} else if c, isC := constInt(inc.Y); !isC || c != 1 {
					okPhi = false
				}
			} else if c, isC := constInt(e); !isC || c != 0 {
				okPhi = false
			}
		}
		if okPhi {
			out = append(out, &countedLoop{l, ph, ln.Call.Args[0]})
		}
	}
	return out
}

func combineBody(p *Prog) *ssa.Function {
	c := p.Func("datalog", "", "combine")
	if c == nil || len(c.AnonFuncs) != 1 {
		return nil
	}
	return c.AnonFuncs[0]
}

func ruleENUnify(p *Prog, r *Reporter) {
	globalP = p
	body := combineBody(p)
	if body == nil {
		r.Dunno("?", "datalog.combine", "goroutine", "combine or its single enumeration goroutine not found")
		return
	}
	name := p.FuncName(body)
	var ins *ssa.Call
	for _, c := range callsIn(body) {
		if cv, ok := c.(*ssa.Call); ok && isCallTo(&cv.Call, "datalog.MatchedVariables.Insert") {
			ins = cv
		}
	}
	if ins == nil {
		r.Bad(p.Pos(body.Pos()), name, "unification", "no MatchedVariables.Insert in the join: variables are never bound/compared")
		return
	}
	// outer: full range over the body predicates
	var outer *rangeLoop
	for _, rl := range rangeLoops(body) {
		if rl.inside(ins.Block()) && strings.HasSuffix(p.D(rl.seq), "predicates") {
			outer = rl
		}
	}
	r.Check(outer != nil, p.instrPos(ins), name, "all body predicates", "variables are bound inside a full-range loop over the body predicates", "unification does not visit every body predicate (no full-range loop over the predicates around Insert)")
	if outer == nil {
		return
	}
	// inner: every term position of the predicate
	var inner *countedLoop
	for _, cl := range countedLoops(body) {
		if (cl.body[ins.Block()] || (len(cl.header.Succs) > 0 && cl.header.Succs[0].Dominates(ins.Block()))) && strings.HasSuffix(p.D(cl.bound), ".Terms") && outer.isElemRoot(p, cl.bound) {
			inner = cl
		}
	}
	var innerR *rangeLoop
	if inner == nil {
		for _, rl := range rangeLoops(body) {
			if rl != outer && rl.inside(ins.Block()) && strings.HasSuffix(p.D(rl.seq), ".Terms") && outer.isElemRoot(p, rl.seq) {
				innerR = rl
			}
		}
	}
	r.Check(inner != nil || innerR != nil, p.instrPos(ins), name, "all term positions", "every term position of the current predicate is visited (loop over the full length of its Terms)", "unification does not visit every term position of a body predicate (positions are looked up through a map / partial loop): a variable repeated inside one predicate is not compared")
	if inner == nil && innerR == nil {
		return
	}
	var idx ssa.Value
	if inner != nil {
		idx = inner.phi
	} else {
		idx = innerR.incr
	}
	// key: Variable at position idx of the predicate; value: term at the same position of the matched fact
	keyOK := dependsOn(ins.Call.Args[1], func(x ssa.Value) bool {
		ia, ok := x.(*ssa.IndexAddr)
		return ok && ia.Index == idx && strings.HasSuffix(p.D(ia.X), ".Terms")
	})
	valOK := dependsOn(ins.Call.Args[2], func(x ssa.Value) bool {
		ia, ok := x.(*ssa.IndexAddr)
		return ok && ia.Index == idx && strings.HasSuffix(p.D(ia.X), ".Predicate.Terms")
	})
	r.Check(keyOK && valOK, p.instrPos(ins), name, "same position", "the variable at position j is bound to the fact's term at the same position j", "the variable and the value given to Insert are not taken from the same term position of predicate and fact")
}

func ruleENExits(p *Prog, r *Reporter) {
	globalP = p
	body := combineBody(p)
	if body == nil {
		r.Dunno("?", "datalog.combine", "goroutine", "combine or its single enumeration goroutine not found")
		return
	}
	name := p.FuncName(body)
	for _, ret := range returnsOf(body) {
		gs := guardsOf(ret.Block())
		reason := ""
		for _, g := range gs {
			switch c := g.cond.(type) {
			case *ssa.Call:
				if isCallTo(&c.Call, "datalog.advanceIndexes") && !g.val {
					reason = "index odometer exhausted (advanceIndexes returned false)"
				}
			case *ssa.BinOp:
				d := p.D(c)
				k, isC := constInt(c.Y)
				switch {
				case strings.Contains(d, "MatchedVariables.Complete(") && isNilConst(c.Y) && ((c.Op == token.NEQ) != g.val):
					reason = "a head/expression variable is not bound by the body (Complete() == nil)"
				case strings.HasPrefix(p.D(c.X), "len(") && strings.Contains(p.D(c.X), "predicates") && isC && k == 0 && ((c.Op == token.EQL) == g.val):
					reason = "expression-only rule: evaluated once"
				case strings.HasPrefix(p.D(c.X), "len(") && strings.Contains(p.D(c.X), "facts") && isC && k == 0 && ((c.Op == token.EQL) == g.val):
					if reason == "" {
						reason = "no facts to join"
					}
				case strings.HasSuffix(d, "#1!=nil)") && strings.Contains(d, "Expression.Evaluate(") && g.val:
					reason = "an expression failed: the error was sent (or the consumer is gone)"
				}
				if ex, isEx := c.X.(*ssa.Extract); isEx && isC && c.Op == token.EQL && g.val {
					if sel, isSel := ex.Tuple.(*ssa.Select); isSel && ex.Index == 0 && int(k) < len(sel.States) && sel.States[k].Dir == types.RecvOnly {
						reason = "the consumer is gone (stop channel)"
					}
				}
			}
		}
		r.Check(reason != "", p.instrPos(ret), name, "enumeration ends", reason, "the enumeration of fact combinations is abandoned on a path that is none of: odometer exhausted, no facts, unbound head variable, expression error, expression-only rule, consumer gone - remaining combinations (and the facts they derive) are lost")
	}
}

func ruleENHead(p *Prog, r *Reporter) {
	globalP = p
	ai := p.applyImpl()
	if ai == nil {
		r.Dunno("?", "datalog.Rule.Apply", "method", "not found")
		return
	}
	apply := ai.fn
	name := p.FuncName(apply)
	R := ai.rule.Name()
	head := "datalog.Predicate.Clone(" + R + ".Head).Terms"
	var rl *rangeLoop
	for _, l := range rangeLoops(apply) {
		if p.D(l.seq) == head {
			rl = l
		}
	}
	if rl == nil {
		r.Bad(p.Pos(apply.Pos()), name, "head substitution loop", "no full-range loop over the terms of the cloned rule head: head variables are not (all) replaced by their matched values")
		return
	}
	// the substitution store: Terms[i] = *matched[k]
	var st *ssa.Store
	for b := range rl.body {
		for _, in := range b.Instrs {
			s2, ok := in.(*ssa.Store)
			if !ok {
				continue
			}
			ia, ok := s2.Addr.(*ssa.IndexAddr)
			if ok && ia.Index == ssa.Value(rl.incr) && p.D(ia.X) == head {
				st = s2
			}
		}
	}
	okSub := false
	if st != nil {
		okSub = dependsOn(st.Val, func(x ssa.Value) bool {
			lk, ok := x.(*ssa.Lookup)
			return ok && strings.Contains(p.D(lk.X), "MatchedVariables") && dependsOn(lk.Index, func(y ssa.Value) bool { return rl.isElem(y) })
		})
	}
	r.Check(okSub, p.instrPos(rl.header.Instrs[0]), name, "substitute matched value", "position i of the head is replaced by the value matched for the variable at position i", "the head's variable positions are not replaced by the matched value of that very variable")
	// every way to the next position: not a variable, or substituted
	okStep := st != nil
	if st != nil {
		for _, latch := range rl.latches {
			viaStore := !reachAvoiding(rl.bodyBB, latch, blockSet{st.Block(): true}) || latch == st.Block()
			notVar := false
			for _, g := range guardsOnEdge(latch, rl.header) {
				if ex, ok := g.cond.(*ssa.Extract); ok && ex.Index == 1 && !g.val {
					if ta, isTA := ex.Tuple.(*ssa.TypeAssert); isTA && typeName(ta.AssertedType) == "Variable" {
						notVar = true
					}
				}
			}
			if !viaStore && !notVar {
				okStep = false
			}
		}
	}
	r.Check(okStep, p.instrPos(rl.header.Instrs[0]), name, "every variable position", "a head position is skipped only when it is not a variable", "a variable position of the head can be left unsubstituted")
	// missing binding: error return
	okMissing := false
	for _, ex := range rl.exits() {
		if ex.from == rl.header {
			continue
		}
		if onlyErrorReturnsFrom(ex.to) {
			okMissing = true
		} else {
			okMissing = false
			break
		}
	}
	r.Check(okMissing, p.instrPos(rl.header.Instrs[0]), name, "unbound head variable", "a head variable without a binding ends Apply with an error", "a head variable without a binding does not end Apply with an error")
	// QueryRule
	if q := p.Func("datalog", "World", "QueryRule"); q != nil {
		ok := false
		for _, c := range callsIn(q) {
			if isCallTo(c.Common(), "datalog.Rule.Apply") {
				a := c.Common().Args
				if a[0] == ssa.Value(q.Params[1]) && p.D(a[1]) == q.Params[0].Name()+".facts" && a[3] == ssa.Value(q.Params[2]) {
					for _, ret := range returnsOf(q) {
						if retVal(ret, 0) == a[2] {
							ok = true
						}
					}
				}
			}
		}
		r.Check(ok, p.Pos(q.Pos()), p.FuncName(q), "QueryRule", "applies the given rule to the world's facts and returns exactly what Apply derived", "QueryRule does not return the result of applying the rule to the world's facts")
	}
}

func ruleENExpr(p *Prog, r *Reporter) {
	globalP = p
	body := combineBody(p)
	if body == nil {
		r.Dunno("?", "datalog.combine", "goroutine", "not found")
		return
	}
	name := p.FuncName(body)
	var loopE *rangeLoop
	for _, rl := range rangeLoops(body) {
		if strings.HasSuffix(p.D(rl.seq), "expressions") {
			loopE = rl
		}
	}
	if loopE == nil {
		r.Bad(p.Pos(body.Pos()), name, "expression loop", "no full-range loop over the rule's expressions in the join: some expressions are not evaluated")
		return
	}
	var eval *ssa.Call
	for _, c := range callsIn(body) {
		if cv, ok := c.(*ssa.Call); ok && isCallTo(&cv.Call, "datalog.Expression.Evaluate") && loopE.inside(cv.Block()) {
			eval = cv
		}
	}
	if eval == nil {
		r.Bad(p.instrPos(loopE.header.Instrs[0]), name, "Evaluate", "the expression loop does not evaluate the expression")
		return
	}
	// the truth test: res.Equal(Bool(true))
	var truth *ssa.Call
	for _, c := range callsIn(body) {
		cv, ok := c.(*ssa.Call)
		if !ok || !loopE.inside(cv.Block()) {
			continue
		}
		if cv.Call.IsInvoke() && cv.Call.Method.Name() == "Equal" && len(cv.Call.Args) == 1 {
			if ex, isEx := cv.Call.Value.(*ssa.Extract); isEx && ex.Tuple == ssa.Value(eval) && ex.Index == 0 {
				if k, isK := unwrap(cv.Call.Args[0]).(*ssa.Const); isK && k.Value != nil && k.Value.String() == "true" && isRepoNamed(k.Type(), "datalog", "Bool") {
					truth = cv
				}
			}
		}
	}
	r.Check(truth != nil, p.instrPos(eval), name, "truth test", "the expression result is compared with the boolean true (Equal(Bool(true)))", "an expression is not tested for being exactly the boolean true: a non-boolean or otherwise non-true result lets the combination through")
	if truth == nil {
		return
	}
	okNext := true
	for _, latch := range loopE.latches {
		pass := false
		for _, g := range guardsOnEdge(latch, loopE.header) {
			if g.cond == ssa.Value(truth) && g.val {
				pass = true
			}
		}
		if !pass {
			okNext = false
		}
	}
	r.Check(okNext, p.instrPos(truth), name, "all expressions", "the next expression is reached only when the current one is true", "evaluation continues to the next expression although the current one was not true")
	// the combination is sent only after exhaustion of the loop with every expression true
	okSend := false
	for _, b := range body.Blocks {
		for _, in := range b.Instrs {
			sel, ok := in.(*ssa.Select)
			if !ok {
				continue
			}
			for _, stt := range sel.States {
				if stt.Dir != types.SendOnly {
					continue
				}
				// the success send: its value carries a nil error
				if !dependsOn(stt.Send, func(x ssa.Value) bool { return isNilConst(x) }) {
					continue
				}
				for _, g := range guardsOf(b) {
					ph, isPhi := g.cond.(*ssa.Phi)
					if !isPhi || !g.val {
						continue
					}
					all := true
					for _, lf := range phiLeaves(ph) {
						k, isK := lf.val.(*ssa.Const)
						if !isK || k.Value == nil {
							all = false
							continue
						}
						if k.Value.String() == "true" && loopE.body[lf.pred] && lf.pred != loopE.header {
							all = false // set true from inside the loop
						}
						if k.Value.String() == "false" {
							falseOK := false
							for _, gg := range guardsOnEdge(lf.pred, lf.blk) {
								if gg.cond == ssa.Value(truth) && !gg.val {
									falseOK = true
								}
							}
							if !falseOK {
								all = false
							}
						}
					}
					if all {
						okSend = true
					}
				}
			}
		}
	}
	r.Check(okSend, p.instrPos(truth), name, "send only if all true", "the combination is sent only when the validity flag is still true after all expressions", "a combination can be sent although some expression was not true (or the flag logic is not the conjunction over all expressions)")
}

// ruleENOdometer checks structural necessary conditions of the mixed-radix counter that enumerates
// fact combinations (advanceIndexes). It does not prove the enumeration complete.
func ruleENOdometer(p *Prog, r *Reporter) {
	globalP = p
	fn := p.Func("datalog", "", "advanceIndexes")
	if fn == nil || len(fn.Params) < 3 {
		r.Dunno("?", "datalog.advanceIndexes", "function", "the join's index odometer was not found (renamed or rewritten beyond the enumerated shape)")
		return
	}
	name := p.FuncName(fn)
	cur, idx, facts := fn.Params[0], fn.Params[1], fn.Params[2]
	I := "*" + idx.Name()
	C := "*" + cur.Name()
	lastFact := "(len(*" + facts.Name() + ")-1:int)"
	// the position loop: i from *current down to 0
	var lp *loop
	var iphi *ssa.Phi
	for _, l := range naturalLoops(fn) {
		for _, in := range l.header.Instrs {
			if ph, ok := in.(*ssa.Phi); ok {
				for k, e := range ph.Edges {
					if !l.body[l.header.Preds[k]] && p.D(e) == C {
						lp, iphi = l, ph
					}
				}
			}
		}
	}
	if lp == nil {
		r.Bad(p.Pos(fn.Pos()), name, "position loop", "no loop that starts at the current cursor position")
		return
	}
	for k, e := range iphi.Edges {
		if lp.body[lp.header.Preds[k]] {
			bo, ok := e.(*ssa.BinOp)
			okDec := ok && bo.Op == token.SUB && bo.X == ssa.Value(iphi)
			if okDec {
				c, isC := constInt(bo.Y)
				okDec = isC && c == 1
			}
			r.Check(okDec, p.instrPos(lp.header.Instrs[0]), name, "position step", "the loop moves to the previous position (i-1)", "the position loop does not step to the previous position by exactly one")
		}
	}
	posD := I + "[" + p.D(iphi) + "]"
	nInc, nWrap := 0, 0
	for _, b := range fn.Blocks {
		for _, in := range b.Instrs {
			st, ok := in.(*ssa.Store)
			if !ok || p.D(st.Addr) != "&"+posD {
				continue
			}
			gs := guardsOf(b)
			below := func(want bool) bool {
				for _, g := range gs {
					if bo, ok := g.cond.(*ssa.BinOp); ok && bo.Op == token.LSS && p.D(bo.X) == posD && p.D(bo.Y) == lastFact && g.val == want {
						return true
					}
				}
				return false
			}
			if bo, isB := st.Val.(*ssa.BinOp); isB && bo.Op == token.ADD && p.D(bo.X) == posD {
				nInc++
				c, isC := constInt(bo.Y)
				// after the increment the function reports success without touching another position
				leaves := true
				for bb := range reachableFrom(b) {
					if bb != b && lp.body[bb] {
						leaves = false
					}
				}
				r.Check(isC && c == 1 && below(true) && leaves, p.instrPos(st), name, "increment", "a position is advanced by one only while it is below the last fact, and the search resumes from there", "a position is incremented without the test 'index < len(facts)-1' (or by a step other than one, or the loop continues afterwards): combinations are skipped or the index runs past the facts")
				continue
			}
			if c, isC := constInt(st.Val); isC && c == 0 {
				nWrap++
				// wrap: only for positions > 0, not below the last fact, and the cursor moves back by exactly one in the same step
				posGuard := false
				for _, g := range gs {
					if positiveGuard(g, iphi) == 1 {
						posGuard = true
					}
				}
				curDec := 0
				for _, in2 := range b.Instrs {
					if s2, ok := in2.(*ssa.Store); ok && s2.Addr == ssa.Value(cur) {
						if bo, isB := s2.Val.(*ssa.BinOp); isB && bo.Op == token.SUB && p.D(bo.X) == C {
							if k, isK := constInt(bo.Y); isK && k == 1 {
								curDec++
							}
						}
					}
				}
				r.Check(posGuard && below(false) && curDec == 1, p.instrPos(st), name, "wrap", "a position that reached the last fact is reset to 0 only if it is not position 0, and the cursor moves back by exactly one with it", "a wrapped position does not move the cursor back by exactly one in the same step (lost carry), or position 0 is wrapped: the newly selected fact of an earlier predicate is never matched against its predicate")
				continue
			}
			r.Bad(p.instrPos(st), name, "index store", "an index position is assigned "+shortD(st.Val)+", which is neither +1 nor a reset to 0")
		}
	}
	// no store to the cursor outside a wrap block
	for _, b := range fn.Blocks {
		for _, in := range b.Instrs {
			if s2, ok := in.(*ssa.Store); ok && s2.Addr == ssa.Value(cur) {
				wrapHere := false
				for _, in2 := range b.Instrs {
					if s3, ok := in2.(*ssa.Store); ok && p.D(s3.Addr) == "&"+posD {
						if c, isC := constInt(s3.Val); isC && c == 0 {
							wrapHere = true
						}
					}
				}
				if !wrapHere {
					r.Bad(p.instrPos(s2), name, "cursor store", "the cursor is changed in a step that does not wrap a position")
				}
			}
		}
	}
	if nInc != 1 || nWrap != 1 {
		r.Bad(p.Pos(fn.Pos()), name, "odometer shape", fmt.Sprintf("%d increment and %d wrap sites (expected one each)", nInc, nWrap))
	}
	// exhaustion: false only at position 0 that cannot advance
	for _, ret := range returnsOf(fn) {
		k, isC := retVal(ret, 0).(*ssa.Const)
		if !isC || k.Value == nil {
			r.Bad(p.instrPos(ret), name, "result", "non-constant result")
			continue
		}
		if k.Value.String() == "false" {
			ok := false
			for _, g := range guardsOf(ret.Block()) {
				if positiveGuard(g, iphi) == -1 {
					ok = true
				}
			}
			r.Check(ok, p.instrPos(ret), name, "exhausted", "exhaustion is reported only when position 0 itself cannot advance", "exhaustion (false) is reported while an earlier position could still advance")
		}
	}
}

func ruleKIWriters(p *Prog, r *Reporter) {
	globalP = p
	cfgFields := map[string]bool{"rootKeyID": true, "rng": true, "rootKey": true}
	for _, tn := range []string{"builderOptions", "biscuitOptions"} {
		t := p.NamedType("biscuit", tn)
		if t == nil {
			r.Dunno("?", "biscuit."+tn, "type", "not found")
			continue
		}
		for _, fn := range p.funcsIn("biscuit") {
			name := p.FuncName(fn)
			for _, b := range fn.Blocks {
				for _, in := range b.Instrs {
					st, ok := in.(*ssa.Store)
					if !ok {
						continue
					}
					// whole-struct overwrite through a pointer that is not a fresh allocation
					if types.Identical(deref(st.Addr.Type()), t) {
						if _, fresh := st.Addr.(*ssa.Alloc); !fresh {
							r.Bad(p.instrPos(st), name, "overwrite *"+tn, "the whole "+tn+" is overwritten after construction: configuration given by options (root key id, random source) is lost for later use of the builder")
						}
						continue
					}
					fa, isFA := st.Addr.(*ssa.FieldAddr)
					if !isFA || !types.Identical(deref(fa.X.Type()), t) || !cfgFields[fieldName(fa)] {
						continue
					}
					_, fresh := fa.X.(*ssa.Alloc)
					applier := strings.HasPrefix(fn.Name(), "applyTo")
					r.Check(fresh || applier, p.instrPos(st), name, "store "+tn+"."+fieldName(fa), "written by a constructor or an option applier", "configuration field "+fieldName(fa)+" is written outside constructors and option appliers")
				}
			}
		}
	}
}

func ruleOwnClosure(p *Prog, r *Reporter) {
	globalP = p
	n := 0
	for _, fn := range p.funcsIn("biscuit", "datalog") {
		if fn.Parent() == nil {
			continue
		}
		// function literals whose type is one of the repository's option types
		isOpt := false
		for _, pk := range []string{"biscuit", "datalog"} {
			sc := p.Pkgs[pk].Types.Scope()
			for _, nm := range sc.Names() {
				tn, ok := sc.Lookup(nm).(*types.TypeName)
				if !ok || !strings.HasSuffix(nm, "Option") {
					continue
				}
				if sig, ok := tn.Type().Underlying().(*types.Signature); ok && types.Identical(stripRecv(fn.Signature), sig) {
					isOpt = true
				}
			}
		}
		if !isOpt {
			continue
		}
		name := p.FuncName(fn)
		for _, b := range fn.Blocks {
			for _, in := range b.Instrs {
				st, ok := in.(*ssa.Store)
				if !ok {
					continue
				}
				if _, local := st.Addr.(*ssa.Alloc); local {
					continue
				}
				n++
				captured := false
				if mutableRefType(st.Val.Type()) {
					captured = dependsOnNoCalls(st.Val, func(x ssa.Value) bool { _, isFV := x.(*ssa.FreeVar); return isFV })
				}
				r.Check(!captured, p.instrPos(st), name, "store "+normaliseD(shortD(st.Addr)), "stores a scalar or a value created inside the option", "the option stores a captured mutable object ("+shortD(st.Val)+"): every authorizer / world configured with this option value shares it, so content and concurrent use leak between them")
			}
		}
	}
	if n == 0 {
		r.Bad("?", "biscuit,datalog", "option closures", "no option closure found")
	}
}

// dependsOnNoCalls: like dependsOn but does not look through calls (a call result is a new value).
func dependsOnNoCalls(v ssa.Value, pred func(ssa.Value) bool) bool {
	seen := map[ssa.Value]bool{}
	var rec func(v ssa.Value) bool
	rec = func(v ssa.Value) bool {
		if v == nil || seen[v] {
			return false
		}
		seen[v] = true
		if pred(v) {
			return true
		}
		switch x := v.(type) {
		case *ssa.UnOp:
			return rec(x.X)
		case *ssa.FieldAddr:
			return rec(x.X)
		case *ssa.Field:
			return rec(x.X)
		case *ssa.IndexAddr:
			return rec(x.X)
		case *ssa.Slice:
			return rec(x.X)
		case *ssa.ChangeType:
			return rec(x.X)
		case *ssa.MakeInterface:
			return rec(x.X)
		case *ssa.Phi:
			for _, e := range x.Edges {
				if rec(e) {
					return true
				}
			}
		}
		return false
	}
	return rec(v)
}

func ruleSNAll(p *Prog, r *Reporter) {
	globalP = p
	_, ms := authorizerImpl(p)
	var roots []*ssa.Function
	for _, m := range ms {
		if m.Name() == "SerializePolicies" || m.Name() == "LoadPolicies" {
			roots = append(roots, m)
		}
	}
	if len(roots) < 2 {
		r.Dunno("?", "biscuit.authorizer", "SerializePolicies/LoadPolicies", "methods not found")
		return
	}
	// the authorizer's own helpers reachable from the two entry points (loadPoliciesV2, ...)
	fns := map[*ssa.Function]bool{}
	var visit func(f *ssa.Function)
	visit = func(f *ssa.Function) {
		if fns[f] {
			return
		}
		fns[f] = true
		for _, c := range callsIn(f) {
			if g := c.Common().StaticCallee(); g != nil && p.pkgShort(g) == "biscuit" && g.Signature.Recv() != nil && !converterName.MatchString(g.Name()) {
				if tokenParam(g) == nil && sameRecv(g, roots[0]) {
					visit(g)
				}
			}
		}
	}
	for _, m := range roots {
		visit(m)
	}
	sink := func(c *ssa.Call) bool {
		return isCallTo(&c.Call, "datalog.World.AddFact", "datalog.World.AddRule")
	}
	n := 0
	mappers := map[*ssa.Function]bool{}
	for _, f := range sortedFuncs(p, fns) {
		n += checkElemwiseLoops(p, r, f, p.FuncName(f), sink)
		// a sequence handed to an element-wise helper (out[i] = conv(in[i]) over the full range) is treated like a loop
		for _, c := range callsIn(f) {
			h := c.Common().StaticCallee()
			if h == nil || !p.isRepoFunc(h) || h.Blocks == nil || !isElementwiseMapper(h) {
				continue
			}
			n++
			r.OK(p.instrPos(c), p.FuncName(f), "element-wise helper over "+normaliseD(shortD(c.Common().Args[0])), "converted by "+calleeName(h)+", which writes one output element per input element")
			mappers[h] = true
		}
	}
	for _, h := range sortedFuncs(p, mappers) {
		checkElemwiseLoops(p, r, h, p.FuncName(h), nil)
	}
	if n == 0 {
		r.Bad("?", "biscuit.authorizer", "snapshot loops", "no element-wise loop found in saving / loading")
	}
}

func sameRecv(a, b *ssa.Function) bool {
	ra, rb := a.Signature.Recv(), b.Signature.Recv()
	return ra != nil && rb != nil && types.Identical(ra.Type(), rb.Type())
}

// ---- the function that implements Rule.Apply

// applyInfo describes the function holding the join's receive loop: Rule.Apply itself, or the
// unexported method it forwards its parameters to (Apply(facts, new, syms) -> apply(cancel, facts, new, syms)).
type applyInfo struct {
	api  *ssa.Function // the exported Rule.Apply
	fn   *ssa.Function // the implementation
	rule *ssa.Parameter
	// parameter of fn holding the facts / the output set / the symbols
	facts, newFacts, syms *ssa.Parameter
}

func (p *Prog) applyImpl() *applyInfo {
	api := p.Func("datalog", "Rule", "Apply")
	if api == nil || len(api.Params) < 4 {
		return nil
	}
	info := &applyInfo{api: api, fn: api, rule: api.Params[0], facts: api.Params[1], newFacts: api.Params[2], syms: api.Params[3]}
	for depth := 0; depth < 3; depth++ {
		hasCombine := false
		var fwd *ssa.Call
		for _, c := range callsIn(info.fn) {
			if isCallTo(c.Common(), "datalog.combine") {
				hasCombine = true
			}
			if cv, ok := c.(*ssa.Call); ok {
				if f := cv.Call.StaticCallee(); f != nil && p.pkgShort(f) == "datalog" && f != info.fn && f.Blocks != nil {
					passes := 0
					for _, a := range cv.Call.Args {
						if a == ssa.Value(info.facts) || a == ssa.Value(info.newFacts) || a == ssa.Value(info.rule) {
							passes++
						}
					}
					if passes == 3 {
						fwd = cv
					}
				}
			}
		}
		if hasCombine || fwd == nil {
			return info
		}
		callee := fwd.Call.StaticCallee()
		next := &applyInfo{api: api, fn: callee}
		for i, a := range fwd.Call.Args {
			if i >= len(callee.Params) {
				break
			}
			switch a {
			case ssa.Value(info.rule):
				next.rule = callee.Params[i]
			case ssa.Value(info.facts):
				next.facts = callee.Params[i]
			case ssa.Value(info.newFacts):
				next.newFacts = callee.Params[i]
			case ssa.Value(info.syms):
				next.syms = callee.Params[i]
			}
		}
		if next.rule == nil || next.facts == nil || next.newFacts == nil {
			return info
		}
		info = next
	}
	return info
}

// applyCall: is c a call that applies a rule (through the exported method or its implementation)?
// Returns the rule, facts and output arguments.
func (ai *applyInfo) applyCall(c ssa.CallInstruction) (rule, facts, out ssa.Value, ok bool) {
	f := c.Common().StaticCallee()
	if f == nil {
		return nil, nil, nil, false
	}
	args := c.Common().Args
	pick := func(fn *ssa.Function, prm *ssa.Parameter) ssa.Value {
		for i, q := range fn.Params {
			if q == prm && i < len(args) {
				return args[i]
			}
		}
		return nil
	}
	switch f {
	case ai.api:
		return args[0], args[1], args[2], true
	case ai.fn:
		return pick(f, ai.rule), pick(f, ai.facts), pick(f, ai.newFacts), true
	}
	return nil, nil, nil, false
}

// receiveLoop finds the loop of fn that consumes the channel returned by combine: `for x := range ch`
// or `for { select { ... case x, ok := <-ch: ... } }`. It returns the loop, the instruction that receives,
// the blocks entered when the channel is closed, and (select form) the blocks of the other cases.
type recvLoop struct {
	lp     *loop
	recv   ssa.Instruction
	closed []*ssa.BasicBlock // successors taken when the channel is closed
	others []*ssa.BasicBlock // select form: bodies of the other (cancellation) cases
	comb   *ssa.Call         // the combine call
}

func (p *Prog) receiveLoop(fn *ssa.Function) *recvLoop {
	isComb := func(v ssa.Value) *ssa.Call {
		for i := 0; i < 4 && v != nil; i++ {
			if c, ok := v.(*ssa.Call); ok && isCallTo(&c.Call, "datalog.combine") {
				return c
			}
			// through a spilled local
			if u, ok := v.(*ssa.UnOp); ok && u.Op == token.MUL {
				if a, isA := u.X.(*ssa.Alloc); isA {
					sts := storesInto(a)
					if len(sts) == 1 {
						v = sts[0].Val
						continue
					}
				}
			}
			return nil
		}
		return nil
	}
	for _, l := range naturalLoops(fn) {
		for b := range l.body {
			for _, in := range b.Instrs {
				switch x := in.(type) {
				case *ssa.UnOp:
					if x.Op == token.ARROW && x.CommaOk {
						if c := isComb(x.X); c != nil {
							rl := &recvLoop{lp: l, recv: x, comb: c}
							if iff := blockIf(b); iff != nil {
								_, _, onF := condOf(iff)
								rl.closed = append(rl.closed, onF)
							}
							return rl
						}
					}
				case *ssa.Select:
					for si, st := range x.States {
						if st.Dir != types.RecvOnly {
							continue
						}
						c := isComb(st.Chan)
						if c == nil {
							continue
						}
						rl := &recvLoop{lp: l, recv: x, comb: c}
						// recvOk extract (#1) controls the closed exit; index extract (#0) == si selects the case
						for _, ref := range *x.Referrers() {
							ex, isE := ref.(*ssa.Extract)
							if !isE {
								continue
							}
							if ex.Index == 1 {
								for _, r2 := range *ex.Referrers() {
									if iff, isIf := r2.(*ssa.If); isIf {
										rl.closed = append(rl.closed, iff.Block().Succs[1])
									}
								}
							}
							if ex.Index == 0 {
								for _, r2 := range *ex.Referrers() {
									bo, isB := r2.(*ssa.BinOp)
									if !isB || bo.Op != token.EQL {
										continue
									}
									k, isK := constInt(bo.Y)
									if !isK || int(k) == si {
										continue
									}
									for _, r3 := range *bo.Referrers() {
										if iff, isIf := r3.(*ssa.If); isIf {
											rl.others = append(rl.others, iff.Block().Succs[0])
										}
									}
								}
							}
						}
						return rl
					}
				}
			}
		}
	}
	return nil
}

// selectCaseBlocks: the block entered for each case index of a select.
func selectCaseBlocks(sel *ssa.Select) map[int]*ssa.BasicBlock {
	out := map[int]*ssa.BasicBlock{}
	if sel.Referrers() == nil {
		return out
	}
	for _, ref := range *sel.Referrers() {
		ex, ok := ref.(*ssa.Extract)
		if !ok || ex.Index != 0 || ex.Referrers() == nil {
			continue
		}
		for _, r2 := range *ex.Referrers() {
			bo, isB := r2.(*ssa.BinOp)
			if !isB || bo.Op != token.EQL || bo.Referrers() == nil {
				continue
			}
			k, isK := constInt(bo.Y)
			if !isK {
				continue
			}
			for _, r3 := range *bo.Referrers() {
				if iff, isIf := r3.(*ssa.If); isIf {
					out[int(k)] = iff.Block().Succs[0]
				}
			}
		}
	}
	return out
}

// selectHasErrorOnlyCase: one receive case of the select can only lead to error returns.
func selectHasErrorOnlyCase(sel *ssa.Select) bool {
	for k, b := range selectCaseBlocks(sel) {
		if k >= 0 && k < len(sel.States) && sel.States[k].Dir == types.RecvOnly && onlyErrorReturnsFrom(b) {
			return true
		}
	}
	return false
}

// ---- LM-JOIN

func ruleLMJoin(p *Prog, r *Reporter) {
	globalP = p
	// (a) the producer polls stop in every cycle of its search
	body := combineBody(p)
	if body == nil {
		r.Dunno("?", "datalog.combine", "goroutine", "not found")
	} else {
		name := p.FuncName(body)
		// stop polls: non-blocking selects receiving from the stop parameter (a free variable of the goroutine or a parameter)
		polls := blockSet{}
		for _, b := range body.Blocks {
			for _, in := range b.Instrs {
				sel, ok := in.(*ssa.Select)
				if !ok {
					continue
				}
				for k, st := range sel.States {
					if st.Dir != types.RecvOnly || !isStopChan(p, st.Chan) {
						continue
					}
					// the poll (non-blocking) or a send-or-stop select (blocking): either way the stop case must end the goroutine
					if cb := selectCaseBlocks(sel)[k]; cb != nil && endsFunction(cb) {
						polls[b] = true
					}
				}
			}
		}
		// every cycle passes a poll: removing the poll blocks leaves no cycle
		// (loops over a slice are bounded by its length: their back edges are not cycles of the search)
		cut := map[edge]bool{}
		for _, rl := range rangeLoops(body) {
			for _, l := range rl.latches {
				cut[edge{l, rl.header}] = true
			}
		}
		for _, cl := range countedLoops(body) {
			for _, l := range cl.latches {
				cut[edge{l, cl.header}] = true
			}
		}
		cyc := cycleAvoiding(body, polls, cut)
		cycD := ""
		if cyc != nil {
			cycD = fmt.Sprintf(" (a cycle through blocks %d and %d passes no poll)", cyc[0].Index, cyc[1].Index)
		}
		_ = cycD
		r.Check(len(polls) > 0 && cyc == nil, p.Pos(body.Pos()), name, "producer polls stop", "every cycle of the search passes a receive from the stop channel that ends the goroutine", "the producer goroutine can loop without looking at its stop channel (it does so only when it has something to send): after the consumer has returned it keeps enumerating, reading the facts and reading and extending the symbol table concurrently with the caller")
	}
	// (b) Apply waits for the producer: after closing stop, the deferred function drains the channel
	ai := p.applyImpl()
	if ai == nil {
		r.Dunno("?", "datalog.Rule.Apply", "method", "not found")
	} else {
		fn := ai.fn
		okDrain := false
		for _, b := range fn.Blocks {
			for _, in := range b.Instrs {
				d, ok := in.(*ssa.Defer)
				if !ok {
					continue
				}
				var callee *ssa.Function
				switch v := d.Call.Value.(type) {
				case *ssa.MakeClosure:
					callee, _ = v.Fn.(*ssa.Function)
				case *ssa.Function:
					callee = v
				}
				if callee == nil {
					continue
				}
				// a receive loop on a channel that ends only when the channel is closed
				for _, l := range naturalLoops(callee) {
					for bb := range l.body {
						for _, in2 := range bb.Instrs {
							if u, isU := in2.(*ssa.UnOp); isU && u.Op == token.ARROW && u.CommaOk {
								okDrain = true
							}
						}
					}
				}
			}
		}
		r.Check(okDrain, p.Pos(fn.Pos()), p.FuncName(fn), "Apply waits for the producer", "a deferred function closes stop and drains the combinations channel until the producer closes it", "Apply returns while the goroutine it started may still be running (it closes stop, or not even that, but does not wait): the producer keeps using the fact set and the symbol table after Apply - and the evaluation - have returned")
	}
	// (c)-(e) Run and its worker
	run := p.Func("datalog", "World", "Run")
	if run == nil {
		r.Dunno("?", "datalog.World.Run", "method", "not found")
		return
	}
	name := p.FuncName(run)
	// the result channel
	for _, b := range run.Blocks {
		for _, in := range b.Instrs {
			sel, ok := in.(*ssa.Select)
			if !ok || !sel.Blocking {
				continue
			}
			cases := selectCaseBlocks(sel)
			for k, st := range sel.States {
				if st.Dir != types.RecvOnly {
					continue
				}
				if c, isC := unwrap(st.Chan).(*ssa.Call); isC && c.Call.IsInvoke() && c.Call.Method.Name() == "Done" {
					// the deadline case: must receive the worker's result before returning
					cb := cases[k]
					waits := false
					if cb != nil {
						for _, in2 := range cb.Instrs {
							if u, isU := in2.(*ssa.UnOp); isU && u.Op == token.ARROW {
								if _, isMk := unwrap(u.X).(*ssa.MakeChan); isMk {
									waits = true
								}
							}
						}
					}
					r.Check(waits, p.instrPos(sel), name, "Run waits for its worker", "on the deadline Run receives the worker's result before it returns", "Run returns the timeout verdict while its worker goroutine is still evaluating: the worker goes on applying rules and then inserts the derived facts into the world the caller already got back (data race, facts appearing after the error)")
				}
			}
		}
	}
	for _, w := range withClosures(run)[1:] {
		wn := p.FuncName(w)
		// every exit of the worker has sent a result
		okSend := true
		for _, ret := range returnsOf(w) {
			sent := false
			for _, in := range ret.Block().Instrs {
				if _, isS := in.(*ssa.Send); isS {
					sent = true
				}
			}
			if !sent {
				okSend = false
			}
		}
		r.Check(okSend, p.Pos(w.Pos()), wn, "worker always reports", "every way out of the worker sends its result first", "the worker can end without sending a result (silent return on cancellation): a Run that waits for it would block, one that does not cannot know when the world stops changing")
		// no commit after the deadline: InsertAll is reached only under ctx.Err() == nil
		for _, c := range callsIn(w) {
			cv, ok := c.(*ssa.Call)
			if !ok || !isCallTo(&cv.Call, "datalog.FactSet.InsertAll") {
				continue
			}
			okG := false
			for _, g := range guardsOf(cv.Block()) {
				bo, isB := g.cond.(*ssa.BinOp)
				if !isB || !isNilConst(bo.Y) {
					continue
				}
				if ec, isC := unwrap(bo.X).(*ssa.Call); isC && ec.Call.IsInvoke() && ec.Call.Method.Name() == "Err" && ((bo.Op == token.NEQ && !g.val) || (bo.Op == token.EQL && g.val)) {
					okG = true
				}
			}
			r.Check(okG, p.instrPos(cv), wn, "no commit after the deadline", "derived facts are merged only if the deadline has not passed", "the worker merges the derived facts without testing the deadline: a rule application that finishes after the deadline still changes the world")
		}
		// the deadline reaches the join: the rule is applied with the context's Done channel
		okCtx := false
		for _, c := range callsIn(w) {
			if ai != nil {
				if _, _, _, isA := ai.applyCall(c); isA {
					for _, a := range c.Common().Args {
						if dc, isC := unwrap(a).(*ssa.Call); isC && dc.Call.IsInvoke() && dc.Call.Method.Name() == "Done" {
							okCtx = true
						}
					}
				}
			}
		}
		r.Check(okCtx, p.Pos(w.Pos()), wn, "deadline reaches the join", "rules are applied with the deadline's Done channel", "the join is not told about the deadline: a single long rule application runs to completion however long it takes")
	}
}

func isStopChan(p *Prog, v ssa.Value) bool {
	v = unwrap(v)
	if u, ok := v.(*ssa.UnOp); ok && u.Op == token.MUL {
		v = u.X
	}
	switch x := v.(type) {
	case *ssa.Parameter:
		return strings.Contains(x.Type().String(), "chan struct{}")
	case *ssa.FreeVar:
		return strings.Contains(x.Type().String(), "chan struct{}")
	}
	return false
}

// endsFunction: every path from b returns (no way back into a loop).
func endsFunction(b *ssa.BasicBlock) bool {
	seen := blockSet{}
	var rec func(x *ssa.BasicBlock) bool
	rec = func(x *ssa.BasicBlock) bool {
		if seen[x] {
			return false
		}
		seen[x] = true
		if len(x.Succs) == 0 {
			return true
		}
		for _, s := range x.Succs {
			if !rec(s) {
				return false
			}
		}
		return true
	}
	return rec(b)
}

// cycleAvoiding: a cycle of fn's control flow graph that does not pass any block of avoid (nil if none).
func cycleAvoiding(fn *ssa.Function, avoid blockSet, cut map[edge]bool) []*ssa.BasicBlock {
	state := map[*ssa.BasicBlock]int{}
	var found []*ssa.BasicBlock
	var dfs func(b *ssa.BasicBlock) bool
	dfs = func(b *ssa.BasicBlock) bool {
		state[b] = 1
		for _, s := range b.Succs {
			if avoid[s] || cut[edge{b, s}] {
				continue
			}
			if state[s] == 1 {
				found = []*ssa.BasicBlock{s, b}
				return true
			}
			if state[s] == 0 && dfs(s) {
				return true
			}
		}
		state[b] = 2
		return false
	}
	for _, b := range fn.Blocks {
		if !avoid[b] && state[b] == 0 && dfs(b) {
			return found
		}
	}
	return nil
}

// ---- LM-QUERY (known findings on the current tree: the exported QueryRule cannot report errors)

func ruleLMQuery(p *Prog, r *Reporter) {
	globalP = p
	ai := p.applyImpl()
	if ai == nil {
		r.Dunno("?", "datalog.Rule.Apply", "method", "not found")
		return
	}
	_, ms := authorizerImpl(p)
	reach := p.CG().Reach(ms...)
	for _, fn := range sortedFuncs(p, reach) {
		if p.pkgShort(fn) != "datalog" && p.pkgShort(fn) != "biscuit" {
			continue
		}
		if fn == ai.api || fn == ai.fn {
			continue
		}
		for _, c := range callsIn(fn) {
			if _, _, _, isA := ai.applyCall(c); !isA {
				continue
			}
			name := p.FuncName(fn)
			// bounded: called with a cancellation channel (the deadline), inside a worker with iteration and fact limits
			bounded := false
			for _, a := range c.Common().Args {
				if dc, isC := unwrap(a).(*ssa.Call); isC && dc.Call.IsInvoke() && dc.Call.Method.Name() == "Done" {
					bounded = true
				}
			}
			r.Check(bounded, p.instrPos(c), name, "rule application bounded", "applied under the world's deadline", "a rule is applied on behalf of the authorizer without any limit: checks, policies and queries are evaluated by "+name+", which ignores the configured duration (a token check with a wide join keeps Authorize busy for hours although a limit was set)")
			// error: tested and propagated
			cv, isV := c.(*ssa.Call)
			used := false
			if isV && cv.Referrers() != nil {
				for _, ref := range *cv.Referrers() {
					switch ref.(type) {
					case *ssa.BinOp, *ssa.Return, *ssa.Send, *ssa.Store, *ssa.MakeInterface, *ssa.Phi:
						used = true
					}
				}
			}
			r.Check(used, p.instrPos(c), name, "rule application error", "the error of the application reaches the caller", "the error of applying the rule is discarded: when an expression cannot be evaluated for one combination the enumeration stops there and "+name+" returns the facts found so far as if they were all - the answer depends on the order of the facts, and a check can pass although its evaluation failed")
		}
	}
}

// ---- BLD-PURE

func ruleBldPure(p *Prog, r *Reporter) {
	globalP = p
	o := p.own()
	for _, recv := range []string{"builderOptions", "blockBuilder"} {
		fn := p.Func("biscuit", recv, "Build")
		if fn == nil {
			r.Dunno("?", "biscuit."+recv+".Build", "method", "not found")
			continue
		}
		name := p.FuncName(fn)
		self := fn.Params[0]
		bad := ""
		for _, fs := range fieldStoresVia(fn, self) {
			bad = "assigns " + self.Name() + "." + fs.field
		}
		for _, c := range callsIn(fn) {
			args := callArgs(c.Common())
			for _, callee := range p.CG().Callees(c) {
				for ai, a := range args {
					why, mut := o.mutates[callee][ai]
					if !mut {
						continue
					}
					if og := o.origin(a); og.kind != oNone && og.kind != oLocal && og.root == ssa.Value(self) {
						bad = "passes " + shortD(a) + " to " + calleeName(callee) + ", which modifies it (" + why + ")"
					}
				}
			}
		}
		r.Check(bad == "", p.Pos(fn.Pos()), name, "builder unchanged", "Build reads the builder and changes nothing in it", "Build modifies its builder ("+bad+"): the builder's symbol table no longer matches the facts, rules and checks it still holds, so adding to it or building from it again signs content whose symbols are wrong or declared nowhere")
	}
}

// ---- PN-STDOUT

func rulePNStdout(p *Prog, r *Reporter) {
	globalP = p
	n := 0
	for _, fn := range p.funcsIn("biscuit", "datalog", "parser") {
		for _, c := range callsIn(fn) {
			n++
			bad := ""
			if f := c.Common().StaticCallee(); f != nil {
				switch calleeName(f) {
				case "fmt.Print", "fmt.Printf", "fmt.Println", "log.Print", "log.Printf", "log.Println", "log.Fatal", "log.Fatalf", "log.Panic", "log.Panicf":
					bad = calleeName(f)
				}
			}
			if bi, isB := c.Common().Value.(*ssa.Builtin); isB && (bi.Name() == "print" || bi.Name() == "println") {
				bad = bi.Name()
			}
			if bad != "" {
				r.Bad(p.instrPos(c), p.FuncName(fn), "write to the process output", "library code calls "+bad+": content of a token is written to the host program's standard output / error, and a closed output pipe turns the write into a fatal signal on a library goroutine")
			}
		}
		for _, b := range fn.Blocks {
			for _, in := range b.Instrs {
				if u, ok := in.(*ssa.UnOp); ok && u.Op == token.MUL {
					if g, isG := u.X.(*ssa.Global); isG && g.Pkg != nil && g.Pkg.Pkg.Path() == "os" && (g.Name() == "Stdout" || g.Name() == "Stderr") {
						r.Bad(p.instrPos(u), p.FuncName(fn), "use of os."+g.Name(), "library code writes to the process's standard streams")
					}
				}
			}
		}
	}
	r.Check(n > 100, "?", "biscuit,datalog,parser", "calls inspected", fmt.Sprintf("%d calls inspected", n), "too few calls inspected")
}

// ---- EX-DATECONV

func ruleEXDateConv(p *Prog, r *Reporter) {
	globalP = p
	n := 0
	for _, fn := range p.funcsIn("biscuit", "datalog", "parser") {
		for _, b := range fn.Blocks {
			for _, in := range b.Instrs {
				cv, ok := in.(*ssa.Convert)
				if !ok {
					continue
				}
				// int64 -> unsigned date of a value that comes from time.Time.Unix()
				dst, isB := cv.Type().Underlying().(*types.Basic)
				if !isB || dst.Info()&types.IsUnsigned == 0 {
					continue
				}
				uc, isC := unwrap(cv.X).(*ssa.Call)
				if !isC || !isCallTo(&uc.Call, "time.Time.Unix") {
					continue
				}
				n++
				okG := false
				for _, g := range guardsOf(b) {
					bo, isBo := g.cond.(*ssa.BinOp)
					if !isBo {
						continue
					}
					if k, isK := constInt(bo.Y); isK && k == 0 && p.D(bo.X) == p.D(uc) && ((bo.Op == token.LSS && !g.val) || (bo.Op == token.GEQ && g.val)) {
						okG = true
					}
				}
				r.Check(okG, p.instrPos(cv), p.FuncName(fn), "seconds to unsigned date", "converted only after a test that the instant is not before the epoch", "a signed number of seconds is converted to the unsigned date without a range test: an instant before 1970 (the zero time.Time included) wraps to about 2^64 and is ordered after every later date")
			}
		}
	}
	// the parser reports such literals, the encoder refuses wrapped dates
	okParse := false
	for _, fn := range p.funcsIn("parser") {
		for _, c := range callsIn(fn) {
			if !isCallTo(c.Common(), "time.Time.Unix") {
				continue
			}
			cv := c.(*ssa.Call)
			for _, nb := range cmpTests(cv) {
				if onlyErrorReturnsFrom(nb) {
					okParse = true
				}
			}
		}
	}
	r.Check(okParse, "parser/grammar.go", "parser", "date literal before the epoch", "reported as an error", "the parser accepts a date literal before the UNIX epoch, which the unsigned date type cannot represent: it is silently read as a date about 5.8e11 years in the future")
	okEnc := false
	if enc := p.Func("biscuit", "", "tokenIDToProtoIDV2"); enc != nil {
		for _, b := range enc.Blocks {
			if iff := blockIf(b); iff != nil {
				if bo, isB := iff.Cond.(*ssa.BinOp); isB && bo.Op == token.GTR {
					if k, isK := bo.Y.(*ssa.Const); isK && k.Value != nil && k.Value.String() == "9223372036854775807" && onlyErrorReturnsFrom(b.Succs[0]) {
						okEnc = true
					}
				}
			}
		}
	}
	r.Check(okEnc, "converters_v2.go", "biscuit.tokenIDToProtoIDV2", "wrapped date on the wire", "a date above MaxInt64 (a wrapped instant before the epoch) is refused", "the encoder writes a wrapped date to the wire: the token says a different date than the caller supplied")
	_ = n
}

// cmpTests: blocks entered when the call result v compares < 0.
func cmpTests(v *ssa.Call) []*ssa.BasicBlock {
	var out []*ssa.BasicBlock
	if v.Referrers() == nil {
		return nil
	}
	for _, ref := range *v.Referrers() {
		bo, ok := ref.(*ssa.BinOp)
		if !ok || bo.Referrers() == nil {
			continue
		}
		k, isK := constInt(bo.Y)
		if !isK || k != 0 || bo.Op != token.LSS {
			continue
		}
		for _, r2 := range *bo.Referrers() {
			if iff, isIf := r2.(*ssa.If); isIf {
				out = append(out, iff.Block().Succs[0])
			}
		}
	}
	return out
}

// positiveGuard: does guard g say x > 0 (1) or x <= 0 (-1) in one of its spellings
// (x > 0, x >= 1, !(x <= 0), !(x < 1), and the negations)? 0 if it says neither.
func positiveGuard(g guard, x ssa.Value) int {
	bo, ok := g.cond.(*ssa.BinOp)
	if !ok || bo.X != x {
		return 0
	}
	k, isK := constInt(bo.Y)
	if !isK {
		return 0
	}
	res := 0
	switch {
	case bo.Op == token.GTR && k == 0, bo.Op == token.GEQ && k == 1:
		res = 1
	case bo.Op == token.LEQ && k == 0, bo.Op == token.LSS && k == 1:
		res = -1
	default:
		return 0
	}
	if !g.val {
		res = -res
	}
	return res
}

// isElementwiseMapper: a function (in []T, conv func(T) ...) that ranges over its slice parameter in full,
// calls its function parameter on the element and stores the result at the same index of (or appends it to) the slice it returns.
func isElementwiseMapper(h *ssa.Function) bool {
	if len(h.Params) < 2 {
		return false
	}
	var in, conv *ssa.Parameter
	for _, pr := range h.Params {
		switch pr.Type().Underlying().(type) {
		case *types.Slice:
			if in == nil {
				in = pr
			}
		case *types.Signature:
			if conv == nil {
				conv = pr
			}
		}
	}
	if in == nil || conv == nil {
		return false
	}
	for _, rl := range rangeLoops(h) {
		if rl.seq != ssa.Value(in) {
			continue
		}
		for b := range rl.body {
			for _, instr := range b.Instrs {
				c, ok := instr.(*ssa.Call)
				if !ok || c.Call.Value != ssa.Value(conv) || len(c.Call.Args) == 0 || !rl.isElem(c.Call.Args[0]) {
					continue
				}
				return true
			}
		}
	}
	return false
}

func ruleSNFresh(p *Prog, r *Reporter) {
	globalP = p
	_, ms := authorizerImpl(p)
	n := 0
	for _, m := range ms {
		if m.Name() == "Reset" || m.Parent() != nil {
			continue
		}
		// methods reachable from LoadPolicies that assign the request-level symbol table
		for _, fs := range fieldStoresVia(m, m.Params[0]) {
			if fs.field != "symbols" {
				continue
			}
			n++
			V := m.Params[0].Name()
			// the store must be reached only on the "nothing interned, nothing added, not evaluated" side of these tests
			need := map[string]bool{"symbols": false, "facts": false, "checks": false}
			for _, g := range guardsOf(fs.st.Block()) {
				bo, ok := g.cond.(*ssa.BinOp)
				if !ok {
					continue
				}
				same := (bo.Op == token.NEQ && !g.val) || (bo.Op == token.EQL && g.val)
				if !same {
					continue
				}
				dx, dy := p.D(bo.X), p.D(bo.Y)
				both := dx + " | " + dy
				switch {
				case strings.Contains(both, V+".symbols") && strings.Contains(both, V+".baseSymbols"):
					need["symbols"] = true
				case strings.Contains(both, V+".world") && strings.Contains(both, V+".baseWorld") && strings.Contains(both, "Facts"):
					need["facts"] = true
				case strings.Contains(dx, "len("+V+".checks)") || strings.Contains(dx, "len("+V+".policies)"):
					if k, isK := constInt(bo.Y); isK && k == 0 {
						need["checks"] = true
					}
				}
			}
			missing := ""
			for _, k := range []string{"symbols", "facts", "checks"} {
				if !need[k] {
					missing += " " + k
				}
			}
			r.Check(missing == "", p.instrPos(fs.st), p.FuncName(m), "replace symbol table", "only on an authorizer whose table, world and checks are still in their initial state", "the authorizer's symbol table is replaced by base + snapshot symbols without testing that nothing was interned or added before (untested:"+missing+"): facts and rules already in the world are reinterpreted through the snapshot's table (user(\"alice\") becomes user(\"bob\")), and the outcome depends on whether content was added before or after loading")
		}
	}
	if n == 0 {
		r.Bad("?", "biscuit.authorizer", "loader", "no method assigns the authorizer's symbol table (the snapshot loader was expected)")
	}
}

// ruleSNKeep: "loading the bytes yields the same outcome as the original authorizer gives" is about the
// original *after* it was saved, too. Saving may intern symbols (convert grows the table, idempotently);
// it may not store into the authorizer's fields nor shrink what they hold. A shrinking function is one
// that stores a re-slice of its receiver's own content back into the receiver (*t = (*t)[:at]).
func ruleSNKeep(p *Prog, r *Reporter) {
	globalP = p
	impl, ms := authorizerImpl(p)
	if impl == nil {
		r.Dunno("?", "biscuit", "authorizer type", "not found")
		return
	}
	var save *ssa.Function
	for _, m := range ms {
		if m.Name() == "SerializePolicies" {
			save = m
		}
	}
	if save == nil {
		r.Dunno("?", "biscuit."+impl.Obj().Name(), "SerializePolicies", "not found")
		return
	}
	name := p.FuncName(save)
	stores := fieldStoresVia(save, save.Params[0])
	why := ""
	for _, fs := range stores {
		why = "field " + fs.field
	}
	r.Check(len(stores) == 0, p.Pos(save.Pos()), name, "no field stored", "saving stores into no field of the authorizer", "SerializePolicies stores into the authorizer ("+why+"): the authorizer that was saved no longer behaves like the one the snapshot restores")
	shrinks := func(f *ssa.Function) bool {
		if f == nil || len(f.Params) == 0 || f.Blocks == nil {
			return false
		}
		for _, b := range f.Blocks {
			for _, in := range b.Instrs {
				st, ok := in.(*ssa.Store)
				if !ok || st.Addr != ssa.Value(f.Params[0]) {
					continue
				}
				if sl, isSl := st.Val.(*ssa.Slice); isSl {
					if ld, isLd := sl.X.(*ssa.UnOp); isLd && ld.Op == token.MUL && ld.X == ssa.Value(f.Params[0]) {
						return true
					}
				}
			}
		}
		return false
	}
	n := 0
	for _, c := range callsIn(save) {
		args := c.Common().Args
		if len(args) == 0 {
			continue
		}
		ld, isLd := args[0].(*ssa.UnOp)
		if !isLd || ld.Op != token.MUL {
			continue
		}
		fa, isFA := ld.X.(*ssa.FieldAddr)
		if !isFA || !aliasOfParam(fa.X, save.Params[0]) {
			continue
		}
		for _, callee := range p.CG().Callees(c) {
			n++
			r.Check(!shrinks(callee), p.instrPos(c), name, fieldName(fa)+" passed to "+callee.Name(), "the callee does not shrink the authorizer's state", "SerializePolicies applies "+calleeName(callee)+" to the authorizer's "+fieldName(fa)+", which re-slices its receiver: the saved authorizer loses part of its state (symbols interned later reuse the cut-off indexes with other meanings)")
		}
	}
	r.Check(n > 0, p.Pos(save.Pos()), name, "state read", "saving reads the authorizer's state through its fields", "SerializePolicies passes no field of the authorizer to any callee: how the state is saved is outside the enumerated idioms")
}
